#!/usr/bin/env python3
"""Writes corpus/pairs.jsonl: operand pairs that every run starts with (fixtures of /repo, the replays of
the calibration findings of DESIGN.md section 1, minimised past disagreements)."""
import json
import os
import sys
from fractions import Fraction

sys.path.insert(0, os.path.dirname(os.path.abspath(__file__)))
from gbo import num, fixtures, gen


def tri(*pts):
    pts = list(pts)
    return [pts + [pts[0]]]


def sq(x0, y0, x1, y1):
    return [[(x0, y0), (x1, y0), (x1, y1), (x0, y1), (x0, y0)]]


FINDINGS = [
    # F1: contour directly above a shared edge was attached as a hole (fixed by 1711bf9)
    ("F1-union-shared-edge", "g1", [sq(0, 0, 1, 1), sq(0, 2, 1, 3)], [sq(0, 0, 1, 1)]),
    # F2: same-operand vertical predecessor (fixed by 60217e3)
    ("F2-same-operand-vertical", "g3", [tri((1, 0), (2, 2), (2, 4)), tri((5, 0), (2, 3), (5, 5))], [tri((2, 4), (3, 1), (5, 3))]),
    # N1: index -1 panic at connect_edges (symptom of F1/F2/R1)
    ("N1-index-panic", "g3", [tri((2, 4), (0, 1), (5, 0)), tri((1, 5), (4, 3), (4, 4)), tri((4, 2), (4, 3), (5, 4))],
     [tri((0, 3), (0, 2), (4, 5)), tri((5, 3), (3, 4), (0, 2))]),
    # R1: rounding on a degenerate input
    ("R1-sliver", "g3", [tri((4, 3), (3, 2), (5, 3)), tri((1, 1), (3, 0), (5, 0))], [tri((4, 4), (2, 0), (5, 0))]),
    # N2: runaway sweep caused by the one-sided corner-case-1 bump
    ("N2-runaway", "g5", gen.N2_REPLAY[0], gen.N2_REPLAY[1]),
    # mutation-hunt seeds: hole above a shared edge under difference; T-junction on a vertical result edge
    ("shared-edge-hole-difference", "g1", [[[(0, 0), (8, 0), (8, 8), (0, 8), (0, 0)], [(2, 2), (2, 4), (4, 4), (4, 2), (2, 2)]]],
     [sq(0, -4, 8, 0)]),
    ("t-junction-vertical", "g3", [sq(0, 0, 4, 8)], [tri((4, 4), (8, 2), (8, 6))]),
]


def main():
    root = os.path.dirname(os.path.dirname(os.path.abspath(__file__)))
    out = os.path.join(root, "corpus", "pairs.jsonl")
    n = 0
    with open(out, "w") as f:
        for name, fam, a, b in FINDINGS:
            a = [[num.close(r) for r in p] for p in a]
            b = [[num.close(r) for r in p] for p in b]
            f.write(json.dumps({"name": name, "family": fam, "a": num.enc_mpoly(a), "b": num.enc_mpoly(b)}) + "\n")
            n += 1
        for name, a, b in fixtures.load():
            a = [[num.close(r) for r in p] for p in a]
            b = [[num.close(r) for r in p] for p in b]
            ne = gen.n_edges(a) + gen.n_edges(b)
            f.write(json.dumps({"name": "fixture-" + name, "family": "fixture", "edges": ne, "a": num.enc_mpoly(a), "b": num.enc_mpoly(b)}) + "\n")
            n += 1
    print("wrote", n, "pairs to", out)


if __name__ == "__main__":
    main()
