#!/usr/bin/env python3
"""tools/addcorpus.py <replay.json> <name>: appends the operand pair of a replay (the failing input of a past
violation, e.g. of a seeded change) to corpus/seed_pairs.jsonl, so that every later run starts with it.
Only replays whose case holds a BOOL / SUBDIV / FILLQ request with literal operands are usable."""
import json
import os
import sys

sys.path.insert(0, os.path.dirname(os.path.abspath(__file__)))
from gbo import num, gen


def operands(case_text, prefer=None):
    reqs = []
    for line in case_text.splitlines():
        t = line.split()
        if len(t) > 3 and t[0] == "RUN" and t[2] in ("BOOL", "SUBDIV", "FILLQ"):
            reqs.append(t[2:])
    for t in reqs:
        if "@" in " ".join(t):
            continue
        i = None
        for p in ("MM", "PM", "MP", "PP"):
            if p in t[:8]:
                i = t.index(p) + 1
        if i is None:
            # SUBDIV / FILLQ: operands start after the fixed header; find the first position that parses
            for j in range(3, 8):
                try:
                    a, k = num.parse_mpoly(t, j)
                    b, k2 = num.parse_mpoly(t, k)
                    if k2 == len(t):
                        return t[1], a, b
                except Exception:
                    continue
            continue
        try:
            a, k = num.parse_mpoly(t, i)
            b, k2 = num.parse_mpoly(t, k)
            return t[1], a, b
        except Exception:
            continue
    return None


def main():
    path, name = sys.argv[1], sys.argv[2]
    d = json.load(open(path))
    text = d.get("case")
    if not text:
        print("no case text in", path)
        return 1
    r = operands(text)
    if r is None:
        print("no literal operands in", path)
        return 1
    prec, a, b = r
    if prec != "f64":
        print("not an f64 request:", prec)
        return 1
    ne = gen.n_edges(a) + gen.n_edges(b)
    if ne > 400:
        print("too large:", ne)
        return 1
    # operands that were already moved far away or rescaled by a plan (C08, C09, C10) are not base inputs
    from fractions import Fraction
    for mp in (a, b):
        for poly in mp:
            for ring in poly:
                for pt in ring:
                    for v in pt:
                        v = Fraction(v)
                        if v != 0 and (abs(v) > 2 ** 40 or abs(v) < Fraction(1, 2 ** 40)):
                            print("coordinates out of the base range")
                            return 1
    fam = d.get("family") or "g3"
    if fam not in gen.FAMILIES:
        fam = "g3"
    root = os.path.dirname(os.path.dirname(os.path.abspath(__file__)))
    out = os.path.join(root, "corpus", "seed_pairs.jsonl")
    line = json.dumps({"name": name, "family": fam, "edges": ne, "a": num.enc_mpoly(a), "b": num.enc_mpoly(b)})
    existing = open(out).read().splitlines() if os.path.exists(out) else []
    key = json.loads(line)
    for l in existing:
        e = json.loads(l)
        if e["a"] == key["a"] and e["b"] == key["b"]:
            print("already present as", e["name"])
            return 0
    with open(out, "a") as f:
        f.write(line + "\n")
    print("added", name, fam, ne, "edges")
    return 0


if __name__ == "__main__":
    sys.exit(main())
