#!/usr/bin/env python3
"""Regenerates MANIFEST.json from the table below and lean/Gbo/Props/registry.json."""
import json
import os

ROOT = os.path.dirname(os.path.dirname(os.path.abspath(__file__)))
reg = json.load(open(os.path.join(ROOT, "lean/Gbo/Props/registry.json")))

TRUST = ("Lean kernel + axioms {propext, Classical.choice, Quot.sound} (audited by #print axioms on every run); the Lean model is hand-written and "
         "tied to /repo by the correspondence check of the same run (differential testing, not proof); rndBin = IEEE-754 RNE; robust::orient2d exact; "
         "harness, line protocol, generators and orchestrator are trusted.")

TEXT = {
 "C01": ("translation_validation", "4 (C01)", "Lean model + correspondence; region comparator (slab decomposition, exact rationals) on the implementation's output; kernel-checked selection tables",
         "Per run: the implementation's result is compared bit for bit with the Lean model's (all four trait pairings) and its region is certified against op(A,B) for ALL points of the checked cells by the exact region comparator (a failure is re-confirmed by direct evaluation of the membership definition at the witness point). Theorems: selection/transition tables for every flag combination incl. coincident pairs, trait pairings, shortcut values. The quantifier over operand pairs is sampled (corpus, 5 generator families); that C13 and C14 hold for every input is not proved."),
 "C02": ("translation_validation", "4 (C02)", "Lean model + correspondence; nesting formulas decided by the region comparator; exact shared-segment test; theorem valid => struct = even-odd",
         "Per run: ring grouping compared bit for bit with the model; holes-in-exterior, hole/hole and polygon/polygon disjointness and struct = even-odd are decided for all points of the checked cells; shared or doubly traversed boundary segments by exact pairwise test. Theorem: the three containment facts imply equality of the two readings pointwise. Inputs sampled."),
 "C03": ("translation_validation", "4 (C03)", "Lean model with explicit panic sites, fuel and event counter + correspondence in both build profiles, f32 and f64; event bound oracle; child processes for large inputs",
         "Outcome kind (ok / panic site / budget) and the exact number of popped events are compared with the model in release and debug-assertion builds, f32 and f64; every valid case must return within 4e^2+2e+16 events; large inputs run in child processes. N2 / R1 are known findings matched by call site. The global bound is not proved (false in floating point: N2)."),
 "C04": ("translation_validation", "4 (C04)", "Lean model + correspondence; exact provenance predicates (edge on input edge, vertex = input vertex or exact intersection point, closed, >= 3 vertices, area, orientation)",
         "Per run: result coordinates compared bit for bit with the model; the provenance predicates of the statement are evaluated in exact rational arithmetic on the implementation's output (tolerance 0 on exact families). Inputs sampled."),
 "C05": ("translation_validation", "4 (C05)", "Lean model + correspondence; partition formulas over the five results decided by the region comparator; exact shoelace areas; theorems C05_pointwise / C05_of_C01 / tables / C05_fillQueue_same_geometry (every operand pair) / C05_computeFields_op_independent (every arena) / C05_union_xor_same_subdivision (whole sweep loop, every input and arithmetic)",
         "Five calls per operand pair; pairwise disjointness, cover of the union and xor = union of differences are decided for all points of the checked cells; area identities exactly on exact runs. Theorems: the identities follow pointwise from C01; table consistency for every flag combination; for every operand pair fill_queue gives all four operations the same points, links, operand flags, queue order and boxes (only contour ids / exterior flags of clipping events differ, which the event order never reads); compute_fields lets the operation decide result_transition and prev_in_result only — the in/out flags are the same for all four operations; the whole sweep loop under union and under xor yields the same sorted_events, counts and arena up to those two fields (induction over the loop), so their results differ only through the selection tables; for all four operations the loop is the Union loop cut off at the operation's exit test (C05_sweep_is_common_sweep_cut)."),
 "C06": ("translation_validation", "4 (C06)", "Lean model + correspondence; theorems C06_empty (every input), C06_tables_symmetric / C06_tables_self (every flag combination); region comparator and ring-set equality for swap / self / disjoint cases",
         "Theorems: (all inputs, all roundings) an operand without edges takes the shortcut and yields the listed value; (all edge types and flags) the selection and transition tables of intersection, union and xor ignore is_subject, and a coincident same-orientation pair yields one edge for intersection/union and none for difference/xor. Per run: swap, self-operations, empty operands (no polygons / empty rings), disjoint and touching boxes, compared as ring sets on exact runs and as regions otherwise."),
 "C07": ("translation_validation", "4 (C07)", "theorems C07_wrapping / C07_repeated_vertices for every input; Lean model + correspondence over all four real trait impls; region comparator for rotations / reversals / permutations",
         "Theorems (all inputs, all roundings): wrapping, and repeated consecutive vertices change neither events, order, boxes nor the result. Per run: all four real trait implementations, rotations, reversals, permutations, repeats (up to 4x) compared as regions and, on exact runs, as ring sets."),
 "C08": ("translation_validation", "4 (C08)", "Lean model + correspondence on transformed operands; bit equality for 2^k scaling and integer translation; region comparator for the 8 axis symmetries",
         "Per run: scaled (2^k, k in +-200) and translated operands must give the bit-identical mapped result; mirrored / transposed / rotated operands the mapped region (all points of the checked cells). Whole-pipeline equivariance is not proved."),
 "C09": ("translation_validation", "4 (C09)", "Lean model + correspondence; region comparator with the far part as an extra atom",
         "Per run: operands with an extra far part (left / right / above / below, rectangle, pentagon, triangle) on either side; the result must equal the old result plus the part's own contribution, decided for all points of the checked cells; both shortcut and early-break paths are exercised."),
 "C10": ("translation_validation", "4 (C10)", "Lean model instantiated with binary32 rounding (rndBin 24 -126) + correspondence with MultiPolygon<f32>; all oracles with f32 tolerances; f32 = f64 on exact runs",
         "The f32 instantiation is compared bit for bit with the model under binary32 rounding (pipeline and function level incl. nextafter); region / validity / provenance oracles with single-precision tolerances; f32 and f64 results must be identical on runs that are exact in both."),
 "C11": ("translation_validation", "4 (C11)", "Lean model run on the implementation's intermediate result + correspondence; composed formulas decided by the region comparator; result validity as operand",
         "Two-step expressions (all 16 operation pairs on exact families, either nesting side, third operand independent or re-used): the model is run on the implementation's own intermediate result, the final region is decided against the Boolean expression for all points of the checked cells, and the intermediate result is checked to be a valid operand."),
 "C12": ("other", "4 (C12)", "histories of the real code (repeated, reordered, after unrelated calls, 8-16 threads) against the pure model value; operand immutability; source scan",
         "See explanation in the evidence: the model is a function by construction; the check establishes that the implementation behaves as one under call histories and thread placements, and that the code has none of the constructs (global state, hash-order iteration, address order) the model cannot represent. Partial by nature: data races / allocator state are not modelled."),
 "C13": ("translation_validation", "4 (C13)", "theorem C13_fillQueue (all inputs); Lean model + correspondence on fill_queue (pop order, boxes) and subdivide (full event list); exact planar-subdivision and coverage oracle on the implementation's events",
         "Theorem (every input, every operation): fill_queue creates exactly one mutually linked left/right pair per non-degenerate input edge, left event first in sweep order, non-zero length, exact boxes. Per run: queue pop order, boxes and the full event list of subdivide compared bit for bit with the model; pairwise non-crossing / no T-touch / coincidence only across operands and chain coverage of every input edge decided exactly on the implementation's events (union/xor fully, intersection/difference on the processed prefix). Completeness of the neighbour checks for every input is not proved."),
 "C14": ("translation_validation", "4 (C14)", "theorems: local soundness of every propagation branch and of the selection tables; Lean model + correspondence (flags bit-exact, compute_fields exhaustively); exact flag oracle on the implementation's events",
         "Theorems (finite, all branches): propagation from the predecessor incl. both vertical compensations, selection and transition incl. coincident twins. Per run: every recorded flag compared with the model; compute_fields compared exhaustively over its finite domain (12k combinations); in_out / other_in_out / in_result / transition / prev_in_result checked against point membership at exact side points of every clear sub-segment."),
 "C15": ("proof", "4 (C15)", "Lean theorems over exact rational coordinates (= every finite float input): never Equal, lexicographic, angular, antisymmetric and transitive on the events of a valid input; compare_segments Equal iff identical and antisymmetric; model tied to Ord::cmp / compare_segments by correspondence",
         "Proved for all events (the code only compares coordinates and takes the exact orientation sign, so theorems over the rationals cover every finite f32/f64 input): Ord::cmp never answers Equal, orders by x, then y, then right before left, then counter-clockwise; it is antisymmetric and transitive on the events of a valid input (the excluded configuration is exhibited as the source's known gap); compare_segments answers Equal exactly for the identical segment and is antisymmetric. The model's two comparison functions are compared with the real ones on random, lattice and shared-endpoint pairs (exhaustively on the 4x4 lattice in the thorough tier) and the laws are re-evaluated with the real comparators on co-occurring events. Not proved: agreement of compare_segments with the vertical order of non-crossing segments (decided per run through C13/C14 oracles)."),
 "C16": ("translation_validation", "4 (C16)", "theorems: containment in both bounding boxes for EVERY rounding, exact-arithmetic classification of non-parallel segments, untouched segments; Lean model of intersection / possible_intersection / divide_segment / nextafter + function-level correspondence (f32/f64, both profiles); independent oracles (exact classification, containment, orientation sign, IEEE neighbours)",
         "Theorems: for every rounding function every reported point lies in the bounding boxes of both segments, disjoint boxes report nothing, and segments that do not intersect or meet only at a common endpoint are left untouched with return code 0; under exact arithmetic for non-parallel segments None is reported exactly when the segments are disjoint, the point lies on both, independently of argument order. Per run: the pairwise step is compared with the model (return code, post-state of both segments, queued events, edge types, bump count) on lattice, large-integer, float, collinear (incl. vertical), near-corner and near-vertical pairs in both argument orders; classification on integer inputs must equal the exact one; orientation sign and nextafter are checked against independent references. N2 is a known finding by call site."),
 "C17": ("proof", "4 (C17)", "Lean theorem history_refines: for every lawful comparator and every finite operation sequence the splay model equals a sorted association list; model tied to lib/src/splay by correspondence on histories incl. key addresses; reference-map oracle on the real answers",
         "Proved (induction over arbitrary operation lists, any lawful comparator): insert, remove, get, find_key, contains, next, prev, min, max, clear, len, is_empty, extend and consuming iteration in any mix of directions return exactly what a sorted association list returns; len = number of keys; iteration strictly increasing; splay preserves the node sequence for ANY comparator. The model is compared with SplayTree and SplaySet on random, structured and (thorough) exhaustive short histories under three comparators incl. Debug shape and the address of every key handed out; the real answers are also judged against an independent reference map."),
 "C18": ("other", "4 (C18)", "child processes on 8 MiB main stack and 2 MiB thread: 3e6 keys in monotone / reverse / zig-zag / random order then drop, clear, partial and full consumption, queries; early-break sweep with > 1e5 segments; stack depth of key drops must not grow with size",
         "Runtime property: each scenario runs in its own process; survival and the stack depth at which keys are dropped (recorded by the keys' Drop) are observed; depth must be independent of the number of keys. The model part (frame machines) covers the logic; frame sizes and the real stack limit are runtime facts."),
}

checks = []
for pid in sorted(TEXT):
    level, ref, tech, text = TEXT[pid]
    level = reg.get(pid, {}).get("level", level)
    checks.append({
        "property_id": pid,
        "quick_cmd": "tools/check %s --tier quick" % pid,
        "thorough_cmd": "tools/check %s --tier thorough" % pid,
        "evidence_file": "/verif/evidence/%s.json" % pid,
        "replay_cmd_template": "tools/check %s --replay {path}" % pid,
        "engine": "gbo-lean",
        "level_claimed": {"category": level, "text": text, "design_ref": "DESIGN.md section " + ref},
        "level_note": TRUST,
        "technique": tech,
    })

manifest = {
    "version": 1,
    "setup_cmd": "tools/setup",
    "hooks": {
        "guard": "--cfg geo_booleanop_verif",
        "enable": "harness/.cargo/config.toml sets rustflags = [\"--cfg\", \"geo_booleanop_verif\"]; the harness crate has a path dependency on /repo/lib and is rebuilt by every check",
        "baseline_off_cmd": "cd /repo && cargo test --workspace --no-fail-fast --offline",
        "source_commits": ["e1132c0", "b4add1c"],
        "add_only": True,
    },
    "engines": [{"name": "gbo-lean", "path": "/verif/lean", "serves_properties": sorted(TEXT),
                 "kind_free_text": "Lean 4 model + theorems (lean/Gbo), compiled model driver, Rust correspondence harness (harness/), python orchestrator (tools/)"}],
    "checks": checks,
    "notes": "Fix commits in /repo: 1711bf9 (F1), 60217e3 (F2), ec266fd (N3), cfe602f (F3). Known findings (N2, R1, R1-panic, N4): known_findings.json. See DESIGN.md.",
    "not_applicable": [],
}
json.dump(manifest, open(os.path.join(ROOT, "MANIFEST.json"), "w"), indent=1)
print("wrote MANIFEST.json with", len(checks), "checks")
