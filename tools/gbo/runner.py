"""Builds the Lean project and the Rust harness, pushes case files through harness and model driver in
parallel, parses the two answer streams."""
import fcntl
import json
import os
import subprocess
import sys
import time
from concurrent.futures import ThreadPoolExecutor

ROOT = os.path.dirname(os.path.dirname(os.path.dirname(os.path.abspath(__file__))))
LEAN = os.path.join(ROOT, "lean")
HARNESS = os.path.join(ROOT, "harness")
WORK = os.path.join(ROOT, "work")
DRV = os.path.join(LEAN, ".lake/build/bin/gbodrv")
ENV = dict(os.environ, CARGO_NET_OFFLINE="true")


class BuildError(Exception):
    pass


def _locked(name):
    os.makedirs(WORK, exist_ok=True)
    f = open(os.path.join(WORK, name + ".lock"), "w")
    fcntl.flock(f, fcntl.LOCK_EX)
    return f


def sh(cmd, cwd, timeout=3600):
    p = subprocess.run(cmd, cwd=cwd, env=ENV, stdout=subprocess.PIPE, stderr=subprocess.STDOUT, text=True, timeout=timeout)
    return p.returncode, p.stdout


def build_lean(targets):
    """lake build of the given targets; returns (ok, log)"""
    lock = _locked("lake")
    try:
        rc, out = sh(["lake", "build"] + targets, LEAN)
        return rc == 0, out
    finally:
        lock.close()


def build_harness():
    """builds both profiles of the harness from /repo's current working tree"""
    lock = _locked("cargo")
    try:
        lockfile = os.path.join(HARNESS, "Cargo.lock")
        if not os.path.exists(lockfile):
            subprocess.run(["cp", "/repo/Cargo.lock", lockfile])
        logs = []
        for prof in (["--release"], ["--profile", "dbg"]):
            rc, out = sh(["cargo", "build", "--offline"] + prof, HARNESS)
            logs.append(out)
            if rc != 0:
                return False, "\n".join(logs)
        return True, "\n".join(logs)
    finally:
        lock.close()


def build_harness_dev():
    """an unoptimised build of the harness (recursion is not turned into loops, frames are large): used by the
    stack-depth scenarios of C18 / C03 only"""
    lock = _locked("cargo")
    try:
        rc, out = sh(["cargo", "build", "--offline"], HARNESS)
        return rc == 0, out
    finally:
        lock.close()


def harness_bin_dev():
    return os.path.join(HARNESS, "target", "debug", "gbo-harness")


def harness_bin(dbg):
    return os.path.join(HARNESS, "target", "dbg" if dbg else "release", "gbo-harness")


class CaseResult:
    def __init__(self, header):
        parts = header.split(" ", 3)
        self.cid = parts[1] if len(parts) > 1 else "?"
        self.family = parts[2] if len(parts) > 2 else "?"
        self.meta = parts[3] if len(parts) > 3 else ""
        self.raw = []          # the request block (CASE/RUN/CHECK/END lines)
        self.reqs = {}
        self.impl = {}
        self.model = {}
        self.checks = []       # CHECK texts in order
        self.checkres = {}
        self.klass = {}
        self.outrange = set()  # runs on which the sweep itself created a coordinate outside the modelled range
        self.complete = False


def _parse(impl_text, model_text):
    cases = []
    cur = None
    for line in impl_text.splitlines():
        if line.startswith("CASE "):
            cur = CaseResult(line)
            cases.append(cur)
            cur.raw.append(line)
        elif cur is None:
            continue
        elif line.startswith("RUN "):
            _, k, req = line.split(" ", 2)
            cur.reqs[k] = req
            cur.raw.append(line)
        elif line.startswith("IMPL "):
            parts = line.split(" ", 2)
            cur.impl[parts[1]] = parts[2] if len(parts) > 2 else ""
        elif line.startswith("CHECK "):
            cur.checks.append(line[6:])
            cur.raw.append(line)
        elif line.startswith("END"):
            cur.raw.append(line)
    byid = {}
    idx = -1
    for line in model_text.splitlines():
        if line.startswith("CASE "):
            idx += 1
            cur = cases[idx] if idx < len(cases) else None
        elif cur is None:
            continue
        elif line.startswith("MODEL "):
            parts = line.split(" ", 2)
            cur.model[parts[1]] = parts[2] if len(parts) > 2 else ""
        elif line.startswith("CLASS "):
            parts = line.split(" ", 2)
            cur.klass[parts[1]] = parts[2] if len(parts) > 2 else ""
        elif line.startswith("RANGE "):
            cur.outrange.add(line.split(" ", 2)[1])
        elif line.startswith("CHECKRES "):
            parts = line.split(" ", 2)
            cur.checkres[int(parts[1])] = parts[2] if len(parts) > 2 else ""
        elif line.startswith("END"):
            cur.complete = True
    return cases


def _run_chunk(args):
    i, text, dbg, tag, timeout = args
    os.makedirs(WORK, exist_ok=True)
    base = os.path.join(WORK, "%s-%d-%d" % (tag, os.getpid(), i))
    fin, fimpl, fmodel = base + ".in", base + ".impl", base + ".model"
    with open(fin, "w") as f:
        f.write(text)
    t0 = time.time()
    hang = None
    try:
        with open(fin) as i_, open(fimpl, "w") as o_:
            subprocess.run([harness_bin(dbg), "exec"], stdin=i_, stdout=o_, stderr=subprocess.DEVNULL, timeout=timeout)
    except subprocess.TimeoutExpired:
        hang = "harness"
    try:
        with open(fimpl) as i_, open(fmodel, "w") as o_:
            subprocess.run([DRV], stdin=i_, stdout=o_, stderr=subprocess.DEVNULL, timeout=timeout * 4)
    except subprocess.TimeoutExpired:
        hang = hang or "driver"
    impl_text = open(fimpl).read()
    model_text = open(fmodel).read()
    for f in (fin, fimpl, fmodel):
        try:
            os.remove(f)
        except OSError:
            pass
    cases = _parse(impl_text, model_text)
    return cases, hang, time.time() - t0


def execute(case_texts, dbg=False, tag="run", jobs=16, timeout=600):
    """case_texts: list of CASE blocks.  Returns (list of CaseResult, list of hang notes)."""
    if not case_texts:
        return [], []
    jobs = max(1, min(jobs, len(case_texts)))
    chunks = [[] for _ in range(jobs)]
    for i, t in enumerate(case_texts):
        chunks[i % jobs].append(t)
    args = [(i, "".join(ch), dbg, tag, timeout) for i, ch in enumerate(chunks) if ch]
    results = []
    hangs = []
    with ThreadPoolExecutor(max_workers=jobs) as ex:
        for cases, hang, dt in ex.map(_run_chunk, args):
            results.extend(cases)
            if hang:
                # the first incomplete case of the chunk is the one that hangs
                inc = [c for c in cases if not c.complete or len(c.impl) < len(c.reqs)]
                hangs.append((hang, inc[0] if inc else None))
    return results, hangs
