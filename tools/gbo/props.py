"""The decision engine of tools/check: obligations (Lean), correspondence (K), oracles (O), evidence,
replays, known findings.  DESIGN.md section 2.5."""
import glob
import hashlib
import json
import os
import random
import re
import subprocess
import sys
import time
from fractions import Fraction

from . import gen, num, plans, runner, extra
from .cases import Case, OPS, bool_req, subdiv_req, fillq_req

ROOT = runner.ROOT
EVID = os.path.join(ROOT, "evidence")
REPLAYS = os.path.join(ROOT, "replays")
ALLOWED_AXIOMS = {"propext", "Classical.choice", "Quot.sound"}
FORBIDDEN = ["sorry", "admit", "native_decide", "bv_decide", "implemented_by", "unsafe ", "maxHeartbeats 0"]

TRUSTED_BASE = [
    "Lean 4.33 kernel; axioms propext, Classical.choice, Quot.sound only (audited per theorem with #print axioms on every run)",
    "the Lean model lean/Gbo/Model is hand-written; its tie to /repo is the correspondence check of this run (differential testing)",
    "rndBin as a description of IEEE-754 round-to-nearest-even + - * / (validated bit-exactly by function-level correspondence)",
    "robust::orient2d returns the exact sign while no product under-/overflows (non-zero coordinates within 2^-400..2^400; runs outside are detected and skipped); std BinaryHeap/Vec/Rc behave as documented; geo-types Polygon::new closes rings",
    "the Rust harness, the line protocol, the python orchestrator and generators",
]


# ---------------------------------------------------------------------------------------------
# obligations

def load_registry():
    with open(os.path.join(runner.LEAN, "Gbo", "Props", "registry.json")) as f:
        return json.load(f)


def strip_comments(text):
    text = re.sub(r"/-.*?-/", "", text, flags=re.S)
    return re.sub(r"--.*", "", text)


def source_scan():
    bad = []
    for f in glob.glob(os.path.join(runner.LEAN, "Gbo", "**", "*.lean"), recursive=True):
        t = strip_comments(open(f).read())
        for w in FORBIDDEN:
            if w in t:
                bad.append("%s contains '%s'" % (os.path.relpath(f, ROOT), w.strip()))
        if re.search(r"^\s*axiom\s", t, flags=re.M):
            bad.append("%s declares an axiom" % os.path.relpath(f, ROOT))
    return bad


def check_obligations(prop, thorough=False):
    """returns list of dicts: name, statement kind, ok, axioms / detail"""
    reg = load_registry().get(prop, {})
    thms = reg.get("theorems", [])
    modules = sorted(set(t["module"] for t in thms))
    out = []
    if not thms:
        return out, ""
    ok, log = runner.build_lean(modules + ["gbodrv"])
    scan = source_scan()
    if not ok:
        # find which modules fail: report every theorem of a failing module as not discharged
        for t in thms:
            out.append({"name": t["name"], "kind": t.get("kind", "clause"), "ok": False, "detail": "lake build failed"})
        return out, log
    src = "\n".join("import %s" % m for m in modules) + "\n" + "\n".join("#print axioms %s" % t["name"] for t in thms) + "\n"
    os.makedirs(runner.WORK, exist_ok=True)
    tmp = os.path.join(runner.WORK, "audit-%s-%d.lean" % (prop, os.getpid()))
    open(tmp, "w").write(src)
    rc, txt = runner.sh(["lake", "env", "lean", tmp], runner.LEAN)
    os.remove(tmp)
    flat = re.sub(r"\s+", " ", txt)
    for t in thms:
        name = t["name"]
        short = name.split(".")[-1]
        m = re.search(r"'%s' depends on axioms: \[([^\]]*)\]" % re.escape(name), flat)
        m0 = re.search(r"'%s' does not depend on any axioms" % re.escape(name), flat)
        if m0:
            axioms = []
        elif m:
            axioms = [a.strip() for a in m.group(1).split(",") if a.strip()]
        else:
            out.append({"name": name, "kind": t.get("kind", "clause"), "ok": False, "detail": "theorem not found by #print axioms"})
            continue
        extra_ax = [a for a in axioms if a not in ALLOWED_AXIOMS]
        ok_t = not extra_ax and not scan
        detail = ""
        if extra_ax:
            detail = "uses axioms outside the allowed set: %s" % extra_ax
        elif scan:
            detail = "source scan: " + "; ".join(scan)
        out.append({"name": name, "kind": t.get("kind", "clause"), "ok": ok_t, "axioms": axioms, "detail": detail,
                    "statement": t.get("statement", "")})
    if thorough and all(o["ok"] for o in out):
        for mod in modules:
            rc, txt = runner.sh(["lake", "env", "leanchecker", mod], runner.LEAN, timeout=3600)
            if rc != 0:
                for o in out:
                    o["ok"] = False
                    o["detail"] = "leanchecker rejected %s: %s" % (mod, txt[-300:])
    return out, log


# ---------------------------------------------------------------------------------------------
# corpus and known findings

def load_corpus(max_edges=None):
    pairs = []
    # pairs.jsonl: fixtures and calibration findings (tools/mkcorpus.py); seed_pairs.jsonl: the failing inputs
    # found for past violations, e.g. for the seeded changes of DESIGN.md section 8 (tools/addcorpus.py)
    for fn in ("pairs.jsonl", "seed_pairs.jsonl"):
        path = os.path.join(ROOT, "corpus", fn)
        if not os.path.exists(path):
            continue
        for line in open(path):
            if not line.strip():
                continue
            d = json.loads(line)
            if max_edges is not None and d.get("edges", 0) > max_edges:
                continue
            a, _ = num.parse_mpoly(d["a"].split())
            b, _ = num.parse_mpoly(d["b"].split())
            pairs.append((d["family"], a, b, d["name"]))
    return pairs


def load_known():
    with open(os.path.join(ROOT, "known_findings.json")) as f:
        return json.load(f)


# ---------------------------------------------------------------------------------------------
# evaluation of the two answer streams

class Finding:
    def __init__(self, kind, case, detail, run=None, check=None):
        self.kind = kind          # 'K' correspondence, 'O' oracle failure, 'H' hang, 'I' internal
        self.case = case
        self.detail = detail
        self.run = run
        self.check = check
        self.known = None


def _canon_mp(answer):
    """canonical form of a BOOL answer up to the order of polygons / holes and the start vertex of rings
    (direction, grouping, coordinates and the event counters are kept)"""
    toks = answer.split()
    if len(toks) < 4 or toks[0] != "OK" or "MP" not in toks:
        return None
    i = toks.index("MP")
    head = toks[:i]
    try:
        j = i + 1
        npoly = int(toks[j]); j += 1
        polys = []
        for _ in range(npoly):
            nr = int(toks[j]); j += 1
            rings = []
            for _ in range(nr):
                npts = int(toks[j]); j += 1
                pts = [(toks[j + 2 * k], toks[j + 2 * k + 1]) for k in range(npts)]
                j += 2 * npts
                if len(pts) > 1 and pts[0] == pts[-1]:
                    body = pts[:-1]
                    m = min(range(len(body)), key=lambda k: body[k])
                    body = body[m:] + body[:m]
                    pts = body + [body[0]]
                rings.append(tuple(pts))
            polys.append((rings[0], tuple(sorted(rings[1:]))) if rings else ((), ()))
        return (tuple(head), tuple(sorted(polys)))
    except (ValueError, IndexError):
        return None


def _strip_shape(answer):
    """SPLAY answers without the Debug-shape tokens (the shape of the tree is not part of C17)"""
    return " ".join(t for t in answer.split() if not t.startswith("D"))


def same_up_to_representation(req, impl, model):
    kind = req.split(" ", 1)[0]
    if kind == "BOOL":
        a, b = _canon_mp(impl), _canon_mp(model)
        return a is not None and a == b
    if kind in ("SPLAYMAP", "SPLAYSET"):
        return _strip_shape(impl) == _strip_shape(model)
    return False


def parse_kv(text):
    return dict(t.split("=", 1) for t in text.split() if "=" in t)


def req_exp_range(req):
    """(precision, smallest, largest) binary exponent of the non-zero coordinate magnitudes of a request"""
    toks = req.split()
    prec = toks[1] if len(toks) > 1 else "f64"
    lo, hi = None, None
    for t in toks:
        if ":" in t and not t.startswith("@"):
            m, _, e = t.partition(":")
            try:
                mi, ei = int(m), int(e)
            except ValueError:
                continue
            if mi == 0:
                continue
            x = abs(mi).bit_length() - 1 + ei
            lo = x if lo is None else min(lo, x)
            hi = x if hi is None else max(hi, x)
    return prec, lo, hi


def finding_reqs(f):
    """the request texts a finding refers to"""
    r = f.case
    if r is None:
        return []
    if f.run is not None:
        return [r.reqs.get(f.run, "")]
    if f.check is not None and f.check < len(r.checks):
        refs = [t.lstrip("RABE").split("~")[0] for t in r.checks[f.check].split()[1:]]
        return [r.reqs[t] for t in refs if t.isdigit() and t in r.reqs]
    return []


def out_of_float_range(req):
    prec, lo, hi = req_exp_range(req)
    if lo is None:
        return False
    if prec == "f32":
        return hi >= 61 or lo <= -70
    return hi >= 509 or lo <= -530


def operand_edges(req):
    """the edges of the two operands of a BOOL/SUBDIV request as ((x0, y0), (x1, y1)) pairs of Fractions, or
    None when an operand is a reference to an earlier result"""
    from fractions import Fraction
    toks = req.split()
    i = None
    for p in ("MM", "PM", "MP", "PP"):
        if p in toks[:8]:
            i = toks.index(p) + 1
    if i is None:
        return None
    out = []
    try:
        for _ in range(2):
            if toks[i].startswith("@"):
                return None
            es = []
            npoly = int(toks[i]); i += 1
            for _ in range(npoly):
                nr = int(toks[i]); i += 1
                for _ in range(nr):
                    npts = int(toks[i]); i += 1
                    pts = [(num.dec(toks[i + 2 * j]), num.dec(toks[i + 2 * j + 1])) for j in range(npts)]
                    i += 2 * npts
                    es.extend(zip(pts, pts[1:]))
            out.append(es)
    except (IndexError, ValueError):
        return None
    return out


def operands_interact(req):
    """some edge of one operand and some edge of the other have intersecting bounding boxes: only then does
    the sweep compute a cross product of edge vectors of the two operands (N4)"""
    es = operand_edges(req)
    if es is None:
        return True
    box = lambda e: (min(e[0][0], e[1][0]), max(e[0][0], e[1][0]), min(e[0][1], e[1][1]), max(e[0][1], e[1][1]))
    bb = [box(e) for e in es[1]]
    for e in es[0]:
        a = box(e)
        for b in bb:
            if a[0] <= b[1] and b[0] <= a[1] and a[2] <= b[3] and b[2] <= a[3]:
                return True
    return False


def classify_known(prop, f, known):
    """match a finding against known_findings.json; returns the entry or None"""
    for k in known.get("findings", []):
        if prop != "*" and prop not in k["properties"]:
            continue
        m = k["match"]
        if m == "float-range" and f.kind == "O":
            rq = finding_reqs(f)
            if rq and any(out_of_float_range(q) and operands_interact(q) for q in rq):
                return k
        if m == "rounding-on-degenerate" and f.kind == "O" and getattr(f, "k_agree", True):
            kv = parse_kv(f.detail)
            if kv.get("exactmodel") == "pass" and kv.get("degenerate") == "1" and kv.get("exactrun") == "0":
                return k
        if m == "runaway-with-bump" and f.kind == "O" and f.detail.startswith("runaway") and "bumps=0" not in f.detail:
            return k
        if m == "panic-on-rounded-degenerate" and f.kind == "O" and f.detail.startswith("panic"):
            kv = parse_kv(f.detail)
            sites = (" index", "Sweep_line_misses_event_to_be_removed", "Invalid_lower_contour_id")
            if kv.get("exactmodel") == "ok" and kv.get("degenerate") == "1" and any(x in f.detail for x in sites):
                return k
    return None


def edges_in_req(req):
    """number of input edges of a BOOL/SUBDIV request (for the C03 event bound)"""
    toks = req.split()
    try:
        i = toks.index("MM") + 1 if "MM" in toks[:8] else None
    except ValueError:
        i = None
    if i is None:
        for p in ("PM", "MP", "PP"):
            if p in toks[:8]:
                i = toks.index(p) + 1
    if i is None:
        i = 5
    n = 0
    try:
        for _ in range(2):
            if toks[i].startswith("@"):
                i += 1
                continue
            npoly = int(toks[i]); i += 1
            for _ in range(npoly):
                nr = int(toks[i]); i += 1
                for _ in range(nr):
                    npts = int(toks[i]); i += 1
                    n += max(0, npts - 1)
                    i += 2 * npts
    except (IndexError, ValueError):
        pass
    return n


class Stats:
    def __init__(self):
        self.cases = 0
        self.runs = 0
        self.agree = 0
        self.skipped_runs = 0
        self.checks = 0
        self.passed = 0
        self.check_skips = 0
        self.invalid_cases = 0
        self.cells = 0
        self.thin = 0
        self.families = {}
        self.outcomes = {}
        self.kinds = {}
        self.nontrivial = set()
        self.distinct = set()
        self.samples = []


def nontrivial_run(req, impl):
    kind = req.split(" ", 1)[0]
    if kind in ("BOOL", "SUBDIV"):
        m = re.search(r"ev=(\d+)", impl)
        return bool(m) and int(m.group(1)) > 0
    if kind in ("SPLAYMAP", "SPLAYSET"):
        toks = req.split()
        return len(toks) > 6 and any(t.startswith("r") for t in toks)
    if kind == "PI":
        return "code=0" not in impl
    if kind == "ISECT":
        return not impl.startswith("N")
    return True


def evaluate(prop, results, hangs, st, bound_check=False):
    findings = []
    for h, case in hangs:
        findings.append(Finding("H", case, "%s did not finish in time" % h))
    for r in results:
        st.cases += 1
        st.families[r.family] = st.families.get(r.family, 0) + 1
        # gate: operand validity
        invalid = False
        invalid_x = None
        for i, ch in enumerate(r.checks):
            if ch.startswith("operand A") or ch.startswith("operand B"):
                v = r.checkres.get(i, "")
                if v.startswith("fail"):
                    invalid = True
            if ch.startswith("operandx A") or ch.startswith("operandx B"):
                v = r.checkres.get(i, "")
                invalid_x = bool(invalid_x) or v.startswith("fail")
        # for the outcome of a call (C03): operands with empty interior rings count as valid
        outcome_invalid = invalid if invalid_x is None else invalid_x
        if invalid:
            st.invalid_cases += 1
        for k, req in r.reqs.items():
            st.runs += 1
            impl = r.impl.get(k)
            model = r.model.get(k)
            kind = req.split(" ", 1)[0]
            st.kinds[kind] = st.kinds.get(kind, 0) + 1
            if impl is None or model is None:
                if not any(f.case is r for f in findings if f.kind == "H"):
                    findings.append(Finding("H", r, "no answer for run %s (impl=%s model=%s)" % (k, impl is not None, model is not None), run=k))
                continue
            oc = impl.split(" ", 1)[0]
            if oc == "PANIC":
                oc = " ".join(impl.split(" ")[:2])
            st.outcomes[oc] = st.outcomes.get(oc, 0) + 1
            # C03 / C10: outcome and event bound, judged on valid operands only (also where the model is out of range)
            if bound_check and not outcome_invalid and kind in ("BOOL", "SUBDIV") and "@" not in req:
                e = edges_in_req(req)
                bound = 4 * e * e + 2 * e + 16
                if impl.startswith("BUDGET"):
                    findings.append(Finding("O", r, "runaway: event budget exceeded %s edges=%d %s" % (impl.split(" ", 1)[1] if " " in impl else "", e, r.klass.get(k, "")), run=k))
                elif impl.startswith("PANIC"):
                    findings.append(Finding("O", r, "panic: %s %s" % (impl, r.klass.get(k, "")), run=k))
                elif impl.startswith("NOSORT"):
                    findings.append(Finding("O", r, "hang: the bubble sort of order_events does not terminate (pass counter hook) %s" % r.klass.get(k, ""), run=k))
                elif impl.startswith("OK"):
                    m = re.search(r"ev=(\d+) bumps=(\d+)", impl)
                    if m and int(m.group(1)) > bound:
                        findings.append(Finding("O", r, "runaway: %s events > bound %d bumps=%s" % (m.group(1), bound, m.group(2)), run=k))
            if impl.startswith("API-MISMATCH"):
                findings.append(Finding("O", r, "api: %s (request %s)" % (impl, req[:60]), run=k))
                continue
            if (model.startswith("SKIP") or model.startswith("NONFINITE") or impl == "WRONGPROFILE" or impl == "MODELONLY"
                    or (impl.startswith("BADREQ unresolved_reference") and model.startswith("BADREQ"))):
                st.skipped_runs += 1
                continue
            h = hashlib.sha1(req.encode()).hexdigest()
            st.distinct.add(h)
            if nontrivial_run(req, impl):
                st.nontrivial.add(h)
            if impl != model and k in r.outrange:
                # the sweep manufactured a coordinate (e.g. nextafter(0.0) = 2^-1074) on which the real
                # orientation predicate under- or overflows; the model does not describe that (trusted base)
                st.skipped_runs += 1
                st.outcomes["out-of-range"] = st.outcomes.get("out-of-range", 0) + 1
            elif impl != model:
                if same_up_to_representation(req, impl, model):
                    # same rings / same map answers, differently arranged: a diagnostic, not a disagreement
                    st.agree += 1
                    st.representation_only = getattr(st, "representation_only", 0) + 1
                else:
                    findings.append(Finding("K", r, "run %s: implementation and model disagree" % k, run=k))
            else:
                st.agree += 1
        for i, ch in enumerate(r.checks):
            if ch.startswith(("operand A", "operand B", "operandx A", "operandx B")):
                continue
            st.checks += 1
            v = r.checkres.get(i)
            if v is None:
                if not any(f.case is r for f in findings if f.kind == "H"):
                    findings.append(Finding("H", r, "no result for check %d (%s)" % (i, ch[:40]), check=i))
                continue
            if invalid:
                st.check_skips += 1
                continue
            if v.startswith("pass"):
                st.passed += 1
                kv = parse_kv(v)
                st.cells += int(kv.get("cells", 0))
                st.thin += int(kv.get("thin", 0))
            elif v.startswith("skip"):
                st.check_skips += 1
            elif v.startswith("internal"):
                findings.append(Finding("I", r, "check %d (%s): %s" % (i, ch[:60], v), check=i))
            else:
                f = Finding("O", r, "check %d (%s): %s" % (i, ch[:80], v), check=i)
                # a rounding finding (R1) can only explain the failure when the implementation did on these
                # runs exactly what the model of the unchanged algorithm does under the same rounding
                refs = [t.lstrip("RE").split("~")[0] for t in ch.split()[1:]]
                refs = [t for t in refs if t.isdigit() and t in r.reqs]
                # (runs the model does not describe - out of range, NaN arithmetic on a zero-length segment of a
                # garbage intermediate result - are no disagreement, exactly as in the correspondence count)
                f.k_agree = all(r.impl.get(t) == r.model.get(t) or r.impl.get(t) == "MODELONLY" or t in r.outrange
                                or (r.model.get(t) or "").startswith(("SKIP", "NONFINITE"))
                                or same_up_to_representation(r.reqs[t], r.impl.get(t) or "", r.model.get(t) or "") for t in refs)
                findings.append(f)
        if any(c.startswith(("pycmp", "pyanti", "pyseg", "pyevanti")) for c in r.checks):
            bad = extra.cmp_oracle(r)
            for i, msg in bad:
                findings.append(Finding("O", r, "check %d (%s): fail %s" % (i, r.checks[i], msg), check=i))
            npy = len([c for c in r.checks if c.startswith(("pycmp", "pyanti", "pyseg", "pyevanti"))])
            st.passed += npy - len(set(i for i, _ in bad))
            st.check_skips -= npy
        if prop == "C16" and not invalid:
            bad = extra.c16_oracle(r)
            for i, msg in bad:
                findings.append(Finding("O", r, "check %d (%s): fail %s" % (i, r.checks[i], msg), check=i))
            npy = len([c for c in r.checks if c.startswith("pyc16")])
            st.passed += npy - len(set(i for i, _ in bad))
            st.check_skips -= npy
            for k, msg in extra.c16_box_oracle(r):
                findings.append(Finding("O", r, "run %s: %s" % (k, msg), run=k))
        if prop in ("C16", "C10", "C03", "C08"):
            for k, msg in extra.function_oracle(r):
                findings.append(Finding("O", r, "run %s: %s" % (k, msg), run=k))
        if prop in ("C17", "C18"):
            for k, msg in extra.c17_oracle(r):
                findings.append(Finding("O", r, "run %s: %s" % (k, msg), run=k))
        if len(st.samples) < 3 and r.reqs:
            k0 = sorted(r.reqs)[0]
            st.samples.append({"case": r.cid, "family": r.family, "request": r.reqs[k0][:400],
                               "implementation": (r.impl.get(k0) or "")[:300], "model": (r.model.get(k0) or "")[:300],
                               "checks": [(c[:80], r.checkres.get(i, "")[:120]) for i, c in enumerate(r.checks)][:6]})
    return findings


# ---------------------------------------------------------------------------------------------
# case construction per property

def gen_pairs(rng, families, n):
    out = []
    for i in range(n):
        fam = families[i % len(families)]
        if fam == "g4f32":
            a, b = gen.g4_pair(rng, f32=True)
            out.append(("g4", a, b))
        else:
            a, b = gen.FAMILIES[fam](rng)
            # operands may list a vertex several times in a row (valid input, see C03 / C07)
            if rng.random() < 0.12:
                a = [[gen.repeat_vertices(rng, r) for r in p] for p in a]
            if rng.random() < 0.12:
                b = [[gen.repeat_vertices(rng, r) for r in p] for p in b]
            # the first ring started at an extreme vertex that is listed several times
            if rng.random() < 0.1:
                a = gen.start_at_extreme_and_repeat(rng, a)
            if rng.random() < 0.1:
                b = gen.start_at_extreme_and_repeat(rng, b)
            # mixed signed zeros (families with integer / dyadic coordinates)
            if rng.random() < 0.08:
                a, b = gen.signed_zeros(rng, a), gen.signed_zeros(rng, b)
            out.append((fam, a, b))
    return out


def corpus_pairs(max_edges):
    return [(fam, a, b) for (fam, a, b, name) in load_corpus(max_edges)]


def structural_pairs():
    """G6: empty operands, empty rings, identical operands, single vs multi"""
    sq = lambda x0, y0, x1, y1: [[(x0, y0), (x1, y0), (x1, y1), (x0, y1), (x0, y0)]]
    a = [sq(0, 0, 4, 4)]
    return [
        ("g1", a, []), ("g1", [], a), ("g1", [], []), ("g1", a, [[[]]]), ("g1", [[[]]], a),
        ("g1", a, a), ("g1", a, [sq(4, 0, 8, 4)]), ("g1", a, [sq(4, 4, 8, 8)]), ("g1", a, [sq(5, 0, 8, 4)]),
        ("g1", a + [sq(6, 6, 9, 9)], [sq(2, 2, 7, 7)]),
        ("g1", [sq(0, 0, 4, 4) + [[(1, 1), (1, 3), (3, 3), (3, 1), (1, 1)]]], [sq(2, 2, 6, 6)]),
        # interior rings without area: empty, one point, two points (valid: they enclose nothing)
        ("g1", [sq(0, 0, 4, 4) + [[]]], [sq(2, 2, 6, 6)]),
        ("g1", [sq(2, 2, 6, 6)], [sq(0, 0, 4, 4) + [[], []]]),
        ("g1", [sq(0, 0, 4, 4) + [[(1, 1)]]], [sq(2, 2, 6, 6)]),
        ("g1", [sq(0, 0, 4, 4) + [[(1, 1), (1, 1)]]], [sq(2, 2, 6, 6) + [[(3, 3), (5, 5), (3, 3)]]]),
        ("g1", [[[]] + [[(1, 1), (1, 3), (3, 3), (3, 1), (1, 1)]]], [sq(0, 0, 4, 4)]),
        # zeros of both signs in one ring: an edge on the y axis written from x = +0.0 to x = -0.0 and back
        # (equal numbers, so a valid ring; `end.x - start.x` is -0.0), crossed by the other operand
        ("g1", [[[(-4, 0), (0, 0), (num.NZ(), 4), (-4, 4), (-4, 0)]]], [sq(-2, 1, 2, 3)]),
        ("g1", [[[(-4, num.NZ()), (num.NZ(), 0), (0, 4), (-4, 4), (-4, num.NZ())]]], [sq(-2, 1, 2, 3)]),
        ("g1", [sq(-2, 1, 2, 3)], [[[(0, num.NZ()), (4, 0), (4, 4), (num.NZ(), 4), (0, num.NZ())]]]),
    ]


def build_cases(prop, tier, rng):
    """returns list of (label, [Case], dbg)"""
    q = tier == "quick"
    fams_all = ["g1", "g2", "g3", "g4", "g12", "g13", "g14", "g2", "g10", "g11", "g1", "g12", "g13", "g15", "g18", "g19", "g21", "g22", "g23", "g24", "g25", "g26", "g27", "g28", "g29"]
    out = []
    # the number of generated pairs grows with the number of families, so that a new family does not thin
    # out the others (17 families when the sizes below were chosen)
    grow = lambda k: (k * len(fams_all) + 16) // 17
    if prop in ("C01", "C02", "C04"):
        n = grow(300) if q else 7200
        pairs = corpus_pairs(150) + structural_pairs() + gen_pairs(rng, fams_all + (["g9"] if prop == "C01" else []), n)
        out.append(("core", plans.plan_core(prop, rng, pairs), False))
        if prop == "C01" and not q:
            out.append(("exh2x2", extra.exhaustive_cells(prop, 2, 2), False))
    elif prop == "C03":
        n = 150 if q else 4000
        pairs = corpus_pairs(400) + structural_pairs() + gen_pairs(rng, ["g1", "g2", "g3", "g4", "g5", "g3", "g5", "g5z", "g10"], n)
        out.append(("release", plans.plan_core("C03", rng, pairs, dbg=False), False))
        out.append(("debug", plans.plan_core("C03", rng, pairs, dbg=True), True))
        p32 = gen_pairs(rng, ["g1", "g4f32", "g2", "g5f32", "g20"], n // 3)
        out.append(("f32-release", plans.plan_core("C03", rng, p32, prec="f32"), False))
        out.append(("f32-debug", plans.plan_core("C03", rng, p32, prec="f32", dbg=True), True))
        out.append(("vertex-on-edge", plans.plan_core("C03", rng, gen_pairs(rng, ["g17"], 6000 if q else 60000), dbg=False, ops=["I", "D"]), False))
        out.append(("large", extra.large_cases(2000 if q else 60000), False))
        out.append(("fn", extra.function_cases(rng, 300 if q else 5000, prec="f64"), False))
        out.append(("fn32-dbg", extra.function_cases(rng, 200 if q else 3000, prec="f32", dbg=True), True))
    elif prop == "C05":
        n = grow(200) if q else 5000
        out.append(("c05", plans.plan_c05(rng, corpus_pairs(150) + structural_pairs() + gen_pairs(rng, fams_all, n)), False))
    elif prop == "C06":
        n = grow(60) if q else 1500
        out.append(("c06", plans.plan_c06(rng, corpus_pairs(80) + gen_pairs(rng, fams_all, n) + gen_pairs(rng, ["g21"], 2 * n)), False))
    elif prop == "C07":
        n = grow(60) if q else 1500
        pp = [("g1",) + plans.single_poly_pairs(rng, "g1") for _ in range(n // 3)]
        pp += [("g26",) + gen.FAMILIES["g26"](rng) for _ in range(n // 6)]
        out.append(("c07", plans.plan_c07(rng, corpus_pairs(80) + pp + gen_pairs(rng, fams_all + ["g14"], n)), False))
    elif prop == "C08":
        n = grow(60) if q else 1500
        out.append(("c08", plans.plan_c08(rng, corpus_pairs(80) + gen_pairs(rng, fams_all, n) + gen_pairs(rng, ["g18", "g15", "g13", "g18"], n // 2)), False))
    elif prop == "C09":
        n = grow(60) if q else 1500
        # (without g25: a far part placed relative to coordinates near 2^52 is not representable)
        out.append(("c09", plans.plan_c09(rng, corpus_pairs(80) + gen_pairs(rng, [f for f in fams_all if f != "g25"], n)), False))
    elif prop == "C10":
        n = 150 if q else 4000
        pairs = structural_pairs() + gen_pairs(rng, ["g1", "g4f32", "g2", "g1", "g4f32", "g3", "g5f32", "g20", "g20"], n)
        out.append(("f32", plans.plan_core("C10", rng, pairs, prec="f32"), False))
        out.append(("f32-vs-f64", extra.f32_f64_cases(rng, gen_pairs(rng, ["g1", "g2"], n // 2)), False))
        out.append(("f32-scaled", extra.scaled_cases(rng, gen_pairs(rng, ["g1", "g12", "g13", "g2"], n // 3)), False))
        out.append(("fn32", extra.function_cases(rng, 1000 if q else 10000, prec="f32"), False))
        out.append(("ord32", extra.order_cases_f32(rng, 1200 if q else 20000), False))
    elif prop == "C11":
        n = 240 if q else 3000
        out.append(("c11", plans.plan_c11(rng, corpus_pairs(40) + gen_pairs(rng, ["g1", "g12", "g2", "g10", "g13", "g4", "g15", "g18", "g1", "g15"], n)), False))
    elif prop == "C12":
        n = grow(60) if q else 600
        # g16: members sharing boundary segments (invalid on purpose: determinism is claimed for all operands)
        # a polygon with 70 holes (containers that change behaviour beyond some size), crossings next to end points (g5)
        sq = lambda x0, y0, x1, y1: [[(x0, y0), (x1, y0), (x1, y1), (x0, y1), (x0, y0)]]
        many = [("g1", [sq(0, 0, 100, 100)], [sq(3 + 9 * (k % 10), 3 + 9 * (k // 10), 5 + 9 * (k % 10), 5 + 9 * (k // 10)) for k in range(70)])]
        out.append(("c12", plans.plan_core("C12", rng, corpus_pairs(80) + many + gen_pairs(rng, fams_all + ["g15", "g16", "g15", "g16", "g5", "g5", "g14"], n)), False))
    elif prop in ("C13", "C14"):
        n = grow(200) if q else 5000
        pairs = corpus_pairs(60) + structural_pairs() + gen_pairs(rng, fams_all, n)
        out.append(("sweep", extra.sweep_cases(prop, rng, pairs), False))
        if prop == "C14":
            out.append(("cf-table", extra.compute_fields_table(), False))
    elif prop == "C15":
        out.append(("orders", extra.order_cases(rng, 1500 if q else 40000), False))
        out.append(("orders-f32", extra.order_cases_f32(rng, 600 if q else 10000), False))
        if not q:
            out.append(("orders-exhaustive-4x4", extra.exhaustive_order_cases(), False))
        n = 60 if q else 1000
        out.append(("laws", extra.orderlaw_cases(rng, corpus_pairs(60) + gen_pairs(rng, fams_all, n)), False))
    elif prop == "C16":
        out.append(("pairs", extra.function_cases(rng, 1500 if q else 40000, prec="f64"), False))
        out.append(("pairs-dbg", extra.function_cases(rng, 300 if q else 5000, prec="f64", dbg=True), True))
        out.append(("t-junctions", extra.tjunction_cases(rng, 12000 if q else 200000), False))
    elif prop == "C17":
        out.append(("histories", extra.splay_cases(rng, 2000 if q else 20000, q), False))
        if not q:
            out.append(("histories-exhaustive", extra.exhaustive_splay_cases(3, 4) + extra.exhaustive_splay_cases(2, 5), False))
    elif prop == "C18":
        out.append(("models", extra.splay_cases(rng, 100 if q else 500, q), False))
    return out


# ---------------------------------------------------------------------------------------------
# replays / reporting

def write_replay(prop, seed, n, payload):
    os.makedirs(REPLAYS, exist_ok=True)
    path = os.path.join(REPLAYS, "%s-%d-%d.json" % (prop, seed, n))
    with open(path, "w") as f:
        json.dump(payload, f, indent=1)
    return path


def case_payload(f):
    r = f.case
    d = {"kind": {"K": "correspondence", "O": "oracle-failure", "H": "hang", "I": "internal"}[f.kind], "detail": f.detail}
    if getattr(f, "scenario", None):
        d["scenario"] = f.scenario     # harness sub-command that reproduces the failure in a child process
    if r is not None:
        d["case"] = "\n".join(r.raw) + "\n"
        d["case_id"] = r.cid
        d["family"] = r.family
        if f.run is not None:
            d["request"] = r.reqs.get(f.run)
            d["implementation"] = r.impl.get(f.run)
            d["model"] = r.model.get(f.run)
        if f.check is not None and f.check < len(r.checks):
            d["check"] = r.checks[f.check]
            d["result"] = r.checkres.get(f.check)
            d["implementation_answers"] = {k: v[:2000] for k, v in r.impl.items()}
    return d


def run_replay(prop, path):
    d = json.load(open(path))
    text = d.get("case")
    if not text and d.get("scenario"):
        ok, log = runner.build_harness()
        import subprocess, re as _re
        sc = list(d["scenario"])
        if sc and sc[0] == "dev-build":
            runner.build_harness_dev()
            args = [runner.harness_bin_dev()] + sc[1:]
        else:
            args = [runner.harness_bin(False)] + sc
        try:
            p = subprocess.run(args, stdout=subprocess.PIPE, stderr=subprocess.PIPE, text=True, timeout=1800)
            rc, out, err = p.returncode, p.stdout, p.stderr
        except subprocess.TimeoutExpired:
            rc, out, err = -999, "", "timeout"
        print("scenario:", " ".join(d["scenario"]), "-> exit", rc, out.strip()[-200:], err.strip()[-200:])
        m = _re.search(r"depths=(\d+)\.\.(\d+)", out)
        span = (int(m.group(2)) - int(m.group(1))) if m else 0
        if rc != 0 or "DONE" not in out or "teardown_order=mixed" in out or span > 2048:
            print("VIOLATION property=%s replay=%s" % (prop, path))
            return 1
        print("replay passes")
        return 0
    if not text:
        print("replay file has no case; it names a broken obligation or correspondence:", d.get("detail"))
        return 1
    ok, log = runner.build_harness()
    ok2, log2 = runner.build_lean(["gbodrv"])
    results, hangs = runner.execute([text], dbg=bool(d.get("dbg")), tag="replay-" + prop, jobs=1)
    st = Stats()
    fs = evaluate(prop, results, hangs, st, bound_check=(prop in ("C03", "C16")))
    for r in results:
        for k in sorted(r.reqs):
            print("RUN", k, r.reqs[k][:200])
            print("  IMPL ", (r.impl.get(k) or "")[:300])
            print("  MODEL", (r.model.get(k) or "")[:300])
        for i, c in enumerate(r.checks):
            print("CHECK", c[:100], "=>", r.checkres.get(i))
    bad = [f for f in fs if f.kind in ("K", "O", "H")]
    if bad:
        print("VIOLATION property=%s replay=%s" % (prop, path))
        return 1
    print("replay passes")
    return 0


def run_property(prop, tier, seed, replay, build=True):
    t0 = time.time()
    if replay:
        return run_replay(prop, replay)
    rng = random.Random(seed * 1000003 + int(prop[1:]))
    known = load_known()
    reg = load_registry().get(prop, {})
    # 1. obligations
    obligations, lean_log = check_obligations(prop, thorough=(tier == "thorough"))
    # 2. harness from /repo's working tree
    ok, cargo_log = runner.build_harness()
    if not ok:
        print(cargo_log[-3000:])
        print("the harness does not build against /repo's working tree")
        path = write_replay(prop, seed, 0, {"kind": "build", "detail": "cargo build of the harness failed", "log": cargo_log[-4000:]})
        print("VIOLATION property=%s replay=%s no-failing-input-found" % (prop, path))
        return 1
    ok, log = runner.build_lean(["gbodrv"])
    if not ok:
        print(log[-3000:])
        path = write_replay(prop, seed, 0, {"kind": "build", "detail": "lake build of the model driver failed", "log": log[-4000:]})
        print("VIOLATION property=%s replay=%s no-failing-input-found" % (prop, path))
        return 1
    # 3. cases
    st = Stats()
    findings = []
    groups = build_cases(prop, tier, rng)
    for label, cases, dbg in groups:
        results, hangs = runner.execute([c.text() for c in cases], dbg=dbg, tag="%s-%s" % (prop, label),
                                        timeout=(90 if tier == "quick" else 900))
        fs = evaluate(prop, results, hangs, st, bound_check=(prop in ("C03", "C10")))
        for f in fs:
            f.group = label
            f.dbg = dbg
        findings.extend(fs)
    # property specific python-side parts
    extra_info = {}
    if prop == "C12":
        fs, info = extra.c12_histories(groups, tier)
        findings.extend(fs)
        extra_info.update(info)
    if prop in ("C01", "C02", "C04"):
        fs, info = extra.large_result_children(tier)
        findings.extend(fs)
        extra_info.update(info)
    if prop == "C18":
        fs, info = extra.c18_stack(tier)
        findings.extend(fs)
        extra_info.update(info)
    if prop == "C03":
        fs, info = extra.c03_large_children(tier)
        findings.extend(fs)
        extra_info.update(info)
    # 4. verdict
    violations = []
    known_hits = {}
    internal = [f for f in findings if f.kind == "I"]
    for f in findings:
        if f.kind == "I":
            continue
        k = classify_known(prop, f, known)
        if k is not None:
            f.known = k
            known_hits.setdefault(k["id"], []).append(f)
        else:
            violations.append(f)
    broken_obl = [o for o in obligations if not o["ok"]]
    rc = 0
    nrep = 0
    for kid, fs in known_hits.items():
        k = fs[0].known
        print("KNOWN-FINDING: property=%s %s: %s (%d occurrence(s) in this run, e.g. case %s)" %
              (prop, kid, k["what"], len(fs), fs[0].case.cid if fs[0].case is not None else "?"))
        if os.environ.get("VERIF_DEBUG_KNOWN"):
            for f in fs:
                print("   known %s: case %s: %s" % (kid, f.case.cid if f.case is not None else "?", f.detail[:260]))
                if f.case is not None:
                    for rq in finding_reqs(f)[:2]:
                        print("      " + rq[:400])
    o_viol = [f for f in violations if f.kind == "O"]
    k_viol = [f for f in violations if f.kind in ("K", "H")]
    if o_viol:
        # a failing input on the implementation itself
        o_viol.sort(key=lambda f: len("\n".join(f.case.raw)) if f.case is not None else 0)
        for f in o_viol[:3]:
            nrep += 1
            d = case_payload(f)
            d["dbg"] = getattr(f, "dbg", False)
            d["property"] = prop
            path = write_replay(prop, seed, nrep, d)
            print("VIOLATION property=%s replay=%s" % (prop, path))
            print("   oracle failure on the implementation: %s" % f.detail[:300])
        rc = 1
    if (k_viol or broken_obl) and not o_viol:
        # the model no longer corresponds, or a proof obligation no longer checks: search for a failing input
        found = extra.search_failing_input(prop, seed, k_viol, time_budget=(60 if tier == "quick" else 600))
        nrep += 1
        if found is not None:
            d = case_payload(found)
            d["property"] = prop
            d["found_by"] = "search after broken %s" % ("correspondence" if k_viol else "obligation")
            path = write_replay(prop, seed, nrep, d)
            print("VIOLATION property=%s replay=%s" % (prop, path))
            print("   %s" % found.detail[:300])
        else:
            d = {"property": prop}
            if broken_obl:
                d["kind"] = "obligation"
                d["broken_obligations"] = broken_obl
                d["detail"] = "theorem(s) no longer check: " + ", ".join(o["name"] for o in broken_obl)
                d["lean_log"] = lean_log[-3000:]
            if k_viol:
                k_viol.sort(key=lambda f: len("\n".join(f.case.raw)) if f.case is not None else 0)
                d.update(case_payload(k_viol[0]))
                d["dbg"] = getattr(k_viol[0], "dbg", False)
                d["correspondence"] = "model function(s) exercised by request kind %s no longer agree with the implementation (%d disagreements)" % (
                    (k_viol[0].case.reqs.get(k_viol[0].run, "?").split(" ", 1)[0] if k_viol[0].case is not None and k_viol[0].run is not None else "?"), len(k_viol))
            path = write_replay(prop, seed, nrep, d)
            print("VIOLATION property=%s replay=%s no-failing-input-found" % (prop, path))
            print("   %s" % d.get("detail", d.get("correspondence", ""))[:300])
        rc = 1
    if internal and rc == 0:
        for f in internal[:3]:
            print("CHECK-ERROR property=%s %s" % (prop, f.detail[:300]))
        rc = 2
    # 5. evidence
    wall = time.time() - t0
    level = reg.get("level", "translation_validation")
    cov = {
        "evaluations": st.runs + st.checks,
        "distinct_nontrivial": len(st.nontrivial),
        "rule": reg.get("rule", "requests generated from VERIF_SEED (corpus first, then generator families); distinct by SHA-1 of the request text; "
                        "non-trivial = the sweep processed at least one event (BOOL/SUBDIV), a history with a removal (SPLAY), a non-empty intersection (ISECT/PI)"),
        "samples": st.samples + extra_info.pop("samples", []),
        "obligations": len(obligations),
        "discharged": len([o for o in obligations if o["ok"]]),
        "checker_cmd": "cd /verif/lean && lake build %s && lake env lean <#print axioms of every registered theorem>%s" % (
            " ".join(sorted(set(t["module"] for t in reg.get("theorems", [])))) or "Gbo", " && lake env leanchecker <modules>" if tier == "thorough" else ""),
        "trusted_base": TRUSTED_BASE,
        "theorems": [{"name": o["name"], "kind": o["kind"], "axioms": o.get("axioms"), "ok": o["ok"], "statement": o.get("statement", "")} for o in obligations],
        "programs": st.runs,
        "disagreements_checked": st.agree + len([f for f in findings if f.kind == "K"]),
        "correspondence": {"runs": st.runs, "agree": st.agree, "agree_only_up_to_ring_order_or_tree_shape": getattr(st, "representation_only", 0), "disagree": len([f for f in findings if f.kind == "K"]), "skipped": st.skipped_runs,
                           "request_kinds": st.kinds, "implementation_outcomes": st.outcomes},
        "oracle": {"checks": st.checks, "passed": st.passed, "skipped": st.check_skips, "invalid_operand_cases": st.invalid_cases,
                   "failed": len([f for f in findings if f.kind == "O"]), "known_findings": {k: len(v) for k, v in known_hits.items()},
                   "cells_certified": st.cells, "thin_cells_skipped": st.thin},
        "distribution": {"cases": st.cases, "families": st.families, "distinct_requests": len(st.distinct)},
        "explanation": reg.get("explanation", ""),
        "exhaustive": any("exhaust" in label or label.startswith("exh") or label == "cf-table" for label, _, _ in groups),
        "exhaustive_groups": [label for label, _, _ in groups if "exhaust" in label or label.startswith("exh") or label == "cf-table"],
    }
    cov.update(extra_info)
    ev = {
        "property_id": prop, "tier": tier, "seed": seed, "level": level, "coverage": cov,
        "assumptions": TRUSTED_BASE + reg.get("assumptions", []),
        "wall_s": round(wall, 2),
        "violations": len(violations) + len(broken_obl),
    }
    os.makedirs(EVID, exist_ok=True)
    with open(os.path.join(EVID, "%s.json" % prop), "w") as f:
        json.dump(ev, f, indent=1)
    print("%s %s: obligations %d/%d, runs %d (agree %d, skipped %d), checks %d (passed %d, skipped %d), known %d, violations %d, %.1fs" % (
        prop, tier, cov["discharged"], cov["obligations"], st.runs, st.agree, st.skipped_runs, st.checks, st.passed, st.check_skips,
        sum(len(v) for v in known_hits.values()), len(violations) + len(broken_obl), wall))
    return rc
