"""Property-specific case builders and python-side oracles (function level, splay histories, child
processes for stack use, call histories, the search for a failing input)."""
import itertools
import math
import os
import random
import re
import subprocess
import time
from fractions import Fraction

from . import gen, num, plans, runner
from .cases import Case, OPS, bool_req, subdiv_req, fillq_req, budget_for

BUDGET = plans.BUDGET


# ---------------------------------------------------------------------------------------------
# exhaustive rectilinear universes

def exhaustive_cells(prop, nx, ny):
    xs = list(range(0, 2 * nx + 1, 2))
    ys = list(range(0, 2 * ny + 1, 2))
    cells = [(i, j) for i in range(nx) for j in range(ny)]
    def operand(mask):
        faces = []
        for b, (i, j) in enumerate(cells):
            if mask >> b & 1:
                faces.append([(xs[i], ys[j]), (xs[i + 1], ys[j]), (xs[i + 1], ys[j + 1]), (xs[i], ys[j + 1])])
        return gen.rings_to_mpoly(gen.trace_faces(faces)) if faces else []
    ops = [operand(m) for m in range(1 << len(cells))]
    pairs = [("g1", a, b) for a in ops for b in ops]
    return plans.plan_core(prop, random.Random(0), pairs)


def large_cases(n):
    cases = []
    shapes = [
        ("comb-vs-stair", gen.comb(n // 8), gen.staircase(n // 4, 3, 1)),
        ("comb-vs-comb", gen.comb(n // 8), gen.map_mpoly(gen.comb(n // 8), lambda p: (p[1] // 2 + 2, p[0] * 2 + 1))),
        ("stair-self", gen.staircase(n // 4), gen.staircase(n // 4)),
    ]
    for name, a, b in shapes:
        c = Case("large-%s-%d" % (name, n), "g7")
        for op in OPS:
            c.run(bool_req("f64", op, False, 100 * n * n + 1000, "MM", a, b))
        cases.append(c)
    return cases


def f32_f64_cases(rng, pairs):
    cases = []
    for idx, (fam, a, b) in enumerate(pairs):
        a, b = plans.closed(a), plans.closed(b)
        c = Case("C10x-%s-%d" % (fam, idx), fam)
        for op in OPS:
            k32 = c.run(bool_req("f32", op, False, BUDGET, "MM", a, b))
            k64 = c.run(bool_req("f64", op, False, BUDGET, "MM", a, b))
            c.check("identicalifexact %d %d" % (k32, k64))
        cases.append(c)
    return cases


def scaled_cases(rng, pairs):
    """exact-arithmetic operand pairs scaled by powers of two across the f32 range: the f32 result must be the
    f64 result coordinate for coordinate (scaling by 2^k commutes with every rounding as long as nothing
    over- or underflows).  The last two scales reproduce the known finding N4."""
    cases = []
    scales = [-72, -60, -45, -38, -34, 34, 40, 50, 58]
    for idx, (fam, a, b) in enumerate(pairs):
        a, b = plans.closed(a), plans.closed(b)
        c = Case("C10s-%s-%d" % (fam, idx), fam)
        for k in rng.sample(scales, 3):
            f = Fraction(2) ** k
            a2 = gen.map_mpoly(a, lambda p: (p[0] * f, p[1] * f))
            b2 = gen.map_mpoly(b, lambda p: (p[0] * f, p[1] * f))
            for op in rng.sample(OPS, 2):
                k32 = c.run(bool_req("f32", op, False, BUDGET, "MM", a2, b2))
                k64 = c.run(bool_req("f64", op, False, BUDGET, "MM", a2, b2))
                c.check("identical %d %d" % (k32, k64))
        cases.append(c)
    sq = lambda x0, y0, x1, y1: [[[(x0, y0), (x1, y0), (x1, y1), (x0, y1), (x0, y0)]]]
    # operands whose edges never cross (nested, apart): no intersection point is computed, only orientations,
    # which the f32 code evaluates in f64 -- so the whole f32 exponent range must work, also with very
    # different magnitudes in one orientation triple
    for idx in range(max(2, len(pairs) // 4)):
        c = Case("C10n-%d" % idx, "g1")
        u, v = rng.randint(1, 3), rng.randint(1, 3)
        w, h = rng.randint(1, 4), rng.randint(1, 4)
        ring = lambda x0, y0, x1, y1: [(x0, y0), (x0, y1), (x1, y1), (x1, y0), (x0, y0)]
        shapes = [(sq(0, 0, 8, 8), sq(u, v, u + w, v + h)),
                  ([[sq(0, 0, 10, 10)[0][0], ring(1, 1, 9, 9)]], sq(u + 1, v + 1, u + 1 + w, v + 1 + h)),
                  (sq(0, 0, u + 1, 7), sq(u + 2 + w, v, u + 4 + w, v + h)),
                  (sq(0, 0, 8, 8) + sq(10, u, 12, u + h), sq(u, v, u + w, v + h) + sq(13, 0, 15, 3)),
                  (sq(0, 0, 2 ** 160, 2 ** 160), sq(u, v, u + w, v + h)),
                  (sq(0, 0, 2 ** 160, 2 ** 160), sq(u * 2 ** 150, v, (u + w) * 2 ** 150, v + 1))]
        for si, (a, b) in enumerate(shapes):
            ks = [-100] if si >= 4 else rng.sample([-120, -100, -90, -80, 70, 90, 100], 2)
            for k in ks:
                f = Fraction(2) ** k
                a2 = gen.map_mpoly(a, lambda p: (p[0] * f, p[1] * f))
                b2 = gen.map_mpoly(b, lambda p: (p[0] * f, p[1] * f))
                for op in rng.sample(OPS, 2):
                    k32 = c.run(bool_req("f32", op, False, BUDGET, "MM", a2, b2))
                    k64 = c.run(bool_req("f64", op, False, BUDGET, "MM", a2, b2))
                    c.check("identical %d %d" % (k32, k64))
                    c.check("region %d %s" % (k32, num.enc(0)))
        cases.append(c)
    # N4: beyond the range in which the cross products stay finite and non-zero
    c = Case("C10s-range", "g1")
    for k in (63, -80):
        f = Fraction(2) ** k
        a2 = gen.map_mpoly(sq(0, 0, 4, 4), lambda p: (p[0] * f, p[1] * f))
        b2 = gen.map_mpoly(sq(2, 2, 6, 6), lambda p: (p[0] * f, p[1] * f))
        k32 = c.run(bool_req("f32", "I", False, BUDGET, "MM", a2, b2))
        k64 = c.run(bool_req("f64", "I", False, BUDGET, "MM", a2, b2))
        c.check("identical %d %d" % (k32, k64))
    cases.append(c)
    return cases


# ---------------------------------------------------------------------------------------------
# function level: intersection and the pairwise step

def _pt(p):
    return "%s %s" % (num.enc(p[0]), num.enc(p[1]))


def _before(p, q):
    return (p[0], p[1]) < (q[0], q[1])


def _event(p, q, subj, cid):
    """left event of segment p-q (p must be the sweep-earlier endpoint)"""
    return "%s L %s %d %s" % (_pt(p), "S" if subj else "C", cid, _pt(q))


def _rand_seg(rng, kind, prec):
    if kind == "lat":
        while True:
            p = (rng.randint(0, 5), rng.randint(0, 5))
            q = (rng.randint(0, 5), rng.randint(0, 5))
            if p != q:
                return p, q
    if kind == "big":
        lim = (1 << 25) - 1 if prec == "f64" else (1 << 11)
        while True:
            p = (rng.randint(-lim, lim), rng.randint(-lim, lim))
            q = (rng.randint(-lim, lim), rng.randint(-lim, lim))
            if p != q:
                return p, q
    # floats
    def f():
        v = rng.uniform(-100, 100)
        if prec == "f32":
            import struct
            v = struct.unpack("f", struct.pack("f", v))[0]
        return v
    return (f(), f()), (f(), f())


def _collinear_pair(rng, prec):
    """two collinear lattice segments (vertical ones included): overlapping, touching in one end point, or
    apart with a gap between them"""
    d = rng.choice([(1, 0), (0, 1), (1, 1), (2, 1), (1, -1), (0, 1), (3, 2)])
    o = (rng.randint(-3, 3), rng.randint(-3, 3))
    m = rng.choice([1, 1, 1, 2, 7])
    ts = [m * t for t in sorted(rng.sample(range(-4, 9), 4))]
    mode = rng.choice(["nested", "chain", "sameleft", "sameright", "same", "touch", "touch", "gap", "gap"])
    if mode == "nested":
        s1, s2 = (ts[0], ts[3]), (ts[1], ts[2])
    elif mode == "chain":
        s1, s2 = (ts[0], ts[2]), (ts[1], ts[3])
    elif mode == "sameleft":
        s1, s2 = (ts[0], ts[2]), (ts[0], ts[3])
    elif mode == "sameright":
        s1, s2 = (ts[0], ts[3]), (ts[1], ts[3])
    elif mode == "same":
        s1, s2 = (ts[0], ts[3]), (ts[0], ts[3])
    elif mode == "gap":
        s1, s2 = (ts[0], ts[1]), (ts[2], ts[3])
    else:
        s1, s2 = (ts[0], ts[1]), (ts[1], ts[3])
    mk = lambda t: (o[0] + t * d[0], o[1] + t * d[1])
    a, b = (mk(s1[0]), mk(s1[1])), (mk(s2[0]), mk(s2[1]))
    if rng.random() < 0.5:
        a, b = b, a
    return a, b


def _near_corner_pair(rng, prec):
    """a long segment passing within a few ulps of the other segment's endpoint"""
    b1 = (rng.uniform(10, 60), rng.uniform(5, 20))
    b2 = (b1[0] + rng.uniform(5, 30), b1[1] + rng.uniform(1, 10))
    a1 = (rng.uniform(0, 5), rng.uniform(0, 3))
    t = rng.uniform(1.5, 3.0)
    target = b2 if rng.random() < 0.5 else b1
    a2 = (a1[0] + t * (target[0] - a1[0]), a1[1] + t * (target[1] - a1[1]))
    a2 = (gen._ulps(a2[0], rng.randint(-3, 3)), gen._ulps(a2[1], rng.randint(-3, 3)))
    if prec == "f32":
        import struct
        r = lambda v: struct.unpack("f", struct.pack("f", v))[0]
        a1, a2, b1, b2 = [(r(p[0]), r(p[1])) for p in (a1, a2, b1, b2)]
    return (a1, a2), (b1, b2)


def _r(prec, v):
    if prec == "f32":
        import struct
        return struct.unpack("f", struct.pack("f", v))[0]
    return v


def _near_vertical_pair(rng, prec):
    """a nearly vertical segment (x-extent of a few ulps, either sign of x) crossed by another one: the
    division point is clamped to the left endpoint's x, below it (corner case 1 of divide_segment)"""
    x0 = _r(prec, rng.choice([-1.0, 1.0, -3.5, 2.25, -0.0, 0.0, -1e-3, 7.0]) * rng.choice([1.0, 1.0, 0.5, 3.0]))
    k = rng.randint(1, 3)
    x1 = x0
    for _ in range(k):
        x1 = _r(prec, gen._ulps(x1, 1)) if prec == "f64" else _next32(x1)
    h = rng.choice([2.0, 3.0, 5.0])
    top_first = rng.random() < 0.5
    a = ((x0, h), (x1, -h)) if top_first else ((x0, -h), (x1, h))
    y = _r(prec, rng.uniform(-0.9, 0.9) * h)
    b = ((_r(prec, x0 - rng.uniform(0.5, 2)), y), (_r(prec, x0 + rng.uniform(0.5, 2)), _r(prec, y + rng.uniform(-0.5, 0.5))))
    return a, b


def _next32(v):
    import struct
    if v == 0.0:
        return struct.unpack("f", struct.pack("I", 1))[0] * 2.0 ** 100   # stay clear of subnormals
    bits = struct.unpack("I", struct.pack("f", v))[0]
    bits = bits + 1 if v > 0 else bits - 1
    return struct.unpack("f", struct.pack("I", bits))[0]


def _near_collinear_triple(rng, prec):
    """three points that are collinear up to the rounding of their coordinates (many significant bits)"""
    ax, ay = rng.uniform(-300, 300), rng.uniform(-300, 300)
    dx, dy = rng.uniform(-3, 3), rng.uniform(-3, 3)
    s, t = rng.uniform(0.1, 40), rng.uniform(-40, 40)
    a = (_r(prec, ax), _r(prec, ay))
    b = (_r(prec, ax + s * dx), _r(prec, ay + s * dy))
    c = (_r(prec, ax + t * dx), _r(prec, ay + t * dy))
    return a, b, c


def near_parallel_geometry(rng, big=True):
    """A = (0,0) -> (4L, 4k); B starts at a lattice point a hair above A's line and is a hair shallower, so that the
    two cross at an angle of about k d / (3 L^2) (1e-9 .. 1e-5 rad) well inside both segments (r < d)"""
    k = rng.randint(1, 4)
    L = k * rng.choice([2500, 10000, 25000, 250] if big else [250, 500])
    d = rng.choice([2, 3, 3, 5])
    r = rng.randint(1, d - 1)
    m = rng.randint(1, 2 * k)
    p1, q1 = (0, 0), (4 * L, 4 * k)
    p2 = (m * (L // k) - r, m)
    q2 = (p2[0] + 3 * L + d, p2[1] + 3 * k)
    return (p1, q1), (p2, q2), L


def _near_parallel_pair(rng, prec):
    (p1, q1), (p2, q2), _ = near_parallel_geometry(rng, big=(prec == "f64"))
    if rng.random() < 0.5:
        return (p2, q2), (p1, q1)
    return (p1, q1), (p2, q2)


def _tjunction_pair(rng, prec):
    """an endpoint of one lattice segment lies in the interior of the other (directions up to 30 units per step)"""
    big = rng.random() < 0.5
    dx, dy = (rng.randint(-30, 30), rng.randint(-30, 30)) if big else (rng.randint(-3, 3), rng.randint(-3, 3))
    if dx == 0 and dy == 0:
        dx = 1
    k = rng.randint(2, 9) if big else rng.randint(2, 60)
    a0 = (rng.randint(-10, 10), rng.randint(-10, 10))
    a1 = (a0[0] + k * dx, a0[1] + k * dy)
    j = rng.randint(1, k - 1)
    p = (a0[0] + j * dx, a0[1] + j * dy)
    while True:
        b0 = (rng.randint(-40, 40), rng.randint(-40, 40))
        if b0 != p:
            break
    if rng.random() < 0.5:
        return (a0, a1), (b0, p)
    return (b0, p), (a0, a1)


def function_cases(rng, n, prec="f64", dbg=False):
    cases = []
    per = 25
    for ci in range(max(1, n // per)):
        c = Case("fn-%s-%d%s" % (prec, ci, "-dbg" if dbg else ""), "fn")
        if not dbg:
            for _ in range(30):
                a, b, cc = _near_collinear_triple(rng, prec)
                c.run("ORIENT %s %s %s %s" % (prec, _pt(a), _pt(b), _pt(cc)))
                c.run("ORIENT %s %s %s %s" % (prec, _pt(b), _pt(cc), _pt(a)))
            for v in [0.0, -0.0, 1.0, -1.0, 2.0 ** rng.randint(-20, 20), -(2.0 ** rng.randint(-20, 20)), rng.uniform(-100, 100), rng.uniform(-1e-3, 1e-3)]:
                c.run("NEXTAFTER %s %s" % (prec, num.enc(_r(prec, v))))
        for _ in range(per):
            kind = rng.choice(["lat", "lat", "big", "float", "collinear", "collinear", "corner", "shared", "nearvert", "nearvert", "nearpar", "nearpar", "tjunction", "tjunction"])
            if kind == "nearvert":
                (p1, q1), (p2, q2) = _near_vertical_pair(rng, prec)
            elif kind == "nearpar":
                (p1, q1), (p2, q2) = _near_parallel_pair(rng, prec)
            elif kind == "tjunction":
                (p1, q1), (p2, q2) = _tjunction_pair(rng, prec)
            elif kind == "collinear":
                (p1, q1), (p2, q2) = _collinear_pair(rng, prec)
            elif kind == "corner":
                (p1, q1), (p2, q2) = _near_corner_pair(rng, prec)
            elif kind == "shared":
                p1, q1 = _rand_seg(rng, "lat", prec)
                p2, q2 = rng.choice([p1, q1]), _rand_seg(rng, "lat", prec)[0]
                if p2 == q2:
                    continue
            else:
                p1, q1 = _rand_seg(rng, kind, prec)
                p2, q2 = _rand_seg(rng, kind, prec)
            if not dbg:
                c.run("ISECT %s %s %s %s %s" % (prec, _pt(p1), _pt(q1), _pt(p2), _pt(q2)))
                c.run("ISECT %s %s %s %s %s" % (prec, _pt(p2), _pt(q2), _pt(p1), _pt(q1)))
                c.run("ORIENT %s %s %s %s" % (prec, _pt(p1), _pt(q1), _pt(p2)))
            if not _before(p1, q1):
                p1, q1 = q1, p1
            if not _before(p2, q2):
                p2, q2 = q2, p2
            s1 = rng.random() < 0.5
            s2 = (not s1) if rng.random() < 0.8 else s1
            io1, io2 = rng.randint(0, 1), rng.randint(0, 1)
            body = "%s %d %s %d" % (_event(p1, q1, s1, 1), io1, _event(p2, q2, s2, 2), io2)
            k = c.run("PI %s %d %s" % (prec, 1 if dbg else 0, body))
            integer = all(isinstance(v, int) for p in (p1, q1, p2, q2) for v in p)
            if integer and not dbg:
                kx = c.run("XPI exact 0 %s" % body)
                c.check("pyc16 %d %d" % (k, kx))
        cases.append(c)
    return cases


def tjunction_cases(rng, n, prec="f64"):
    """a large batch of lattice T-junctions for the pairwise step: the endpoint detection (s or t exactly 0 or
    1) decides whether the shared point is reused or recomputed; a recomputed point is off by an ulp only in
    a fraction of a percent of the configurations, so many are needed"""
    cases = []
    per = 100
    for ci in range(max(1, n // per)):
        c = Case("tj-%s-%d" % (prec, ci), "fn")
        for _ in range(per):
            (p1, q1), (p2, q2) = _tjunction_pair(rng, prec)
            if not _before(p1, q1):
                p1, q1 = q1, p1
            if not _before(p2, q2):
                p2, q2 = q2, p2
            s1 = rng.random() < 0.5
            body = "%s %d %s %d" % (_event(p1, q1, s1, 1), 0, _event(p2, q2, not s1, 2), 0)
            k = c.run("PI %s 0 %s" % (prec, body))
            kx = c.run("XPI exact 0 %s" % body)
            c.check("pyc16 %d %d" % (k, kx))
        cases.append(c)
    return cases


def cmp_oracle(case):
    """python side of C15 / C10 for `pycmp k`: two left events at one point whose segments are not collinear
    are ordered by the exact orientation of (point, other1, other2) (`C15_cmp_angular`): the lower segment
    is processed first"""
    out = []
    for i, ch in enumerate(case.checks):
        if not ch.startswith("pycmp "):
            continue
        k = ch.split()[1]
        t = case.reqs.get(k, "").split()
        impl = case.impl.get(k, "")
        if len(t) != 16 or t[0] != "CMPEV" or t[4] != "L" or t[11] != "L" or (t[2], t[3]) != (t[9], t[10]):
            continue
        P = (num.dec(t[2]), num.dec(t[3]))
        A = (num.dec(t[7]), num.dec(t[8]))
        B = (num.dec(t[14]), num.dec(t[15]))
        o = (P[0] - B[0]) * (A[1] - B[1]) - (P[1] - B[1]) * (A[0] - B[0])
        if o == 0:
            continue
        want = "Greater" if o > 0 else "Less"
        if impl.split()[:1] != [want]:
            out.append((i, "events at one point ordered against the exact orientation: got %s, the exact order is %s" % (impl[:20], want)))
    # `pyevanti k1 k2`: the event order is antisymmetric on two events of different operands
    # (`C15_cmp_antisymmetric`: the last tie-break puts the subject first)
    for i, ch in enumerate(case.checks):
        if not ch.startswith("pyevanti"):
            continue
        _, k1, k2 = ch.split()
        t = case.reqs.get(k1, "").split()
        if len(t) != 16 or t[0] != "CMPEV" or t[5] == t[12]:
            continue
        r1, r2 = case.impl.get(k1, "").split()[:1], case.impl.get(k2, "").split()[:1]
        opposite = {"Less": "Greater", "Greater": "Less"}
        if r1 and r2 and (r1[0] not in opposite or r2 != [opposite[r1[0]]]):
            out.append((i, "the event order is not antisymmetric on two events of different operands: (a,b) gives %s, (b,a) gives %s" % (r1[0], r2[0] if r2 else "?")))
    # `pyseg k`: the vertical order of two segments at the abscissa where the later one starts, wherever that
    # order is strict (exact rational arithmetic): compare_segments must say the lower one is below
    for i, ch in enumerate(case.checks):
        if not ch.startswith("pyseg "):
            continue
        k = ch.split()[1]
        t = case.reqs.get(k, "").split()
        if len(t) != 17 or t[0] != "CMPSEG":
            continue
        P1 = (num.dec(t[3]), num.dec(t[4])); A1 = (num.dec(t[8]), num.dec(t[9]))
        P2 = (num.dec(t[10]), num.dec(t[11])); A2 = (num.dec(t[15]), num.dec(t[16]))
        x0 = max(P1[0], P2[0])
        if x0 > min(A1[0], A2[0]):
            continue
        def span(P, A):
            if P[0] == A[0]:
                return (min(P[1], A[1]), max(P[1], A[1]))
            y = P[1] + (A[1] - P[1]) * (x0 - P[0]) / (A[0] - P[0])
            return (y, y)
        lo1, hi1 = span(P1, A1)
        lo2, hi2 = span(P2, A2)
        want = "Less" if hi1 < lo2 else "Greater" if hi2 < lo1 else None
        if want is None:
            continue
        got = case.impl.get(k, "").split()[:1]
        if got and got[0] in ("Less", "Greater", "Equal") and got[0] != want:
            out.append((i, "compare_segments puts the segments in the wrong vertical order at x = %s: got %s, the exact order is %s" % (x0, got[0], want)))
    # `pyanti k1 k2`: compare_segments(a, b) and compare_segments(b, a) are opposite wherever the event order
    # of the two left events is antisymmetric (`C15_compareSegments_antisymmetric`): not for two collinear
    # segments of one operand starting in one point
    for i, ch in enumerate(case.checks):
        if not ch.startswith("pyanti"):
            continue
        _, k1, k2 = ch.split()
        t = case.reqs.get(k1, "").split()
        if len(t) != 17 or t[0] != "CMPSEG":
            continue
        P1 = (num.dec(t[3]), num.dec(t[4])); A1 = (num.dec(t[8]), num.dec(t[9])); op1 = t[6]
        P2 = (num.dec(t[10]), num.dec(t[11])); A2 = (num.dec(t[15]), num.dec(t[16])); op2 = t[13]
        if (P1, A1, op1, t[7]) == (P2, A2, op2, t[14]):
            continue
        o = (P1[0] - A2[0]) * (A1[1] - A2[1]) - (P1[1] - A2[1]) * (A1[0] - A2[0])
        if P1 == P2 and o == 0 and op1 == op2:
            continue
        r1, r2 = case.impl.get(k1, "").split()[:1], case.impl.get(k2, "").split()[:1]
        opposite = {"Less": "Greater", "Greater": "Less", "Equal": "Equal"}
        if r1 and r2 and r1[0] in opposite and r2 != [opposite[r1[0]]]:
            out.append((i, "compare_segments is not antisymmetric on this pair: (a,b) gives %s, (b,a) gives %s" % (r1[0], r2[0] if r2 else "?")))
    return out


def c16_oracle(case):
    """python side of C16 on integer inputs: the implementation's classification (return code, which
    segments were split, how many events were queued) must equal the exact model's, and the division
    points must coincide with the exact ones up to rounding."""
    out = []
    for i, ch in enumerate(case.checks):
        if not ch.startswith("pyc16"):
            continue
        _, k, kx = ch.split()
        impl, ref = case.impl.get(k, ""), case.model.get(kx, "")
        if not impl.startswith("OK") or not ref.startswith("OK"):
            if impl.split(" ")[0] != ref.split(" ")[0]:
                out.append((i, "outcome differs from exact arithmetic: %s vs %s" % (impl[:60], ref[:60])))
            continue
        a, b = impl.split(" | "), ref.split(" | ")
        if a[0].split()[1] != b[0].split()[1]:
            out.append((i, "return code %s but exact arithmetic gives %s" % (a[0], b[0])))
            continue
        if len(a) != len(b):
            out.append((i, "different number of events than under exact arithmetic"))
            continue
        for x, y in zip(a[1:], b[1:]):
            xt, yt = x.split(), y.split()
            if xt[0] == "Q":
                if xt != yt:
                    out.append((i, "queue sizes differ"))
                continue
            # flags must be equal, coordinates close
            if xt[4:] != yt[4:]:
                out.append((i, "event flags differ from exact arithmetic: %s vs %s" % (x, y)))
                break
            for u, v in zip(xt[:4], yt[:4]):
                if u == "-" or v == "-":
                    continue
                fu, fv = num.dec(u), num.dec(v)
                if abs(fu - fv) > Fraction(1, 10 ** 9) * max(1, abs(fv)):
                    out.append((i, "division point %s is not within tolerance of the exact point %s" % (u, v)))
                    break
    return out


# ---------------------------------------------------------------------------------------------
# orders

def _egcd(a, b):
    if b == 0:
        return a, 1, 0
    g, x, y = _egcd(b, a % b)
    return g, y, x - (a // b) * y


def _parallel_close(rng):
    """two parallel integer segments exactly 1/|a| apart with about 27 significant bits per coordinate"""
    while True:
        a = rng.randint(1 << 26, 1 << 28)
        b = rng.randint(1 << 26, 1 << 28)
        g, x, y = _egcd(b, a)          # x*b + y*a = 1
        if g == 1:
            break
    ex, ey = x, -y                      # ex*b - ey*a = 1
    s = rng.choice([1, 1, -1])
    return ((0, 0), (a, b)), ((s * ex, s * ey), (s * ex + a, s * ey + b))


def _near_collinear_events(rng):
    """three nearly collinear integer points with about 27 significant bits: an x-extremal vertex of a sliver"""
    m = 1 << rng.choice([26, 27, 28])
    p = (0, 0)
    a = (m + rng.randint(0, 3), m + rng.randint(0, 3))
    b = (m + rng.randint(0, 3), m + rng.randint(0, 3))
    if a == b:
        b = (b[0] + 1, b[1])
    return p, a, b


def _f32(x):
    import struct
    return Fraction(struct.unpack("f", struct.pack("f", float(x)))[0])


def _near_collinear_f32(rng):
    """P (magnitude ~1000), A anywhere, B of magnitude 1..50 within a few f32 ulps of B of the line P A: the
    orientation of (P, A, B) is decided by bits that an f32 subtraction `B - P` would round away"""
    while True:
        P = (_f32(rng.uniform(500, 2000) * rng.choice([1, -1])), _f32(rng.uniform(500, 2000) * rng.choice([1, -1])))
        B0 = (rng.uniform(1, 50), rng.uniform(1, 50))
        t = rng.uniform(1.2, 3.0) if rng.random() < 0.5 else rng.uniform(0.3, 0.8)
        A = (_f32(float(P[0]) + (B0[0] - float(P[0])) * t), _f32(float(P[1]) + (B0[1] - float(P[1])) * t))
        if A == P:
            continue
        # the point of the line P A nearest to B0 in x, then a few ulps of jiggle
        dx, dy = A[0] - P[0], A[1] - P[1]
        if dx == 0:
            continue
        bx = _f32(B0[0])
        by_exact = P[1] + dy * (bx - P[0]) / dx
        by = _f32(by_exact)
        import struct
        bits = struct.unpack("i", struct.pack("f", float(by)))[0] + rng.randint(-3, 3)
        by = Fraction(struct.unpack("f", struct.pack("i", bits))[0])
        B = (bx, by)
        if B != P and B != A:
            return P, A, B


def order_cases_f32(rng, n):
    """f32 comparisons of events / segments sharing their left endpoint, nearly collinear, with the far
    endpoints of very different magnitude (seed C10-3)"""
    cases = []
    per = 40
    for ci in range(max(1, n // per)):
        c = Case("ord32-%d" % ci, "fn")
        for _ in range(per):
            P, A, B = _near_collinear_f32(rng)
            if not (_before(P, A) and _before(P, B)):
                # use the sweep-earlier endpoint as the event point where possible
                if _before(A, P) and _before(B, P):
                    for (s1, s2) in ((True, False), (True, True)):
                        c.run("CMPEV f32 %s %s" % (_event(A, P, s1, 1).replace(" L ", " L "), _event(B, P, s2, 2)))
                    continue
                continue
            for (s1, s2) in ((True, False), (True, True)):
                e1, e2 = _event(P, A, s1, 1), _event(P, B, s2, 2)
                k1 = c.run("CMPEV f32 %s %s" % (e1, e2))
                k2 = c.run("CMPEV f32 %s %s" % (e2, e1))
                c.check("pycmp %d" % k1)
                c.check("pycmp %d" % k2)
                ka = c.run("CMPSEG f32 0 %s %s" % (e1, e2))
                kb = c.run("CMPSEG f32 0 %s %s" % (e2, e1))
                c.check("pyanti %d %d" % (ka, kb))
            c.run("ORIENT f32 %s %s %s" % (_pt(P), _pt(A), _pt(B)))
        cases.append(c)
    return cases


def order_cases(rng, n):
    cases = []
    per = 40
    for ci in range(max(1, n // per)):
        c = Case("ord-%d" % ci, "fn")
        for _ in range(4):
            (a0, a1), (b0, b1) = _parallel_close(rng)
            for (s1, s2) in ((True, False), (False, True)):
                e1 = _event(a0, a1, s1, 1) if _before(a0, a1) else _event(a1, a0, s1, 1)
                e2 = _event(b0, b1, s2, 2) if _before(b0, b1) else _event(b1, b0, s2, 2)
                ka = c.run("CMPSEG f64 0 %s %s" % (e1, e2))
                kb = c.run("CMPSEG f64 0 %s %s" % (e2, e1))
                c.check("pyanti %d %d" % (ka, kb))
                c.check("pyseg %d" % ka)
                c.check("pyseg %d" % kb)
            p, a, b = _near_collinear_events(rng)
            for (s1, s2) in ((True, True), (True, False)):
                k1 = c.run("CMPEV f64 %s %s" % (_event(p, a, s1, 1), _event(p, b, s2, 2)))
                k2 = c.run("CMPEV f64 %s %s" % (_event(p, b, s2, 2), _event(p, a, s1, 1)))
                c.check("pycmp %d" % k1)
                c.check("pycmp %d" % k2)
        for _ in range(per):
            kind = rng.choice(["lat", "lat", "lat", "float", "big"])
            p1, q1 = _rand_seg(rng, kind, "f64")
            if rng.random() < 0.5:
                p2 = rng.choice([p1, q1])
                q2 = _rand_seg(rng, kind, "f64")[0]
                if q2 == p2:
                    continue
            else:
                p2, q2 = _rand_seg(rng, kind, "f64")
            s1, s2 = rng.random() < 0.5, rng.random() < 0.5
            def ev(p, q, s, cid):
                left = _before(p, q)
                return "%s %s %s %d %s" % (_pt(p), "L" if left else "R", "S" if s else "C", cid, _pt(q))
            c.run("CMPEV f64 %s %s" % (ev(p1, q1, s1, 1), ev(p2, q2, s2, 2)))
            c.run("CMPEV f64 %s %s" % (ev(p2, q2, s2, 2), ev(p1, q1, s1, 1)))
            c.run("CMPEV f64 %s %s" % (ev(q1, p1, s1, 1), ev(p2, q2, s2, 2)))
            a, b = (p1, q1) if _before(p1, q1) else (q1, p1)
            cc, d = (p2, q2) if _before(p2, q2) else (q2, p2)
            cid2 = rng.choice([1, 2, 3])
            ka = c.run("CMPSEG f64 0 %s %s" % (_event(a, b, s1, 2), _event(cc, d, s2, cid2)))
            kb = c.run("CMPSEG f64 0 %s %s" % (_event(cc, d, s2, cid2), _event(a, b, s1, 2)))
            c.check("pyanti %d %d" % (ka, kb))
            c.check("pyseg %d" % ka)
            c.check("pyseg %d" % kb)
            c.run("CMPSEG f64 1 %s" % _event(a, b, s1, 2))
        for _ in range(6):
            # two events at one point, different operands: both segments vertical, both with the same far end,
            # one vertical; left events and right events
            p = (rng.randint(-3, 3), rng.randint(-3, 3))
            kind = rng.choice(["vv", "same", "v1", "any"])
            sgn = rng.choice([1, -1])
            if kind == "vv":
                q1, q2 = (p[0], p[1] + sgn * rng.randint(1, 4)), (p[0], p[1] + sgn * rng.randint(1, 4))
            elif kind == "same":
                q1 = (p[0] + sgn * rng.randint(1, 4), p[1] + rng.randint(-3, 3))
                q2 = q1
            elif kind == "v1":
                q1, q2 = (p[0], p[1] + sgn * rng.randint(1, 4)), (p[0] + sgn * rng.randint(0, 3), p[1] + sgn * rng.randint(1, 4))
            else:
                q1 = (p[0] + sgn * rng.randint(1, 4), p[1] + rng.randint(-3, 3))
                q2 = (p[0] + sgn * rng.randint(1, 4), p[1] + rng.randint(-3, 3))
            def evp(pp, qq, subj, cid):
                return "%s %s %s %d %s" % (_pt(pp), "L" if _before(pp, qq) else "R", "S" if subj else "C", cid, _pt(qq))
            e1, e2 = evp(p, q1, True, 1), evp(p, q2, False, 2)
            k1 = c.run("CMPEV f64 %s %s" % (e1, e2))
            k2 = c.run("CMPEV f64 %s %s" % (e2, e1))
            c.check("pyevanti %d %d" % (k1, k2))
        for _ in range(8):
            # T-junctions: an end point of one segment in the interior of the other
            (p1, q1), (p2, q2) = _tjunction_pair(rng, "f64")
            if not _before(p1, q1):
                p1, q1 = q1, p1
            if not _before(p2, q2):
                p2, q2 = q2, p2
            s1, s2 = rng.random() < 0.5, rng.random() < 0.5
            ka = c.run("CMPSEG f64 0 %s %s" % (_event(p1, q1, s1, 1), _event(p2, q2, s2, 2)))
            kb = c.run("CMPSEG f64 0 %s %s" % (_event(p2, q2, s2, 2), _event(p1, q1, s1, 1)))
            c.check("pyanti %d %d" % (ka, kb))
            c.check("pyseg %d" % ka)
            c.check("pyseg %d" % kb)
        for _ in range(6):
            # collinear segments of one operand apart from each other (vertical ones included), with the
            # contour ids in either order: never on the sweep line together, but the order is still defined
            d = rng.choice([(0, 1), (0, 1), (1, 0), (1, 1), (2, -1)])
            o = (rng.randint(-3, 3), rng.randint(-3, 3))
            ts = sorted(rng.sample(range(-4, 9), 4))
            mk = lambda tt: (o[0] + tt * d[0], o[1] + tt * d[1])
            sa, sb = (mk(ts[0]), mk(ts[1])), (mk(ts[2]), mk(ts[3]))
            sa = sa if _before(*sa) else (sa[1], sa[0])
            sb = sb if _before(*sb) else (sb[1], sb[0])
            subj = rng.random() < 0.5
            c1, c2 = rng.choice([(1, 2), (2, 1), (1, 1)])
            ka = c.run("CMPSEG f64 0 %s %s" % (_event(sa[0], sa[1], subj, c1), _event(sb[0], sb[1], subj, c2)))
            kb = c.run("CMPSEG f64 0 %s %s" % (_event(sb[0], sb[1], subj, c2), _event(sa[0], sa[1], subj, c1)))
            c.check("pyanti %d %d" % (ka, kb))
            c.check("pyseg %d" % ka)
            c.check("pyseg %d" % kb)
        cases.append(c)
    return cases


def exhaustive_order_cases():
    """every pair of segments on the 4x4 lattice with all flag combinations (thorough tier)"""
    pts = [(x, y) for x in range(4) for y in range(4)]
    segs = [(p, q) for p in pts for q in pts if _before(p, q)]
    cases = []
    c = None
    cnt = 0
    for (a, b) in segs:
        for (cc, d) in segs:
            if cnt % 200 == 0:
                c = Case("ordx-%d" % (cnt // 200), "fn")
                cases.append(c)
            cnt += 1
            for s1, s2 in ((True, True), (True, False), (False, True)):
                c.run("CMPSEG f64 0 %s %s" % (_event(a, b, s1, 1), _event(cc, d, s2, 2)))
                c.run("CMPEV f64 %s %s" % (_event(a, b, s1, 1), _event(cc, d, s2, 2)))
    return cases


def orderlaw_cases(rng, pairs):
    cases = []
    for idx, (fam, a, b) in enumerate(pairs):
        a, b = plans.closed(a), plans.closed(b)
        c = Case("laws-%s-%d" % (fam, idx), fam)
        k0 = c.run(bool_req("f64", "U", False, BUDGET, "MM", a, b))
        plans.operand_checks(c, k0)
        for op in ("U", "I"):
            c.run("ORDLAWS f64 %s %d %s %s" % (op, min(BUDGET, budget_for(a, b)), num.enc_mpoly(a), num.enc_mpoly(b)))
        cases.append(c)
    return cases


# ---------------------------------------------------------------------------------------------
# sweep level (C13 / C14)

def sweep_cases(prop, rng, pairs):
    cases = []
    for idx, (fam, a, b) in enumerate(pairs):
        a, b = plans.closed(a), plans.closed(b)
        tol = plans.tol_for(fam, a, b)
        t = num.enc(tol)
        c = Case("%s-%s-%d" % (prop, fam, idx), fam)
        k0 = c.run(bool_req("f64", "U", False, BUDGET, "MM", a, b))
        plans.operand_checks(c, k0)
        if prop == "C13":
            k = c.run(fillq_req("f64", "U", a, b))
            c.check("fillq %d" % k)
            k = c.run(fillq_req("f64", "D", a, b))
            c.check("fillq %d" % k)
        for op in OPS:
            k = c.run(subdiv_req("f64", op, False, BUDGET, a, b))
            if prop == "C13":
                c.check("planar %d %s %s" % (k, t, "full" if op in ("U", "X") else "prefix"))
            else:
                c.check("flags %d %s" % (k, t))
        cases.append(c)
    return cases


def compute_fields_table():
    cases = []
    ets = ["N", "NC", "ST", "DT"]
    c = None
    cnt = 0
    for op in OPS:
        for ev_subj in (0, 1):
            for ev_et in ets:
                reqs = ["CF %s %d %s 0" % (op, ev_subj, ev_et)]
                for p_subj, p_io, p_oio, p_vert, p_pir in itertools.product((0, 1), repeat=5):
                    for p_et in ets:
                        for p_rt in ("0", "IO", "OI"):
                            reqs.append("CF %s %d %s 1 %d %d %d %d %s %d %s" % (op, ev_subj, ev_et, p_subj, p_io, p_oio, p_vert, p_et, p_pir, p_rt))
                for r in reqs:
                    if cnt % 400 == 0:
                        c = Case("cf-%d" % (cnt // 400), "table")
                        cases.append(c)
                    cnt += 1
                    c.run(r)
    return cases


# ---------------------------------------------------------------------------------------------
# splay histories

def _hist(rng, universe, length, kind):
    toks = []
    for _ in range(length):
        k = rng.randint(0, universe - 1)
        r = rng.random()
        if kind == "map":
            if r < 0.30: toks.append("i%d" % k)
            elif r < 0.45: toks.append("r%d" % k)
            elif r < 0.52: toks.append("g%d" % k)
            elif r < 0.56: toks.append("G%d" % k)
            elif r < 0.59: toks.append("x%d" % k)
            elif r < 0.66: toks.append("f%d" % k)
            elif r < 0.70: toks.append("c%d" % k)
            elif r < 0.78: toks.append("n%d" % k)
            elif r < 0.86: toks.append("p%d" % k)
            elif r < 0.89: toks.append("m")
            elif r < 0.92: toks.append("M")
            elif r < 0.94: toks.append("L")
            elif r < 0.955: toks.append("D")
            elif r < 0.97: toks.append("E" + ",".join(str(rng.randint(0, universe - 1)) for _ in range(rng.randint(1, 4))))
            elif r < 0.98: toks.append("C")
            else: toks.append("I" + "".join(rng.choice("fb") for _ in range(rng.randint(0, universe + 1))))
        else:
            if r < 0.32: toks.append("i%d" % k)
            elif r < 0.48: toks.append("r%d" % k)
            elif r < 0.56: toks.append("f%d" % k)
            elif r < 0.62: toks.append("c%d" % k)
            elif r < 0.72: toks.append("n%d" % k)
            elif r < 0.82: toks.append("p%d" % k)
            elif r < 0.86: toks.append("m")
            elif r < 0.90: toks.append("M")
            elif r < 0.93: toks.append("L")
            elif r < 0.96: toks.append("E" + ",".join(str(rng.randint(0, universe - 1)) for _ in range(rng.randint(1, 4))))
            elif r < 0.975: toks.append("C")
            else: toks.append("I" + "".join(rng.choice("fb") for _ in range(rng.randint(0, universe + 1))))
    return toks


def splay_cases(rng, n, quick):
    cases = []
    per = 20
    for ci in range(max(1, n // per)):
        c = Case("splay-%d" % ci, "splay")
        for _ in range(per):
            universe = rng.choice([3, 5, 8, 8, 16, 40])
            length = rng.choice([8, 20, 40, 120])
            cmpn = rng.choice(["nat", "nat", "rev", "mod7"])
            if rng.random() < 0.6:
                c.run("SPLAYMAP %s %s D L" % (cmpn, " ".join(_hist(rng, universe, length, "map"))))
            else:
                c.run("SPLAYSET %s %s L" % (cmpn, " ".join(_hist(rng, universe, length, "set"))))
        cases.append(c)
    # structured: monotone / zig-zag builds followed by removals of two-child nodes and mixed iteration
    c = Case("splay-structured", "splay")
    for nkeys in (1, 2, 3, 7, 31, 200):
        for order in ("mono", "rev", "zig"):
            ks = list(range(nkeys))
            if order == "rev":
                ks.reverse()
            elif order == "zig":
                ks = [ks[i // 2] if i % 2 == 0 else ks[-1 - i // 2] for i in range(nkeys)]
            ins = " ".join("i%d" % k for k in ks)
            mid = nkeys // 2
            c.run("SPLAYMAP nat %s D f%d r%d D n%d p%d L I%s" % (ins, mid, mid, mid, mid, "fb" * (nkeys // 2 + 1)))
            c.run("SPLAYSET nat %s f%d f0 f%d r%d n%d p%d L I%s" % (ins, mid, nkeys - 1, mid, mid, mid, "ffb" * (nkeys // 3 + 1)))
    cases.append(c)
    return cases


def _cmp_key(name):
    import functools
    if name == "rev":
        return functools.cmp_to_key(lambda a, b: (b > a) - (b < a))
    if name == "mod7":
        return lambda k: (k % 7, k)
    return lambda k: k


def splay_reference(req):
    """C17's reference: a sorted association list evaluated on the request; returns the expected answer
    tokens (None for tokens whose value is not determined by the map semantics, i.e. the tree shape)."""
    toks = req.split()
    kind, cmpn, ops = toks[0], toks[1], toks[2:]
    key = _cmp_key(cmpn)
    m = {}
    out = []
    opn = 0
    def order():
        return sorted(m, key=key)
    for tk in ops:
        opn += 1
        c, arg = tk[0], tk[1:]
        k = int(arg) if arg.lstrip("-").isdigit() else 0
        o = lambda v: "-" if v is None else str(v)
        ismap = kind == "SPLAYMAP"
        if c == "i":
            old = m.get(k)
            had = k in m
            m[k] = opn if ismap else True
            out.append("i" + (o(old) if ismap else ("0" if had else "1")))
        elif c == "r":
            had = k in m
            old = m.pop(k, None)
            out.append("r" + (o(old) if ismap else ("1" if had else "0")))
        elif c == "g":
            out.append("g" + o(m.get(k)))
        elif c == "G":
            if k in m:
                m[k] += 1000
                out.append("G%d" % m[k])
            else:
                out.append("G-")
        elif c == "x":
            out.append("x%d" % m[k] if k in m else "xPANIC")
        elif c == "f":
            out.append("f%d" % k if k in m else "f-")
        elif c == "c":
            out.append("c1" if k in m else "c0")
        elif c in ("n", "p"):
            ks = order()
            kk = key(k)
            if c == "n":
                cand = [x for x in ks if key(x) > kk]
                r = cand[0] if cand else None
            else:
                cand = [x for x in ks if key(x) < kk]
                r = cand[-1] if cand else None
            if r is None:
                out.append(c + "-")
            else:
                out.append("%s%d=%d" % (c, r, m[r]) if ismap else "%s%d" % (c, r))
        elif c in ("m", "M"):
            ks = order()
            out.append(c + (str(ks[0] if c == "m" else ks[-1]) if ks else "-"))
        elif c == "C":
            m.clear()
            out.append("C")
        elif c == "L":
            out.append("L%d/%d" % (len(m), 1 if not m else 0))
        elif c == "E":
            for j, x in enumerate(int(v) for v in arg.split(",") if v):
                m[x] = (opn * 100 + j) if ismap else True
            out.append("E")
        elif c == "D":
            out.append(None)
        elif c == "I":
            ks = order()
            s_ = "I"
            for ch in arg:
                rem = len(ks)
                if ks:
                    x = ks.pop(0) if ch == "f" else ks.pop()
                    s_ += ("%s%d=%d#%d/%d," % (ch, x, m[x], rem, rem)) if ismap else ("%s%d#%d/%d," % (ch, x, rem, rem))
                else:
                    s_ += "%s-#%d/%d," % (ch, rem, rem)
            m.clear()
            out.append(s_)
        else:
            out.append(None)
    return out


def c17_oracle(case):
    """every answer of the real tree against the reference sorted map; `@moved` marks a key whose address
    changed while it was stored (reference stability)"""
    out = []
    for k, req in case.reqs.items():
        if not req.startswith("SPLAY"):
            continue
        impl = case.impl.get(k, "")
        if "@moved" in impl:
            out.append((k, "a stored key changed its address between two lookups (reference stability)"))
            continue
        if not impl.startswith("OK"):
            out.append((k, "history did not complete: %s" % impl[:80]))
            continue
        got = impl.split()[1:]
        exp = splay_reference(req)
        if len(got) != len(exp):
            out.append((k, "number of answers differs from the reference"))
            continue
        for i, (g, e) in enumerate(zip(got, exp)):
            if e is not None and g != e:
                out.append((k, "operation #%d (%s): tree answered %s, reference sorted map %s" % (i + 1, req.split()[2 + i], g, e)))
                break
    return out


def function_oracle(case):
    """independent references for the two numeric helpers: the orientation sign from exact rational
    arithmetic, and nextafter from the IEEE-754 bit pattern"""
    import struct
    out = []
    for k, req in case.reqs.items():
        t = req.split()
        impl = case.impl.get(k, "")
        if t[0] == "ORIENT":
            pts = [num.dec(v) for v in t[2:8]]
            (ax, ay, bx, by, cx, cy) = pts
            d = (ax - cx) * (by - cy) - (ay - cy) * (bx - cx)
            want = "+" if d > 0 else ("-" if d < 0 else "0")
            if impl != want:
                out.append((k, "orientation sign is %s but the exact sign is %s" % (impl, want)))
        elif t[0] == "NEXTAFTER" and impl.startswith("OK"):
            x = float(num.dec(t[2]))
            neg_zero = t[2].startswith("-0:")
            if t[1] == "f64":
                up, down = math.nextafter(x, math.inf), math.nextafter(x, -math.inf)
            else:
                def step(v, direction):
                    if v == 0.0:
                        tiny = struct.unpack("f", struct.pack("I", 1))[0]
                        return tiny if direction > 0 else -tiny
                    bits = struct.unpack("I", struct.pack("f", v))[0]
                    bits = bits + 1 if (v > 0) == (direction > 0) else bits - 1
                    return struct.unpack("f", struct.pack("I", bits))[0]
                up, down = step(x, 1), step(x, -1)
            want = "OK %s %s" % (num.enc(up).replace("-0:0", "0:0"), num.enc(down).replace("-0:0", "0:0"))
            if impl != want:
                out.append((k, "nextafter(%s%s) gave %s, IEEE-754 neighbours are %s" % ("-0.0 = " if neg_zero else "", t[2], impl[3:], want[3:])))
    return out


def c16_box_oracle(case):
    """containment clause of C16 for every pair (floats included): all events created by the pairwise step
    lie in the bounding boxes of both segments"""
    out = []
    for k, req in case.reqs.items():
        t = req.split()
        if t[0] != "PI":
            continue
        impl = case.impl.get(k, "")
        if not impl.startswith("OK code=1"):
            continue
        try:
            # PI prec dbg  x y L S cid ox oy io  x y L S cid ox oy io
            c = [num.dec(v) for v in (t[3], t[4], t[8], t[9], t[11], t[12], t[16], t[17])]
        except Exception:
            continue
        b1 = (min(c[0], c[2]), min(c[1], c[3]), max(c[0], c[2]), max(c[1], c[3]))
        b2 = (min(c[4], c[6]), min(c[5], c[7]), max(c[4], c[6]), max(c[5], c[7]))
        parts = impl.split(" | ")
        qi = [i for i, p in enumerate(parts) if p.startswith("Q ")]
        if not qi:
            continue
        bump = "bumps=0" not in parts[0]
        for ev in parts[qi[0] + 1:]:
            e = ev.split()
            x, y = num.dec(e[0]), num.dec(e[1])
            for b in (b1, b2):
                if not (b[0] <= x <= b[2] and b[1] <= y <= b[3]) and not bump:
                    out.append((k, "division point (%s, %s) lies outside the bounding box of a segment" % (e[0], e[1])))
                    break
            else:
                continue
            break
    return out


def exhaustive_splay_cases(nkeys=4, depth=5):
    """every operation sequence of length `depth` over a universe of `nkeys` keys (thorough tier)"""
    ops = []
    for k in range(nkeys):
        ops += ["i%d" % k, "r%d" % k, "f%d" % k, "n%d" % k, "p%d" % k]
    cases = []
    c = None
    cnt = 0
    for seq in itertools.product(ops, repeat=depth):
        if cnt % 500 == 0:
            c = Case("splayx-%d" % (cnt // 500), "splay")
            cases.append(c)
        cnt += 1
        c.run("SPLAYMAP nat %s D L m M" % " ".join(seq))
    return cases


# ---------------------------------------------------------------------------------------------
# C12: call histories; C18 / C03: child processes

class _F:
    def __init__(self, kind, detail, scenario=None):
        self.kind, self.case, self.detail, self.run, self.check, self.known = kind, None, detail, None, None, None
        self.scenario = scenario     # (harness sub-command, arguments): re-executed by --replay


def scan_sources():
    """what the model assumes about the code (part of the tie, not a proof): no global mutable state, no
    iteration over hash containers, no address-dependent ordering outside the guarded hooks"""
    import glob
    problems = []
    for f in glob.glob("/repo/lib/src/**/*.rs", recursive=True):
        if f.endswith("verif.rs"):
            continue
        text = open(f).read()
        # drop test modules and guarded hook lines
        text = text.split("#[cfg(test)]")[0]
        text = re.sub(r"#\[cfg\(geo_booleanop_verif\)\]\s*\n[^\n]*\n", "\n", text)
        text = re.sub(r"//[^\n]*", "", text)
        for pat, what in ((r"\bstatic\s+mut\b", "static mut"), (r"thread_local!", "thread_local!"), (r"lazy_static", "lazy_static"),
                          (r"\bOnceCell\b|\bOnceLock\b", "once cell"), (r"as\s+usize\s*\)\s*(<|>|\.cmp)", "address comparison"),
                          (r"as_ptr\(\)\s*(<|>)", "pointer order"), (r"\.iter\(\)[^;]*processed|for\s+\w+\s+in\s+&?processed", "iteration over the hash set"),
                          (r"\bstatic\s+\w+\s*:\s*(Atomic|Mutex|RwLock)", "global shared state"), (r"RandomState|rand::", "randomness")):
            if re.search(pat, text):
                problems.append("%s: %s" % (os.path.relpath(f, "/repo"), what))
    return problems


def c12_histories(groups, tier):
    findings = []
    texts = []
    for label, cases, dbg in groups:
        texts.extend(c.text() for c in cases)
    os.makedirs(runner.WORK, exist_ok=True)
    fin = os.path.join(runner.WORK, "c12-%d.in" % os.getpid())
    open(fin, "w").write("".join(texts))
    threads = 8 if tier == "quick" else 16
    try:
        with open(fin) as i_:
            p = subprocess.run([runner.harness_bin(False), "hist", str(threads), "3" if tier == "quick" else "10"], stdin=i_,
                               stdout=subprocess.PIPE, stderr=subprocess.PIPE, text=True, timeout=1800)
        out = p.stdout
    except subprocess.TimeoutExpired:
        out = ""
        findings.append(_F("H", "history run did not finish"))
    # the same requests in a process whose very first operation used f32 coordinates: the answers must be the
    # same (state initialised once per process from the first call, seed C12-9)
    try:
        with open(fin) as i_:
            p2 = subprocess.run([runner.harness_bin(False), "hist", "1", "0", "f32first"], stdin=i_,
                                stdout=subprocess.PIPE, stderr=subprocess.PIPE, text=True, timeout=1800)
        d1 = dict(l.split()[1:3] for l in out.splitlines() if l.startswith("HISTBASE "))
        d2 = dict(l.split()[1:3] for l in p2.stdout.splitlines() if l.startswith("HISTBASE "))
        diff = sorted((int(k) for k in d1 if k in d2 and d1[k] != d2[k]))
        if not d2 or len(d1) != len(d2):
            findings.append(_F("H", "the f32-first history run produced %d answers, the plain one %d" % (len(d2), len(d1))))
        elif diff:
            findings.append(_F("O", "history: HISTDIFF request#%d gives a different answer in a process whose first operation used f32 coordinates (%d requests differ)" % (diff[0], len(diff))))
    except subprocess.TimeoutExpired:
        findings.append(_F("H", "f32-first history run did not finish"))
    os.remove(fin)
    info = {}
    m = re.search(r"HISTRES requests=(\d+) executions=(\d+) mismatches=(\d+) threads=(\d+) operands_modified=(\d+)", out)
    if not m:
        findings.append(_F("H", "history run produced no summary: %s" % out[-300:]))
    else:
        info["histories"] = {"requests": int(m.group(1)), "executions": int(m.group(2)), "mismatches": int(m.group(3)),
                             "threads": int(m.group(4)), "operands_modified": int(m.group(5))}
        for line in out.splitlines():
            if line.startswith("HISTDIFF"):
                findings.append(_F("O", "history: " + line[:300]))
    probs = scan_sources()
    info["source_scan"] = probs or "clean"
    for pr in probs:
        # an assumption of the model is broken, not a demonstrated failure: reported like a broken correspondence
        # (with `no-failing-input-found` unless the histories above exhibit a failing one)
        findings.append(_F("K", "source scan: the code uses %s, which the pure model does not represent" % pr))
    return findings, info


def _child(args, timeout):
    try:
        p = subprocess.run(args, stdout=subprocess.PIPE, stderr=subprocess.PIPE, text=True, timeout=timeout)
        return p.returncode, p.stdout, p.stderr
    except subprocess.TimeoutExpired:
        return -999, "", "timeout"


def c18_stack(tier):
    findings = []
    rows = []
    big = 3000000
    orders = ["mono", "rev", "zigzag", "rand", "revtop", "monobot", "blocks"]
    teardowns = ["drop", "clear", "partial", "full", "fullback", "query", "remove", "adaptors"]
    jobs = []
    if tier == "quick":
        combos = [(o, t) for o in orders for t in ("drop", "clear", "partial")] + [("mono", "full"), ("rev", "fullback"), ("zigzag", "query"), ("blocks", "full")]
        combos += [(o, t) for o in ("mono", "rev", "zigzag", "rand") for t in ("remove", "adaptors")]
    else:
        combos = [(o, t) for o in orders for t in teardowns]
    for o, t in combos:
        name = "%s-%s" % (o, t)
        jobs.append((name, big, False))
        jobs.append((name, big, True))
        # a size sweep on the small stack: a teardown that recurses only below some size threshold, or only
        # up to some depth, shows in a window of sizes
        for n in ((1000, 30000, 100000, 130000, 400000) if t in ("drop", "clear", "partial", "remove", "adaptors") else (1000,)):
            jobs.append((name, n, True))
    jobs.append(("mono-setdrop", big, True))
    for n in ((1000, 20000, 50000, 200000) if tier == "quick" else (1000, 10000, 20000, 50000, 100000, 200000, 500000)):
        jobs.append(("x-sweep", n, True))
        jobs.append(("x-sweepdesc", n, True))
        jobs.append(("x-sweepdesc", n, False))
        # every edge in the result: chains of `prev_in_result` links as long as the operand (seeds C18-4, C03-4)
        jobs.append(("x-union", n, True))
        jobs.append(("x-bars", n, True))
    jobs.append(("x-union", 600000, False))
    jobs.append(("x-bars", 300000, False))
    jobs.append(("x-holes", 100000, True))
    # one edge divided hundreds of thousands of times: chains through the pieces of one edge (seed C18-7)
    jobs.append(("x-saw", 300000, True))
    jobs.append(("x-saw", 300000, False))
    from concurrent.futures import ThreadPoolExecutor
    def run(j):
        name, n, thr = j
        args = [runner.harness_bin(False), "stack", name, str(n)] + (["thread"] if thr else [])
        rc, out, err = _child(args, 900)
        return j, rc, out, err
    with ThreadPoolExecutor(max_workers=12) as ex:
        for (name, n, thr), rc, out, err in ex.map(run, jobs):
            m = re.search(r"DONE \S+ \d+ depths=(\d+)\.\.(\d+)", out)
            span = (int(m.group(2)) - int(m.group(1))) if m else None
            rows.append({"scenario": name, "n": n, "thread_2MiB": thr, "exit": rc, "drop_depth_span_bytes": span})
            if rc != 0 or "DONE" not in out:
                findings.append(_F("O", "stack: scenario %s n=%d%s ended with exit status %s (%s)" % (name, n, " on a 2 MiB thread" if thr else "", rc, err.strip()[-120:]), scenario=["stack", name, str(n)] + (["thread"] if thr else [])))
            elif "teardown_order=mixed" in out:
                findings.append(_F("O", "stack: scenario %s n=%d frees the nodes out of key order; the modelled teardown loop frees them in ascending order" % (name, n), scenario=["stack", name, str(n)] + (["thread"] if thr else [])))
            elif span is not None and span > 2048:
                # an iterative teardown drops every key at the same stack depth; recursion shows as a span
                findings.append(_F("O", "stack: scenario %s n=%d drops keys over a stack depth range of %d bytes: the teardown recurses" % (name, n, span), scenario=["stack", name, str(n)] + (["thread"] if thr else [])))
    findings.extend(_dev_stack_jobs(rows))
    return findings, {"stack_scenarios": rows, "samples": [{"scenario": r["scenario"], "n": r["n"], "exit": r["exit"]} for r in rows[:3]]}


def _dev_stack_jobs(rows):
    """the same kind of scenario in an UNOPTIMISED build: the optimiser turns some recursions into loops (then
    only the running time shows them), an unoptimised build overflows (seed C03-5)"""
    out = []
    ok, log = runner.build_harness_dev()
    if not ok:
        out.append(_F("H", "the unoptimised harness does not build: %s" % log[-300:]))
        return out
    # (x-nest: nesting 300 levels deep, where narrow counters overflow; overflow checks are on in this build)
    for name, n in (("x-holes", 40000), ("x-union", 40000), ("mono-drop", 300000), ("rev-remove", 300000), ("x-nest", 300)):
        args = [runner.harness_bin_dev(), "stack", name, str(n), "thread"]      # 2 MiB stack
        rc, o, err = _child(args, 900)
        rows.append({"scenario": name + " (unoptimised build)", "n": n, "thread_2MiB": True, "exit": rc, "drop_depth_span_bytes": None})
        if rc != 0 or "DONE" not in o:
            msg = [l for l in o.splitlines() if l.startswith("LARGE-CHECK")]
            f = _F("O", "stack: scenario %s n=%d on a 2 MiB thread in an unoptimised build ended with exit status %s (%s)" % (name, n, rc, msg[0] if msg else err.strip()[-160:]),
                   scenario=["dev-build", "stack", name, str(n), "thread"])
            out.append(f)
    return out


def c03_large_children(tier):
    """large valid inputs in child processes (an abort or stack overflow kills the process): sweeps that break
    early with a populated sweep line, built in increasing and in decreasing sweep-line order"""
    findings = []
    rows = []
    sizes = (20000, 100000) if tier == "quick" else (10000, 20000, 50000, 100000, 200000, 500000)
    jobs = [(sc, n, thr) for sc in ("x-sweep", "x-sweepdesc", "x-union", "x-bars") for n in sizes for thr in (False, True)]
    jobs.append(("x-holes", 100000, True))
    jobs.append(("x-saw", 300000, True))
    # the same input in two orientations must take comparable time (a run that takes hours is a hang)
    jobs += [("x-mirrortime", n, False) for n in ((40000, 100000) if tier == "quick" else (40000, 100000, 250000))]
    from concurrent.futures import ThreadPoolExecutor
    def run(j):
        sc, n, thr = j
        return j, _child([runner.harness_bin(False), "stack", sc, str(n)] + (["thread"] if thr else []), 1800)
    with ThreadPoolExecutor(max_workers=8) as ex:
        for (sc, n, thr), (rc, out, err) in ex.map(run, jobs):
            rows.append({"scenario": sc, "teeth": n, "thread_2MiB": thr, "exit": rc})
            if rc != 0 or "DONE" not in out:
                msg = [l for l in out.splitlines() if l.startswith("LARGE-CHECK")]
                findings.append(_F("O", "large input: boolean operation %s with %d teeth%s ended with exit status %s (%s)" % (
                    sc, n, " on a 2 MiB thread" if thr else "", rc, msg[0] if msg else err.strip()[-120:]),
                    scenario=["stack", sc, str(n)] + (["thread"] if thr else [])))
    findings.extend(_dev_stack_jobs([]))
    return findings, {"large_children": rows}


def large_result_children(tier):
    """large operations whose result is known in closed form (more than 2^16 result events each): the child
    checks ring closure, vertex provenance, polygon / interior ring counts and the area itself
    (`verify_large` in harness/src/stack.rs) and exits with `LARGE-CHECK ...` when one fails"""
    findings = []
    rows = []
    sizes = (20000, 40000) if tier == "quick" else (20000, 40000, 100000, 300000)
    jobs = [(sc, n) for sc in ("x-union", "x-bars", "x-holes", "x-frames") for n in sizes if not (sc in ("x-holes", "x-frames") and n > 40000)]
    from concurrent.futures import ThreadPoolExecutor
    def run(j):
        sc, n = j
        return j, _child([runner.harness_bin(False), "stack", sc, str(n)], 1800)
    with ThreadPoolExecutor(max_workers=6) as ex:
        for (sc, n), (rc, out, err) in ex.map(run, jobs):
            rows.append({"scenario": sc, "size": n, "exit": rc})
            if rc != 0 or "DONE" not in out:
                msg = [l for l in out.splitlines() if l.startswith("LARGE-CHECK")]
                findings.append(_F("O", "large input: the result of %s with size %d is wrong: %s" % (
                    sc, n, msg[0] if msg else "exit status %s (%s)" % (rc, err.strip()[-120:])), scenario=["stack", sc, str(n)]))
    return findings, {"large_results": rows}


# ---------------------------------------------------------------------------------------------
# search for a failing input after a broken correspondence / obligation

def search_failing_input(prop, seed, k_viol, time_budget):
    from . import props
    t0 = time.time()
    rng = random.Random(seed + 77)
    known = props.load_known()
    # 1. the operands of the disagreeing cases, run through every operation with the region, validity and
    #    provenance oracles
    pairs = []
    for f in k_viol[:20]:
        r = f.case
        if r is None or f.run is None:
            continue
        req = r.reqs.get(f.run, "")
        toks = req.split()
        if toks and toks[0] in ("BOOL", "SUBDIV") and "@" not in req:
            try:
                i = 6 if toks[0] == "BOOL" else 5
                a, i = num.parse_mpoly(toks, i)
                b, i = num.parse_mpoly(toks, i)
                pairs.append((r.family if r.family in gen.FAMILIES else "g3", a, b))
                pairs.append((r.family if r.family in gen.FAMILIES else "g3", b, a))
            except Exception:
                pass
    rounds = 0
    while time.time() - t0 < time_budget:
        if rounds > 0 or not pairs:
            pairs = props.gen_pairs(rng, ["g1", "g2", "g3", "g4", "g1", "g2"], 240)
        rounds += 1
        cases = []
        for p in ("C01", "C02", "C04"):
            cases += plans.plan_core(p, rng, pairs)
        cases += plans.plan_c05(rng, pairs)
        if prop in ("C06", "C07", "C08", "C09", "C11"):
            cases += getattr(plans, "plan_" + prop.lower())(rng, pairs[:40])
        results, hangs = runner.execute([c.text() for c in cases], tag="search-" + prop)
        st = props.Stats()
        fs = props.evaluate(prop, results, hangs, st, bound_check=True)
        for f in fs:
            if f.kind == "O" and props.classify_known('*', f, known) is None and not f.detail.startswith("runaway"):
                return f
        for f in fs:
            if f.kind == "O" and props.classify_known('*', f, known) is None:
                return f
    return None
