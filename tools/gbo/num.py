"""Exact number encoding of the line protocol: a float is written `m:e` (= m * 2^e, m odd, or 0:0)."""
import math
from fractions import Fraction


class NZ(int):
    """an integer zero that is written as negative zero (`-0:0`): equal to 0 in every comparison and in all
    arithmetic of the generators and oracles, but the real code receives -0.0"""
    def __new__(cls):
        return super().__new__(cls, 0)


def enc(x):
    """float or int or Fraction (dyadic) -> 'm:e'"""
    if isinstance(x, NZ):
        return "-0:0"
    if isinstance(x, float):
        if x == 0.0:
            return "-0:0" if math.copysign(1.0, x) < 0 else "0:0"   # the sign of zero travels to the real code
        m, e = math.frexp(x)            # x = m * 2^e, 0.5 <= |m| < 1
        m = int(m * (1 << 53))
        e -= 53
    else:
        fr = Fraction(x)
        if fr == 0:
            return "0:0"
        d = fr.denominator
        assert d & (d - 1) == 0, "not dyadic: %r" % (x,)
        m = fr.numerator
        e = -(d.bit_length() - 1)
    while m % 2 == 0:
        m //= 2
        e += 1
    return "%d:%d" % (m, e)


def dec(s):
    """'m:e' or 'n/d' -> Fraction"""
    if ":" in s:
        m, e = s.split(":")
        m = int(m)
        e = int(e)
        return Fraction(m) * (Fraction(2) ** e)
    n, d = s.split("/")
    return Fraction(int(n), int(d))


def enc_ring(ring):
    return " ".join([str(len(ring))] + ["%s %s" % (enc(x), enc(y)) for (x, y) in ring])


def enc_poly(poly):
    """poly = [exterior, hole, ...], each a list of (x, y)"""
    return " ".join([str(len(poly))] + [enc_ring(r) for r in poly])


def enc_mpoly(mp):
    return " ".join([str(len(mp))] + [enc_poly(p) for p in mp])


def parse_mpoly(toks, i=0):
    """inverse of enc_mpoly on a token list; returns (mp as Fractions, next index)"""
    n = int(toks[i]); i += 1
    mp = []
    for _ in range(n):
        nr = int(toks[i]); i += 1
        poly = []
        for _ in range(nr):
            npts = int(toks[i]); i += 1
            ring = []
            for _ in range(npts):
                ring.append((dec(toks[i]), dec(toks[i + 1])))
                i += 2
            poly.append(ring)
        mp.append(poly)
    return mp, i


def close(ring):
    """what geo-types' Polygon::new does to a ring"""
    if ring and ring[0] != ring[-1]:
        return list(ring) + [ring[0]]
    return list(ring)
