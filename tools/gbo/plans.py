"""Per-property case plans: which requests are run on which operands and which oracles are evaluated."""
import math
import random
from fractions import Fraction

from . import gen, num
from .cases import Case, OPS, bool_req, subdiv_req, fillq_req

BUDGET = 200000
OPNAME = {"I": "&", "U": "|", "D": "-", "X": "^"}


def tol_for(family, mp_a, mp_b, prec="f64"):
    """comparison tolerance: 0 on exact-arithmetic families, 1e-9 x magnitude on float families"""
    if family in gen.EXACT_FAMILIES:
        return 0
    mag = 1.0
    for mp in (mp_a, mp_b):
        bb = gen.bbox(mp)
        if bb:
            mag = max(mag, *[abs(float(v)) for v in bb])
    rel = 1e-9 if prec == "f64" else 1e-3
    # a dyadic number near rel * mag
    e = math.frexp(rel * mag)[1]
    return Fraction(2) ** e


def pairing_for(rng, a, b):
    opts = ["MM"]
    if len(a) == 1:
        opts.append("PM")
    if len(b) == 1:
        opts.append("MP")
    if len(a) == 1 and len(b) == 1:
        opts.append("PP")
    return rng.choice(opts)


def base_pairs(rng, families, n):
    """n (family, a, b) operand pairs, round-robin over families"""
    out = []
    for i in range(n):
        fam = families[i % len(families)]
        a, b = gen.FAMILIES[fam](rng)
        out.append((fam, a, b))
    return out


def closed(mp):
    return [[num.close(list(r)) for r in p] for p in mp]


def operand_checks(c, k):
    c.check("operand A %d" % k)
    c.check("operand B %d" % k)
    # the wider validity of C03's quantifier (empty interior rings allowed): gates the outcome judgement only
    c.check("operandx A %d" % k)
    c.check("operandx B %d" % k)


def region_check(c, k, op, tol):
    # the check whose soundness for all points is the theorem Gbo.Props.C01_check_sound
    c.check("region %d %s" % (k, num.enc(tol)))


# ---------------------------------------------------------------------------------------------

def plan_core(prop, rng, pairs, prec="f64", dbg=False, with_subdiv=False, ops=None):
    """C01 / C02 / C04: every op on every pair, region + validity + provenance oracles"""
    cases = []
    for idx, (fam, a, b) in enumerate(pairs):
        a, b = closed(a), closed(b)
        tol = tol_for(fam, a, b, prec)
        c = Case("%s-%s-%d" % (prop, fam, idx), fam)
        first = None
        for op in (ops or OPS):
            pairing = pairing_for(rng, a, b)
            k = c.run(bool_req(prec, op, dbg, BUDGET, pairing, a, b))
            if first is None:
                first = k
                if fam != "g9":
                    operand_checks(c, k)
            if prop in ("C01", "C10"):
                region_check(c, k, op, tol)
            if prop in ("C02", "C10") and fam != "g9":
                c.check("valid %d %s" % (k, num.enc(tol)))
            if prop in ("C04", "C10") and fam != "g9":
                c.check("geom %d %s 0" % (k, num.enc(tol)))
            if with_subdiv:
                c.run(subdiv_req(prec, op, dbg, BUDGET, a, b))
        cases.append(c)
    return cases


def plan_c05(rng, pairs):
    cases = []
    for idx, (fam, a, b) in enumerate(pairs):
        a, b = closed(a), closed(b)
        if fam in gen.EXACT_FAMILIES and rng.random() < 0.25:
            # the same pair at a very different scale (exact: a power of two): the four results must stay
            # consistent whatever the absolute size of the coordinates
            f = Fraction(2) ** rng.choice([-70, -60, -50, 40, 60])
            a = gen.map_mpoly(a, lambda p: (p[0] * f, p[1] * f))
            b = gen.map_mpoly(b, lambda p: (p[0] * f, p[1] * f))
        tol = tol_for(fam, a, b)
        t = num.enc(tol)
        c = Case("C05-%s-%d" % (fam, idx), fam)
        kI = c.run(bool_req("f64", "I", False, BUDGET, "MM", a, b))
        kU = c.run(bool_req("f64", "U", False, BUDGET, "MM", a, b))
        kD = c.run(bool_req("f64", "D", False, BUDGET, "MM", a, b))
        kE = c.run(bool_req("f64", "D", False, BUDGET, "MM", b, a))
        kX = c.run(bool_req("f64", "X", False, BUDGET, "MM", a, b))
        operand_checks(c, kI)
        c.check("formula %s R%d R%d & !" % (t, kI, kD))
        c.check("formula %s R%d R%d & !" % (t, kI, kE))
        c.check("formula %s R%d R%d & !" % (t, kD, kE))
        c.check("formula %s R%d R%d | R%d | R%d =" % (t, kI, kD, kE, kU))
        c.check("formula %s R%d R%d | R%d =" % (t, kD, kE, kX))
        # areas: the tolerance is an area tolerance
        atol = 0 if tol == 0 else tol * 1000
        c.check("areas %s %d %d %d %d %d" % (num.enc(atol), kI, kU, kD, kE, kX))
        cases.append(c)
    return cases


def plan_c06(rng, pairs):
    cases = []
    empty = []
    for idx, (fam, a, b) in enumerate(pairs):
        a, b = closed(a), closed(b)
        tol = tol_for(fam, a, b)
        t = num.enc(tol)
        exact = fam in gen.EXACT_FAMILIES
        c = Case("C06-%s-%d" % (fam, idx), fam)
        k0 = None
        for op in ["I", "U", "X"]:
            k1 = c.run(bool_req("f64", op, False, BUDGET, "MM", a, b))
            k2 = c.run(bool_req("f64", op, False, BUDGET, "MM", b, a))
            if k0 is None:
                k0 = k1
                operand_checks(c, k1)
            c.check("sameregion %d %d %s" % (k1, k2, t))
            if exact:
                c.check("samerings %d %d samedir" % (k1, k2))
        # self operations
        for op in OPS:
            k = c.run(bool_req("f64", op, False, BUDGET, "MM", a, a))
            if op in ("I", "U"):
                c.check("formula %s R%d A%d =" % (t, k, k))
                c.check("valid %d %s" % (k, t))
            else:
                c.check("formula %s R%d !" % (t, k))
                if exact:
                    c.check("empty %d" % k)
        # empty operands: no polygons, and a polygon with empty rings only
        for e in ([], [[[]]]):
            k = c.run(bool_req("f64", "U", False, BUDGET, "MM", a, e))
            c.check("isoperand %d A" % k)
            k = c.run(bool_req("f64", "D", False, BUDGET, "MM", a, e))
            c.check("isoperand %d A" % k)
            k = c.run(bool_req("f64", "X", False, BUDGET, "MM", a, e))
            c.check("formula %s R%d A%d =" % (t, k, k))
            k = c.run(bool_req("f64", "I", False, BUDGET, "MM", a, e))
            c.check("empty %d" % k)
            k = c.run(bool_req("f64", "D", False, BUDGET, "MM", e, a))
            c.check("empty %d" % k)
            k = c.run(bool_req("f64", "U", False, BUDGET, "MM", e, a))
            c.check("formula %s R%d B%d =" % (t, k, k))
            k = c.run(bool_req("f64", "I", False, BUDGET, "MM", e, a))
            c.check("empty %d" % k)
        # disjoint and touching bounding boxes
        bb_a, bb_b = gen.bbox(a), gen.bbox(b)
        if bb_a and bb_b:
            for gap in (3, 0):
                dx = bb_a[2] - bb_b[0] + gap
                if isinstance(dx, float):
                    dx = float(math.ceil(dx)) if gap else dx
                def shift(p, dx=dx):
                    x = p[0] + dx
                    if isinstance(x, Fraction) and x.denominator != 1:
                        x = Fraction(float(x))          # keep coordinates representable
                    return (x, p[1])
                b2 = gen.map_mpoly(b, shift)
                t2 = num.enc(tol_for(fam, a, b2))
                for op in OPS:
                    k = c.run(bool_req("f64", op, False, BUDGET, "MM", a, b2))
                    c.check("formula %s R%d A%d B%d %s =" % (t2, k, k, k, OPNAME[op]))
                    if gap:
                        if op == "D":
                            c.check("isoperand %d A" % k)
                        if op == "I":
                            c.check("empty %d" % k)
        cases.append(c)
    return cases


def plan_c07(rng, pairs):
    cases = []
    for idx, (fam, a, b) in enumerate(pairs):
        a, b = closed(a), closed(b)
        tol = tol_for(fam, a, b)
        t = num.enc(tol)
        exact = fam in gen.EXACT_FAMILIES
        c = Case("C07-%s-%d" % (fam, idx), fam)
        variants = []
        def var(mp, kind):
            if kind == "rot":
                return [[gen.rotate_ring(r, rng.randint(1, 5)) if len(r) > 3 else r for r in p] for p in mp]
            if kind == "rev":
                return [[gen.reverse_ring(r) for r in p] for p in mp]
            if kind == "perm":
                q = list(mp)
                rng.shuffle(q)
                return [[p[0]] + rng.sample(p[1:], len(p) - 1) for p in q]
            if kind == "rep":
                return [[gen.repeat_vertices(rng, r) for r in p] for p in mp]
            if kind == "rep3":
                return [[gen.repeat_vertices(rng, r, 3) for r in p] for p in mp]
            return mp
        kinds = ["rot", "rev", "perm", "rep", "rep3"]
        first = True
        for op in OPS:
            k0 = c.run(bool_req("f64", op, False, BUDGET, "MM", a, b))
            if first:
                operand_checks(c, k0)
                first = False
            for kind in rng.sample(kinds, 3):
                side = rng.choice(["a", "b", "ab"])
                a2 = var(a, kind) if "a" in side else a
                b2 = var(b, kind) if "b" in side else b
                k = c.run(bool_req("f64", op, False, BUDGET, "MM", a2, b2))
                c.check("sameregion %d %d %s" % (k0, k, t))
                if exact or kind in ("rep", "rep3"):
                    c.check("samerings %d %d anydir" % (k0, k))
            # the four trait implementations
            if len(a) == 1:
                k = c.run(bool_req("f64", op, False, BUDGET, "PM", a, b))
                c.check("identical %d %d" % (k0, k))
            if len(b) == 1:
                k = c.run(bool_req("f64", op, False, BUDGET, "MP", a, b))
                c.check("identical %d %d" % (k0, k))
            if len(a) == 1 and len(b) == 1:
                k = c.run(bool_req("f64", op, False, BUDGET, "PP", a, b))
                c.check("identical %d %d" % (k0, k))
        cases.append(c)
    return cases


def single_poly_pairs(rng, fam):
    """operand pairs where at least one side is a single polygon (to reach the Polygon impls)"""
    for _ in range(50):
        a, b = gen.FAMILIES[fam](rng)
        if len(a) == 1 or len(b) == 1:
            return a, b
    return a[:1], b[:1]


def plan_c08(rng, pairs):
    cases = []
    syms = ["mirrorx", "mirrory", "transpose", "rot90", "rot180", "rot270", "antitranspose"]
    for idx, (fam, a, b) in enumerate(pairs):
        a, b = closed(a), closed(b)
        tol = tol_for(fam, a, b)
        t = num.enc(tol)
        exact = fam in gen.EXACT_FAMILIES
        c = Case("C08-%s-%d" % (fam, idx), fam)
        first = True
        for op in OPS:
            k0 = c.run(bool_req("f64", op, False, BUDGET, "MM", a, b))
            if first:
                operand_checks(c, k0)
                first = False
                # the event list of the base pose (correspondence on the sweep's own bookkeeping: a change
                # that shows in the result only in some poses usually shows here in every pose)
                c.run(subdiv_req("f64", "U", False, BUDGET, a, b))
            # power-of-two scaling: bit-identical scaled result
            e = rng.choice([-200, -60, -7, -1, 1, 3, 40, 200])
            f = lambda p: (p[0] * (Fraction(2) ** e) if not isinstance(p[0], float) else math.ldexp(p[0], e),
                           p[1] * (Fraction(2) ** e) if not isinstance(p[1], float) else math.ldexp(p[1], e))
            k = c.run(bool_req("f64", op, False, BUDGET, "MM", gen.map_mpoly(a, f), gen.map_mpoly(b, f)))
            c.check("mappedrings %d %d scale:%d" % (k0, k, e))
            # integer translation on exact families: identically translated result
            if exact:
                dx, dy = rng.randint(-1000, 1000), rng.randint(-1000, 1000)
                g = lambda p: (p[0] + dx, p[1] + dy)
                k = c.run(bool_req("f64", op, False, BUDGET, "MM", gen.map_mpoly(a, g), gen.map_mpoly(b, g)))
                c.check("mappedrings %d %d shift:%s,%s" % (k0, k, num.enc(dx).replace(":", "_"), num.enc(dy).replace(":", "_")))
            # axis symmetries: the region commutes
            for s in rng.sample(syms, 2):
                h = SYM[s]
                k = c.run(bool_req("f64", op, False, BUDGET, "MM", gen.map_mpoly(a, h), gen.map_mpoly(b, h)))
                c.check("formula %s R%d~%s R%d =" % (t, k0, s, k))
                c.check("formula %s R%d A%d B%d %s =" % (t, k, k, k, OPNAME[op]))
        cases.append(c)
    return cases


SYM = {
    "mirrorx": lambda p: (-p[0], p[1]),
    "mirrory": lambda p: (p[0], -p[1]),
    "transpose": lambda p: (p[1], p[0]),
    "rot90": lambda p: (-p[1], p[0]),
    "rot180": lambda p: (-p[0], -p[1]),
    "rot270": lambda p: (p[1], -p[0]),
    "antitranspose": lambda p: (-p[1], -p[0]),
}


def far_part(rng, a, b, where, shape, perp="same", huge=False):
    """a part far away from both operands.  `perp`: its extent across the direction of displacement relative to
    the operands' box (same / narrow: strictly inside / wide: sticking out on both sides); `huge`: displaced
    by 2^60, where one ulp is larger than the operands' features (rectangles only; all coordinates stay
    representable)"""
    bb = [gen.bbox(a), gen.bbox(b)]
    bb = [x for x in bb if x] or [(0, 0, 1, 1)]     # both operands empty: any place is far away
    x0 = min(x[0] for x in bb); y0 = min(x[1] for x in bb)
    x1 = max(x[2] for x in bb); y1 = max(x[3] for x in bb)
    isf = isinstance(x0, float)
    w = max(x1 - x0, y1 - y0, 1)
    d = 3 * w + 7
    if where == "left":
        ox, oy = x0 - d - w, y0
    elif where == "right":
        ox, oy = x1 + d, y0
    elif where == "above":
        ox, oy = x0, y1 + d
    else:
        ox, oy = x0, y0 - d - w
    if not isf:
        ox, oy, w = int(math.floor(ox)), int(math.floor(oy)), int(math.ceil(w))
    if shape == "rect":
        wx, wy = w, w
        if huge:
            big = 2 ** 60
            if where == "left":
                ox, wx = -big - 2 ** 12, 2 ** 12
            elif where == "right":
                ox, wx = big, 2 ** 12
            elif where == "above":
                oy, wy = big, 2 ** 12
            else:
                oy, wy = -big - 2 ** 12, 2 ** 12
            if isf:
                ox, oy, wx, wy = float(ox), float(oy), float(wx), float(wy)
        if perp != "same":
            q = (w / 4) if isf else Fraction(w, 4)
            if where in ("left", "right"):
                oy, wy = (oy + q, q) if perp == "narrow" else (oy - w, 3 * w)
            else:
                ox, wx = (ox + q, q) if perp == "narrow" else (ox - w, 3 * w)
        ring = [(ox, oy), (ox + wx, oy), (ox + wx, oy + wy), (ox, oy + wy), (ox, oy)]
    elif shape == "pentagon":
        # a part whose upper boundary has an edge ending early while its bottom edge goes on
        ring = [(ox, oy), (ox + 3 * w, oy), (ox + 3 * w, oy + w), (ox + w, oy + w), (ox + w / 2 if isf else ox + max(1, w // 2), oy + 2 * w), (ox, oy)]
    else:
        ring = [(ox, oy), (ox + 2 * w, oy), (ox + w, oy + w), (ox, oy)]
    return [[ring]]


def plan_c09(rng, pairs):
    cases = []
    for idx, (fam, a, b) in enumerate(pairs):
        a, b = closed(a), closed(b)
        c = Case("C09-%s-%d" % (fam, idx), fam)
        first = True
        for op in OPS:
            k0 = c.run(bool_req("f64", op, False, BUDGET, "MM", a, b))
            if first:
                operand_checks(c, k0)
                first = False
            for where in rng.sample(["left", "right", "above", "below"], 2):
                shape = rng.choice(["rect", "rect", "pentagon", "tri"])
                part = far_part(rng, a, b, where, shape, perp=rng.choice(["same", "narrow", "wide"]), huge=(rng.random() < 0.25))
                side = rng.choice(["a", "b"])
                first_in_list = rng.random() < 0.5
                # the extra part travels as the subject of an auxiliary run so that formulas can name it
                kp = c.run(bool_req("f64", "U", False, BUDGET, "MM", part, []))
                a2 = ((part + a) if first_in_list else (a + part)) if side == "a" else a
                b2 = ((part + b) if first_in_list else (b + part)) if side == "b" else b
                # the tolerance follows the operands, not the displacement of the far part
                t = num.enc(tol_for(fam, a, b))
                k = c.run(bool_req("f64", op, False, BUDGET, "MM", a2, b2))
                present = op in ("U", "X") or (op == "D" and side == "a")
                if present:
                    c.check("formula %s R%d R%d A%d | =" % (t, k, k0, kp))
                else:
                    c.check("sameregion %d %d %s" % (k, k0, t))
                c.check("formula %s R%d A%d B%d %s =" % (t, k, k, k, OPNAME[op]))
        cases.append(c)
    return cases


def plan_c11(rng, pairs):
    cases = []
    for idx, (fam, a, b) in enumerate(pairs):
        a, b = closed(a), closed(b)
        # a third operand from another pair of the family and second-level operations: exact only where every
        # edge is axis-parallel
        exact = fam in gen.CLOSED_EXACT_FAMILIES
        c = Case("C11-%s-%d" % (fam, idx), fam)
        fam3, c3, _ = base_pairs(rng, [fam if fam in gen.FAMILIES else 'g1'], 1)[0]
        c3 = closed(c3)
        tol = tol_for(fam if exact else "g3", a + c3, b)
        t = num.enc(tol)
        # auxiliary runs naming the operands
        ka = c.run(bool_req("f64", "U", False, BUDGET, "MM", a, b))       # A<ka>, B<ka>
        kc = c.run(bool_req("f64", "U", False, BUDGET, "MM", c3, []))     # A<kc> = C
        operand_checks(c, ka)
        c.check("operand A %d" % kc)
        pairs = [(o1, o2) for o1 in OPS for o2 in OPS]
        rng.shuffle(pairs)
        for (o1, o2) in pairs[: (16 if exact else 6)]:
            k1 = c.run(bool_req("f64", o1, False, BUDGET, "MM", a, b))
            c.check("operand R %d" % k1)
            thirds = [("C", "A%d" % kc, num.enc_mpoly(c3))]
            if exact:
                thirds += [("A", "A%d" % ka, num.enc_mpoly(a)), ("B", "B%d" % ka, num.enc_mpoly(b))]
            name, atom, enc3 = rng.choice(thirds)
            left = rng.random() < 0.5
            if left:
                req = "BOOL f64 %s 0 %d MM @%d %s" % (o2, BUDGET, k1, enc3)
                rpn = "A%d B%d %s %s %s" % (ka, ka, OPNAME[o1], atom, OPNAME[o2])
            else:
                req = "BOOL f64 %s 0 %d MM %s @%d" % (o2, BUDGET, enc3, k1)
                rpn = "%s A%d B%d %s %s" % (atom, ka, ka, OPNAME[o1], OPNAME[o2])
            k2 = c.run(req)
            c.check("formula %s R%d %s =" % (t, k2, rpn))
        cases.append(c)
    return cases
