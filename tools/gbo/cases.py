"""Case files: CASE / RUN / CHECK / END blocks (see DESIGN.md, line protocol)."""
from . import num

OPS = ["I", "D", "U", "X"]


class Case:
    def __init__(self, cid, family, meta=""):
        self.cid = cid
        self.family = family
        self.meta = meta
        self.lines = []
        self.nruns = 0

    def run(self, req):
        k = self.nruns
        self.nruns += 1
        self.lines.append("RUN %d %s" % (k, req))
        return k

    def check(self, text):
        self.lines.append("CHECK " + text)

    def text(self):
        return "\n".join(["CASE %s %s %s" % (self.cid, self.family, self.meta)] + self.lines + ["END"]) + "\n"


def _edges(mp):
    return sum(max(0, len(r) - 1) for poly in mp for r in poly)


def budget_for(a, b):
    """event budget of a request: comfortably above the quadratic bound of C03, small enough that a
    runaway sweep (finding N2) is cut off quickly"""
    e = _edges(a) + _edges(b)
    return 2 * (4 * e * e + 2 * e + 16) + 100


def bool_req(prec, op, dbg, budget, pairing, a, b):
    budget = min(budget, budget_for(a, b))
    return "BOOL %s %s %d %d %s %s %s" % (prec, op, 1 if dbg else 0, budget, pairing, num.enc_mpoly(a), num.enc_mpoly(b))


def subdiv_req(prec, op, dbg, budget, a, b):
    budget = min(budget, budget_for(a, b))
    return "SUBDIV %s %s %d %d %s %s" % (prec, op, 1 if dbg else 0, budget, num.enc_mpoly(a), num.enc_mpoly(b))


def fillq_req(prec, op, a, b):
    return "FILLQ %s %s %s %s" % (prec, op, num.enc_mpoly(a), num.enc_mpoly(b))
