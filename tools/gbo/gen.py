"""Generators of valid operands (families G1..G9 of DESIGN.md).  Coordinates are Python ints, Fractions
(dyadic) or floats; every polygon is a list of rings [exterior, hole...], every ring a closed list of
(x, y).  All randomness comes from one random.Random(seed)."""
import math
import random
from collections import defaultdict
from fractions import Fraction


# ---------------------------------------------------------------------------------------------
# boundary tracing of a set of conforming CCW faces

def _area2(ring):
    s = 0
    for i in range(len(ring) - 1):
        s += ring[i][0] * ring[i + 1][1] - ring[i + 1][0] * ring[i][1]
    return s


def _angle_key(back, d):
    """clockwise angle from direction `back` to direction `d`, in (0, 2pi]"""
    a = math.atan2(float(back[1]), float(back[0])) - math.atan2(float(d[1]), float(d[0]))
    while a <= 1e-12:
        a += 2 * math.pi
    return a


def trace_faces(faces):
    """faces: CCW vertex lists (not closed).  Returns simple closed rings (interior on the left)."""
    edges = set()
    for f in faces:
        n = len(f)
        for i in range(n):
            a, b = f[i], f[(i + 1) % n]
            if (b, a) in edges:
                edges.remove((b, a))
            else:
                edges.add((a, b))
    out = defaultdict(list)
    for (a, b) in edges:
        out[a].append(b)
    visited = set()
    walks = []
    for e in sorted(edges):
        if e in visited:
            continue
        walk = []
        cur = e
        while cur not in visited:
            visited.add(cur)
            walk.append(cur[0])
            u, v = cur
            back = (u[0] - v[0], u[1] - v[1])
            best = None
            for w in out[v]:
                k = _angle_key(back, (w[0] - v[0], w[1] - v[1]))
                if best is None or k < best[0]:
                    best = (k, w)
            cur = (v, best[1])
        walks.append(walk)
    rings = []
    for w in walks:
        rings.extend(_split_simple(w))
    return rings


def _split_simple(walk):
    """split a closed walk (no closing duplicate) at repeated vertices into simple closed rings"""
    rings = []
    path = []
    pos = {}
    for v in walk + [walk[0]]:
        if v in pos:
            i = pos[v]
            loop = path[i:]
            for u in loop[1:]:
                pos.pop(u, None)
            path = path[: i + 1]
            if len(loop) >= 3:
                rings.append(loop + [loop[0]])
        else:
            pos[v] = len(path)
            path.append(v)
    return rings


def _point_in_ring(p, ring):
    inside = False
    for i in range(len(ring) - 1):
        (x1, y1), (x2, y2) = ring[i], ring[i + 1]
        if x1 > x2:
            x1, y1, x2, y2 = x2, y2, x1, y1
        if x1 <= p[0] < x2:
            # p strictly above the edge?
            if (x2 - x1) * (p[1] - y1) - (y2 - y1) * (p[0] - x1) > 0:
                inside = not inside
    return inside


def rings_to_mpoly(rings):
    """CCW rings are exteriors, CW rings holes of the smallest exterior containing them"""
    exts = [r for r in rings if _area2(r) > 0]
    holes = [r for r in rings if _area2(r) < 0]
    polys = [[e] for e in exts]
    for h in holes:
        (ax, ay), (bx, by) = h[0], h[1]
        dx, dy = bx - ax, by - ay
        # a point just right of the first edge = inside the hole's own region
        eps = Fraction(1, 4096)
        p = (Fraction(ax + bx) / 2 + eps * dy, Fraction(ay + by) / 2 - eps * dx)
        best = None
        for i, e in enumerate(exts):
            if _point_in_ring(p, e):
                a = abs(_area2(e))
                if best is None or a < best[0]:
                    best = (a, i)
        if best is not None:
            polys[best[1]].append(h)
    return polys


def drop_collinear(ring):
    pts = ring[:-1]
    n = len(pts)
    keep = []
    for i in range(n):
        a, b, c = pts[i - 1], pts[i], pts[(i + 1) % n]
        if (b[0] - a[0]) * (c[1] - a[1]) - (b[1] - a[1]) * (c[0] - a[0]) != 0:
            keep.append(b)
    if len(keep) < 3:
        return ring
    return keep + [keep[0]]


# ---------------------------------------------------------------------------------------------
# G1 rectilinear cell sets, G2 octilinear triangle sets

def grid_lines(rng, k, lo=-20, hi=20):
    return sorted(rng.sample(range(lo, hi + 1), k + 1))


def g1_cells(rng, xs, ys, density):
    faces = []
    for i in range(len(xs) - 1):
        for j in range(len(ys) - 1):
            if rng.random() < density:
                faces.append([(xs[i], ys[j]), (xs[i + 1], ys[j]), (xs[i + 1], ys[j + 1]), (xs[i], ys[j + 1])])
    return faces


def g1_operand(rng, xs, ys, density=None, merge_collinear=None):
    density = density if density is not None else rng.choice([0.3, 0.5, 0.6, 0.8])
    merge = merge_collinear if merge_collinear is not None else (rng.random() < 0.5)
    faces = g1_cells(rng, xs, ys, density)
    rings = trace_faces(faces)
    if merge:
        rings = [drop_collinear(r) for r in rings]
    return rings_to_mpoly(rings)


def g1_pair(rng, k=None):
    k = k or rng.choice([2, 3, 3, 4, 4, 5])
    xs, ys = grid_lines(rng, k), grid_lines(rng, k)
    a = g1_operand(rng, xs, ys)
    mode = rng.random()
    if mode < 0.45:
        b = g1_operand(rng, xs, ys)                      # same grid: shared edges, touching corners
    elif mode < 0.75:
        xs2, ys2 = grid_lines(rng, k), grid_lines(rng, k)  # independent grid: crossings
        b = g1_operand(rng, xs2, ys2)
    else:
        xs2 = sorted(set(xs[:2] + grid_lines(rng, k)[2:]))  # partly shared grid lines
        b = g1_operand(rng, xs2 if len(xs2) >= 3 else xs, ys)
    return a, b


def g2_faces(rng, n, ox, oy, h, density):
    """triangles of an n x n grid of squares of side h (each split by a random diagonal), origin (ox, oy)"""
    faces = []
    for i in range(n):
        for j in range(n):
            x0, y0 = ox + i * h, oy + j * h
            x1, y1 = x0 + h, y0 + h
            if rng.random() < 0.5:
                tris = [[(x0, y0), (x1, y0), (x1, y1)], [(x0, y0), (x1, y1), (x0, y1)]]
            else:
                tris = [[(x0, y0), (x1, y0), (x0, y1)], [(x1, y0), (x1, y1), (x0, y1)]]
            for t in tris:
                if rng.random() < density:
                    faces.append(t)
    return faces


def g2_pair(rng):
    n = rng.choice([2, 3, 3, 4])
    da, db = rng.choice([0.4, 0.6, 0.8]), rng.choice([0.4, 0.6, 0.8])
    a = rings_to_mpoly(trace_faces(g2_faces(rng, n, 0, 0, 2, da)))
    off = rng.choice([(0, 0), (1, 0), (0, 1), (1, 1), (Fraction(1, 2), 0), (Fraction(1, 2), Fraction(1, 2)), (0, 0)])
    hb = rng.choice([2, 2, 1, 4])
    nb = max(1, (2 * n) // hb)
    b = rings_to_mpoly(trace_faces(g2_faces(rng, nb, off[0], off[1], hb, db)))
    return a, b


# ---------------------------------------------------------------------------------------------
# G3 lattice triangles / convex polygons, interior-disjoint, touching at points allowed

def _orient(a, b, c):
    return (b[0] - a[0]) * (c[1] - a[1]) - (b[1] - a[1]) * (c[0] - a[0])


def _on_seg(p, a, b):
    return _orient(a, b, p) == 0 and min(a[0], b[0]) <= p[0] <= max(a[0], b[0]) and min(a[1], b[1]) <= p[1] <= max(a[1], b[1])


def _proper_cross(a, b, c, d):
    o1, o2, o3, o4 = _orient(a, b, c), _orient(a, b, d), _orient(c, d, a), _orient(c, d, b)
    return o1 * o2 < 0 and o3 * o4 < 0


def _collinear_overlap(a, b, c, d):
    if _orient(a, b, c) != 0 or _orient(a, b, d) != 0:
        return False
    dx, dy = b[0] - a[0], b[1] - a[1]
    L = dx * dx + dy * dy
    s = Fraction((c[0] - a[0]) * dx + (c[1] - a[1]) * dy, L)
    t = Fraction((d[0] - a[0]) * dx + (d[1] - a[1]) * dy, L)
    lo, hi = max(min(s, t), 0), min(max(s, t), 1)
    return lo < hi


def _strict_inside_tri(p, t):
    o = [_orient(t[i], t[(i + 1) % 3], p) for i in range(3)]
    return all(x > 0 for x in o) or all(x < 0 for x in o)


def _tri_compatible(t, u):
    for i in range(3):
        for j in range(3):
            a, b, c, d = t[i], t[(i + 1) % 3], u[j], u[(j + 1) % 3]
            if _proper_cross(a, b, c, d) or _collinear_overlap(a, b, c, d):
                return False
    for p in t:
        if _strict_inside_tri(p, u):
            return False
    for p in u:
        if _strict_inside_tri(p, t):
            return False
    ct = (Fraction(sum(p[0] for p in t), 3), Fraction(sum(p[1] for p in t), 3))
    cu = (Fraction(sum(p[0] for p in u), 3), Fraction(sum(p[1] for p in u), 3))
    if _strict_inside_tri(ct, u) or _strict_inside_tri(cu, t):
        return False
    # an edge of one passing through the interior of the other with endpoints on its boundary
    for (x, y) in ((t, u), (u, t)):
        for i in range(3):
            a, b = x[i], x[(i + 1) % 3]
            m = (Fraction(a[0] + b[0], 2), Fraction(a[1] + b[1], 2))
            if _strict_inside_tri(m, y):
                return False
    return True


def g3_operand(rng, n, lat=6):
    tris = []
    tries = 0
    while len(tris) < n and tries < 200:
        tries += 1
        t = [(rng.randint(0, lat), rng.randint(0, lat)) for _ in range(3)]
        o = _orient(*t)
        if o == 0:
            continue
        if o < 0 and rng.random() < 0.7:
            t = [t[0], t[2], t[1]]
        if all(_tri_compatible(t, u) for u in tris):
            tris.append(t)
    return [[[t[0], t[1], t[2], t[0]]] for t in tris]


def g3_pair(rng):
    return g3_operand(rng, rng.choice([1, 2, 2, 3])), g3_operand(rng, rng.choice([1, 1, 2, 3]))


# ---------------------------------------------------------------------------------------------
# G4 float star polygons in general position

def star(rng, cx, cy, rmin, rmax, n):
    angs = sorted(rng.uniform(0, 2 * math.pi) for _ in range(n))
    # avoid nearly equal angles
    pts = []
    last = -1
    for a in angs:
        if a - last < 0.05:
            continue
        last = a
        r = rng.uniform(rmin, rmax)
        pts.append((cx + r * math.cos(a), cy + r * math.sin(a)))
    if len(pts) < 3:
        return star(rng, cx, cy, rmin, rmax, n + 2)
    if rng.random() < 0.3:
        pts.reverse()
    return pts + [pts[0]]


def _center_clearance(cx, cy, ring):
    """distance from (cx, cy) to the nearest edge of the ring, or None when the centre is not inside"""
    if not _point_in_ring((cx, cy), ring):
        return None
    best = None
    for i in range(len(ring) - 1):
        (x1, y1), (x2, y2) = ring[i], ring[i + 1]
        dx, dy = x2 - x1, y2 - y1
        t = ((cx - x1) * dx + (cy - y1) * dy) / (dx * dx + dy * dy)
        t = max(0.0, min(1.0, t))
        d = math.hypot(cx - (x1 + t * dx), cy - (y1 + t * dy))
        best = d if best is None else min(best, d)
    return best


def g4_operand(rng, nparts, scale=1.0, jitter=0.0):
    polys = []
    cells = [(i, j) for i in range(2) for j in range(2)]
    rng.shuffle(cells)
    for (i, j) in cells[:nparts]:
        cx = (i * 10 + 5 + rng.uniform(-0.9, 0.9) + jitter) * scale
        cy = (j * 10 + 5 + rng.uniform(-0.9, 0.9) + jitter) * scale
        ext = star(rng, cx, cy, 2.0 * scale, 4.0 * scale, rng.randint(4, 9))
        poly = [ext]
        if rng.random() < 0.4:
            cl = _center_clearance(cx, cy, ext)
            if cl is not None and cl > 0.2 * scale:
                poly.append(star(rng, cx, cy, 0.3 * cl, 0.8 * cl, rng.randint(3, 6)))
        polys.append(poly)
    return polys


def g4_pair(rng, f32=False):
    a = g4_operand(rng, rng.choice([1, 1, 2, 3]))
    b = g4_operand(rng, rng.choice([1, 1, 2, 3]), jitter=rng.uniform(-3, 3))
    if f32:
        import struct
        def r32(v):
            return struct.unpack("f", struct.pack("f", v))[0]
        a = [[[(r32(x), r32(y)) for (x, y) in r] for r in p] for p in a]
        b = [[[(r32(x), r32(y)) for (x, y) in r] for r in p] for p in b]
    return a, b


def g9_evenodd_pair(rng):
    """single rings that cross themselves in general position (read by the even-odd rule)"""
    def poly():
        n = rng.randint(4, 7)
        pts = [(rng.uniform(0, 10), rng.uniform(0, 10)) for _ in range(n)]
        return [[pts + [pts[0]]]]
    return poly(), poly()


# ---------------------------------------------------------------------------------------------
# G5 adversarial floats (the domain of N2 / R1): near-vertical, ulp-separated, near-coincident

def _ulps(x, k):
    if x == 0.0:
        return k * 2.0 ** -200        # stay clear of subnormals (outside the range the model accepts)
    for _ in range(abs(k)):
        x = math.nextafter(x, math.inf if k > 0 else -math.inf)
    return x


def g5_pair(rng):
    a, b = g3_pair(rng)
    def jig(mp):
        out = []
        for p in mp:
            rp = []
            for r in p:
                pts = []
                for (x, y) in r[:-1]:
                    fx, fy = float(x), float(y)
                    if fx == 0.0 and rng.random() < 0.5:
                        fx = -0.0
                    if fy == 0.0 and rng.random() < 0.3:
                        fy = -0.0
                    if fx != 0.0 and rng.random() < 0.4:
                        fx = _ulps(fx, rng.choice([-2, -1, 1, 2]))
                    if rng.random() < 0.4:
                        fy = _ulps(fy, rng.choice([-2, -1, 1, 2]))
                    pts.append((fx, fy))
                rp.append(pts + [pts[0]])
            out.append(rp)
        return out
    return jig(a), jig(b)


def _r32(v):
    import struct
    return struct.unpack("f", struct.pack("f", float(v)))[0]


def _ulps32(x, k):
    """k single-precision ulps away from the single-precision number x"""
    import struct
    if x == 0.0:
        return k * 2.0 ** -20
    bits = struct.unpack("i", struct.pack("f", x))[0]
    bits += k if x > 0 else -k
    return struct.unpack("f", struct.pack("i", bits))[0]


def g5f32_pair(rng):
    """touching lattice triangles whose coordinates are jiggled by a few SINGLE-precision ulps (all values
    are f32 numbers): the f32 instance of corner case 1 and of vertices half an ulp off an edge"""
    a, b = g3_pair(rng)
    def jig(mp):
        out = []
        for p in mp:
            rp = []
            for r in p:
                pts = []
                for (x, y) in r[:-1]:
                    fx, fy = _r32(x), _r32(y)
                    if fx != 0.0 and rng.random() < 0.4:
                        fx = _ulps32(fx, rng.choice([-2, -1, 1, 2]))
                    if fy != 0.0 and rng.random() < 0.4:
                        fy = _ulps32(fy, rng.choice([-2, -1, 1, 2]))
                    pts.append((fx, fy))
                rp.append(pts + [pts[0]])
            out.append(rp)
        return out
    return jig(a), jig(b)


def g20_f32_vertex_near_edge_pair(rng):
    """f32: a vertex of one operand within half a single-precision ulp of an edge of the other (its exact
    position on the edge is not representable), or half an ulp inside an almost vertical edge; all
    coordinates are f32 numbers (seeds C10-5, C10-6)"""
    for _try in range(100):
        if rng.random() < 0.5:
            # edge (0,0) -> (p, q); vertex at x = i with y = fl32(i q / p)
            p_, q_ = rng.randint(2, 7), rng.randint(1, 5)
            i = rng.randint(1, p_ - 1)
            if (i * q_) % p_ == 0:
                continue
            v = (float(i), _r32(i * q_ / p_))
            a = [[[(0.0, 0.0), (float(p_), float(q_)), (float(p_), float(q_ + rng.randint(1, 3))), (0.0, float(q_ + rng.randint(1, 3))), (0.0, 0.0)]]]
            w1 = (float(rng.randint(i + 1, p_ + 2)), float(rng.randint(-3, 0)))
            w2 = (w1[0], float(rng.randint(1, q_ + 2)))
            b = [[[v, w1, w2, v]]]
        else:
            # almost vertical edge (x0 + k ulp, 0) -> (x0, h); a vertex of the other operand at (x0, h/2)
            x0 = rng.choice([1.5, 2.5, 3.0, 1.25])
            k = rng.choice([1, 1, 2, 3])
            h = float(rng.randint(1, 3))
            a = [[[(0.0, 0.0), (_ulps32(_r32(x0), k), 0.0), (_r32(x0), h), (0.0, h), (0.0, 0.0)]]]
            ym = _r32(h * rng.choice([0.25, 0.5, 0.75]))
            v = (_r32(x0), ym)
            b = [[[v, (_r32(x0) + 1.0, 0.0), (_r32(x0) + 1.0, h + 1.0), v]]]
        return (a, b) if rng.random() < 0.5 else (b, a)
    return g5f32_pair(rng)


def g5_negzero_pair(rng):
    """an almost vertical edge whose top vertex has x = -0.0, crossed by edges whose intersection abscissa
    is clamped to that vertex' x: the corner-case-1 bump of divide_segment then starts from -0.0"""
    w = rng.choice([1e-18, 1e-17, 3e-18, 1e-15])
    h = rng.choice([2.0, 3.0, 1.5])
    a = [[[(-1.0, -h), (w, -h), (-0.0, h), (-1.0, h), (-1.0, -h)]]]
    y0 = rng.uniform(-0.9, 0.9) * h
    b = [[[(-1.3, y0), (0.9, y0 - 0.5), (0.9, y0 + rng.uniform(0.2, 0.6)), (-1.3, y0 + rng.uniform(0.7, 1.0)), (-1.3, y0)]]]
    if rng.random() < 0.5:
        a, b = b, a
    return a, b


N2_REPLAY = ([[[(3.000000001, 1.0), (3.0, 5.000000001), (1.0, 0.7339996634907231), (3.000000001, 1.0)]]],
             [[[(3.3092555246991884, 1.6100383529576323), (3.0, 4.999999999999999), (3.0, 2.0), (3.3092555246991884, 1.6100383529576323)]]])


# ---------------------------------------------------------------------------------------------
# G7 large exact inputs

def comb(n, x0=0, y0=0, teeth_len=10):
    pts = [(x0, y0)]
    for i in range(n):
        pts.append((x0 + teeth_len, y0 + 2 * i))
        pts.append((x0 + teeth_len, y0 + 2 * i + 1))
        pts.append((x0 + 1, y0 + 2 * i + 1))
        pts.append((x0 + 1, y0 + 2 * i + 2))
    pts.append((x0, y0 + 2 * n))
    # remove the duplicate created by construction
    out = []
    for p in pts:
        if not out or out[-1] != p:
            out.append(p)
    return [[out + [out[0]]]]


def staircase(n, x0=0, y0=0):
    pts = [(x0, y0)]
    for i in range(n):
        pts.append((x0 + i + 1, y0 + i))
        pts.append((x0 + i + 1, y0 + i + 1))
    pts.append((x0, y0 + n))
    return [[pts + [pts[0]]]]


# ---------------------------------------------------------------------------------------------
# representation changes (C07), transforms (C08), extra parts (C09)

def rotate_ring(ring, k):
    pts = ring[:-1]
    k %= len(pts)
    pts = pts[k:] + pts[:k]
    return pts + [pts[0]]


def reverse_ring(ring):
    return list(reversed(ring))


def repeat_vertices(rng, ring, times=None):
    out = []
    for p in ring:
        out.append(p)
        if rng.random() < 0.4:
            for _ in range(times or rng.choice([1, 1, 2, 3])):
                out.append(p)
    return out


def start_at_extreme_and_repeat(rng, mp):
    """the first ring of the operand is started at one of its extreme vertices and that vertex is listed
    twice or three times (valid input; bounding boxes are accumulated from the first line on: seed C09-5)"""
    if not mp or not mp[0] or len(mp[0][0]) < 4:
        return mp
    ring = mp[0][0]
    pts = ring[:-1]
    key = rng.choice([lambda p: (p[0], p[1]), lambda p: (-p[0], p[1]), lambda p: (p[1], p[0]), lambda p: (-p[1], p[0])])
    k = max(range(len(pts)), key=lambda i: key(pts[i]))
    pts = pts[k:] + pts[:k]
    new = [pts[0]] * rng.choice([2, 2, 3]) + pts[1:] + [pts[0]]
    return [[new] + list(mp[0][1:])] + list(mp[1:])


def signed_zeros(rng, mp):
    """some of the zero coordinates become negative zeros (equal as numbers, different bit patterns)"""
    from .num import NZ
    def f(p):
        x, y = p
        if not isinstance(x, float) and x == 0 and rng.random() < 0.5:
            x = NZ()
        if not isinstance(y, float) and y == 0 and rng.random() < 0.5:
            y = NZ()
        return (x, y)
    return [[[f(p) for p in r] for r in poly] for poly in mp]


def map_mpoly(mp, f):
    return [[[f(p) for p in r] for r in poly] for poly in mp]


def bbox(mp):
    xs = [p[0] for poly in mp for r in poly for p in r]
    ys = [p[1] for poly in mp for r in poly for p in r]
    if not xs:
        return None
    return min(xs), min(ys), max(xs), max(ys)


def n_edges(mp):
    return sum(max(0, len(r) - 1) for poly in mp for r in poly)


def g10_pair(rng):
    """wedge family: small exact shapes sandwiched between two long edges P (below) and Q (above) of two
    big triangles; P and Q cross to the right of everything else, so they become neighbours in the sweep
    line only when the last small segment is removed (the check-on-removal path of the sweep)"""
    if rng.random() < 0.5:
        xs = sorted(rng.sample(range(0, 9), 3 + rng.randint(0, 2)))
        ys = sorted(rng.sample(range(0, 9), 3 + rng.randint(0, 2)))
        a = g1_operand(rng, xs, ys)
        b = g1_operand(rng, xs, ys) if rng.random() < 0.7 else g1_operand(rng, sorted(rng.sample(range(0, 9), 3)), ys)
    else:
        n = rng.choice([2, 3, 4])
        a = rings_to_mpoly(trace_faces(g2_faces(rng, n, 0, 0, 2, rng.choice([0.4, 0.6, 0.8]))))
        b = rings_to_mpoly(trace_faces(g2_faces(rng, n, 0, 0, 2, rng.choice([0.4, 0.6, 0.8]))))
    # the two triangles meet only at the crossing of P and Q, (22, 5), and where Q ends on the vertical
    # edge of the lower triangle, (28, 2): all intersection points are integers
    lower = [[(-4, -8), (28, 8), (28, -24), (-4, -8)]]
    # Q starts at x = 2, above whatever small edges the sweep line holds there, so that P and Q have
    # not been neighbours before the small shapes end; they cross at (22, 5)
    upper = [[(2, 15), (28, 2), (40, 30), (2, 15)]]
    # the two big triangles cross each other, so they go to different operands
    if rng.random() < 0.5:
        a, b = a + [lower], b + [upper]
    else:
        a, b = a + [upper], b + [lower]
    if rng.random() < 0.5:
        f = lambda p: (p[0], 8 - p[1])
        a, b = map_mpoly(a, f), map_mpoly(b, f)
    return a, b


def g11_needles_pair(rng):
    """long thin integer triangles ("needles") whose long edges cross at a tiny angle (1e-9 .. 1e-5 rad) well
    inside both edges"""
    k = rng.randint(1, 4)
    L = k * rng.choice([2500, 10000, 25000, 250])
    d = rng.choice([2, 3, 3, 5])
    r = rng.randint(1, d - 1)
    m = rng.randint(1, 2 * k)
    a = [[[(0, 0), (4 * L, 4 * k), (2 * L, L), (0, 0)]]]
    p = (m * (L // k) - r, m)
    b = [[[p, (2 * L, -L), (p[0] + 3 * L + d, p[1] + 3 * k), p]]]
    if rng.random() < 0.5:
        a, b = b, a
    if rng.random() < 0.3:
        f = lambda q: (q[1], q[0])
        a, b = map_mpoly(a, f), map_mpoly(b, f)
    return a, b


def _rect(x0, y0, x1, y1, ccw=True):
    r = [(x0, y0), (x1, y0), (x1, y1), (x0, y1), (x0, y0)]
    return r if ccw else list(reversed(r))


def g12_operand(rng, n=8):
    """one or two disjoint rectangles on a small integer grid, each possibly with a rectangular hole (many
    overlapping / shared edges between the operands, holes directly above shared edges)"""
    polys = []
    boxes = []
    for _ in range(rng.choice([1, 1, 2])):
        for _try in range(20):
            x0, x1 = sorted(rng.sample(range(0, n + 1), 2))
            y0, y1 = sorted(rng.sample(range(0, n + 1), 2))
            # parts of one operand must not overlap or share boundary segments (touching at a corner is fine)
            ok = all(x1 < bx0 or bx1 < x0 or y1 < by0 or by1 < y0 or
                     ((x1 == bx0 or bx1 == x0) and (y1 == by0 or by1 == y0)) for (bx0, by0, bx1, by1) in boxes)
            if ok:
                break
        else:
            continue
        boxes.append((x0, y0, x1, y1))
        poly = [_rect(x0, y0, x1, y1, rng.random() < 0.8)]
        if x1 - x0 >= 3 and y1 - y0 >= 3 and rng.random() < 0.6:
            hx0 = rng.randint(x0 + 1, x1 - 2); hx1 = rng.randint(hx0 + 1, x1 - 1)
            hy0 = rng.randint(y0 + 1, y1 - 2); hy1 = rng.randint(hy0 + 1, y1 - 1)
            poly.append(_rect(hx0, hy0, hx1, hy1, rng.random() < 0.5))
        polys.append(poly)
    return polys


def g12_pair(rng):
    return g12_operand(rng), g12_operand(rng)


def g13_pair(rng, n=12):
    """two rectangles whose sides are aligned with high probability (partially overlapping collinear edges
    that start inside one another), with rectangular holes of either operand placed just inside the aligned
    sides; then a random symmetry of the square lattice and a random operand order"""
    ax0, ay0 = rng.randint(0, 3), rng.randint(0, 3)
    ax1, ay1 = rng.randint(ax0 + 5, n), rng.randint(ay0 + 5, n)

    def side(lo, hi, which):
        r = rng.random()
        if r < 0.45:
            return lo if which == 0 else hi
        return rng.randint(lo + 1, hi - 1) if r < 0.85 else (lo - rng.randint(1, 2) if which == 0 else hi + rng.randint(1, 2))
    for _try in range(50):
        bx0, bx1 = side(ax0, ax1, 0), side(ax0, ax1, 1)
        by0, by1 = side(ay0, ay1, 0), side(ay0, ay1, 1)
        if bx1 - bx0 >= 3 and by1 - by0 >= 3:
            break
    else:
        bx0, by0, bx1, by1 = ax0 + 1, ay0, ax1 - 1, ay1 - 1
    a = [_rect(ax0, ay0, ax1, ay1, True)]
    b = [_rect(bx0, by0, bx1, by1, True)]
    # holes inside the intersection of the two boxes, hugging one of its sides at distance 1
    ix0, iy0, ix1, iy1 = max(ax0, bx0), max(ay0, by0), min(ax1, bx1), min(ay1, by1)
    placed = []
    if ix1 - ix0 >= 3 and iy1 - iy0 >= 3:
        for _ in range(rng.choice([1, 1, 2])):
            hx0 = rng.randint(ix0 + 1, ix1 - 2); hx1 = rng.randint(hx0 + 1, ix1 - 1)
            hy0 = rng.randint(iy0 + 1, iy1 - 2); hy1 = rng.randint(hy0 + 1, iy1 - 1)
            if all(hx1 < px0 or px1 < hx0 or hy1 < py0 or py1 < hy0 for (px0, py0, px1, py1, _) in placed):
                who = rng.random() < 0.5
                placed.append((hx0, hy0, hx1, hy1, who))
    ha = [h for h in placed if h[4]]
    hb = [h for h in placed if not h[4]]
    # holes of one operand must not touch each other
    def sep(hs):
        return all(h1[2] < h2[0] or h2[2] < h1[0] or h1[3] < h2[1] or h2[3] < h1[1]
                   for i, h1 in enumerate(hs) for h2 in hs[i + 1:])
    if sep(ha) and sep(hb):
        for h in ha:
            a.append(_rect(h[0], h[1], h[2], h[3], False))
        for h in hb:
            b.append(_rect(h[0], h[1], h[2], h[3], False))
    sw, nx, ny = rng.random() < 0.5, rng.random() < 0.5, rng.random() < 0.5

    def tf(ring):
        out = []
        for (x, y) in ring:
            if sw:
                x, y = y, x
            out.append((-x if nx else x, -y if ny else y))
        return out
    A = [[tf(r) for r in a]]
    B = [[tf(r) for r in b]]
    return (A, B) if rng.random() < 0.5 else (B, A)


def g14_sliver_pair(rng):
    """an integer sliver triangle whose x-extremal vertex has two incident edges that are collinear up to one
    part in 2^54 (a plain floating-point cross product cannot tell them apart, the exact orientation can),
    listed together with a box in one multipolygon; the other operand is a box that covers the sliver or
    misses it, so that no segment crossing is ever computed and all arithmetic of the sweep stays exact"""
    m = 1 << rng.choice([27, 27, 28, 29])
    for _try in range(100):
        u = (m + rng.randint(0, 3), m + rng.randint(0, 3))
        v = (m + rng.randint(0, 3), m + rng.randint(0, 3))
        cr = u[0] * v[1] - u[1] * v[0]
        if cr != 0 and abs(cr) <= 4:
            break
    else:
        u, v = (m + 1, m + 2), (m, m + 1)
    o = (rng.randint(-3, 3), rng.randint(-3, 3))
    sg = rng.choice([1, -1])
    tri = [o, (o[0] + sg * u[0], o[1] + sg * u[1]), (o[0] + sg * v[0], o[1] + sg * v[1]), o]
    far = 4 * m
    xs = [q[0] for q in tri]
    lo, hi = min(xs), max(xs)
    left = rng.random() < 0.5
    w = rng.randint(2, 5)
    bx = lo - rng.randint(8, 40) - w if left else hi + rng.randint(8, 40)
    box = _rect(bx, o[1] - rng.randint(1, 6), bx + w, o[1] + rng.randint(1, 6), rng.random() < 0.7)
    a = [[tri if rng.random() < 0.5 else list(reversed(tri))], [box]]
    if rng.random() < 0.5:
        a.reverse()
    r = rng.random()
    if r < 0.5:
        b = [[_rect(-far, -far, far, far, True)]]
    elif r < 0.8:
        # covers the sliver and half of the small box (axis-parallel integer crossings: exact)
        b = [[_rect(bx + 1, -far, far, far, True)]] if left else [[_rect(-far, -far, bx + 1, far, True)]]
    else:
        b = [[_rect(far + 10, -5, far + 20, 5, True)]]
    return (a, b) if rng.random() < 0.7 else (b, a)


def g15_touching_holes_pair(rng):
    """a rectangle and a fan of triangles that share their left-most vertex (plus, sometimes, a bar right
    below it): Difference / Xor produce several holes starting in one vertex; valid input"""
    vx, vy = rng.randint(2, 5), rng.randint(4, 7)
    k = rng.choice([2, 2, 3])
    x1 = vx + rng.randint(2, 4)
    # disjoint sectors on the line x = x1, from bottom to top
    cuts = sorted(rng.sample(range(2 * (vy - 3), 2 * (vy + 4)), 2 * k))
    tris = []
    for i in range(k):
        lo, hi = Fraction(cuts[2 * i], 2), Fraction(cuts[2 * i + 1], 2)
        if lo == hi:
            continue
        tri = [(vx, vy), (x1, lo), (x1, hi), (vx, vy)]
        poly = [tri if rng.random() < 0.7 else list(reversed(tri))]
        if rng.random() < 0.4 and x1 - vx >= 2:
            # a small rectangular hole well inside the triangle, near its far side
            hx0, hx1 = Fraction(x1) - 1, Fraction(x1) - Fraction(1, 2)
            t0 = (hx0 - vx) / (x1 - vx)
            yc = Fraction(round((vy + t0 * (Fraction(lo + hi) / 2 - vy)) * 8), 8)      # dyadic
            hh = Fraction(max(1, math.floor(t0 * (hi - lo) / 4 * 8) - 1), 8)
            def inside(q):
                # strictly inside the triangle (vx,vy), (x1,lo), (x1,hi)
                o1 = (x1 - vx) * (q[1] - vy) - (lo - vy) * (q[0] - vx)
                o2 = (x1 - vx) * (q[1] - vy) - (hi - vy) * (q[0] - vx)
                return o1 > 0 and o2 < 0 and q[0] < x1
            if all(inside(q) for q in [(hx0, yc - hh), (hx1, yc - hh), (hx1, yc + hh), (hx0, yc + hh)]):
                poly.append(_rect(hx0, yc - hh, hx1, yc + hh, False))
        tris.append(poly)
    b = tris
    if rng.random() < 0.5:
        b = b + [[_rect(vx - 1, vy - 4, x1 + 1, vy - 3 - Fraction(1, 2), True)]]
    rng.shuffle(b)
    a = [[_rect(0, 0, x1 + 3, vy + 6, True)]]
    return (a, b)


def g16_parcels_pair(rng):
    """NOT a valid operand on purpose (used for determinism only, C12): a multipolygon whose members share
    boundary segments starting in a common vertex (T-junction parcels), against a square"""
    n = rng.choice([2, 3])
    cells = [(0, 0, 2, 1), (0, 1, 1, 2), (1, 1, 2, 2), (0, 0, 1, 1), (1, 0, 2, 1), (0, 0, 1, 2), (0, 0, 2, 2)]
    picks = rng.sample(cells, n)
    t = [[_rect(x0, y0, x1, y1, rng.random() < 0.5)] for (x0, y0, x1, y1) in picks]
    m = rng.choice([1, 1, 2])
    p = [[_rect(-m, -m, 2 + m, 2 + m, True)]] if rng.random() < 0.6 else [[_rect(Fraction(1, 2), -1, Fraction(3, 2), 3, True)]]
    return (p, t) if rng.random() < 0.5 else (t, p)


def _hull(points):
    pts = sorted(set(points))
    if len(pts) < 3:
        return pts
    def cross(o, a, b):
        return (a[0] - o[0]) * (b[1] - o[1]) - (a[1] - o[1]) * (b[0] - o[0])
    lower, upper = [], []
    for p in pts:
        while len(lower) >= 2 and cross(lower[-2], lower[-1], p) <= 0:
            lower.pop()
        lower.append(p)
    for p in reversed(pts):
        while len(upper) >= 2 and cross(upper[-2], upper[-1], p) <= 0:
            upper.pop()
        upper.append(p)
    return lower[:-1] + upper[:-1]


def g17_vertex_on_edge_pair(rng):
    """a convex lattice polygon and a lattice triangle one of whose edges passes exactly through a vertex of
    the polygon and reaches beyond it; the other crossings are rational, not dyadic, so the long edge is cut
    at a rounded point before the sweep reaches the vertex lying on it (T-junction after an inexact cut)"""
    for _try in range(200):
        h = _hull([(rng.randint(0, 8), rng.randint(0, 8)) for _ in range(rng.choice([3, 4, 4, 5]))])
        if len(h) < 3:
            continue
        v = rng.choice(h)
        dx, dy = rng.randint(-3, 3), rng.randint(-3, 3)
        if math.gcd(abs(dx), abs(dy)) != 1:
            continue
        m, n = rng.randint(1, 5), rng.randint(1, 5)
        l0 = (v[0] - m * dx, v[1] - m * dy)
        l1 = (v[0] + n * dx, v[1] + n * dy)
        w = (rng.randint(-6, 14), rng.randint(-6, 14))
        if (l1[0] - l0[0]) * (w[1] - l0[1]) - (l1[1] - l0[1]) * (w[0] - l0[0]) == 0:
            continue
        a = [[list(h) + [h[0]]]]
        b = [[[l0, l1, w, l0]]]
        return (a, b) if rng.random() < 0.5 else (b, a)
    return g3_pair(rng)


def g18_nested_pair(rng):
    """nested rectangular rings (a polygon with a hole, an island inside the hole, possibly with its own hole,
    ...) against one to three rectangles stacked in y that overlap in x: result polygons nested inside holes
    of other result polygons, with several holes above one another"""
    depth = rng.choice([2, 3, 3, 4])
    boxes = [(0, 0, 24, 24)]
    for _ in range(2 * depth - 1):
        x0, y0, x1, y1 = boxes[-1]
        if x1 - x0 < 6 or y1 - y0 < 6:
            break
        boxes.append((x0 + rng.randint(1, 2), y0 + rng.randint(1, 2), x1 - rng.randint(1, 2), y1 - rng.randint(1, 2)))
    a = []
    for i in range(0, len(boxes), 2):
        poly = [_rect(*boxes[i], ccw=rng.random() < 0.8)]
        if i + 1 < len(boxes):
            poly.append(_rect(*boxes[i + 1], ccw=rng.random() < 0.3))
        a.append(poly)
    if rng.random() < 0.3:
        a.reverse()
    # clipping rectangles stacked in y inside (or across) the innermost levels
    lvl = rng.randint(max(0, len(boxes) - 3), len(boxes) - 1)
    x0, y0, x1, y1 = boxes[lvl]
    k = rng.choice([1, 2, 2, 3])
    ys = sorted(rng.sample(range(2 * y0 + 1, 2 * y1), min(2 * k, 2 * (y1 - y0) - 1) // 2 * 2))
    b = []
    for j in range(0, len(ys) - 1, 2):
        cx0 = Fraction(rng.randint(2 * x0 + 1, 2 * x0 + (x1 - x0)), 2)
        cx1 = Fraction(rng.randint(2 * x0 + (x1 - x0) + 1, 2 * x1 - 1), 2)
        if rng.random() < 0.25:
            cx0 -= rng.randint(2, 6)
        if rng.random() < 0.25:
            cx1 += rng.randint(2, 6)
        b.append([_rect(cx0, Fraction(ys[j], 2), cx1, Fraction(ys[j + 1], 2), ccw=rng.random() < 0.7)])
    if not b:
        b = [[_rect(x0 + Fraction(1, 2), y0 + Fraction(1, 2), x1 - Fraction(1, 2), y1 - Fraction(1, 2))]]
    return (a, b) if rng.random() < 0.7 else (b, a)


def g19_self_touching_pair(rng):
    """an operand that touches itself in a point (valid): a hole whose left-most vertex lies on an edge of its
    shell, or a member of a multipolygon whose left-most vertex lies on an edge of another member; the other
    operand lies to the left of that contact, so that the sweep passes the contact after one operand ended"""
    w, h = rng.randint(14, 22), rng.randint(8, 12)
    vx = rng.randint(8, w - 5)
    a_ = rng.randint(2, 4)
    if rng.random() < 0.5:
        # hole touching the bottom (or top) edge of its shell
        b, c = sorted(rng.sample(range(1, h), 2))
        top = rng.random() < 0.5
        if top:
            hole = [(vx, h), (vx + a_, h - c), (vx + a_, h - b), (vx, h)]
        else:
            hole = [(vx, 0), (vx + a_, b), (vx + a_, c), (vx, 0)]
        a = [[_rect(0, 0, w, h, True), hole if rng.random() < 0.5 else list(reversed(hole))]]
    else:
        # second member standing with its left-most vertex on the top edge of a flat first member
        tri = [(vx, 2), (vx + a_ + 2, 3), (vx + a_, 2 + rng.randint(2, 5)), (vx, 2)]
        a = [[_rect(0, 0, w, 2, True)], [tri if rng.random() < 0.5 else list(reversed(tri))]]
        if rng.random() < 0.5:
            a.reverse()
    bx1 = rng.randint(3, vx - 1)
    kind = rng.random()
    if kind < 0.5:
        b = [[_rect(rng.randint(-4, 2), rng.randint(-3, 1), bx1, rng.randint(1, h + 2), True)]]
    else:
        b = [[[(bx1, rng.randint(-3, 3)), (rng.randint(-4, bx1 - 2), rng.randint(4, h + 3)), (rng.randint(-4, bx1 - 2), rng.randint(-4, 1)), (bx1, 0)]]]
        b[0][0][-1] = b[0][0][0]
    return (a, b) if rng.random() < 0.6 else (b, a)


def g21_overlap_after_inexact_cut_pair(rng):
    """a lattice triangle A with an edge on a line L, and an operand B of two parts: a triangle whose edge lies
    on L and starts strictly inside A's edge (collinear partial overlap), and a small triangle that crosses
    A's edge earlier, at a rational, non-representable point - so the overlap is handled on a sub-segment
    whose left end was rounded (seed C06-5)"""
    for _try in range(200):
        dx, dy = rng.randint(2, 4), rng.randint(-3, 3)
        if math.gcd(dx, abs(dy)) != 1:
            continue
        m = rng.randint(3, 6)
        j = rng.randint(2, m - 1)
        n = rng.choice([m, m + 1, m + 2, m - 1]) if m - 1 > j else rng.choice([m, m + 1])
        if n <= j:
            continue
        side = rng.choice([1, -1])
        a3 = (rng.randint(0, m * dx), side * rng.randint(2, 8) + (rng.randint(0, m) * dy))
        def above(p):      # sign of the position relative to the line through (0,0) with direction (dx,dy)
            return dx * p[1] - dy * p[0]
        if above(a3) == 0:
            continue
        a = [[[(0, 0), (m * dx, m * dy), a3, (0, 0)]]]
        b1, b2 = (j * dx, j * dy), (n * dx, n * dy)
        b3 = (rng.randint(j * dx, n * dx + 2), rng.choice([1, -1]) * rng.randint(2, 8) + rng.randint(j, n) * dy)
        if above(b3) == 0:
            continue
        # the small part: x strictly between 0 and j*dx, one vertex on one side of L, two on the other
        xs = [rng.randint(1, j * dx - 1) for _ in range(3)]
        def yon(x, off):
            return Fraction(dy * x, dx).__floor__() + off
        t1 = (xs[0], yon(xs[0], rng.randint(1, 3)))
        t2 = (xs[1], yon(xs[1], -rng.randint(1, 3)))
        t3 = (xs[2], yon(xs[2], -rng.randint(1, 3)))
        if above(t1) <= 0 or above(t2) >= 0 or above(t3) >= 0:
            continue
        if (t2[0] - t1[0]) * (t3[1] - t1[1]) - (t2[1] - t1[1]) * (t3[0] - t1[0]) == 0:
            continue
        if max(t1[0], t2[0], t3[0]) >= min(b1[0], b3[0]):
            continue
        b = [[[b1, b2, b3, b1]], [[t1, t2, t3, t1]]]
        if rng.random() < 0.5:
            b.reverse()
        return (a, b) if rng.random() < 0.5 else (b, a)
    return g17_vertex_on_edge_pair(rng)


def g22_plates_pair(rng):
    """two to four plates (rectangles stacked in y), each with one to three windows at independent x
    positions, some windows holding an island that has a window of its own: several hole-carrying polygons
    whose holes interleave along the sweep (a hole of one parent starts between two holes of another).  The
    other operand leaves most windows intact: a cover, a far rectangle, a bar, or a frame"""
    W = 32
    half = Fraction(1, 2)
    a = []
    for i in range(rng.choice([2, 2, 3, 4])):
        y0 = 8 * i
        poly = [_rect(0, y0, W, y0 + 6, ccw=rng.random() < 0.8)]
        k = rng.choice([1, 2, 2, 3])
        cuts = sorted(rng.sample(range(1, W), 2 * k))
        islands = []
        for j in range(k):
            x0, x1 = cuts[2 * j], cuts[2 * j + 1]
            wy0 = y0 + rng.choice([1, 1, 2])
            wy1 = y0 + rng.choice([4, 5, 5])
            poly.append(_rect(x0, wy0, x1, wy1, ccw=rng.random() < 0.3))
            if x1 - x0 >= 3 and rng.random() < 0.5:
                isl = [_rect(x0 + half, wy0 + half, x1 - half, wy1 - half, ccw=rng.random() < 0.8)]
                if wy1 - wy0 >= 3 and rng.random() < 0.7:
                    isl.append(_rect(x0 + 1, wy0 + 1, x1 - 1, wy1 - 1, ccw=rng.random() < 0.3))
                islands.append(isl)
        hs = poly[1:]
        rng.shuffle(hs)
        a.append([poly[0]] + hs)
        a.extend(islands)
    rng.shuffle(a)
    top = 8 * len(a)
    mode = rng.choice(["cover", "far", "bar", "frame", "strip"])
    if mode == "cover":
        b = [[_rect(-2, -2, W + 2, top + 2)]]
    elif mode == "far":
        b = [[_rect(W + 5, 0, W + 8, 3)]]
    elif mode == "bar":
        x = rng.randint(2, W - 4) + half
        b = [[_rect(x, -1, x + rng.choice([half, 1, 2]), top + 1)]]
    elif mode == "frame":
        b = [[_rect(-3, -3, W + 3, top + 3), _rect(-1, -1, W + 1, top + 1, ccw=False)]]
    else:
        y = rng.randint(0, 12) + half * rng.randint(0, 1)
        b = [[_rect(-1, y, W + 1, y + rng.choice([half, 1, 3]))]]
    return (a, b) if rng.random() < 0.75 else (b, a)


def g23_ulp_slanted_pair(rng):
    """a side that is one to three ulps off vertical (ascending or descending, on the right or on the left
    of its polygon), crossed by a horizontal side of the other operand near one of its ends: the computed
    crossing has the x of one endpoint, so one of the two parts is exactly vertical -- pointing up or
    pointing down ("corner case 2" of divide_segment and its mirror images)"""
    x = rng.choice([1.0, 1.0, 3.0, float(rng.randint(1, 9)), float(rng.randint(1, 40)) / 4])
    k = rng.choice([1, 1, 2, 3])
    H = rng.choice([8, 10, 16])
    xl = _ulps(x, -k)
    xbot, xtop = (xl, x) if rng.random() < 0.6 else (x, xl)
    if rng.random() < 0.5:
        a = [[[(xbot, 0.0), (xtop, float(H)), (-5.0, float(H)), (-5.0, 0.0), (xbot, 0.0)]]]
    else:
        a = [[[(xbot, 0.0), (x + 6.0, 0.0), (x + 6.0, float(H)), (xtop, float(H)), (xbot, 0.0)]]]
    t = rng.choice([0.125, 0.25, 0.5, 0.75, 0.75, 0.875, 0.9375])
    y = H * t
    if rng.random() < 0.6:
        b = [[_rect(-2.0, -3.0, x + 3.0, y)]]
    else:
        b = [[_rect(-2.0, y, x + 3.0, H + 3.0)]]
    if rng.random() < 0.3:
        b[0][0] = list(reversed(b[0][0]))
    return (a, b) if rng.random() < 0.5 else (b, a)


def g24_touch_shared_vertical_pair(rng):
    """a vertical edge piece shared by the two operands (a non-contributing / transition twin pair) whose
    interior is touched by a vertex of a further polygon of the subject from the right (or, mirrored, from
    the left): the event starting there has the vertical twin as its predecessor in the sweep line"""
    w, h = rng.randint(1, 3), rng.randint(5, 9)
    c0 = rng.randint(0, 2)
    c1 = rng.randint(c0 + 3, h)
    e = rng.randint(1, 5)
    ya = c0 + Fraction(rng.randint(1, 2 * (c1 - c0) - 1), 2)
    d = rng.choice([1, 2, 4])
    r = Fraction(rng.randint(1, 3), 2)
    plate = _rect(0, 0, w, h, ccw=rng.random() < 0.8)
    tri = [(w, ya), (w + d, ya - r), (w + d, ya + r), (w, ya)]
    if rng.random() < 0.3:
        tri.reverse()
    a = [[plate], [tri]]
    if rng.random() < 0.3:
        a.reverse()
    b = [[_rect(w, c0, w + e, c1, ccw=rng.random() < 0.8)]]
    if rng.random() < 0.3:
        a = map_mpoly(a, lambda p: (-p[0], p[1]))
        b = map_mpoly(b, lambda p: (-p[0], p[1]))
    return (a, b) if rng.random() < 0.6 else (b, a)


def g25_huge_offset_pair(rng):
    """a small integer triangle (or quadrilateral) at an x offset near 2^52, inside a rectangle of the other
    operand that it does not touch: every coordinate is an exact double, no crossing is computed, but any
    arithmetic done in the coordinate type on such numbers (products near 2^54) rounds -- and rounds
    differently for a different start vertex or direction of the same ring"""
    X = rng.randint(1 << 52, (1 << 53) - 64)
    if rng.random() < 0.3:
        X = -X
    k = rng.choice([3, 3, 3, 4])
    while True:
        pts = [(X + rng.randint(0, 3), rng.randint(1, 8)) for _ in range(k)]
        if len(set(pts)) < k:
            continue
        ring = _hull(pts)
        if len(ring) == k and _area2(ring + [ring[0]]) != 0:
            break
    ring = list(ring) + [ring[0]]
    if rng.random() < 0.5:
        ring.reverse()
    a = [[ring]]
    b = [[_rect(X - 6, -4, X + 10, 14, ccw=rng.random() < 0.7)]]
    return (a, b) if rng.random() < 0.6 else (b, a)


def g26_slanted_hole_pair(rng):
    """a square with a hole that is not a rectangle (diamond or triangle), and a small polygon that lies in
    the bounding box of the hole but (partly) in the material: both operands are single polygons"""
    s = rng.choice([10, 12, 16])
    c = s // 2
    r = rng.randint(2, c - 1)
    if rng.random() < 0.6:
        hole = [(c - r, c), (c, c - r), (c + r, c), (c, c + r), (c - r, c)]
    else:
        hole = [(c - r, c - r), (c + r, c - r), (c - r, c + r), (c - r, c - r)]
    if rng.random() < 0.5:
        hole.reverse()
    a = [[_rect(0, 0, s, s, ccw=rng.random() < 0.8), hole]]
    half = Fraction(1, 2)
    w = rng.choice([half, 1, 1, 2])
    d = half * rng.randint(0, 1)         # on the box of the hole, or strictly inside it
    x0 = rng.choice([c - r + d, c + r - w - d, c - half * w])
    y0 = rng.choice([c - r + d, c + r - w - d, c - half * w])
    b = [[_rect(x0, y0, x0 + w, y0 + w, ccw=rng.random() < 0.7)]]
    return (a, b) if rng.random() < 0.5 else (b, a)


def g27_diagonal_quad_pair(rng):
    """a quadrilateral through two diagonally opposite corners of its bounding box (kite / sheared box) and
    one to three unit squares placed inside that bounding box, some of them in the corners the quadrilateral
    leaves empty: the box of one operand covers the box of the other although the regions barely overlap"""
    W, H = rng.randint(6, 10), rng.randint(6, 10)
    bx, by = rng.randint(W // 2 + 1, W - 1), rng.randint(1, H // 2 - 1)
    dx, dy = rng.randint(1, W // 2 - 1), rng.randint(H // 2 + 1, H - 1)
    quad = [(0, 0), (bx, by), (W, H), (dx, dy), (0, 0)]
    flip = rng.random() < 0.5
    if flip:
        quad = [(W - x, y) for (x, y) in quad]
    if rng.random() < 0.5:
        quad.reverse()
    k = rng.randint(0, 3)
    quad = quad[k:-1] + quad[:k] + [quad[k]]
    spots = [(W - 1, 0), (0, H - 1), (W - 2, 1), (1, H - 2)] if not flip else [(0, 0), (W - 1, H - 1), (1, 1), (W - 2, H - 2)]
    spots += [(rng.randint(0, W - 1), rng.randint(0, H - 1)) for _ in range(3)]
    chosen = []
    for sp in rng.sample(spots, rng.randint(1, 3)):
        if all(abs(sp[0] - q[0]) >= 2 or abs(sp[1] - q[1]) >= 2 for q in chosen):
            chosen.append(sp)
    a = [[_rect(x, y, x + 1, y + 1, ccw=rng.random() < 0.7)] for (x, y) in chosen]
    b = [[quad]]
    return (a, b) if rng.random() < 0.7 else (b, a)


def g28_float_tjunction_pair(rng):
    """a vertex of one operand exactly on the interior of an axis-parallel edge of the other, with decimal
    (non-dyadic) coordinates of different magnitude: the end-point branches of the intersection routine return
    `a1 + 1 * (a2 - a1)`, which is not `a2` in floating point; only the clamp to the common box restores it"""
    u = lambda lo, hi: round(rng.uniform(lo, hi), rng.choice([1, 1, 2, 3]))
    xv = u(0.1, 9.9)
    y0, y1 = u(-5.0, -0.5), u(0.5, 6.0)
    w = u(0.3, 4.0)
    rect = _rect(xv, y0, xv + w, y1, ccw=rng.random() < 0.7)
    ya = u(y0 + 0.2, y1 - 0.2)
    xl = xv - u(0.5, 30.0)
    yb, yc = ya - u(0.2, 3.0), ya + u(0.2, 3.0)
    tri = [(xv, ya), (xl, yc), (xl, yb), (xv, ya)]
    if rng.random() < 0.4:
        tri.reverse()
    a, b = [[rect]], [[tri]]
    k = rng.randint(0, 3)
    if k == 1:      # touching from the right: mirror in x
        a = map_mpoly(a, lambda p: (-p[0], p[1])); b = map_mpoly(b, lambda p: (-p[0], p[1]))
    elif k == 2:    # touching a horizontal edge from below
        a = map_mpoly(a, lambda p: (p[1], p[0])); b = map_mpoly(b, lambda p: (p[1], p[0]))
    elif k == 3:    # ... from above
        a = map_mpoly(a, lambda p: (p[1], -p[0])); b = map_mpoly(b, lambda p: (p[1], -p[0]))
    return (a, b) if rng.random() < 0.5 else (b, a)


def g29_touch_shared_edge_pair(rng):
    """an edge (piece) shared by both operands whose interior is touched by the extreme vertex of a further
    ring of one operand -- both edges of that vertex arrive there from the same side -- in all eight axis
    symmetries: the coincident pair is cut at that vertex for one of its two copies first"""
    W = rng.randint(6, 10)
    half = Fraction(1, 2)
    plate = _rect(0, 2, W, 4, ccw=rng.random() < 0.8)
    ax = rng.randint(2, W - 1) - half * rng.randint(0, 1)
    d1, d2 = rng.randint(1, 3), rng.randint(0, 2)
    if rng.random() < 0.7:
        tri = [(ax, 2), (ax - d1 - d2 - 1, 0), (ax - d2 - half, 0), (ax, 2)]      # apex is the right-most vertex
    else:
        tri = [(ax, 2), (ax - d1, 0), (ax + d2 + half, 0), (ax, 2)]             # apex on top, edges from both sides
    if rng.random() < 0.4:
        tri.reverse()
    x0 = rng.choice([0, 0, 1, -2])
    x1 = rng.choice([W, W, W - 1, W + 2])
    other = _rect(x0, 2, x1, rng.choice([3, 4, 5]), ccw=rng.random() < 0.7)
    mode = rng.choice(["tri-with-plate", "tri-with-other", "same"])
    if mode == "tri-with-plate":
        a, b = [[plate], [tri]], [[other]]
    elif mode == "tri-with-other":
        a, b = [[plate]], [[other], [tri]]
    else:
        a, b = [[plate], [tri]], [[plate]]
    sym = rng.choice([lambda p: p, lambda p: (-p[0], p[1]), lambda p: (p[0], -p[1]), lambda p: (-p[0], -p[1]),
                      lambda p: (p[1], p[0]), lambda p: (-p[1], p[0]), lambda p: (p[1], -p[0]), lambda p: (-p[1], -p[0])])
    a, b = map_mpoly(a, sym), map_mpoly(b, sym)
    if rng.random() < 0.3:
        a.reverse()
    return (a, b) if rng.random() < 0.6 else (b, a)


FAMILIES = {
    "g29": g29_touch_shared_edge_pair,
    "g28": g28_float_tjunction_pair,
    "g27": g27_diagonal_quad_pair,
    "g26": g26_slanted_hole_pair,
    "g25": g25_huge_offset_pair,
    "g24": g24_touch_shared_vertical_pair,
    "g23": g23_ulp_slanted_pair,
    "g22": g22_plates_pair,
    "g1": g1_pair,
    "g2": g2_pair,
    "g3": g3_pair,
    "g4": g4_pair,
    "g5": g5_pair,
    "g5z": g5_negzero_pair,
    "g9": g9_evenodd_pair,
    "g10": g10_pair,
    "g11": g11_needles_pair,
    "g12": g12_pair,
    "g13": g13_pair,
    "g14": g14_sliver_pair,
    "g15": g15_touching_holes_pair,
    "g16": g16_parcels_pair,
    "g17": g17_vertex_on_edge_pair,
    "g18": g18_nested_pair,
    "g19": g19_self_touching_pair,
    "g5f32": g5f32_pair,
    "g20": g20_f32_vertex_near_edge_pair,
    "g21": g21_overlap_after_inexact_cut_pair,
}
# families on which all arithmetic is exact by construction / usually exact / never exact
EXACT_FAMILIES = {"g1", "g10", "g12", "g13", "g14", "g15", "g16", "g18", "g22", "g25"}
# families whose operands stay exact when operands of different pairs (and results of operations) are mixed:
# all edges axis-parallel
CLOSED_EXACT_FAMILIES = {"g1", "g12", "g13", "g18"}
