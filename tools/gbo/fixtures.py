"""Reads the repository's GeoJSON fixtures into operand pairs (floats parsed exactly as Rust does)."""
import glob
import json
import os


def _geom_to_mp(g):
    if g is None:
        return []
    t = g["type"]
    c = g["coordinates"]
    def ring(r):
        return [(float(p[0]), float(p[1])) for p in r]
    if t == "Polygon":
        if not c:
            return []
        return [[ring(r) for r in c]]
    if t == "MultiPolygon":
        return [[ring(r) for r in poly] for poly in c if poly]
    return []


def load(repo="/repo"):
    out = []
    pats = [os.path.join(repo, "tests/fixtures/generic_test_cases/*.geojson"), os.path.join(repo, "tests/fixtures/*.geojson")]
    for pat in pats:
        for f in sorted(glob.glob(pat)):
            try:
                d = json.load(open(f), parse_float=float, parse_int=float)
                fs = d["features"]
                a = _geom_to_mp(fs[0]["geometry"])
                b = _geom_to_mp(fs[1]["geometry"])
            except Exception:
                continue
            out.append((os.path.basename(f), a, b))
    return out
