import Gbo.Driver.Check
open Gbo Gbo.Proto Gbo.Check

def abs' (q : Rat) : Rat := if q < 0 then -q else q
def allRingsOf (m : MPoly) : List Ring := m.flatMap (fun p => p.ext :: p.holes)

def stripNl (s : String) : String := (s.dropEndWhile (fun c => c == '\n' || c == '\r')).toString

/-- the result of run `k` under exact arithmetic; operands that were `@j` references are replaced by the
    exact result of run `j`, so that a whole chain is re-evaluated exactly -/
def exactResult (c : CaseSt) : Nat → Nat → Option MPoly
  | 0, _ => none
  | fuel + 1, k =>
    match c.runs[k]? with
    | some r =>
      match r.req with
      | some rq =>
        let a := match r.refA with | some j => exactResult c fuel j | none => some rq.a
        let b := match r.refB with | some j => exactResult c fuel j | none => some rq.b
        match a, b with
        | some a, some b =>
          match Run.runBoolReq { rq with a := a, b := b, cfg := { rq.cfg with budget := 50000 } } Arith.exact with
          | .ok o => some o.result
          | .error _ => none
        | _, _ => none
      | none => none
    | none => none

/-- classification of a failed check: does the model under exact arithmetic satisfy it on the same
    inputs, are the inputs degenerate (exact incidences), was the rounded run exact? -/
def classify (c : CaseSt) (toks : List String) : String :=
  let ks := referencedRuns toks
  let ks := ks.filter (fun k => ((c.runs[k]?).bind (·.req)).isSome)
  let exacts := ks.map (fun k => (k, exactResult c 4 k))
  let ov : Override := fun k => (exacts.lookup k).join
  let allOk := exacts.all (fun (_, r) => r.isSome)
  let isSweep := toks.head? == some "planar" || toks.head? == some "flags"
  let rawOv : Nat → Option String := fun k =>
    if !isSweep then none else
    match (c.runs[k]?).bind (·.req) with
    | some rq => some (Run.subdivAnswer Arith.exact rq.prec rq.op rq.cfg rq.a rq.b)
    | none => none
  let exactVerdict :=
    if isSweep then (if (evalCheck c (fun _ => none) toks rawOv).startsWith "pass" then "pass" else "fail") else
    if ks.isEmpty || !allOk then "na" else
    (if (evalCheck c ov toks).startsWith "pass" then "pass" else "fail")
  -- the tolerance of the check (0 on exact families) decides what counts as an incidence
  let tol : Rat := (toks.filterMap parseRat?).head?.getD 0
  let degenerate := ks.any (fun k => match (c.runs[k]?).bind (·.req) with
    | some rq => hasIncidence rq.a rq.b (tol * 1000)
    | none => false)
  let sweepExact := isSweep && ks.all (fun k => match (c.runs[k]?).bind (·.req) with
    | some rq => Run.subdivAnswer rq.ar rq.prec rq.op rq.cfg rq.a rq.b == Run.subdivAnswer Arith.exact rq.prec rq.op rq.cfg rq.a rq.b
    | none => false)
  let exactRun := sweepExact || !isSweep && ks.all (fun k => match (c.runs[k]?).bind (·.req), (exacts.lookup k).join with
    | some rq, some ex =>
      (match Run.runBoolReq rq rq.ar with
       | .ok o => showMPoly o.result == showMPoly ex
       | .error _ => false)
    | _, _ => false)
  s!"exactmodel={exactVerdict} degenerate={showBool degenerate} exactrun={showBool exactRun}"

partial def loop (hin hout : IO.FS.Stream) (c : CaseSt) : IO Unit := do
  let line ← hin.getLine
  if line.isEmpty then return ()
  let line := stripNl line
  if line.startsWith "CASE " then
    hout.putStrLn line
    loop hin hout {}
  else if line.startsWith "END" then
    hout.putStrLn line
    hout.flush
    loop hin hout {}
  else if line.startsWith "RUN " then
    match ((line.drop 4).toString.splitOn " ") with
    | k :: req =>
      let reqS := " ".intercalate req
      let ans := Run.answer reqS c.resolve
      hout.putStrLn s!"MODEL {k} {ans}"
      -- a run that does not end normally is classified: does the model under exact arithmetic return
      -- normally on the same operands, and do the operands contain an (almost) incidence?
      if req.head? == some "BOOL" && !ans.startsWith "OK" && !ans.startsWith "SKIP" then
        let toks := (reqS.splitOn " ").filter (· ≠ "") |>.toArray
        match Run.parseBool c.resolve { toks := toks, pos := 1 } with
        | some (rq, _) =>
          let ex := match Run.runBoolReq { rq with cfg := { rq.cfg with budget := 20000 } } Arith.exact with
            | .ok _ => "ok"
            | .error _ => "fail"
          let mag : Rat := ((allRingsOf rq.a ++ allRingsOf rq.b).flatMap (fun r => r.map (fun p => max (abs' p.x) (abs' p.y)))).foldl max 1
          let deg := hasIncidence rq.a rq.b (mag / 1000000)
          hout.putStrLn s!"CLASS {k} exactmodel={ex} degenerate={showBool deg}"
        | none => pure ()
      let c := match k.toNat?, req.head? with
        | some kn, some "BOOL" =>
          let toks := (reqS.splitOn " ").filter (· ≠ "") |>.toArray
          match Run.parseBool c.resolve { toks := toks, pos := 1 } with
          | some (rq, _) =>
            -- operand references: `BOOL prec op dbg budget pairing <A> <B>`; A is token 6
            let refOf (t : Option String) : Option Nat := t.bind (fun t => if t.startsWith "@" then (t.drop 1).toString.toNat? else none)
            let refA := refOf toks[6]?
            let refB := if refA.isSome then refOf toks[7]? else refOf (toks.toList.getLast?)
            setRun c kn (fun r => { r with req := some rq, refA := refA, refB := refB, modelAns := ans })
          | none => c
        | some kn, some "SUBDIV" =>
          let toks := (reqS.splitOn " ").filter (· ≠ "") |>.toArray
          let p : P Run.BoolReq := do
            let (ar, prec) ← arith
            let o ← op
            let dbg ← bool
            let budget ← nat
            let a ← mpoly
            let b ← mpoly
            pure { ar := ar, prec := prec, op := o, cfg := { dbg := dbg, budget := budget }, pairing := "MM", a := a, b := b }
          match p { toks := toks, pos := 1 } with
          | some (rq, _) => setRun c kn (fun r => { r with req := some rq, modelAns := ans })
          | none => c
        | some kn, some "FILLQ" =>
          let toks := (reqS.splitOn " ").filter (· ≠ "") |>.toArray
          let p : P Run.BoolReq := do
            let (ar, prec) ← arith
            let o ← op
            let a ← mpoly
            let b ← mpoly
            pure { ar := ar, prec := prec, op := o, cfg := {}, pairing := "MM", a := a, b := b }
          match p { toks := toks, pos := 1 } with
          | some (rq, _) => setRun c kn (fun r => { r with req := some rq })
          | none => c
        | _, _ => c
      loop hin hout c
    | [] => loop hin hout c
  else if line.startsWith "IMPL " then
    match ((line.drop 5).toString.splitOn " ") with
    | k :: rest =>
      let raw := " ".intercalate rest
      let c := match k.toNat? with
        | some kn => setRun c kn (fun r => { r with implRaw := raw, implOut := parseImplMP raw })
        | none => c
      -- answers differ: was the run inside the modelled numeric range?
      match k.toNat?.bind (fun kn => c.runs[kn]?) with
      | some r =>
        match r.req with
        | some rq =>
          if r.modelAns ≠ "" && r.modelAns ≠ raw && !r.modelAns.startsWith "SKIP" && Run.probeExtreme rq then
            hout.putStrLn s!"RANGE {k} extreme-coordinate-created-by-the-sweep"
        | none => pure ()
      | none => pure ()
      loop hin hout c
    | [] => loop hin hout c
  else if line.startsWith "CHECK " then
    let toks := ((line.drop 6).toString.splitOn " ").filter (· ≠ "")
    let v := evalCheck c (fun _ => none) toks
    let extra := if v.startsWith "fail" then " " ++ classify c toks else ""
    hout.putStrLn s!"CHECKRES {c.nchecks} {v}{extra}"
    loop hin hout { c with nchecks := c.nchecks + 1 }
  else
    loop hin hout c

def main : IO Unit := do
  let hin ← IO.getStdin
  let hout ← IO.getStdout
  loop hin hout {}
