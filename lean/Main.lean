import Gbo.Driver.Run
open Gbo

partial def loop (hin : IO.FS.Stream) (hout : IO.FS.Stream) : IO Unit := do
  let line ← hin.getLine
  if line.isEmpty then return ()
  let line := (line.dropEndWhile (fun c => c == '\n' || c == '\r')).toString
  if line.startsWith "RUN " then
    let rest := (line.drop 4).toString
    match rest.splitOn " " with
    | k :: req =>
      let ans := Run.answer (" ".intercalate req)
      hout.putStrLn s!"MODEL {k} {ans}"
    | [] => hout.putStrLn "MODEL ? BADREQ"
  else if line.startsWith "CASE " || line.startsWith "END" then
    hout.putStrLn line
  loop hin hout

def main : IO Unit := do
  let hin ← IO.getStdin
  let hout ← IO.getStdout
  loop hin hout
