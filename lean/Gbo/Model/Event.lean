import Gbo.Model.Num
/-
  Sweep events (lib/src/boolean/sweep_event.rs), the event order (`impl Ord for SweepEvent`),
  the segment order (compare_segments.rs) and the segment intersection (segment_intersection.rs).
  `Rc<SweepEvent>` is an index into an arena; `Weak` links are `Option Nat`.
-/
namespace Gbo

inductive EdgeType | normal | nonContributing | sameTransition | differentTransition
deriving DecidableEq, Repr, Inhabited

inductive ResTrans | none | inOut | outIn
deriving DecidableEq, Repr, Inhabited

inductive Op | intersection | difference | union | xor
deriving DecidableEq, Repr, Inhabited

structure Ev where
  point : Pt
  left : Bool := false
  other : Option Nat := none
  prevInResult : Option Nat := none
  edgeType : EdgeType := .normal
  inOut : Bool := false
  otherInOut : Bool := false
  resTrans : ResTrans := .none
  otherPos : Int := 0
  outputContourId : Int := -1
  contourId : Nat
  isSubject : Bool
  isExteriorRing : Bool
deriving Repr, Inhabited

abbrev Arena := Array Ev

/-- What the two orders read of an event. -/
structure EvView where
  point : Pt
  left : Bool
  otherPt : Option Pt
  isSubject : Bool
deriving DecidableEq, Repr, Inhabited

def Arena.view (a : Arena) (i : Nat) : EvView :=
  let e := a[i]!
  { point := e.point, left := e.left,
    otherPt := e.other.map (fun j => a[j]!.point), isSubject := e.isSubject }

/-- `less_if` / `less_if_inversed` of helper.rs -/
def lessIf (c : Bool) : Ordering := if c then .lt else .gt
def lessIfInv (c : Bool) : Ordering := if c then .gt else .lt

/-- `SweepEvent::is_below` -/
def EvView.isBelow (e : EvView) (p : Pt) : Bool :=
  match e.otherPt with
  | some o => if e.left then decide (orient e.point o p > 0) else decide (orient o e.point p > 0)
  | none => false

/-- `SweepEvent::is_vertical` -/
def EvView.isVertical (e : EvView) : Bool :=
  match e.otherPt with
  | some o => decide (e.point.x = o.x)
  | none => false

/-- `impl Ord for SweepEvent`: `cmpView e1 e2 = e1.cmp(e2)`.  `.gt` means `e1` is processed first. -/
def cmpView (e1 e2 : EvView) : Ordering :=
  let p1 := e1.point
  let p2 := e2.point
  if p1.x > p2.x then .lt
  else if p1.x < p2.x then .gt
  else if p1.y > p2.y then .lt
  else if p1.y < p2.y then .gt
  else if e1.left != e2.left then lessIf e1.left
  else
    match e1.otherPt, e2.otherPt with
    | some o1, some o2 =>
      if orient p1 o1 o2 ≠ 0 then lessIf (!e1.isBelow o2)
      else lessIf (!e1.isSubject && e2.isSubject)
    | _, _ => lessIf (!e1.isSubject && e2.isSubject)

def cmpEv (a : Arena) (i j : Nat) : Ordering := cmpView (a.view i) (a.view j)

/-- `is_before`: `self > other` -/
def isBefore (a : Arena) (i j : Nat) : Bool := cmpEv a i j == .gt

/-! ### segment intersection -/

inductive Isect
  | none
  | point (p : Pt)
  | overlap (p q : Pt)
  | nonfinite            -- division by zero in the collinear branch (degenerate segment): NaN in Rust
deriving DecidableEq, Repr, Inhabited

structure BBox where
  minx : Rat
  miny : Rat
  maxx : Rat
  maxy : Rat
deriving DecidableEq, Repr, Inhabited

/-- `get_intersection_bounding_box` -/
def isectBBox (a1 a2 b1 b2 : Pt) : Option BBox :=
  let (asx, aex) := if a1.x < a2.x then (a1.x, a2.x) else (a2.x, a1.x)
  let (asy, aey) := if a1.y < a2.y then (a1.y, a2.y) else (a2.y, a1.y)
  let (bsx, bex) := if b1.x < b2.x then (b1.x, b2.x) else (b2.x, b1.x)
  let (bsy, bey) := if b1.y < b2.y then (b1.y, b2.y) else (b2.y, b1.y)
  -- f.max(g): for non-NaN floats the larger one
  let isx := rmax asx bsx
  let isy := rmax asy bsy
  let iex := rmin aex bex
  let iey := rmin aey bey
  if isx ≤ iex ∧ isy ≤ iey then some { minx := isx, miny := isy, maxx := iex, maxy := iey } else none

/-- `constrain_to_bounding_box` -/
def clampPt (p : Pt) (bb : BBox) : Pt :=
  { x := if p.x < bb.minx then bb.minx else if p.x > bb.maxx then bb.maxx else p.x,
    y := if p.y < bb.miny then bb.miny else if p.y > bb.maxy then bb.maxy else p.y }

def Arith.cross (ar : Arith) (a b : Pt) : Rat := ar.sub (ar.mul a.x b.y) (ar.mul a.y b.x)
def Arith.dot (ar : Arith) (a b : Pt) : Rat := ar.add (ar.mul a.x b.x) (ar.mul a.y b.y)
def Arith.midPoint (ar : Arith) (p : Pt) (s : Rat) (d : Pt) : Pt :=
  { x := ar.add p.x (ar.mul s d.x), y := ar.add p.y (ar.mul s d.y) }

/-- `intersection_impl` -/
def Arith.isectImpl (ar : Arith) (a1 a2 b1 b2 : Pt) : Isect :=
  let va : Pt := { x := ar.sub a2.x a1.x, y := ar.sub a2.y a1.y }
  let vb : Pt := { x := ar.sub b2.x b1.x, y := ar.sub b2.y b1.y }
  let e  : Pt := { x := ar.sub b1.x a1.x, y := ar.sub b1.y a1.y }
  let kross := ar.cross va vb
  let sqrLenA := ar.dot va va
  -- `kross.abs() > 0` (since the fix cfe602f; before: the square of the cross product, which underflows)
  if kross ≠ 0 then
    let s := ar.div (ar.cross e vb) kross
    if s < 0 ∨ s > 1 then .none else
    let t := ar.div (ar.cross e va) kross
    if t < 0 ∨ t > 1 then .none else
    if s = 0 ∨ s = 1 then .point (ar.midPoint a1 s va) else
    if t = 0 ∨ t = 1 then .point (ar.midPoint b1 t vb) else
    .point (ar.midPoint a1 s va)
  else
    let kross2 := ar.cross e va
    if kross2 ≠ 0 then .none else
    if sqrLenA = 0 then .nonfinite else
    let sa := ar.div (ar.dot va e) sqrLenA
    let sb := ar.add sa (ar.div (ar.dot va vb) sqrLenA)
    let smin := rmin sa sb
    let smax := rmax sa sb
    if smin ≤ 1 ∧ smax ≥ 0 then
      if smin = 1 then .point (ar.midPoint a1 smin va) else
      if smax = 0 then .point (ar.midPoint a1 smax va) else
      .overlap (ar.midPoint a1 (rmax smin 0) va) (ar.midPoint a1 (rmin smax 1) va)
    else .none

/-- `intersection` -/
def Arith.isect (ar : Arith) (a1 a2 b1 b2 : Pt) : Isect :=
  match isectBBox a1 a2 b1 b2 with
  | some bb =>
    match ar.isectImpl a1 a2 b1 b2 with
    | .none => .none
    | .point p => .point (clampPt p bb)
    | .overlap p q => .overlap (clampPt p bb) (clampPt q bb)
    | .nonfinite => .nonfinite
  | none => .none

/-! ### segment order -/

/-- What `compare_segments` reads of a left event: identity, both endpoints' views, contour id. -/
structure SegView where
  id : Nat
  l : EvView
  r : Option EvView       -- the right event, when the `Weak` upgrades
  contourId : Nat
deriving Repr, Inhabited

def Arena.segView (a : Arena) (i : Nat) : SegView :=
  { id := i, l := a.view i, r := a[i]!.other.map (fun j => a.view j), contourId := a[i]!.contourId }

inductive CmpSegOut
  | ord (o : Ordering)
  | nonfinite
  | debugAssert
deriving DecidableEq, Repr, Inhabited

/-- the body of `compare_segments` after the two events have been put in temporal order (`old` is
    processed first); `lessIf'` is `less_if` or `less_if_inversed` accordingly -/
def compareSegCore (ar : Arith) (dbg : Bool) (lessIf' : Bool → Ordering) (old new : SegView) : CmpSegOut :=
  match old.r, new.r with
  | some oldR, some newR =>
    let saL := orient old.l.point oldR.point new.l.point
    let saR := orient old.l.point oldR.point newR.point
    let collinear : CmpSegOut :=
      if old.l.isSubject = new.l.isSubject then
        if old.l.point = new.l.point then .ord (lessIf' (decide (old.contourId < new.contourId)))
        else .ord (lessIf' true)
      else .ord (lessIf' old.l.isSubject)
    if saL ≠ 0 ∨ saR ≠ 0 then
      if old.l.point = new.l.point then .ord (lessIf' (old.l.isBelow newR.point))
      else if old.l.point.x = new.l.point.x then .ord (lessIf' (decide (old.l.point.y < new.l.point.y)))
      else if (decide (saL > 0)) = (decide (saR > 0)) then .ord (lessIf' (decide (saL > 0)))
      else if saL = 0 then .ord (lessIf' (decide (saR > 0)))
      else
        match ar.isect old.l.point oldR.point new.l.point newR.point with
        | .none => .ord (lessIf' (decide (saL > 0)))
        | .point p => if p = new.l.point then .ord (lessIf' (decide (saR > 0))) else .ord (lessIf' (decide (saL > 0)))
        | .overlap _ _ => collinear
        | .nonfinite => .nonfinite
    else collinear
  | _, _ => if dbg then .debugAssert else .ord (lessIf' true)

/-- `compare_segments(se1_l, se2_l)`.  `dbg`: debug assertions compiled in. -/
def compareSegView (ar : Arith) (dbg : Bool) (s1 s2 : SegView) : CmpSegOut :=
  if dbg && (!s1.l.left || !s2.l.left || s1.r.isNone || s2.r.isNone) then .debugAssert else
  if s1.id = s2.id then .ord .eq else
  if cmpView s1.l s2.l == .gt then compareSegCore ar dbg lessIf s1 s2
  else compareSegCore ar dbg lessIfInv s2 s1

end Gbo
