/-
  std::collections::BinaryHeap (library/alloc/src/collections/binary_heap/mod.rs): `push`, `pop`,
  `sift_up`, `sift_down_to_bottom`, transliterated on `Array Nat` (event indices) with the
  comparison `le a b` standing for `a <= b` on `Rc<SweepEvent>` (i.e. `cmp(a,b) != Greater`).
  Loops run on fuel that is always sufficient (position / length); imports nothing.
-/
namespace Gbo.Heap

variable (le : Nat → Nat → Bool)

/-- loop of `sift_up(start = 0, pos)` with the hole's element `elt` held out -/
def siftUpLoop (elt : Nat) : Nat → Array Nat → Nat → Array Nat
  | 0, d, pos => d.set! pos elt
  | fuel + 1, d, pos =>
    if pos > 0 then
      let parent := (pos - 1) / 2
      if le elt d[parent]! then d.set! pos elt
      else siftUpLoop elt fuel (d.set! pos d[parent]!) parent
    else d.set! pos elt

def siftUp (d : Array Nat) (pos : Nat) : Array Nat :=
  siftUpLoop le d[pos]! (pos + 1) d pos

def push (d : Array Nat) (x : Nat) : Array Nat :=
  siftUp le (d.push x) d.size

/-- loop of `sift_down_to_bottom(0)`: returns the data (with the hole's slot stale) and the hole position -/
def siftDownLoop (endd : Nat) : Nat → Array Nat → Nat → Array Nat × Nat
  | 0, d, pos => (d, pos)
  | fuel + 1, d, pos =>
    let child := 2 * pos + 1
    if child ≤ endd - 2 ∧ endd ≥ 2 then
      let child := if le d[child]! d[child + 1]! then child + 1 else child
      siftDownLoop endd fuel (d.set! pos d[child]!) child
    else if child = endd - 1 ∧ endd ≥ 1 then
      (d.set! pos d[child]!, child)
    else (d, pos)

def siftDownToBottom (d : Array Nat) : Array Nat :=
  let elt := d[0]!
  let (d', pos) := siftDownLoop le d.size d.size d 0
  siftUpLoop le elt (pos + 1) d' pos

/-- `pop`: the popped element and the remaining heap -/
def pop (d : Array Nat) : Option (Nat × Array Nat) :=
  if d.size = 0 then none else
  let item := d[d.size - 1]!
  let d1 := d.pop
  if d1.size = 0 then some (item, d1) else
  let top := d1[0]!
  let d2 := d1.set! 0 item
  some (top, siftDownToBottom le d2)

end Gbo.Heap
