/-
  Numbers of the model.  Coordinates are exact rationals (every finite f32/f64 is one).
  The only rounded arithmetic of the Rust code (`segment_intersection::intersection_impl`
  and the one-ulp `nextafter` of `divide_segment`) is isolated in `Arith`.
  Imports nothing outside core Lean.
-/
namespace Gbo

structure Pt where
  x : Rat
  y : Rat
deriving DecidableEq, Repr, Inhabited

/-- 2^e as a rational, e any integer. -/
def pow2 (e : Int) : Rat :=
  if e ≥ 0 then ((2 ^ e.toNat : Nat) : Rat) else 1 / ((2 ^ (-e).toNat : Nat) : Rat)

/-- floor(log2 a) for a > 0. -/
def ilog2 (a : Rat) : Int :=
  let e0 : Int := (Nat.log2 a.num.natAbs : Int) - (Nat.log2 a.den : Int)
  if pow2 e0 > a then e0 - 1 else if pow2 (e0 + 1) ≤ a then e0 + 1 else e0

/-- Round to nearest, ties to even, onto the binary floating-point grid with `p` significant bits
    and minimal exponent `emin` (gradual underflow).  No overflow handling: callers keep
    magnitudes in range (the driver refuses inputs outside it). -/
def rndBin (p : Nat) (emin : Int) (q : Rat) : Rat :=
  if q = 0 then 0 else
  let a : Rat := if q < 0 then -q else q
  let e : Int := ilog2 a
  let e' : Int := if e < emin then emin else e
  let ue : Int := e' - ((p : Int) - 1)
  let scaled : Rat := a / pow2 ue
  let fl : Int := scaled.floor
  let frac : Rat := scaled - (fl : Rat)
  let n : Int :=
    if frac < (1/2 : Rat) then fl
    else if frac > (1/2 : Rat) then fl + 1
    else if fl % 2 = 0 then fl else fl + 1
  let r : Rat := (n : Rat) * pow2 ue
  if q < 0 then -r else r

/-- The next representable value above `q` (`nextafter(q, +inf)`) on the same grid. `q` is assumed
    to be on the grid. -/
def nextUpBin (p : Nat) (emin : Int) (q : Rat) : Rat :=
  if q = 0 then pow2 (emin - ((p : Int) - 1)) else
  if q > 0 then
    let e : Int := ilog2 q
    let e' : Int := if e < emin then emin else e
    q + pow2 (e' - ((p : Int) - 1))
  else
    let a : Rat := -q
    let e : Int := ilog2 a
    -- going towards zero: the spacing below a power of two is halved
    let e1 : Int := if a = pow2 e then e - 1 else e
    let e' : Int := if e1 < emin then emin else e1
    q + pow2 (e' - ((p : Int) - 1))

/-- Rounded arithmetic used by the intersection routine. -/
structure Arith where
  rnd    : Rat → Rat
  nextUp : Rat → Rat

def Arith.exact : Arith := { rnd := id, nextUp := id }
def Arith.f64 : Arith := { rnd := rndBin 53 (-1022), nextUp := nextUpBin 53 (-1022) }
def Arith.f32 : Arith := { rnd := rndBin 24 (-126), nextUp := nextUpBin 24 (-126) }

namespace Arith
variable (ar : Arith)
@[inline] def add (a b : Rat) : Rat := ar.rnd (a + b)
@[inline] def sub (a b : Rat) : Rat := ar.rnd (a - b)
@[inline] def mul (a b : Rat) : Rat := ar.rnd (a * b)
@[inline] def div (a b : Rat) : Rat := ar.rnd (a / b)
end Arith

/-- `robust::orient2d(pa, pb, pc)`: exact sign carrier (positive iff counter-clockwise). -/
def orient (pa pb pc : Pt) : Rat :=
  (pa.x - pc.x) * (pb.y - pc.y) - (pa.y - pc.y) * (pb.x - pc.x)

def rmin (a b : Rat) : Rat := if a ≤ b then a else b
def rmax (a b : Rat) : Rat := if a ≤ b then b else a

end Gbo
