import Gbo.Model.Event
import Gbo.Model.Splay
import Gbo.Model.Heap
/-
  fill_queue.rs, divide_segment.rs, possible_intersection.rs, compute_fields.rs, subdivide_segments.rs
-/
namespace Gbo

abbrev Ring := List Pt
structure Poly where
  ext : Ring
  holes : List Ring
deriving Repr, Inhabited, DecidableEq
abbrev MPoly := List Poly

inductive PanicSite
  | indexContour          -- connect_edges.rs: contours[lower_contour_id as usize] and friends
  | unwrapOther           -- possible_intersection.rs: get_other_event().unwrap()
  | debugAssert (what : String)
  | indexEvents           -- connect_edges.rs: result_events[pos as usize]
deriving Repr, Inhabited, DecidableEq

inductive Fail
  | panic (s : PanicSite)
  | budget (bumps : Nat)
  | nonfinite
  | fuel (what : String)  -- a loop of the model ran out of fuel (= the Rust loop does not terminate)
deriving Repr, Inhabited, DecidableEq

structure Cfg where
  dbg : Bool := false
  budget : Nat := 1000000
deriving Repr, Inhabited

/-- heap order on events: `a <= b` for `Rc<SweepEvent>` -/
def evLe (a : Arena) (i j : Nat) : Bool := cmpEv a i j != .gt

/-! ### fill_queue -/

structure FQ where
  arena : Arena := #[]
  heap : Array Nat := #[]
deriving Repr, Inhabited

/-- bounding box accumulation: `none` is the initial (+inf, -inf) box -/
def bboxAdd (b : Option BBox) (p : Pt) : Option BBox :=
  match b with
  | none => some { minx := p.x, miny := p.y, maxx := p.x, maxy := p.y }
  | some b => some { minx := rmin b.minx p.x, miny := rmin b.miny p.y, maxx := rmax b.maxx p.x, maxy := rmax b.maxy p.y }

/-- the two events `process_polygon` creates for the line `s -> e` when the arena holds `n` events:
    `e1 < e2` (both still right events, linked to each other) decides which one becomes the left event -/
def mkPair (n : Nat) (s e : Pt) (isSubject : Bool) (contourId : Nat) (isExt : Bool) : Ev × Ev :=
  let v1 : EvView := { point := s, left := false, otherPt := some e, isSubject := isSubject }
  let v2 : EvView := { point := e, left := false, otherPt := some s, isSubject := isSubject }
  let e2Left := cmpView v1 v2 == .lt
  ({ point := s, left := !e2Left, other := some (n + 1), contourId := contourId, isSubject := isSubject, isExteriorRing := isExt },
   { point := e, left := e2Left, other := some n, contourId := contourId, isSubject := isSubject, isExteriorRing := isExt })

def processLine (isSubject : Bool) (contourId : Nat) (isExt : Bool)
    (st : FQ × Option BBox) (s e : Pt) : FQ × Option BBox :=
  if s = e then st else
  let (fq, bb) := st
  let n := fq.arena.size
  let (e1, e2) := mkPair n s e isSubject contourId isExt
  let a := (fq.arena.push e1).push e2
  let bb := bboxAdd bb s
  let h := Heap.push (evLe a) fq.heap n
  let h := Heap.push (evLe a) h (n + 1)
  ({ arena := a, heap := h }, bb)

/-- `LineString::lines()` folded with `processLine` -/
def processRing (isSubject : Bool) (contourId : Nat) (isExt : Bool) :
    FQ × Option BBox → Ring → FQ × Option BBox
  | st, p :: q :: rest => processRing isSubject contourId isExt (processLine isSubject contourId isExt st p q) (q :: rest)
  | st, _ => st

def processPolygon (isSubject : Bool) (contourId : Nat) (extIsExt : Bool)
    (st : FQ × Option BBox) (p : Poly) : FQ × Option BBox :=
  let st := processRing isSubject contourId extIsExt st p.ext
  p.holes.foldl (fun st h => processRing isSubject contourId false st h) st

structure FillOut where
  fq : FQ
  sbbox : Option BBox
  cbbox : Option BBox
deriving Repr, Inhabited

/-- one subject polygon: a new contour id, exterior ring flagged as such -/
def subjStep (acc : Nat × FQ × Option BBox) (p : Poly) : Nat × FQ × Option BBox :=
  let cid := acc.1 + 1
  let r := processPolygon true cid true (acc.2.1, acc.2.2) p
  (cid, r.1, r.2)

/-- one clipping polygon: under `Difference` it keeps the last contour id and is not an exterior ring -/
def clipStep (op : Op) (acc : Nat × FQ × Option BBox) (p : Poly) : Nat × FQ × Option BBox :=
  let exterior := op != .difference
  let cid := if exterior then acc.1 + 1 else acc.1
  let r := processPolygon false cid exterior (acc.2.1, acc.2.2) p
  (cid, r.1, r.2)

def fillQueue (subject clipping : MPoly) (op : Op) : FillOut :=
  let r1 := subject.foldl subjStep (0, {}, none)
  let r2 := clipping.foldl (clipStep op) (r1.1, r1.2.1, none)
  { fq := r2.2.1, sbbox := r1.2.2, cbbox := r2.2.2 }

/-! ### the sweep state -/

structure SwSt where
  arena : Arena
  heap : Array Nat
  line : SplayTree Nat Unit := {}
  sorted : Array Nat := #[]
  popped : Nat := 0
  bumps : Nat := 0
deriving Repr, Inhabited

/-- the two events `divide_segment` appends at the division point -/
def dividePush (a : Arena) (seL seR : Nat) (inter : Pt) : Arena :=
  let r : Ev := { point := inter, left := false, other := some seL, contourId := a[seL]!.contourId,
                  isSubject := a[seL]!.isSubject, isExteriorRing := true }
  let l : Ev := { point := inter, left := true, other := some seR, contourId := a[seL]!.contourId,
                  isSubject := a[seL]!.isSubject, isExteriorRing := true }
  (a.push r).push l

/-- the arena after `divide_segment`: new events appended, the left/right swap of "corner case 2"
    (rounding put the division point behind the right endpoint), the pairing re-linked -/
def divideArena (a : Arena) (seL seR : Nat) (inter : Pt) : Arena :=
  let n := a.size
  let li := n + 1
  let a := dividePush a seL seR inter
  let a := if !isBefore a li seR then
             (a.modify seR (fun ev => { ev with left := true })).modify li (fun ev => { ev with left := false })
           else a
  let a := a.modify seL (fun ev => { ev with other := some n })
  a.modify seR (fun ev => { ev with other := some li })

/-- `divide_segment(se_l, inter, queue)` -/
def divideSegment (ar : Arith) (cfg : Cfg) (st : SwSt) (seL : Nat) (inter : Pt) : Except Fail SwSt := do
  let a := st.arena
  if cfg.dbg && !a[seL]!.left then throw (.panic (.debugAssert "divide_segment: se_l.is_left()"))
  match a[seL]!.other with
  | none => return st
  | some seR =>
    let bump := inter.x = a[seL]!.point.x ∧ inter.y < a[seL]!.point.y
    let inter : Pt := if bump then { inter with x := ar.nextUp inter.x } else inter
    let ri := a.size
    let li := a.size + 1
    if cfg.dbg && !isBefore (dividePush a seL seR inter) seL ri then throw (.panic (.debugAssert "divide_segment: se_l.is_before(&r)"))
    let a := divideArena a seL seR inter
    let h := Heap.push (evLe a) st.heap li
    let h := Heap.push (evLe a) h ri
    return { st with arena := a, heap := h, bumps := st.bumps + (if bump then 1 else 0) }

/-- the `events` vector of the overlap branch: the end events of the two segments that do not coincide, in
    sweep order (`(event, its other event)`) -/
def overlapEvents (a : Arena) (se1 other1 se2 other2 : Nat) : Array (Nat × Nat) :=
  let p1 := a[se1]!.point
  let p2 := a[se2]!.point
  let q1 := a[other1]!.point
  let q2 := a[other2]!.point
  let evs : Array (Nat × Nat) :=
    if decide (p1 = p2) then #[]
    else if cmpEv a se1 se2 == .lt then #[(se2, other2), (se1, other1)]
    else #[(se1, other1), (se2, other2)]
  if decide (q1 = q2) then evs
  else if cmpEv a other1 other2 == .lt then (evs.push (other2, se2)).push (other1, se1)
  else (evs.push (other1, se1)).push (other2, se2)

/-- left endpoints coincide: the upper segment stops contributing, the lower one carries the transition -/
def markCoincident (a : Arena) (se1 se2 : Nat) : Arena :=
  let a' := a.modify se2 (fun ev => { ev with edgeType := .nonContributing })
  a'.modify se1 (fun ev => { ev with edgeType :=
              if a'[se1]!.inOut = a'[se2]!.inOut then .sameTransition else .differentTransition })

/-- the collinear-overlap branch of `possible_intersection` -/
def overlapBranch (ar : Arith) (cfg : Cfg) (st : SwSt) (se1 other1 se2 other2 : Nat) : Except Fail (Nat × SwSt) := do
  let a := st.arena
  if a[se1]!.isSubject = a[se2]!.isSubject then return (0, st) else
  let leftCoincide := decide (a[se1]!.point = a[se2]!.point)
  let rightCoincide := decide (a[other1]!.point = a[other2]!.point)
  let evs := overlapEvents a se1 other1 se2 other2
  if leftCoincide then
    let a := markCoincident a se1 se2
    let st := { st with arena := a }
    let st ← if !rightCoincide then divideSegment ar cfg st evs[1]!.2 a[evs[0]!.1]!.point else pure st
    return (2, st)
  if rightCoincide then
    let st ← divideSegment ar cfg st evs[0]!.1 a[evs[1]!.1]!.point
    return (3, st)
  if evs[0]!.1 ≠ evs[3]!.2 then
    let st ← divideSegment ar cfg st evs[0]!.1 a[evs[1]!.1]!.point
    let st ← divideSegment ar cfg st evs[1]!.1 a[evs[2]!.1]!.point
    return (3, st)
  let st ← divideSegment ar cfg st evs[0]!.1 a[evs[1]!.1]!.point
  match st.arena[evs[3]!.1]!.other with
  | none => throw (.panic .unwrapOther)
  | some o =>
    let st ← divideSegment ar cfg st o a[evs[2]!.1]!.point
    return (3, st)

/-- `possible_intersection(se1, se2, queue)`: the return code and the new state -/
def possibleIntersection (ar : Arith) (cfg : Cfg) (st : SwSt) (se1 se2 : Nat) : Except Fail (Nat × SwSt) := do
  let a := st.arena
  match a[se1]!.other, a[se2]!.other with
  | some other1, some other2 =>
    let p1 := a[se1]!.point
    let p2 := a[se2]!.point
    let q1 := a[other1]!.point
    let q2 := a[other2]!.point
    match ar.isect p1 q1 p2 q2 with
    | .nonfinite => throw .nonfinite
    | .none => return (0, st)
    | .point inter =>
      if p1 = p2 ∨ q1 = q2 then return (0, st) else
      let st ← if p1 ≠ inter ∧ q1 ≠ inter then divideSegment ar cfg st se1 inter else pure st
      let st ← if p2 ≠ inter ∧ q2 ≠ inter then divideSegment ar cfg st se2 inter else pure st
      return (1, st)
    | .overlap _ _ => overlapBranch ar cfg st se1 other1 se2 other2
  | _, _ => return (0, st)

/-! ### compute_fields -/

/-- `in_result` -/
def inResultOf (edgeType : EdgeType) (op : Op) (isSubject otherInOut : Bool) : Bool :=
  match edgeType with
  | .normal =>
    match op with
    | .intersection => !otherInOut
    | .union => otherInOut
    | .difference => (isSubject && otherInOut) || (!isSubject && !otherInOut)
    | .xor => true
  | .sameTransition => op == .intersection || op == .union
  | .differentTransition => op == .difference
  | .nonContributing => false

/-- `determine_result_transition` -/
def resultTransitionOf (edgeType : EdgeType) (op : Op) (isSubject inOut otherInOut : Bool) : ResTrans :=
  let thisIn := !inOut
  let thatIn := match edgeType with
    | .sameTransition => thisIn
    | .differentTransition => !thisIn
    | _ => !otherInOut
  let isIn := match op with
    | .intersection => thisIn && thatIn
    | .union => thisIn || thatIn
    | .xor => thisIn != thatIn
    | .difference => if isSubject then thisIn && !thatIn else thatIn && !thisIn
  if isIn then .outIn else .inOut

/-- the in/out flags `compute_fields` derives from the predecessor -/
def propagateFlags (evSubject : Bool) (prev : Option (Bool × Bool × Bool × Bool)) : Bool × Bool :=
  -- prev = (isSubject, inOut, otherInOut, isVertical)
  match prev with
  | none => (false, true)
  | some (pSubj, pInOut, pOtherInOut, pVert) =>
    if evSubject = pSubj then
      if pVert then (pInOut, pOtherInOut) else (!pInOut, pOtherInOut)
    else if pVert then (!pOtherInOut, !pInOut)
    else (!pOtherInOut, pInOut)

/-- `compute_fields(event, maybe_prev, operation)` -/
def computeFields (a : Arena) (event : Nat) (prev : Option Nat) (op : Op) : Arena :=
  let ev := a[event]!
  let (io, oio) := propagateFlags ev.isSubject
    (prev.map (fun p => (a[p]!.isSubject, a[p]!.inOut, a[p]!.otherInOut, (a.view p).isVertical)))
  let pir : Option Nat :=
    match prev with
    | none => none
    | some p =>
      if a[p]!.resTrans != .none && !(a.view p).isVertical then some p
      else a[p]!.prevInResult
  let inRes := inResultOf ev.edgeType op ev.isSubject oio
  let rt := if !inRes then ResTrans.none else resultTransitionOf ev.edgeType op ev.isSubject io oio
  a.modify event (fun ev => { ev with inOut := io, otherInOut := oio, prevInResult := pir, resTrans := rt })

/-! ### subdivide -/

def segCmp (ar : Arith) (dbg : Bool) (a : Arena) (i j : Nat) : Ordering :=
  match compareSegView ar dbg (a.segView i) (a.segView j) with
  | .ord o => o
  | _ => .lt

/-- key sanity that `compare_segments` debug-asserts -/
def keyOk (a : Arena) (i : Nat) : Bool := a[i]!.left && a[i]!.other.isSome

structure SweepOut where
  arena : Arena
  sorted : Array Nat
  popped : Nat
  bumps : Nat
  lineLeft : Nat     -- segments left in the sweep line when the loop ended
deriving Repr, Inhabited

/-- after insertion: the new segment against the segment above it; return code 2 (coincident from a common
    left endpoint) makes both recompute their fields -/
def checkNext (ar : Arith) (cfg : Cfg) (op : Op) (st : SwSt) (event : Nat) (prev next : Option Nat) :
    Except Fail SwSt :=
  match next with
  | none => pure st
  | some nx => do
    let (code, st) ← possibleIntersection ar cfg st event nx
    if code = 2 then
      let a := computeFields st.arena event prev op
      let a := computeFields a nx (some event) op
      pure { st with arena := a }
    else pure st

/-- after insertion: the segment below against the new segment -/
def checkPrev (ar : Arith) (cfg : Cfg) (op : Op) (st : SwSt) (event : Nat) (prev : Option Nat) : Except Fail SwSt :=
  match prev with
  | none => pure st
  | some pv => do
    let (code, st) ← possibleIntersection ar cfg st pv event
    if code = 2 then
      let (line, pp) := st.line.prev (segCmp ar cfg.dbg st.arena) pv
      let a := computeFields st.arena pv (pp.map (·.1)) op
      let a := computeFields a event (some pv) op
      pure { st with arena := a, line := line }
    else pure st

/-- on removal: the two former neighbours against each other -/
def checkRemoval (ar : Arith) (cfg : Cfg) (st : SwSt) (prev next : Option (Nat × Unit)) : Except Fail SwSt :=
  match prev, next with
  | some (pv, _), some (nx, _) => do
    let (_, st) ← possibleIntersection ar cfg st pv nx
    pure st
  | _, _ => pure st

/-- one iteration of the `while let Some(event) = event_queue.pop()` loop after the pop;
    `true` = `break` -/
def sweepStep (ar : Arith) (cfg : Cfg) (op : Op) (rightbound sbMaxX : Rat) (st : SwSt) (event : Nat) :
    Except Fail (Bool × SwSt) := do
  let st := { st with sorted := st.sorted.push event }
  let ev := st.arena[event]!
  if (op == .intersection && decide (ev.point.x > rightbound)) || (op == .difference && decide (ev.point.x > sbMaxX)) then
    return (true, st)
  if ev.left then
    if cfg.dbg && !keyOk st.arena event then throw (.panic (.debugAssert "compare_segments: left events"))
    let cmp := segCmp ar cfg.dbg st.arena
    let (line, _) := st.line.insert cmp event ()
    let (line, prev) := line.prev cmp event
    let (line, next) := line.next cmp event
    let prev := prev.map (·.1)
    let next := next.map (·.1)
    let st := { st with line := line, arena := computeFields st.arena event prev op }
    let st ← checkNext ar cfg op st event prev next
    let st ← checkPrev ar cfg op st event prev
    return (false, st)
  else
    match ev.other with
    | none => return (false, st)
    | some other =>
      let cmp := segCmp ar cfg.dbg st.arena
      let (line, c0) := if cfg.dbg then st.line.contains cmp other else (st.line, true)
      if cfg.dbg && !c0 then throw (.panic (.debugAssert "Sweep line misses event to be removed"))
      let (line, c) := line.contains cmp other
      if !c then return (false, { st with line := line }) else
      let (line, prev) := line.prev cmp other
      let (line, next) := line.next cmp other
      let st := { st with line := line }
      let st ← checkRemoval ar cfg st prev next
      let (line, _) := st.line.remove (segCmp ar cfg.dbg st.arena) other
      return (false, { st with line := line })

/-- the `while` loop of `subdivide`, on fuel (`cfg.budget` + 1 pops) -/
def sweepLoop (ar : Arith) (cfg : Cfg) (op : Op) (rightbound sbMaxX : Rat) : Nat → SwSt → Except Fail SwSt
  | 0, st => .error (.budget st.bumps)
  | fuel + 1, st =>
    match Heap.pop (evLe st.arena) st.heap with
    | none => .ok st
    | some (event, h) =>
      let st := { st with heap := h, popped := st.popped + 1 }
      if st.popped > cfg.budget then .error (.budget st.bumps) else
      match sweepStep ar cfg op rightbound sbMaxX st event with
      | .error e => .error e
      | .ok (true, st) => .ok st
      | .ok (false, st) => sweepLoop ar cfg op rightbound sbMaxX fuel st

/-- `subdivide(event_queue, sbbox, cbbox, operation)` -/
def subdivide (ar : Arith) (cfg : Cfg) (fq : FQ) (sb cb : BBox) (op : Op) : Except Fail SweepOut :=
  let rightbound := rmin sb.maxx cb.maxx
  match sweepLoop ar cfg op rightbound sb.maxx (cfg.budget + 1) { arena := fq.arena, heap := fq.heap } with
  | .error e => .error e
  | .ok st => .ok { arena := st.arena, sorted := st.sorted, popped := st.popped, bumps := st.bumps, lineLeft := st.line.size }

end Gbo
