import Gbo.Model.Sweep
/-
  connect_edges.rs and boolean/mod.rs (boolean_operation, trivial_result, the four trait impls).
-/
namespace Gbo

/-- one pass of the bubble sort in `order_events`: `(array, swapped?)` -/
def bubblePass (a : Arena) (r : Array Nat) : Array Nat × Bool :=
  (List.range (r.size - 1)).foldl
    (fun (acc : Array Nat × Bool) k =>
      let i := k + 1
      let (r, sw) := acc
      if cmpEv a r[i - 1]! r[i]! == .lt then (r.swapIfInBounds (i - 1) i, true) else (r, sw))
    (r, false)

def bubbleSort (a : Arena) : Nat → Array Nat → Option (Array Nat)
  | 0, _ => none
  | fuel + 1, r =>
    let (r, sw) := bubblePass a r
    if sw then bubbleSort a fuel r else some r

/-- `order_events`: the ordered result events and the arena with `other_pos` populated -/
def orderEvents (a : Arena) (sorted : Array Nat) : Except Fail (Array Nat × Arena) :=
  let res := sorted.filter (fun i =>
    let e := a[i]!
    (e.left && e.resTrans != .none) ||
    (!e.left && (match e.other with | some o => a[o]!.resTrans != .none | none => false)))
  -- a bubble sort on a strict total order needs at most `size` passes; more means a cycle
  match bubbleSort a (res.size * res.size + 2) res with
  | none => .error (.fuel "order_events bubble sort")
  | some res =>
    let a := (List.range res.size).foldl (fun (a : Arena) (pos : Nat) => a.modify res[pos]! (fun e => { e with otherPos := (pos : Int) })) a
    let a := res.foldl (fun (a : Arena) i =>
      if a[i]!.left then
        match a[i]!.other with
        | some o =>
          let x := a[i]!.otherPos
          let y := a[o]!.otherPos
          (a.modify i (fun e => { e with otherPos := y })).modify o (fun e => { e with otherPos := x })
        | none => a
      else a) a
    .ok (res, a)

/-- `precompute_iteration_order` on (point, is_left) data; fuel = data.size + 1 groups -/
def iterationOrderLoop (data : Array (Pt × Bool)) : Nat → Nat → Array Nat → Array Nat
  | 0, _, map => map
  | fuel + 1, i, map =>
    if i ≥ data.size then map else
    let xref := data[i]!.1
    -- R events
    let rFrom := i
    let rUpto := (List.range (data.size - i)).foldl
      (fun (acc : Nat × Bool) _ =>
        let (j, go) := acc
        if go && j < data.size && data[j]!.1 = xref && !data[j]!.2 then (j + 1, true) else (j, false)) (i, true)
    let rUptoEx := rUpto.1
    let lFrom := rUptoEx
    let lUpto := (List.range (data.size - lFrom)).foldl
      (fun (acc : Nat × Bool) _ =>
        let (j, go) := acc
        if go && j < data.size && data[j]!.1 = xref then (j + 1, true) else (j, false)) (lFrom, true)
    let lUptoEx := lUpto.1
    let hasR := rUptoEx > rFrom
    let hasL := lUptoEx > lFrom
    let map := if hasR then
        let rU := rUptoEx - 1
        let map := (List.range (rU - rFrom)).foldl (fun (m : Array Nat) k => m.set! (rFrom + k) (rFrom + k + 1)) map
        if hasL then map.set! rU (lUptoEx - 1) else map.set! rU rFrom
      else map
    let map := if hasL then
        let lU := lUptoEx - 1
        let map := (List.range (lU - lFrom)).foldl (fun (m : Array Nat) k => m.set! (lFrom + 1 + k) (lFrom + k)) map
        if hasR then map.set! lFrom rFrom else map.set! lFrom lU
      else map
    iterationOrderLoop data fuel lUptoEx map

def precomputeIterationOrder (data : Array (Pt × Bool)) : Array Nat :=
  iterationOrderLoop data (data.size + 1) 0 (Array.replicate data.size 0)

/-- `get_next_pos` -/
def getNextPosLoop (start : Nat) (processed : Array Bool) (map : Array Nat) : Nat → Nat → Except Fail (Option Nat)
  | 0, _ => .error (.fuel "get_next_pos")
  | fuel + 1, pos =>
    let pos := map[pos]!
    if pos = start then .ok none
    else if !processed[pos]! then .ok (some pos)
    else getNextPosLoop start processed map fuel pos

structure Contour where
  points : Array Pt := #[]
  holeIds : Array Int := #[]
  holeOf : Option Int := none
  depth : Int := 0
deriving Repr, Inhabited

def idxOk (n : Nat) (i : Int) : Bool := i ≥ 0 && i.toNat < n

/-- `Contour::initialize_from_context` -/
def initializeFromContext (cfg : Cfg) (a : Arena) (event : Nat) (contours : Array Contour) (contourId : Int) :
    Except Fail (Contour × Array Contour) :=
  match a[event]!.prevInResult with
  | none => .ok ({}, contours)
  | some pir =>
    let lower := a[pir]!.outputContourId
    if a[pir]!.resTrans == .outIn then
      if !idxOk contours.size lower then .error (.panic .indexContour) else
      let lc := contours[lower.toNat]!
      match lc.holeOf with
      | some parent =>
        if !idxOk contours.size parent then .error (.panic .indexContour) else
        let contours := contours.modify parent.toNat (fun c => { c with holeIds := c.holeIds.push contourId })
        .ok ({ holeOf := some parent, depth := lc.depth }, contours)
      | none =>
        let contours := contours.modify lower.toNat (fun c => { c with holeIds := c.holeIds.push contourId })
        .ok ({ holeOf := some lower, depth := lc.depth + 1 }, contours)
    else
      if !idxOk contours.size lower then
        if cfg.dbg then .error (.panic (.debugAssert "Invalid lower_contour_id should be impossible."))
        else .ok ({ holeOf := none, depth := 0 }, contours)
      else .ok ({ holeOf := none, depth := contours[lower.toNat]!.depth }, contours)

structure CE where
  arena : Arena
  processed : Array Bool
  contour : Contour
deriving Inhabited

/-- the inner `loop` of `connect_edges` -/
def contourLoop (res : Array Nat) (map : Array Nat) (contourId : Int) (initial : Pt) :
    Nat → CE → Nat → Except Fail CE
  | 0, _, _ => .error (.fuel "connect_edges contour loop")
  | fuel + 1, st, pos =>
    if pos ≥ res.size then .error (.panic .indexEvents) else
    -- mark_as_processed(pos)
    let processed := st.processed.set! pos true
    let a := st.arena.modify res[pos]! (fun e => { e with outputContourId := contourId })
    -- (A)
    let opos := a[res[pos]!]!.otherPos
    if !idxOk res.size opos then .error (.panic .indexEvents) else
    let pos := opos.toNat
    let processed := processed.set! pos true
    let a := a.modify res[pos]! (fun e => { e with outputContourId := contourId })
    let contour := { st.contour with points := st.contour.points.push a[res[pos]!]!.point }
    let st : CE := { arena := a, processed := processed, contour := contour }
    -- (B)
    match getNextPosLoop pos processed map (res.size + 1) pos with
    | .error e => .error e
    | .ok none => .ok st
    | .ok (some npos) =>
      if a[res[npos]!]!.point = initial then .ok st
      else contourLoop res map contourId initial fuel st npos

/-- `connect_edges` -/
def connectEdges (cfg : Cfg) (a : Arena) (sorted : Array Nat) : Except Fail (Array Contour × Arena) :=
  match orderEvents a sorted with
  | .error e => .error e
  | .ok (res, a) =>
    let map := precomputeIterationOrder (res.map (fun i => (a[i]!.point, a[i]!.left)))
    let rec go : Nat → Nat → Arena → Array Bool → Array Contour → Except Fail (Array Contour × Arena)
      | 0, _, a, _, contours => .ok (contours, a)
      | fuel + 1, i, a, processed, contours =>
        if i ≥ res.size then .ok (contours, a) else
        if processed[i]! then go fuel (i + 1) a processed contours else
        let contourId : Int := contours.size
        match initializeFromContext cfg a res[i]! contours contourId with
        | .error e => .error e
        | .ok (contour, contours) =>
          let initial := a[res[i]!]!.point
          let contour := { contour with points := contour.points.push initial }
          match contourLoop res map contourId initial (res.size + 1) { arena := a, processed := processed, contour := contour } i with
          | .error e => .error e
          | .ok st => go fuel (i + 1) st.arena st.processed (contours.push st.contour)
    go (res.size + 1) 0 a (Array.replicate res.size false) #[]

/-- `LineString::close` as done by `Polygon::new` -/
def closeRing (r : Ring) : Ring :=
  match r with
  | [] => []
  | p :: _ => if r.getLast? = some p then r else r ++ [p]

structure RunOut where
  result : MPoly
  popped : Nat
  bumps : Nat
  trivial : Bool
  lineLeft : Nat
deriving Repr, Inhabited

def trivialResult (subject clipping : MPoly) (op : Op) : MPoly :=
  match op with
  | .intersection => []
  | .difference => subject
  | .union | .xor => subject ++ clipping

def boxesDisjoint (sb cb : Option BBox) : Bool :=
  match sb, cb with
  | some s, some c => decide (s.minx > c.maxx) || decide (c.minx > s.maxx) || decide (s.miny > c.maxy) || decide (c.miny > s.maxy)
  | _, _ => true   -- an untouched box is (+inf, -inf): `inf > anything` holds

/-- `boolean_operation(subject, clipping, operation)` -/
def booleanOperation (ar : Arith) (cfg : Cfg) (subject clipping : MPoly) (op : Op) : Except Fail RunOut :=
  let f := fillQueue subject clipping op
  if boxesDisjoint f.sbbox f.cbbox then
    .ok { result := trivialResult subject clipping op, popped := 0, bumps := 0, trivial := true, lineLeft := 0 }
  else
    match f.sbbox, f.cbbox with
    | some sb, some cb =>
      match subdivide ar cfg f.fq sb cb op with
      | .error e => .error e
      | .ok sw =>
        match connectEdges cfg sw.arena sw.sorted with
        | .error e => .error e
        | .ok (contours, _) =>
          let polys : Except Fail (List Poly) :=
            contours.toList.filter (fun c => c.holeOf.isNone) |>.mapM (fun c =>
              match c.holeIds.toList.mapM (fun (h : Int) =>
                  if idxOk contours.size h then some (closeRing contours[h.toNat]!.points.toList) else none) with
              | none => .error (.panic .indexContour)
              | some holes => .ok { ext := closeRing c.points.toList, holes := holes })
          match polys with
          | .error e => .error e
          | .ok ps => .ok { result := ps, popped := sw.popped, bumps := sw.bumps, trivial := false, lineLeft := sw.lineLeft }
    | _, _ => .ok { result := trivialResult subject clipping op, popped := 0, bumps := 0, trivial := true, lineLeft := 0 }

/-- the four `impl BooleanOp` -/
def polyPoly (ar : Arith) (cfg : Cfg) (a b : Poly) (op : Op) := booleanOperation ar cfg [a] [b] op
def polyMulti (ar : Arith) (cfg : Cfg) (a : Poly) (b : MPoly) (op : Op) := booleanOperation ar cfg [a] b op
def multiMulti (ar : Arith) (cfg : Cfg) (a b : MPoly) (op : Op) := booleanOperation ar cfg a b op
def multiPoly (ar : Arith) (cfg : Cfg) (a : MPoly) (b : Poly) (op : Op) := booleanOperation ar cfg a [b] op

end Gbo
