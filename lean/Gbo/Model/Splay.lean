/-
  lib/src/splay/{node,tree,set}.rs.  `Option<Box<Node>>` is `Tree`; `&mut` becomes a returned value.
  The top-down splay keeps the Rust loop's two "hole" pointers as two lists of pending nodes.
  Imports nothing.
-/
namespace Gbo

inductive Tree (K V : Type) where
  | nil
  | node (l : Tree K V) (k : K) (v : V) (r : Tree K V)
deriving Repr, Inhabited

namespace Tree
variable {K V : Type}

def inorder : Tree K V → List (K × V)
  | nil => []
  | node l k v r => inorder l ++ (k, v) :: inorder r

def keys (t : Tree K V) : List K := t.inorder.map (·.1)

def count : Tree K V → Nat
  | nil => 0
  | node l _ _ r => count l + 1 + count r

def height : Tree K V → Nat
  | nil => 0
  | node l _ _ r => max (height l) (height r) + 1

/-- pending nodes of the *left* tree: `(l, k, v)` with the hole as right child; most recent first -/
abbrev LCtx (K V : Type) := List (Tree K V × K × V)
/-- pending nodes of the *right* tree: `(k, v, r)` with the hole as left child; most recent first -/
abbrev RCtx (K V : Type) := List (K × V × Tree K V)

def asmL : LCtx K V → Tree K V → Tree K V
  | [], t => t
  | (l, k, v) :: rest, t => asmL rest (node l k v t)

def asmR : RCtx K V → Tree K V → Tree K V
  | [], t => t
  | (k, v, r) :: rest, t => asmR rest (node t k v r)

/-- The loop of `splay`.  Result: the final `node` and the two pending lists. -/
def splayLoop (cmp : K → K → Ordering) (key : K) :
    Tree K V → LCtx K V → RCtx K V → Tree K V × LCtx K V × RCtx K V
  | nil, L, R => (nil, L, R)
  | node a k v b, L, R =>
    match cmp key k with
    | .eq => (node a k v b, L, R)
    | .lt =>
      match a with
      | nil => (node nil k v b, L, R)
      | node a1 k1 v1 a2 =>
        if cmp key k1 == .lt then
          -- rotate right
          match a1 with
          | nil => (node nil k1 v1 (node a2 k v b), L, R)
          | node x1 x2 x3 x4 => splayLoop cmp key (node x1 x2 x3 x4) L ((k1, v1, node a2 k v b) :: R)
        else
          splayLoop cmp key (node a1 k1 v1 a2) L ((k, v, b) :: R)
    | .gt =>
      match b with
      | nil => (node a k v nil, L, R)
      | node b1 k1 v1 b2 =>
        if cmp key k1 == .gt then
          -- rotate left
          match b2 with
          | nil => (node (node a k v b1) k1 v1 nil, L, R)
          | node x1 x2 x3 x4 => splayLoop cmp key (node x1 x2 x3 x4) ((node a k v b1, k1, v1) :: L) R
        else
          splayLoop cmp key (node b1 k1 v1 b2) ((a, k, v) :: L) R

/-- `splay(key, node, comparator)`: the new root. -/
def splay (cmp : K → K → Ordering) (key : K) (t : Tree K V) : Tree K V :=
  match splayLoop cmp key t [] [] with
  | (nil, _, _) => nil
  | (node a k v b, L, R) => node (asmL L a) k v (asmR R b)

/-- the walk of `SplayTree::next` after the splay -/
def succWalk (cmp : K → K → Ordering) (key : K) : Tree K V → Option (K × V) → Option (K × V)
  | nil, acc => acc
  | node l k v r, acc =>
    match cmp key k with
    | .lt => succWalk cmp key l (some (k, v))
    | _ => succWalk cmp key r acc

/-- the walk of `SplayTree::prev` after the splay -/
def predWalk (cmp : K → K → Ordering) (key : K) : Tree K V → Option (K × V) → Option (K × V)
  | nil, acc => acc
  | node l k v r, acc =>
    match cmp key k with
    | .gt => predWalk cmp key r (some (k, v))
    | _ => predWalk cmp key l acc

def minKey : Tree K V → Option K
  | nil => none
  | node nil k _ _ => some k
  | node (node a b c d) _ _ _ => minKey (node a b c d)

def maxKey : Tree K V → Option K
  | nil => none
  | node _ k _ nil => some k
  | node _ _ _ (node a b c d) => maxKey (node a b c d)

/-- the loop of `IntoIter::next` on `cur = node l k v r` -/
def iterNextLoop : Tree K V → K → V → Tree K V → K × V × Tree K V
  | nil, k, v, r => (k, v, r)
  | node ll lk lv lr, k, v, r => iterNextLoop ll lk lv (node lr k v r)

/-- the loop of `IntoIter::next_back` on `cur = node l k v r` -/
def iterBackLoop : Tree K V → K → V → Tree K V → K × V × Tree K V
  | l, k, v, nil => (k, v, l)
  | l, k, v, node rl rk rv rr => iterBackLoop (node l k v rl) rk rv rr

/-- `drop_tree` (the teardown used by `clear`, `Drop for SplayTree` and `Drop for IntoIter`): the loop
    keeps ONE tree as its whole state; each round rotates left children up until the root has none
    (`iterNextLoop`, the same loop as `IntoIter::next`) and frees that root.  Returns the entries in the
    order in which their nodes are freed.  `fuel` = number of nodes. -/
def dropAll : Nat → Tree K V → List (K × V)
  | 0, _ => []
  | _ + 1, nil => []
  | fuel + 1, node l k v r =>
    let res := iterNextLoop l k v r
    (res.1, res.2.1) :: dropAll fuel res.2.2

end Tree

/-- `SplayTree<K, V, C>` -/
structure SplayTree (K V : Type) where
  root : Tree K V := .nil
  size : Nat := 0
deriving Repr, Inhabited

namespace SplayTree
variable {K V : Type} (cmp : K → K → Ordering)
open Tree

def len (s : SplayTree K V) : Nat := s.size
def isEmpty (s : SplayTree K V) : Bool := s.size == 0
def clear (_ : SplayTree K V) : SplayTree K V := { root := .nil, size := 0 }

/-- `get`, `get_mut`: the tree after the lookup and the value found -/
def get (s : SplayTree K V) (key : K) : SplayTree K V × Option V :=
  match s.root with
  | .nil => (s, none)
  | t@(.node ..) =>
    match splay cmp key t with
    | .nil => ({ s with root := .nil }, none)   -- unreachable: splay of a node is a node
    | .node l k v r =>
      ({ s with root := .node l k v r }, if cmp key k == .eq then some v else none)

def findKey (s : SplayTree K V) (key : K) : SplayTree K V × Option K :=
  match s.root with
  | .nil => (s, none)
  | t@(.node ..) =>
    match splay cmp key t with
    | .nil => ({ s with root := .nil }, none)
    | .node l k v r =>
      ({ s with root := .node l k v r }, if cmp key k == .eq then some k else none)

def contains (s : SplayTree K V) (key : K) : SplayTree K V × Bool :=
  let (s', r) := s.findKey cmp key
  (s', r.isSome)

def next (s : SplayTree K V) (key : K) : SplayTree K V × Option (K × V) :=
  match s.root with
  | .nil => (s, none)
  | t@(.node ..) =>
    let t' := splay cmp key t
    ({ s with root := t' }, succWalk cmp key t' none)

def prev (s : SplayTree K V) (key : K) : SplayTree K V × Option (K × V) :=
  match s.root with
  | .nil => (s, none)
  | t@(.node ..) =>
    let t' := splay cmp key t
    ({ s with root := t' }, predWalk cmp key t' none)

def insert (s : SplayTree K V) (key : K) (value : V) : SplayTree K V × Option V :=
  match s.root with
  | .nil => ({ root := .node .nil key value .nil, size := s.size + 1 }, none)
  | t@(.node ..) =>
    match splay cmp key t with
    | .nil => ({ root := .node .nil key value .nil, size := s.size + 1 }, none)  -- unreachable
    | .node l k v r =>
      match cmp key k with
      | .eq => ({ s with root := .node l k value r }, some v)
      | .lt => ({ root := .node l key value (.node .nil k v r), size := s.size + 1 }, none)
      | .gt => ({ root := .node (.node l k v .nil) key value r, size := s.size + 1 }, none)

def remove (s : SplayTree K V) (key : K) : SplayTree K V × Option V :=
  match s.root with
  | .nil => (s, none)
  | t@(.node ..) =>
    match splay cmp key t with
    | .nil => ({ s with root := .nil }, none)   -- unreachable
    | .node l k v r =>
      if cmp key k != .eq then ({ s with root := .node l k v r }, none) else
      let root' : Tree K V :=
        match l with
        | .nil => r
        | l@(.node ..) =>
          match splay cmp key l with
          | .nil => r                              -- unreachable
          | .node l2 k2 v2 _ => .node l2 k2 v2 r   -- `node.right = right` overwrites
      ({ root := root', size := s.size - 1 }, some v)

def min (s : SplayTree K V) : Option K := minKey s.root
def max (s : SplayTree K V) : Option K := maxKey s.root

def extend (s : SplayTree K V) (kvs : List (K × V)) : SplayTree K V :=
  kvs.foldl (fun s kv => (s.insert cmp kv.1 kv.2).1) s

end SplayTree

/-- `tree::IntoIter` -/
structure TreeIter (K V : Type) where
  cur : Tree K V
  remaining : Nat
deriving Repr, Inhabited

namespace TreeIter
variable {K V : Type}
open Tree

def ofTree (s : SplayTree K V) : TreeIter K V := { cur := s.root, remaining := s.size }

def next (it : TreeIter K V) : TreeIter K V × Option (K × V) :=
  match it.cur with
  | .nil => (it, none)
  | .node l k v r =>
    let (k', v', cur') := iterNextLoop l k v r
    ({ cur := cur', remaining := it.remaining - 1 }, some (k', v'))

def nextBack (it : TreeIter K V) : TreeIter K V × Option (K × V) :=
  match it.cur with
  | .nil => (it, none)
  | .node l k v r =>
    let (k', v', cur') := iterBackLoop l k v r
    ({ cur := cur', remaining := it.remaining - 1 }, some (k', v'))

end TreeIter

end Gbo
