import Gbo.Proofs.Layout
/-
  Per-run certificates for C02 (valid polygon set) and for "two results describe the same region" (used by
  C06, C07, C08, C09): when the executed check answers `ok`, the statement holds at every clear point of
  every checked cell of the plane.
-/
namespace Gbo.Props
open Gbo Gbo.Spec

theorem holes_any_eval (atoms : Array (List Seg)) (q : Pt) : ∀ hs rs, HolesMatch atoms hs rs →
    hs.map (fun h => (atoms.map (fun es => memEdges es q))[h]!) = rs.map (fun r => memRing r q) := by
  intro hs
  induction hs with
  | nil => intro rs h; cases rs with
    | nil => rfl
    | cons _ _ => simp [HolesMatch] at h
  | cons h hs ih =>
    intro rs hm
    cases rs with
    | nil => simp [HolesMatch] at hm
    | cons r rs =>
      simp only [List.map_cons]
      rw [getElem!_map_of_getElem? atoms q h _ hm.1, ih rs hm.2]
      rfl

theorem evalEO_spec (atoms : Array (List Seg)) (q : Pt) : ∀ ps m, PolysMatch atoms ps m →
    parity (ps.flatMap (fun p => (p.1 :: p.2).map (fun a => (atoms.map (fun es => memEdges es q))[a]!))) = memEO m q := by
  intro ps
  induction ps with
  | nil => intro m h; cases m with
    | nil => rfl
    | cons _ _ => simp [PolysMatch] at h
  | cons p ps ih =>
    intro m hm
    obtain ⟨e, hs⟩ := p
    cases m with
    | nil => simp [PolysMatch] at hm
    | cons y ys =>
      unfold memEO
      simp only [List.flatMap_cons, parity_append]
      have := ih ys hm.2.2
      unfold memEO at this
      rw [this]
      congr 1
      simp only [List.map_cons]
      rw [getElem!_map_of_getElem? atoms q e _ hm.1, holes_any_eval atoms q hs y.holes hm.2.1]
      rfl

/-- **C02 per run**: the check passed ⇒ at every clear point of every checked cell the structural and the
    even-odd reading of the result agree (and the nesting formula holds) -/
theorem C02_check_sound (m : MPoly) (tol : Rat) (htol : 0 ≤ tol) (c t : Nat)
    (h : c02Check m tol = .ok c t) (q : Pt)
    (hclear : ∀ i, i < (layout m #[]).atoms.size → ∀ e ∈ (layout m #[]).atoms[i]!, onSeg q e = false)
    (hcell : (∀ y ∈ breakpoints (tagAll (layout m #[]).atoms), q.x < y)
           ∨ (∀ y ∈ breakpoints (tagAll (layout m #[]).atoms), y < q.x)
           ∨ InCheckedCell (tagAll (layout m #[]).atoms) tol (breakpoints (tagAll (layout m #[]).atoms)) q) :
    memMP m q = memEO m q := by
  unfold c02Check at h
  have hs := regionFormulaCheck_sound_tol _ _ tol htol c t h q hclear hcell
  unfold c02Formula at hs
  rw [Bool.and_eq_true] at hs
  obtain ⟨hmatch, _⟩ := layout_spec m #[]
  have e1 := evalMP_spec (layout m #[]).atoms q _ m hmatch
  have e2 := evalEO_spec (layout m #[]).atoms q _ m hmatch
  have := hs.2
  unfold evalMP evalEO at this
  rw [e1, e2] at this
  simpa using this

/-- **same region per run** (C06 swap / self-operations, C07 representations, C09 far parts) -/
theorem sameRegion_check_sound (r1 r2 : MPoly) (tol : Rat) (htol : 0 ≤ tol) (c t : Nat)
    (h : sameRegionCheck r1 r2 tol = .ok c t) (q : Pt)
    (hclear : ∀ i, i < (sameRegionLayouts r1 r2).2.atoms.size → ∀ e ∈ (sameRegionLayouts r1 r2).2.atoms[i]!, onSeg q e = false)
    (hcell : (∀ y ∈ breakpoints (tagAll (sameRegionLayouts r1 r2).2.atoms), q.x < y)
           ∨ (∀ y ∈ breakpoints (tagAll (sameRegionLayouts r1 r2).2.atoms), y < q.x)
           ∨ InCheckedCell (tagAll (sameRegionLayouts r1 r2).2.atoms) tol (breakpoints (tagAll (sameRegionLayouts r1 r2).2.atoms)) q) :
    memMP r1 q = memMP r2 q := by
  unfold sameRegionCheck at h
  have hs := regionFormulaCheck_sound_tol _ _ tol htol c t h q hclear hcell
  unfold sameRegionLayouts at hs
  simp only at hs
  obtain ⟨hm1, _⟩ := layout_spec r1 #[]
  obtain ⟨hm2, hext⟩ := layout_spec r2 (layout r1 #[]).atoms
  have hm1' := polysMatch_mono hext _ _ hm1
  have e1 := evalMP_spec (layout r2 (layout r1 #[]).atoms).atoms q _ r1 hm1'
  have e2 := evalMP_spec (layout r2 (layout r1 #[]).atoms).atoms q _ r2 hm2
  unfold evalMP at hs
  rw [e1, e2] at hs
  simpa using hs

end Gbo.Props
