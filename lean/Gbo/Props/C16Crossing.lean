import Gbo.Proofs.Crossing
import Gbo.Props.C16
/-
  C16, crossing case under exact arithmetic: "splits each segment that contains the meeting point in its
  interior at one and the same point", with the effect on the event arena.
-/
namespace Gbo.Props
open Gbo

/-- Two non-parallel segments that meet, not merely in a common endpoint.  Under exact arithmetic
    `possible_intersection` returns 1, the point `p` it uses lies on both segments, and the arena afterwards
    is `crossArena`: the first segment is divided at `p` iff `p` is interior to it, then the second one
    likewise — at the very same point.  (`divideArena_spec` says what a division does: two events at `p`
    appended, the pieces `P_L p` and `p P_R` re-linked, nothing else changed; `OnSegP_split`: the pieces
    tile the old segment.) -/
theorem C16_exact_crossing (cfg : Cfg) (st st' : SwSt) (se1 se2 o1 o2 : Nat) (p : Pt) (r : Nat)
    (h1 : st.arena[se1]!.other = some o1) (h2 : st.arena[se2]!.other = some o2)
    (hb1 : se1 < st.arena.size) (hbo1 : o1 < st.arena.size) (hb2 : se2 < st.arena.size) (hbo2 : o2 < st.arena.size)
    (hd1 : se1 ≠ o1) (hd2 : se2 ≠ se1) (hd3 : se2 ≠ o1)
    (hk : krossOf st.arena[se1]!.point st.arena[o1]!.point st.arena[se2]!.point st.arena[o2]!.point ≠ 0)
    (hp : Arith.exact.isect st.arena[se1]!.point st.arena[o1]!.point st.arena[se2]!.point st.arena[o2]!.point = .point p)
    (hns : ¬ (st.arena[se1]!.point = st.arena[se2]!.point ∨ st.arena[o1]!.point = st.arena[o2]!.point))
    (h : possibleIntersection Arith.exact cfg st se1 se2 = .ok (r, st')) :
    r = 1 ∧
    OnSegP p st.arena[se1]!.point st.arena[o1]!.point ∧ OnSegP p st.arena[se2]!.point st.arena[o2]!.point ∧
    st'.arena = crossArena st.arena se1 o1 se2 o2 p := by
  obtain ⟨hr, ha⟩ := possibleIntersection_exact_crossing cfg st st' se1 se2 o1 o2 p r h1 h2 hb1 hbo1 hb2 hbo2 hd1 hd2 hd3 hp hns h
  obtain ⟨on1, on2⟩ := C16_exact_point_on_both _ _ _ _ p hk hp
  exact ⟨hr, on1, on2, ha⟩

/-- non-vacuity: the diagonals of a square; both are divided at (1, 1): four events appended -/
example :
    let a : Arena := #[{ point := ⟨0, 0⟩, left := true, other := some 1, isSubject := true, contourId := 0, isExteriorRing := true },
                       { point := ⟨2, 2⟩, left := false, other := some 0, isSubject := true, contourId := 0, isExteriorRing := true },
                       { point := ⟨0, 2⟩, left := true, other := some 3, isSubject := false, contourId := 1, isExteriorRing := true },
                       { point := ⟨2, 0⟩, left := false, other := some 2, isSubject := false, contourId := 1, isExteriorRing := true }]
    (match possibleIntersection Arith.exact {} { arena := a, heap := #[] } 0 2 with
     | .ok (r, st') => r == 1 && st'.arena.size == 8 && st'.arena[0]!.other == some 4 && st'.arena[2]!.other == some 6 &&
        st'.arena[4]!.point.x == 1 && st'.arena[6]!.point.y == 1 && (crossArena a 0 1 2 3 ⟨1, 1⟩).size == 8
     | .error _ => false) = true := by
  decide +kernel

end Gbo.Props
