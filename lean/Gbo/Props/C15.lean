import Gbo.Proofs.Orders
/-
  C15 — the event order and the segment order are consistent orderings.
  All statements are over exact rational coordinates, hence over every finite float input.
-/
namespace Gbo.Props
open Gbo

/-- never `Equal` for any two events -/
theorem C15_cmp_never_equal (e1 e2 : EvView) : cmpView e1 e2 ≠ .eq := cmpView_ne_eq e1 e2

/-- by x, then y, then right-before-left -/
theorem C15_cmp_lexicographic (e1 e2 : EvView) :
    (ptLt e1.point e2.point → cmpView e1 e2 = .gt ∧ cmpView e2 e1 = .lt)
    ∧ (e1.point = e2.point → e1.left = false → e2.left = true → cmpView e1 e2 = .gt ∧ cmpView e2 e1 = .lt) :=
  ⟨fun h => ⟨cmpView_of_ptLt h, cmpView_of_ptGt h⟩, fun hp h1 h2 => cmpView_right_before_left hp h1 h2⟩

/-- antisymmetric on the events of a valid input -/
theorem C15_cmp_antisymmetric (e1 e2 : EvView) (o1 o2 : Pt) (h1 : e1.otherPt = some o1) (h2 : e2.otherPt = some o2)
    (hok : PairOk e1 e2) : cmpView e2 e1 = swapOrd (cmpView e1 e2) := cmpView_antisymm e1 e2 o1 o2 h1 h2 hok

/-- the hypothesis is needed: the configuration it excludes is the source's known antisymmetry gap -/
theorem C15_cmp_gap_witness :
    let e1 : EvView := { point := ⟨0, 0⟩, left := true, otherPt := some ⟨1, 1⟩, isSubject := true }
    let e2 : EvView := { point := ⟨0, 0⟩, left := true, otherPt := some ⟨2, 2⟩, isSubject := true }
    cmpView e1 e2 = .gt ∧ cmpView e2 e1 = .gt := cmpView_gap_witness

/-- then angular: among left events at one point, "is processed before" is the counter-clockwise order of
    the segments, which is transitive inside the half-plane of points after the common point -/
theorem C15_cmp_angular (p : Pt) (s1 s2 : Bool) (a b : Pt) (hne : orient p a b ≠ 0) :
    cmpView { point := p, left := true, otherPt := some a, isSubject := s1 }
            { point := p, left := true, otherPt := some b, isSubject := s2 } = .gt ↔ orient p a b > 0 := by
  unfold cmpView
  simp only [gt_iff_lt, lt_self_iff_false, if_false, bne_self_eq_false, Bool.false_eq_true, ne_eq, hne,
    not_false_eq_true, if_true, EvView.isBelow, lessIf]
  by_cases h : 0 < orient p a b <;> simp [h]

theorem C15_cmp_angular_transitive {p a b c : Pt} (ha : After p a) (hb : After p b) (hc : After p c)
    (hab : orient p a b > 0) (hbc : orient p b c > 0) : orient p a c > 0 := orient_trans_after ha hb hc hab hbc

/-- an event of a valid input is linked to its other endpoint, which lies after it in sweep order for a
    left event and before it for a right event -/
def Linked (e : EvView) (o : Pt) : Prop :=
  e.otherPt = some o ∧ (if e.left then After e.point o else After o e.point)

theorem cmpView_gt_imp_not_ptLt {e1 e2 : EvView} (h : cmpView e1 e2 = .gt) : ¬ ptLt e2.point e1.point := by
  intro h'; rw [cmpView_of_ptGt h'] at h; cases h

/-- **transitivity** of the event order on the events of a valid input -/
theorem C15_cmp_transitive (e1 e2 e3 : EvView) (o1 o2 o3 : Pt)
    (k1 : Linked e1 o1) (k2 : Linked e2 o2) (k3 : Linked e3 o3)
    (ok12 : PairOk e1 e2) (ok23 : PairOk e2 e3) (ok13 : PairOk e1 e3)
    (h12 : cmpView e1 e2 = .gt) (h23 : cmpView e2 e3 = .gt) : cmpView e1 e3 = .gt := by
  have n12 := cmpView_gt_imp_not_ptLt h12
  have n23 := cmpView_gt_imp_not_ptLt h23
  rcases ptLt_trichotomy e1.point e2.point with h | h | h
  · rcases ptLt_trichotomy e2.point e3.point with h' | h' | h'
    · exact cmpView_of_ptLt (ptLt_trans h h')
    · exact cmpView_of_ptLt (h' ▸ h)
    · exact absurd h' n23
  · rcases ptLt_trichotomy e2.point e3.point with h' | h' | h'
    · exact cmpView_of_ptLt (h ▸ h')
    · -- all three at one point
      obtain ⟨p1, l1, op1, s1⟩ := e1
      obtain ⟨p2, l2, op2, s2⟩ := e2
      obtain ⟨p3, l3, op3, s3⟩ := e3
      simp only at h h'
      subst h; subst h'
      obtain ⟨q1, a1⟩ := k1
      obtain ⟨q2, a2⟩ := k2
      obtain ⟨q3, a3⟩ := k3
      simp only at q1 q2 q3 a1 a2 a3
      subst q1; subst q2; subst q3
      have rl : ∀ (a b : Pt) (sa sb : Bool),
          cmpView ⟨p1, false, some a, sa⟩ ⟨p1, true, some b, sb⟩ = .gt ∧ cmpView ⟨p1, true, some b, sb⟩ ⟨p1, false, some a, sa⟩ = .lt :=
        fun a b sa sb => cmpView_right_before_left (e1 := ⟨p1, false, some a, sa⟩) (e2 := ⟨p1, true, some b, sb⟩) rfl rfl rfl
      cases l1 <;> cases l2 <;> cases l3
      · -- three right events
        simp only [Bool.false_eq_true, if_false] at a1 a2 a3
        rw [cmpView_right_iff] at h12 h23 ⊢
        exact rightBefore_trans a1 a2 a3
          (fun hz => ok12 rfl rfl o1 o2 rfl rfl hz) (fun hz => ok23 rfl rfl o2 o3 rfl rfl hz)
          (fun hz => ok13 rfl rfl o1 o3 rfl rfl hz) h12 h23
      · exact (rl o1 o3 s1 s3).1
      · rw [(rl o3 o2 s3 s2).2] at h23; cases h23
      · exact (rl o1 o3 s1 s3).1
      · rw [(rl o2 o1 s2 s1).2] at h12; cases h12
      · rw [(rl o2 o1 s2 s1).2] at h12; cases h12
      · rw [(rl o3 o2 s3 s2).2] at h23; cases h23
      · -- three left events
        simp only [if_true] at a1 a2 a3
        rw [cmpView_left_iff] at h12 h23 ⊢
        exact leftBefore_trans a1 a2 a3
          (fun hz => ok12 rfl rfl o1 o2 rfl rfl hz) (fun hz => ok23 rfl rfl o2 o3 rfl rfl hz)
          (fun hz => ok13 rfl rfl o1 o3 rfl rfl hz) h12 h23
    · exact absurd h' n23
  · exact absurd h n12

def swapOut : CmpSegOut → CmpSegOut
  | .ord o => .ord (swapOrd o)
  | x => x

theorem lessIfInv_eq (c : Bool) : lessIfInv c = swapOrd (lessIf c) := by cases c <;> rfl

theorem compareSegCore_inv (ar : Arith) (old new : SegView) :
    compareSegCore ar false lessIfInv old new = swapOut (compareSegCore ar false lessIf old new) := by
  unfold compareSegCore
  split
  · simp only
    split_ifs <;> (try split) <;> (try split_ifs) <;> simp [swapOut, lessIfInv_eq]
  · simp [swapOut, lessIfInv_eq]

theorem compareSegCore_ne_eq (ar : Arith) (lf : Bool → Ordering) (hlf : ∀ c, lf c ≠ .eq) (old new : SegView) :
    compareSegCore ar false lf old new ≠ .ord .eq := by
  unfold compareSegCore
  split
  · simp only
    split_ifs <;> (try split) <;> (try split_ifs) <;> simp <;> (try exact hlf _)
  · simp; exact hlf _

theorem lessIfInv_ne_eq (c : Bool) : lessIfInv c ≠ .eq := by cases c <;> simp [lessIfInv]

/-- the segment order answers `Equal` only for the identical segment (release build) -/
theorem C15_compareSegments_eq_iff_same (ar : Arith) (s1 s2 : SegView) :
    compareSegView ar false s1 s2 = .ord .eq ↔ s1.id = s2.id := by
  unfold compareSegView
  simp only [Bool.false_and, Bool.false_eq_true, if_false]
  constructor
  · intro h
    by_contra hne
    simp only [hne, if_false] at h
    split_ifs at h
    · exact compareSegCore_ne_eq ar lessIf lessIf_ne_eq _ _ h
    · exact compareSegCore_ne_eq ar lessIfInv lessIfInv_ne_eq _ _ h
  · intro h; simp [h]

/-- the segment order is antisymmetric wherever the event order of the two left events is -/
theorem C15_compareSegments_antisymmetric (ar : Arith) (s1 s2 : SegView) (hid : s1.id ≠ s2.id)
    (hanti : cmpView s2.l s1.l = swapOrd (cmpView s1.l s2.l)) :
    compareSegView ar false s2 s1 = swapOut (compareSegView ar false s1 s2) := by
  unfold compareSegView
  have hid' : s2.id ≠ s1.id := fun h => hid h.symm
  simp only [Bool.false_and, Bool.false_eq_true, if_false, hid, hid']
  have hne := cmpView_ne_eq s1.l s2.l
  cases hc : cmpView s1.l s2.l with
  | eq => exact absurd hc hne
  | gt =>
    rw [hc] at hanti
    simp only [hanti, swapOrd, beq_self_eq_true, if_true]
    have : (Ordering.lt == Ordering.gt) = false := rfl
    simp only [this, Bool.false_eq_true, if_false]
    exact compareSegCore_inv ar s1 s2
  | lt =>
    rw [hc] at hanti
    simp only [hanti, swapOrd, beq_self_eq_true, if_true]
    have : (Ordering.lt == Ordering.gt) = false := rfl
    simp only [this, Bool.false_eq_true, if_false]
    rw [compareSegCore_inv ar s2 s1]
    cases compareSegCore ar false lessIf s2 s1 with
    | ord o => cases o <;> rfl
    | nonfinite => rfl
    | debugAssert => rfl

/-- non-vacuity: two crossing-free segments sharing their left endpoint, in both argument orders -/
example :
    let l1 : EvView := { point := ⟨0, 0⟩, left := true, otherPt := some ⟨2, 0⟩, isSubject := true }
    let r1 : EvView := { point := ⟨2, 0⟩, left := false, otherPt := some ⟨0, 0⟩, isSubject := true }
    let l2 : EvView := { point := ⟨0, 0⟩, left := true, otherPt := some ⟨2, 1⟩, isSubject := false }
    let r2 : EvView := { point := ⟨2, 1⟩, left := false, otherPt := some ⟨0, 0⟩, isSubject := false }
    let s1 : SegView := { id := 0, l := l1, r := some r1, contourId := 1 }
    let s2 : SegView := { id := 2, l := l2, r := some r2, contourId := 2 }
    compareSegView Arith.exact false s1 s2 = .ord .lt ∧ compareSegView Arith.exact false s2 s1 = .ord .gt := by
  decide +kernel

end Gbo.Props
