import Gbo.Props.Tables
/-
  C14 — the sweep classification of every sub-segment matches the geometry.
  Local soundness of `compute_fields`: given that nothing lies between the predecessor and the event,
  every branch of the propagation produces the semantic flags.
-/
namespace Gbo.Props
open Gbo Gbo.Spec

/-- Semantic premises.  `pOwnAbove` / `pOtherAbove`: membership of the predecessor's own / other operand
    adjacent above the predecessor `p` (what `p`'s flags mean: `p.in_out = !pOwnAbove`,
    `p.other_in_out = !pOtherAbove`).  The event `e` starts above `p` with nothing in between.  When `p`
    is vertical, `e` lies to its right, which is the side the sweep order calls *below* `p`: there the
    own operand of `p` has the opposite state, the other operand the same. -/
def belowEvent (pVert pOwnAbove pOtherAbove : Bool) : Bool × Bool :=
  (if pVert then !pOwnAbove else pOwnAbove, pOtherAbove)

theorem C14_propagation_sound (evSubj pSubj pVert pOwnAbove pOtherAbove : Bool) :
    let (belowOwnP, belowOtherP) := belowEvent pVert pOwnAbove pOtherAbove
    -- in terms of the event's own / other operand
    let ownBelow := if evSubj = pSubj then belowOwnP else belowOtherP
    let otherBelow := if evSubj = pSubj then belowOtherP else belowOwnP
    propagateFlags evSubj (some (pSubj, !pOwnAbove, !pOtherAbove, pVert))
      = flagsOf { ownBelow := ownBelow, otherBelow := otherBelow } := by
  cases evSubj <;> cases pSubj <;> cases pVert <;> cases pOwnAbove <;> cases pOtherAbove <;> decide

/-- no predecessor: both operands are outside below the event -/
theorem C14_propagation_sound_bottom (evSubj : Bool) :
    propagateFlags evSubj none = flagsOf { ownBelow := false, otherBelow := false } := by
  cases evSubj <;> decide

/-- with the semantic flags, selection and transition are the semantic ones (all operations) -/
theorem C14_selection_sound (op : Op) (isSubject ownBelow otherBelow : Bool) :
    let s : Sides := { ownBelow := ownBelow, otherBelow := otherBelow }
    let (io, oio) := flagsOf s
    (inResultOf .normal op isSubject oio
        = (resultOf op isSubject s.ownBelow s.otherBelow != resultOf op isSubject s.ownAbove s.otherAbove))
    ∧ (inResultOf .normal op isSubject oio = true →
        (resultTransitionOf .normal op isSubject io oio = .outIn ↔ resultOf op isSubject s.ownAbove s.otherAbove = true)) :=
  C01_tables_normal op isSubject ownBelow otherBelow

/-- The pinned tree's propagation (before fix 60217e3) negated `in_out` for a vertical predecessor of
    the same operand; the semantic flag is the copy. -/
def propagateFlagsPinned (evSubject : Bool) (prev : Option (Bool × Bool × Bool × Bool)) : Bool × Bool :=
  match prev with
  | none => (false, true)
  | some (pSubj, pInOut, pOtherInOut, pVert) =>
    if evSubject = pSubj then (!pInOut, pOtherInOut)
    else if pVert then (!pOtherInOut, !pInOut)
    else (!pOtherInOut, pInOut)

theorem C14_counterexample_F2_pinned :
    propagateFlagsPinned true (some (true, false, true, true))
      ≠ flagsOf { ownBelow := (belowEvent true true false).1, otherBelow := (belowEvent true true false).2 } := by decide

/-- non-vacuity: the vertical same-operand branch is taken and gives the copied flag -/
example : propagateFlags true (some (true, false, true, true)) = (false, true) := by decide

end Gbo.Props
