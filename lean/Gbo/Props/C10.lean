import Gbo.Props.C16
/-
  C10 — the f32 and f64 instantiations.  The model is one function of an arithmetic parameter; everything
  proved "for every rounding" holds for `Arith.f32` (binary32 round-to-nearest-even) and `Arith.f64`
  alike, and the two exact predicates (coordinate comparison, orientation sign) do not take the
  arithmetic at all: they are evaluated on the exact values of the operands, which is what "orientation
  evaluated in f64 after lossless widening" amounts to.  The agreement of the f32 pipeline with the model
  under binary32 rounding, and f32 = f64 on exact runs, are decided per run.
-/
namespace Gbo.Props
open Gbo

theorem C10_f32_point_in_both_boxes (a1 a2 b1 b2 p : Pt) (h : Arith.f32.isect a1 a2 b1 b2 = .point p) :
    InBox p (segBox a1 a2) ∧ InBox p (segBox b1 b2) := C16_point_in_both_boxes Arith.f32 a1 a2 b1 b2 p h

theorem C10_f64_point_in_both_boxes (a1 a2 b1 b2 p : Pt) (h : Arith.f64.isect a1 a2 b1 b2 = .point p) :
    InBox p (segBox a1 a2) ∧ InBox p (segBox b1 b2) := C16_point_in_both_boxes Arith.f64 a1 a2 b1 b2 p h

/-- whatever the precision, segments that do not intersect or meet only at a common endpoint are untouched -/
theorem C10_untouched_both_precisions (cfg : Cfg) (st : SwSt) (se1 se2 o1 o2 : Nat)
    (h1 : st.arena[se1]!.other = some o1) (h2 : st.arena[se2]!.other = some o2) (ar : Arith)
    (h : ar.isect st.arena[se1]!.point st.arena[o1]!.point st.arena[se2]!.point st.arena[o2]!.point = .none) :
    possibleIntersection ar cfg st se1 se2 = .ok (0, st) := C16_untouched ar cfg st se1 se2 o1 o2 h1 h2 (Or.inl h)

/-- on a crossing of two lattice segments binary32, binary64 and exact arithmetic agree -/
example : Arith.f32.isect ⟨0, 0⟩ ⟨2, 2⟩ ⟨0, 2⟩ ⟨2, 0⟩ = Arith.exact.isect ⟨0, 0⟩ ⟨2, 2⟩ ⟨0, 2⟩ ⟨2, 0⟩
    ∧ Arith.f64.isect ⟨0, 0⟩ ⟨2, 2⟩ ⟨0, 2⟩ ⟨2, 0⟩ = Arith.exact.isect ⟨0, 0⟩ ⟨2, 2⟩ ⟨0, 2⟩ ⟨2, 0⟩ := by decide +kernel

/-- and they differ where the intersection is not representable: (1/3, 1/3) -/
example : Arith.f32.isect ⟨0, 0⟩ ⟨1, 1⟩ ⟨0, 1⟩ ⟨2, -3⟩ ≠ Arith.f64.isect ⟨0, 0⟩ ⟨1, 1⟩ ⟨0, 1⟩ ⟨2, -3⟩ := by decide +kernel

end Gbo.Props
