import Gbo.Props.C16
import Gbo.Proofs.ArithFrame
/-
  C10 — the f32 and f64 instantiations.  The model is one function of an arithmetic parameter; everything
  proved "for every rounding" holds for `Arith.f32` (binary32 round-to-nearest-even) and `Arith.f64`
  alike, and the two exact predicates (coordinate comparison, orientation sign) do not take the
  arithmetic at all: they are evaluated on the exact values of the operands, which is what "orientation
  evaluated in f64 after lossless widening" amounts to.  The agreement of the f32 pipeline with the model
  under binary32 rounding, and f32 = f64 on exact runs, are decided per run.
-/
namespace Gbo.Props
open Gbo

theorem C10_f32_point_in_both_boxes (a1 a2 b1 b2 p : Pt) (h : Arith.f32.isect a1 a2 b1 b2 = .point p) :
    InBox p (segBox a1 a2) ∧ InBox p (segBox b1 b2) := C16_point_in_both_boxes Arith.f32 a1 a2 b1 b2 p h

theorem C10_f64_point_in_both_boxes (a1 a2 b1 b2 p : Pt) (h : Arith.f64.isect a1 a2 b1 b2 = .point p) :
    InBox p (segBox a1 a2) ∧ InBox p (segBox b1 b2) := C16_point_in_both_boxes Arith.f64 a1 a2 b1 b2 p h

/-- whatever the precision, segments that do not intersect or meet only at a common endpoint are untouched -/
theorem C10_untouched_both_precisions (cfg : Cfg) (st : SwSt) (se1 se2 o1 o2 : Nat)
    (h1 : st.arena[se1]!.other = some o1) (h2 : st.arena[se2]!.other = some o2) (ar : Arith)
    (h : ar.isect st.arena[se1]!.point st.arena[o1]!.point st.arena[se2]!.point st.arena[o2]!.point = .none) :
    possibleIntersection ar cfg st se1 se2 = .ok (0, st) := C16_untouched ar cfg st se1 se2 o1 o2 h1 h2 (Or.inl h)

/-- on a crossing of two lattice segments binary32, binary64 and exact arithmetic agree -/
example : Arith.f32.isect ⟨0, 0⟩ ⟨2, 2⟩ ⟨0, 2⟩ ⟨2, 0⟩ = Arith.exact.isect ⟨0, 0⟩ ⟨2, 2⟩ ⟨0, 2⟩ ⟨2, 0⟩
    ∧ Arith.f64.isect ⟨0, 0⟩ ⟨2, 2⟩ ⟨0, 2⟩ ⟨2, 0⟩ = Arith.exact.isect ⟨0, 0⟩ ⟨2, 2⟩ ⟨0, 2⟩ ⟨2, 0⟩ := by decide +kernel

/-- and they differ where the intersection is not representable: (1/3, 1/3) -/
example : Arith.f32.isect ⟨0, 0⟩ ⟨1, 1⟩ ⟨0, 1⟩ ⟨2, -3⟩ ≠ Arith.f64.isect ⟨0, 0⟩ ⟨1, 1⟩ ⟨0, 1⟩ ⟨2, -3⟩ := by decide +kernel

/-- **C10, where the coordinate type enters.**  The run uses its arithmetic in exactly two places: the rounded
    intersection routine and the one-ulp step of `divide_segment`; every other decision (both orders, the
    orientation tests, all equality tests) is made on the exact values of the coordinates.  Hence two
    arithmetics that compute the same intersections and the same one-ulp steps give the same run — same result
    or same failure — for every input and operation.  (In the code: f32 coordinates are widened to f64 for
    `orient2d`, which is why the model's orientation is exact for both precisions; what differs between the
    f32 and the f64 build is `intersection` and `next_after`.) -/
theorem C10_depends_only_on_isect_and_nextUp (ar1 ar2 : Arith)
    (hi : ∀ a1 a2 b1 b2 : Pt, ar1.isect a1 a2 b1 b2 = ar2.isect a1 a2 b1 b2)
    (hn : ∀ x : Rat, ar1.nextUp x = ar2.nextUp x) (cfg : Cfg) (subject clipping : MPoly) (op : Op) :
    booleanOperation ar1 cfg subject clipping op = booleanOperation ar2 cfg subject clipping op :=
  booleanOperation_frame ⟨hi, hn⟩ cfg subject clipping op

end Gbo.Props
