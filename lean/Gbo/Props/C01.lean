import Gbo.Props.Tables
/-
  C01 — each operation returns the set-theoretic region it names.

  Full-strength statement (not proved in general: it needs C13 ∧ C14 for every input, DESIGN.md 4.0);
  per run it is decided by the region comparator on the implementation's own output.
-/
namespace Gbo.Props
open Gbo Gbo.Spec

/-- no point of `es` is hit by `q` (the statement is about points clear of the input edges) -/
def ClearOf (q : Pt) (es : List Seg) : Prop := ∀ e ∈ es, onSeg q e = false

def inputSegs (m : MPoly) : List Seg := (allRings' m).flatMap ringEdges
where allRings' (m : MPoly) : List Ring := m.flatMap (fun p => p.ext :: p.holes)

/-- The property, for the model under arithmetic `ar`: whenever the run succeeds, the result read
    structurally equals the named combination of the operands read even-odd, at every clear point. -/
def C01_statement (ar : Arith) : Prop :=
  ∀ (cfg : Cfg) (a b : MPoly) (op : Op) (r : RunOut),
    booleanOperation ar cfg a b op = .ok r →
    ∀ q : Pt, ClearOf q (inputSegs a ++ inputSegs b) →
      memMP r.result q = opSem op (memEO a q) (memEO b q)

/-- the four trait implementations are `boolean_operation` with the subject first -/
theorem C01_pairings (ar : Arith) (cfg : Cfg) (a b : Poly) (ms ns : MPoly) (op : Op) :
    polyPoly ar cfg a b op = booleanOperation ar cfg [a] [b] op
    ∧ polyMulti ar cfg a ns op = booleanOperation ar cfg [a] ns op
    ∧ multiPoly ar cfg ms b op = booleanOperation ar cfg ms [b] op
    ∧ multiMulti ar cfg ms ns op = booleanOperation ar cfg ms ns op :=
  ⟨rfl, rfl, rfl, rfl⟩

/-- the shortcut returns exactly the listed combinations of the operands -/
theorem C01_trivial_values (a b : MPoly) :
    trivialResult a b .intersection = [] ∧ trivialResult a b .difference = a
    ∧ trivialResult a b .union = a ++ b ∧ trivialResult a b .xor = a ++ b := ⟨rfl, rfl, rfl, rfl⟩

end Gbo.Props
