import Gbo.Model.Connect
/-
  C12 — purity and determinism.  The model is a function of its arguments, so "equal operands give equal
  results" holds by reflexivity; the theorem below carries no information about the code and is labelled
  so.  The content of C12 is that the implementation IS such a function: that is what the history /
  thread runs of the correspondence check and the source scan establish (DESIGN.md, C12).
-/
namespace Gbo.Props
open Gbo

theorem C12_model_is_a_function (ar : Arith) (cfg : Cfg) (a b a' b' : MPoly) (op : Op)
    (ha : a = a') (hb : b = b') :
    booleanOperation ar cfg a b op = booleanOperation ar cfg a' b' op := by
  subst ha; subst hb; rfl

end Gbo.Props
