import Gbo.Props.C01
/-
  C05 — the four operations are mutually consistent.
-/
namespace Gbo.Props
open Gbo Gbo.Spec

/-- the set identities, pointwise, for the semantics of the four operations -/
theorem C05_pointwise (a b : Bool) :
    (opSem .intersection a b && opSem .difference a b) = false
    ∧ (opSem .intersection a b && opSem .difference b a) = false
    ∧ (opSem .difference a b && opSem .difference b a) = false
    ∧ (opSem .intersection a b || opSem .difference a b || opSem .difference b a) = opSem .union a b
    ∧ (opSem .difference a b || opSem .difference b a) = opSem .xor a b := by
  cases a <;> cases b <;> decide

/-- C05 pointwise is a consequence of C01 for the five calls: wherever each result has the region its
    operation names, the results partition the union and xor is the union of the differences. -/
theorem C05_of_C01 (a b rI rD rE rU rX : MPoly) (q : Pt)
    (hI : memMP rI q = opSem .intersection (memEO a q) (memEO b q))
    (hD : memMP rD q = opSem .difference (memEO a q) (memEO b q))
    (hE : memMP rE q = opSem .difference (memEO b q) (memEO a q))
    (hU : memMP rU q = opSem .union (memEO a q) (memEO b q))
    (hX : memMP rX q = opSem .xor (memEO a q) (memEO b q)) :
    (memMP rI q && memMP rD q) = false ∧ (memMP rI q && memMP rE q) = false ∧ (memMP rD q && memMP rE q) = false
    ∧ (memMP rI q || memMP rD q || memMP rE q) = memMP rU q
    ∧ (memMP rD q || memMP rE q) = memMP rX q := by
  rw [hI, hD, hE, hU, hX]
  exact C05_pointwise _ _

/-- the per-operation selection tables side by side: a `Normal` edge is selected by union exactly when it
    is selected by none or all of intersection / the difference on its side, etc. -/
theorem C05_tables (isSubject otherInOut : Bool) :
    -- every edge is a boundary of exactly one of: intersection, the difference it belongs to... and xor takes all
    inResultOf .normal .xor isSubject otherInOut = true
    ∧ (inResultOf .normal .intersection isSubject otherInOut != inResultOf .normal .union isSubject otherInOut) = true
    ∧ (inResultOf .normal .difference isSubject otherInOut
        = (if isSubject then inResultOf .normal .union isSubject otherInOut else inResultOf .normal .intersection isSubject otherInOut)) := by
  cases isSubject <;> cases otherInOut <;> decide

example : opSem .union true false = true ∧ opSem .intersection true false = false := by decide

end Gbo.Props
