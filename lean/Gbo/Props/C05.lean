import Gbo.Props.C01
import Gbo.Proofs.FillRoles
import Gbo.Proofs.FieldsOp
import Gbo.Proofs.StripSweep
import Gbo.Proofs.StripLoop
/-
  C05 — the four operations are mutually consistent.
-/
namespace Gbo.Props
open Gbo Gbo.Spec

/-- the set identities, pointwise, for the semantics of the four operations -/
theorem C05_pointwise (a b : Bool) :
    (opSem .intersection a b && opSem .difference a b) = false
    ∧ (opSem .intersection a b && opSem .difference b a) = false
    ∧ (opSem .difference a b && opSem .difference b a) = false
    ∧ (opSem .intersection a b || opSem .difference a b || opSem .difference b a) = opSem .union a b
    ∧ (opSem .difference a b || opSem .difference b a) = opSem .xor a b := by
  cases a <;> cases b <;> decide

/-- C05 pointwise is a consequence of C01 for the five calls: wherever each result has the region its
    operation names, the results partition the union and xor is the union of the differences. -/
theorem C05_of_C01 (a b rI rD rE rU rX : MPoly) (q : Pt)
    (hI : memMP rI q = opSem .intersection (memEO a q) (memEO b q))
    (hD : memMP rD q = opSem .difference (memEO a q) (memEO b q))
    (hE : memMP rE q = opSem .difference (memEO b q) (memEO a q))
    (hU : memMP rU q = opSem .union (memEO a q) (memEO b q))
    (hX : memMP rX q = opSem .xor (memEO a q) (memEO b q)) :
    (memMP rI q && memMP rD q) = false ∧ (memMP rI q && memMP rE q) = false ∧ (memMP rD q && memMP rE q) = false
    ∧ (memMP rI q || memMP rD q || memMP rE q) = memMP rU q
    ∧ (memMP rD q || memMP rE q) = memMP rX q := by
  rw [hI, hD, hE, hU, hX]
  exact C05_pointwise _ _

/-- the per-operation selection tables side by side: a `Normal` edge is selected by union exactly when it
    is selected by none or all of intersection / the difference on its side, etc. -/
theorem C05_tables (isSubject otherInOut : Bool) :
    -- every edge is a boundary of exactly one of: intersection, the difference it belongs to... and xor takes all
    inResultOf .normal .xor isSubject otherInOut = true
    ∧ (inResultOf .normal .intersection isSubject otherInOut != inResultOf .normal .union isSubject otherInOut) = true
    ∧ (inResultOf .normal .difference isSubject otherInOut
        = (if isSubject then inResultOf .normal .union isSubject otherInOut else inResultOf .normal .intersection isSubject otherInOut)) := by
  cases isSubject <;> cases otherInOut <;> decide

example : opSem .union true false = true ∧ opSem .intersection true false = false := by decide

/-- C05, first anchor (`fill_queue`): the operation enters the event queue only through the clipping
    polygons' contour ids and exterior flags under `Difference`.  For the three other operations the queue,
    the arena and both bounding boxes are the same object — so the sweeps of intersection, union and xor over
    one operand pair start from one and the same state. -/
theorem C05_fillQueue_same_for_symmetric_ops (a b : MPoly) (op op' : Op)
    (h : op ≠ .difference) (h' : op' ≠ .difference) : fillQueue a b op = fillQueue a b op' := by
  have hc : clipStep op = clipStep op' := by
    funext acc p
    cases op <;> cases op' <;> first | rfl | exact absurd rfl h | exact absurd rfl h'
  unfold fillQueue
  rw [hc]

/-- … and under `Difference` the subject's part (events, queue prefix, bounding box) is still the same -/
theorem C05_fillQueue_subject_part (a b : MPoly) (op op' : Op) :
    (fillQueue a b op).sbbox = (fillQueue a b op').sbbox := rfl

/-- C05, `fill_queue` for all four operations: the operation changes nothing but the contour ids and
    exterior flags of the clipping polygons' events.  Points, left/right flags, partner links, operand
    flags, the order of the events in the arena, the binary heap (as an array of indices) and both
    bounding boxes are the same for every operation, `Difference` included: the four sweeps over one
    operand pair start from the same geometry in the same queue order. -/
theorem C05_fillQueue_same_geometry (a b : MPoly) (op op' : Op) :
    (fillQueue a b op).fq.arena.map stripRole = (fillQueue a b op').fq.arena.map stripRole
    ∧ (fillQueue a b op).fq.heap = (fillQueue a b op').fq.heap
    ∧ (fillQueue a b op).sbbox = (fillQueue a b op').sbbox
    ∧ (fillQueue a b op).cbbox = (fillQueue a b op').cbbox := by
  have h := clipFold_sameGeo op op' b
    ((a.foldl subjStep (0, {}, none)).1, (a.foldl subjStep (0, {}, none)).2.1, none)
    ((a.foldl subjStep (0, {}, none)).1, (a.foldl subjStep (0, {}, none)).2.1, none) ⟨rfl, rfl, rfl⟩
  exact ⟨h.1, h.2.1, rfl, h.2.2⟩

/-- the stripped fields are the only ones the two orders never read: same stripped arena ⇒ same event order -/
theorem C05_event_order_ignores_roles (a a' : Arena) (h : a.map stripRole = a'.map stripRole) :
    evLe a = evLe a' := evLe_of_strip_eq h

/-- the statement is not vacuous: without stripping, the arenas of union and difference differ -/
theorem C05_fillQueue_roles_differ :
    ((fillQueue [{ ext := [⟨0,0⟩, ⟨1,0⟩, ⟨0,1⟩, ⟨0,0⟩], holes := [] }] [{ ext := [⟨0,0⟩, ⟨2,0⟩, ⟨0,2⟩, ⟨0,0⟩], holes := [] }] .union).fq.arena[6]!).contourId
    ≠ ((fillQueue [{ ext := [⟨0,0⟩, ⟨1,0⟩, ⟨0,1⟩, ⟨0,0⟩], holes := [] }] [{ ext := [⟨0,0⟩, ⟨2,0⟩, ⟨0,2⟩, ⟨0,0⟩], holes := [] }] .difference).fq.arena[6]!).contourId := by
  decide +kernel

/-- C05, first anchor (`compute_fields`): the operation decides `result_transition` (hence `in_result`) and,
    through it, `prev_in_result` — nothing else.  Two arenas that agree on every other field still do after
    `compute_fields`, whatever the two operations are. -/
theorem C05_computeFields_op_independent (a a' : Arena) (h : a.map stripResult = a'.map stripResult)
    (event : Nat) (prev : Option Nat) (op op' : Op) :
    (computeFields a event prev op).map stripResult = (computeFields a' event prev op').map stripResult :=
  computeFields_stripResult a a' h event prev op op'

/-- … in particular the in/out classification of every event (C14's flags), its edge type, its point and
    its links are the same for all four operations -/
theorem C05_computeFields_flags_same (a : Arena) (event : Nat) (prev : Option Nat) (op op' : Op) (j : Nat) :
    (computeFields a event prev op)[j]!.inOut = (computeFields a event prev op')[j]!.inOut
    ∧ (computeFields a event prev op)[j]!.otherInOut = (computeFields a event prev op')[j]!.otherInOut
    ∧ (computeFields a event prev op)[j]!.point = (computeFields a event prev op')[j]!.point
    ∧ (computeFields a event prev op)[j]!.other = (computeFields a event prev op')[j]!.other := by
  have h := fields_of_stripResult_eq
    (stripResult_pointwise (computeFields_stripResult a a rfl event prev op op') j)
  exact ⟨h.2.2.2.2.1, h.2.2.2.2.2, h.1, h.2.2.2.1⟩

/-- not vacuous: the forgotten field does depend on the operation -/
theorem C05_computeFields_result_differs :
    (computeFields (fillQueue [{ ext := [⟨0,0⟩, ⟨1,0⟩, ⟨0,1⟩, ⟨0,0⟩], holes := [] }] [] .union).fq.arena 0 none .union)[0]!.resTrans
    ≠ (computeFields (fillQueue [{ ext := [⟨0,0⟩, ⟨1,0⟩, ⟨0,1⟩, ⟨0,0⟩], holes := [] }] [] .union).fq.arena 0 none .intersection)[0]!.resTrans := by
  decide +kernel

/-- C05, towards the whole sweep: `divide_segment` neither reads nor writes the fields the operation decides —
    run on an arena with those fields forgotten it fails or returns exactly as on the original, with the same
    queue, and the arena it returns is the original's with those fields forgotten. -/
theorem C05_divideSegment_op_blind (ar : Arith) (cfg : Cfg) (st : SwSt) (seL : Nat) (p : Pt) :
    divideSegment ar cfg (sSw st) seL p = exMap sSw (divideSegment ar cfg st seL p) :=
  sA_divideSegment ar cfg st seL p

/-- … and so is the whole of `possible_intersection`, overlap branch and coincidence marking included: same
    return code, same failure, same queue, same arena up to the two forgotten fields. -/
theorem C05_possibleIntersection_op_blind (ar : Arith) (cfg : Cfg) (st : SwSt) (se1 se2 : Nat) :
    possibleIntersection ar cfg (sSw st) se1 se2 = exMap sRes (possibleIntersection ar cfg st se1 se2) :=
  sA_possibleIntersection ar cfg st se1 se2

/-- **C05, the whole sweep: union and xor build the same subdivision.**  For every queue `fill_queue` can
    hand over (indeed every queue), every pair of boxes, every arithmetic and every budget, `subdivide` under
    `Union` and under `Xor` fail in the same way or return the same `sorted_events`, the same number of
    popped events and bumps, the same number of segments left in the sweep line, and arenas that agree in
    every field except `result_transition` and `prev_in_result` — same points, same links, same division
    points, same in/out flags, same edge types.  The two results can therefore differ only through the
    selection tables (`C05_tables`, `C01_tables_*`), which is what the identities of C05 are about.
    (Intersection and difference leave the loop early; for them the statement would be a prefix statement
    and is not proved.) -/
theorem C05_union_xor_same_subdivision (ar : Arith) (cfg : Cfg) (fq : FQ) (sb cb : BBox) :
    exMap sOut (subdivide ar cfg fq sb cb .union) = exMap sOut (subdivide ar cfg fq sb cb .xor) :=
  subdivide_rel ar cfg fq sb cb .union .xor (Or.inl rfl) (Or.inr rfl)

/-- … from the operands on: the two calls hand `subdivide` the same queue -/
theorem C05_union_xor_same_subdivision_of_operands (ar : Arith) (cfg : Cfg) (a b : MPoly) (sb cb : BBox) :
    exMap sOut (subdivide ar cfg (fillQueue a b .union).fq sb cb .union)
      = exMap sOut (subdivide ar cfg (fillQueue a b .xor).fq sb cb .xor) := by
  rw [C05_fillQueue_same_for_symmetric_ops a b .union .xor (by decide) (by decide)]
  exact C05_union_xor_same_subdivision ar cfg _ sb cb

/-- C05, third anchor (operation-dependent early termination), all four operations: one iteration of the
    loop on states that differ only in the operation-dependent fields, under any two operations whose exit
    test does not fire at this event, fails identically or leaves states that again differ only in those
    fields (same queue, sweep line, `sorted_events`, counts).  So all four sweeps of one operand pair perform
    the same steps until an exit test fires … -/
theorem C05_step_same_until_exit (ar : Arith) (cfg : Cfg) (op op' : Op) (rb sx : Rat)
    {st st' : SwSt} (h : sSw st = sSw st') (event : Nat)
    (hx : exitsAt op rb sx st.arena[event]!.point = false)
    (hx' : exitsAt op' rb sx st'.arena[event]!.point = false) :
    exMap (fun r : Bool × SwSt => (r.1, sSw r.2)) (sweepStep ar cfg op rb sx st event)
      = exMap (fun r : Bool × SwSt => (r.1, sSw r.2)) (sweepStep ar cfg op' rb sx st' event) :=
  sweepStep_rel_of_no_exit ar cfg op op' rb sx h event hx hx'

/-- … and when it fires the iteration records the event and breaks, touching nothing else: the run of
    intersection / difference is the common run cut off at that event. -/
theorem C05_step_exit (ar : Arith) (cfg : Cfg) (op : Op) (rb sx : Rat) (st : SwSt) (event : Nat)
    (hx : exitsAt op rb sx st.arena[event]!.point = true) :
    sweepStep ar cfg op rb sx st event = .ok (true, { st with sorted := st.sorted.push event }) :=
  sweepStep_exit ar cfg op rb sx st event hx

/-- the exit test can fire for intersection and difference only -/
theorem C05_exit_only_intersection_difference (op : Op) (rb sx : Rat) (p : Pt) (h : exitsAt op rb sx p = true) :
    op = .intersection ∨ op = .difference := by
  cases op <;> simp [exitsAt] at h ⊢

example : exitsAt .intersection 1 5 ⟨2, 0⟩ = true ∧ exitsAt .difference 1 5 ⟨2, 0⟩ = false := by decide +kernel

/-- **C05 / C09, the whole loop, all four operations: every sweep is the common sweep cut off at its exit
    test.**  `sweepLoopCut` is the loop of `Union` — which never exits early — stopped at the first popped
    event on which a given test fires (that event is recorded, nothing else happens).  For every operation,
    every queue, every arithmetic and budget, the loop of `subdivide` under that operation fails or ends
    exactly as the `Union` loop cut at the operation's own exit test (`exitsAt`: never for union and xor,
    behind the smaller right bound for intersection, behind the subject's for difference), with the same
    queue, sweep line, `sorted_events`, counts, and the same arena up to `result_transition` /
    `prev_in_result`.  So the four sweeps of one operand pair build one subdivision; intersection and
    difference see a prefix of it, and the early termination changes nothing before the cut. -/
theorem C05_sweep_is_common_sweep_cut (ar : Arith) (cfg : Cfg) (op : Op) (fq : FQ) (sb cb : BBox) :
    exMap sSw (sweepLoop ar cfg op (rmin sb.maxx cb.maxx) sb.maxx (cfg.budget + 1) { arena := fq.arena, heap := fq.heap })
      = exMap sSw (sweepLoopCut ar cfg (exitsAt op (rmin sb.maxx cb.maxx) sb.maxx) (rmin sb.maxx cb.maxx) sb.maxx
          (cfg.budget + 1) { arena := fq.arena, heap := fq.heap }) :=
  sweepLoop_is_cut_union ar cfg op _ _ _ _ _ rfl

/-- two overlapping rectangles used as a witness below -/
def cutA : MPoly := [{ ext := [⟨0,0⟩, ⟨2,0⟩, ⟨2,2⟩, ⟨0,2⟩, ⟨0,0⟩], holes := [] }]
def cutB : MPoly := [{ ext := [⟨1,1⟩, ⟨5,1⟩, ⟨5,3⟩, ⟨1,3⟩, ⟨1,1⟩], holes := [] }]

/-- the cut is real: on these operands the sweep of intersection records 21 events and stops, the sweep of
    union records all 24 (evaluated by the kernel, exact arithmetic) -/
theorem C05_cut_is_proper :
    (match subdivide Arith.exact {} (fillQueue cutA cutB .intersection).fq ⟨0,0,2,2⟩ ⟨1,1,5,3⟩ .intersection with
      | .ok o => o.sorted.size | _ => 0) = 21
    ∧ (match subdivide Arith.exact {} (fillQueue cutA cutB .union).fq ⟨0,0,2,2⟩ ⟨1,1,5,3⟩ .union with
      | .ok o => o.sorted.size | _ => 0) = 24 := by
  decide +kernel

/-- C14 / C05, whole sweep: whenever the sweeps of union and xor over one queue return, every event carries
    the same in/out flags, the same edge type, the same point and the same partner under both — the
    classification is a function of the geometry, not of the operation. -/
theorem C14_flags_same_union_xor (ar : Arith) (cfg : Cfg) (fq : FQ) (sb cb : BBox) (o o' : SweepOut)
    (h : subdivide ar cfg fq sb cb .union = .ok o) (h' : subdivide ar cfg fq sb cb .xor = .ok o') (j : Nat) :
    o.arena.size = o'.arena.size ∧ o.sorted = o'.sorted
    ∧ o.arena[j]!.inOut = o'.arena[j]!.inOut ∧ o.arena[j]!.otherInOut = o'.arena[j]!.otherInOut
    ∧ o.arena[j]!.edgeType = o'.arena[j]!.edgeType
    ∧ o.arena[j]!.point = o'.arena[j]!.point ∧ o.arena[j]!.other = o'.arena[j]!.other := by
  have key := C05_union_xor_same_subdivision ar cfg fq sb cb
  rw [h, h'] at key
  simp only [exMap, Except.ok.injEq] at key
  have ha : sA o.arena = sA o'.arena := by have := congrArg SweepOut.arena key; exact this
  have hs : o.sorted = o'.sorted := by have := congrArg SweepOut.sorted key; exact this
  have hsz : o.arena.size = o'.arena.size := by
    have := congrArg Array.size ha
    simpa [sA_size] using this
  have hj := get_rel ha j
  have f := fields_of_stripResult_eq hj
  have het : o.arena[j]!.edgeType = o'.arena[j]!.edgeType := by have := congrArg Ev.edgeType hj; exact this
  exact ⟨hsz, hs, f.2.2.2.2.1, f.2.2.2.2.2, het, f.1, f.2.2.2.1⟩

end Gbo.Props
