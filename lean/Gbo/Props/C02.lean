import Gbo.Spec.Valid
import Gbo.Proofs.HoleLinks
import Gbo.Proofs.Assembly
/-
  C02 — result rings form a valid polygon set.  The consequence stated in the property: when holes lie in
  their exterior, holes of one polygon are disjoint and polygons are disjoint (at a point), the
  structural reading and the even-odd reading agree (at that point).
-/
namespace Gbo.Props
open Gbo Gbo.Spec

theorem parity_cons (b : Bool) (l : List Bool) : parity (b :: l) = (b != parity l) := by
  unfold parity
  have h : ∀ (l : List Bool) (acc : Bool), l.foldl (fun acc b => acc != b) acc = (acc != l.foldl (fun acc b => acc != b) false) := by
    intro l
    induction l with
    | nil => intro acc; cases acc <;> rfl
    | cons x xs ih =>
      intro acc
      simp only [List.foldl_cons]
      rw [ih (acc != x), ih (false != x)]
      cases acc <;> cases x <;> simp
  simp only [List.foldl_cons]
  rw [h l (false != b)]
  cases b <;> simp

theorem parity_nil : parity [] = false := rfl

theorem parity_append (l m : List Bool) : parity (l ++ m) = (parity l != parity m) := by
  induction l with
  | nil => simp [parity_nil]
  | cons x xs ih =>
    simp only [List.cons_append, parity_cons, ih]
    cases x <;> cases parity xs <;> cases parity m <;> rfl

/-- at most one element of the list is true -/
def AtMostOne : List Bool → Prop
  | [] => True
  | x :: xs => (x = true → ∀ y ∈ xs, y = false) ∧ AtMostOne xs

theorem parity_of_all_false (l : List Bool) (h : ∀ y ∈ l, y = false) : parity l = false := by
  induction l with
  | nil => rfl
  | cons x xs ih =>
    rw [parity_cons, ih (fun y hy => h y (List.mem_cons_of_mem _ hy)), h x (List.mem_cons_self)]
    rfl

theorem any_eq_parity (l : List Bool) (h : AtMostOne l) : l.any id = parity l := by
  induction l with
  | nil => rfl
  | cons x xs ih =>
    rw [parity_cons, List.any_cons, ih h.2]
    cases hx : x
    · simp
    · have := parity_of_all_false xs (h.1 hx)
      simp [this]

/-- one polygon: exterior `e`, hole memberships `hs`; holes inside the exterior and pairwise disjoint -/
theorem poly_struct_eq_parity (e : Bool) (hs : List Bool)
    (hin : ∀ h ∈ hs, h = true → e = true) (hdis : AtMostOne hs) :
    (e && hs.all (fun h => !h)) = parity (e :: hs) := by
  rw [parity_cons, ← any_eq_parity hs hdis]
  cases he : e
  · have : ∀ h ∈ hs, h = false := by
      intro h hh
      cases hv : h
      · rfl
      · have := hin h hh hv; rw [he] at this; cases this
    have h2 : hs.any id = false := by
      rw [List.any_eq_false]; intro x hx; simp [this x hx]
    simp [h2]
  · have : hs.all (fun h => !h) = !hs.any id := by
      induction hs with
      | nil => rfl
      | cons x xs ih =>
        simp only [List.all_cons, List.any_cons, id]
        rw [ih (fun h hh => hin h (List.mem_cons_of_mem _ hh)) hdis.2]
        cases x <;> simp
    simp [this]

/-- C02's consequence, pointwise, for a whole multipolygon given as (exterior, holes) membership values -/
theorem C02_struct_eq_evenodd_of_valid (ps : List (Bool × List Bool))
    (hin : ∀ p ∈ ps, ∀ h ∈ p.2, h = true → p.1 = true)
    (hholes : ∀ p ∈ ps, AtMostOne p.2)
    (hpolys : AtMostOne (ps.map (fun p => p.1 && p.2.all (fun h => !h)))) :
    (ps.any (fun p => p.1 && p.2.all (fun h => !h))) = parity (ps.flatMap (fun p => p.1 :: p.2)) := by
  have h1 : (ps.any (fun p => p.1 && p.2.all (fun h => !h))) = (ps.map (fun p => p.1 && p.2.all (fun h => !h))).any id := by
    simp [List.any_map]
  rw [h1, any_eq_parity _ hpolys]
  clear h1 hpolys
  induction ps with
  | nil => rfl
  | cons p ps ih =>
    simp only [List.map_cons, List.flatMap_cons]
    rw [parity_cons, parity_append, ih (fun p' hp' => hin p' (List.mem_cons_of_mem _ hp')) (fun p' hp' => hholes p' (List.mem_cons_of_mem _ hp'))]
    rw [poly_struct_eq_parity p.1 p.2 (hin p List.mem_cons_self) (hholes p List.mem_cons_self)]

/-- non-vacuity: a polygon with one hole and a second polygon elsewhere -/
example : AtMostOne [true, false] ∧ AtMostOne ([] : List Bool) := by
  simp [AtMostOne]

/-- **Hole bookkeeping of `connect_edges`.**  When a new contour is initialised from its context, it is
    recorded as a hole of contour `p` (`hole_of = Some(p)`) exactly when its id is appended to `p`'s `hole_ids`,
    `p` is an existing contour, and no other contour changes; a contour that is not a hole leaves the list of
    contours untouched.  Hence the final assembly (`hole_of.is_none()` ↦ polygon, `hole_ids` ↦ its interiors)
    lists every hole under exactly the contour it names as its parent. -/
theorem C02_hole_bookkeeping (cfg : Cfg) (a : Arena) (event : Nat) (contours contours' : Array Contour)
    (cid : Int) (c : Contour) (h : initializeFromContext cfg a event contours cid = .ok (c, contours')) :
    contours'.size = contours.size ∧
    (match c.holeOf with
     | some p => idxOk contours.size p = true ∧
         contours'[p.toNat]!.holeIds = contours[p.toNat]!.holeIds.push cid ∧
         ∀ j, j ≠ p.toNat → contours'[j]! = contours[j]!
     | none => contours' = contours) :=
  initializeFromContext_links cfg a event contours contours' cid c h

/-- **C02 (every traced contour becomes exactly one ring, under the right polygon).**  For every pair of
    operands, every operation and every arithmetic: whenever `boolean_operation` returns through the sweep,
    there is the list `cs` of contours `connect_edges` traced such that

    * the rings of the result, read polygon by polygon (shell, then interiors), are a rearrangement of the
      closed point lists of `cs`: no contour is lost and none is emitted twice;
    * the polygons are, in order, the contours that are no hole, each as the shell of its own polygon;
    * the polygon of such a contour `q` is in the result with, as its interiors, the rings of the ids `q`
      lists, and `q` lists contour `j` exactly when `j` names `q` as its parent (`hole_of`);
    * a parent is always a contour that is no hole.

    The assembly itself cannot fail: every listed id is a valid index (the `Option`/index path of the model
    is never taken).  This is the whole-loop form of `C02_hole_bookkeeping`. -/
theorem C02_every_contour_one_ring (ar : Arith) (cfg : Cfg) (subject clipping : MPoly) (op : Op) (out : RunOut)
    (h : booleanOperation ar cfg subject clipping op = .ok out) (hnt : out.trivial = false) :
    ∃ cs : Array Contour,
      (out.result.flatMap (fun p => p.ext :: p.holes)).Perm (cs.toList.map (fun c => closeRing c.points.toList)) ∧
      out.result.map (fun p => p.ext) =
        (cs.toList.filter (fun c => c.holeOf.isNone)).map (fun c => closeRing c.points.toList) ∧
      (∀ q, q < cs.size → cs[q]!.holeOf = none →
        polyOf cs cs[q]! ∈ out.result ∧
        ∀ j, j < cs.size → (cs[j]!.holeOf = some (q : Int) ↔ (j : Int) ∈ cs[q]!.holeIds.toList)) ∧
      (∀ j, j < cs.size → ∀ p, cs[j]!.holeOf = some p → idxOk cs.size p = true ∧ cs[p.toNat]!.holeOf = none) := by
  obtain ⟨cs, hb, hres⟩ := booleanOperation_assembly ar cfg subject clipping op out h hnt
  refine ⟨cs, ?_, ?_, ?_, ?_⟩
  · rw [hres, assemble_rings]
    have h1 := hb.perm.map (ringOf cs)
    refine h1.trans ?_
    rw [toList_eq_range_map, List.map_map, List.map_map]
    apply List.Perm.of_eq
    apply List.map_congr_left
    intro j _
    simp [ringOf]
  · rw [hres, List.map_map]
    rfl
  · intro q hq hext
    refine ⟨?_, ?_⟩
    · rw [hres]
      apply List.mem_map.mpr
      refine ⟨cs[q]!, List.mem_filter.mpr ⟨?_, by simp [hext]⟩, rfl⟩
      rw [toList_eq_range_map]
      exact List.mem_map.mpr ⟨q, List.mem_range.mpr hq, rfl⟩
    · intro j hj
      constructor
      · intro hp
        have := (hb.parent j hj _ hp).2.2
        simpa using this
      · intro hmem
        have := (hb.child q hq _ hmem).2
        simpa using this
  · intro j hj p hp
    exact ⟨(hb.parent j hj p hp).1, (hb.parent j hj p hp).2.1⟩

/-- non-vacuity of the bookkeeping invariant: a polygon with a hole and an island in that hole -/
example : Book #[{ holeIds := #[1] }, { holeOf := some 0 }, { }] := by
  have h0 := book_push_none #[] { } book_empty rfl rfl
  have h1 := book_push_some _ ({ holeOf := some 0 } : Contour) 0 h0 rfl rfl (by decide) rfl
  have h2 := book_push_none _ { } h1 rfl rfl
  exact h2

end Gbo.Props
