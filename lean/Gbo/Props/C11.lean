import Gbo.Props.C01
import Gbo.Props.C02
/-
  C11 — results can be fed back in.  The algebra is a consequence of C01 for both calls plus C02 for the
  intermediate result (its structural and even-odd readings agree), pointwise; whether C01 / C02 hold for
  the two calls is what the per-run checks decide (the model is run on the implementation's own
  intermediate result and the final region is compared with the composed expression for all points of the
  checked cells).
-/
namespace Gbo.Props
open Gbo Gbo.Spec

/-- left nesting: `(A op1 B) op2 C` -/
theorem C11_of_C01_left (a b c r1 r2 : MPoly) (op1 op2 : Op) (q : Pt)
    (h1 : memMP r1 q = opSem op1 (memEO a q) (memEO b q))          -- C01 for the first call
    (hv : memEO r1 q = memMP r1 q)                                   -- C02 for the intermediate result
    (h2 : memMP r2 q = opSem op2 (memEO r1 q) (memEO c q)) :       -- C01 for the second call
    memMP r2 q = opSem op2 (opSem op1 (memEO a q) (memEO b q)) (memEO c q) := by
  rw [h2, hv, h1]

/-- right nesting: `C op2 (A op1 B)` -/
theorem C11_of_C01_right (a b c r1 r2 : MPoly) (op1 op2 : Op) (q : Pt)
    (h1 : memMP r1 q = opSem op1 (memEO a q) (memEO b q))
    (hv : memEO r1 q = memMP r1 q)
    (h2 : memMP r2 q = opSem op2 (memEO c q) (memEO r1 q)) :
    memMP r2 q = opSem op2 (memEO c q) (opSem op1 (memEO a q) (memEO b q)) := by
  rw [h2, hv, h1]

/-- the laws quoted in the property, as instances: (A ∪ B) \ B = A \ B and A \ (A \ B) = A ∩ B -/
theorem C11_laws (x y : Bool) :
    opSem .difference (opSem .union x y) y = opSem .difference x y
    ∧ opSem .difference x (opSem .difference x y) = opSem .intersection x y
    ∧ opSem .xor (opSem .xor x y) y = x
    ∧ opSem .intersection (opSem .union x y) x = x := by
  cases x <;> cases y <;> decide

/-- all rings counter-clockwise is harmless: the even-odd reading does not depend on ring direction or start
    (membership of a ring only depends on its set of edges, each read from its left to its right end) -/
theorem edgeBelow_reverse (q : Pt) (e : Seg) (h : e.1.x ≠ e.2.x) : edgeBelow q (e.2, e.1) = edgeBelow q e := by
  unfold edgeBelow
  by_cases h1 : e.1.x ≤ e.2.x
  · have h2 : ¬ e.2.x ≤ e.1.x := by
      intro h'; exact h (Rat.le_antisymm h1 h')
    simp [h1, h2]
  · have h2 : e.2.x ≤ e.1.x := Rat.le_of_lt (Rat.not_le.mp h1)
    simp [h1, h2]

example : opSem .difference (opSem .union true false) false = true := by decide

end Gbo.Props
