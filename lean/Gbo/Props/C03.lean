import Gbo.Proofs.Bubble
import Gbo.Proofs.ContourLoop
import Gbo.Proofs.Orders
/-
  C03 — every call on valid input returns.  Clauses that carry theorems: the loops whose termination
  depends on the consistency of the event order.  (The main sweep loop has no termination proof: the known
  finding N2 shows that it does not terminate on every valid input.)
-/
namespace Gbo.Props
open Gbo

theorem cmpView_self (e : EvView) : cmpView e e ≠ .lt := by
  unfold cmpView
  have hx : ¬ (e.point.x > e.point.x) := by simp
  have hy : ¬ (e.point.y > e.point.y) := by simp
  have hx' : ¬ (e.point.x < e.point.x) := by simp
  have hy' : ¬ (e.point.y < e.point.y) := by simp
  simp only [hx, hy, if_false, bne_self_eq_false, Bool.false_eq_true]
  cases e.otherPt with
  | none => simp [lessIf]
  | some o =>
    have : orient e.point o o = 0 := by unfold orient; ring
    simp [this, lessIf]

/-- on the events of a valid input (linked, and collinear events of one kind at one point belong to
    different operands) the comparison never asks to exchange a pair in both directions -/
theorem C03_antiOn_of_valid (a : Arena) (l : List Nat)
    (hlinked : ∀ i ∈ l, ∃ o, (a.view i).otherPt = some o)
    (hok : ∀ i ∈ l, ∀ j ∈ l, i ≠ j → PairOk (a.view i) (a.view j)) : AntiOn a l := by
  intro x hx y hy hlt
  by_cases hxy : x = y
  · subst hxy
    have := cmpView_self (a.view x)
    simp [evLt, cmpEv] at hlt
    exact absurd hlt this
  · obtain ⟨o1, h1⟩ := hlinked x hx
    obtain ⟨o2, h2⟩ := hlinked y hy
    have h := cmpView_antisymm (a.view x) (a.view y) o1 o2 h1 h2 (hok x hx y hy hxy)
    simp only [evLt, cmpEv, beq_iff_eq] at hlt ⊢
    rw [h, hlt]
    rfl

/-- `order_events`: the loop `while !sorted { one pass of adjacent exchanges }` terminates after at most
    `n² + 1` passes (each exchange removes one inversion), returns a permutation of the result events, and no
    adjacent pair of the returned list asks to be exchanged.  Only antisymmetry is used: a non-transitive
    comparison cannot make this loop run forever, an asymmetric one can (and the model's fuel failure is
    exactly that case). -/
theorem C03_order_events_terminates (a : Arena) (r : Array Nat) (hanti : AntiOn a r.toList) :
    ∃ r', bubbleSort a (r.size * r.size + 2) r = some r' ∧ r'.toList.Perm r.toList ∧ AdjSorted a r' :=
  bubbleSort_enough_fuel a r hanti

def exArena : Arena :=
  #[{ point := ⟨0, 0⟩, left := true, other := some 1, isSubject := true, contourId := 0, isExteriorRing := true },
    { point := ⟨1, 0⟩, left := false, other := some 0, isSubject := true, contourId := 0, isExteriorRing := true },
    { point := ⟨0, 1⟩, left := true, other := some 3, isSubject := false, contourId := 0, isExteriorRing := true },
    { point := ⟨2, 2⟩, left := false, other := some 2, isSubject := false, contourId := 0, isExteriorRing := true }]

/-- the conclusion is non-trivial: four events out of order are put in order -/
example : bubbleSort exArena 18 #[1, 3, 0, 2] = some #[0, 2, 1, 3] := by decide +kernel

/-- `connect_edges`, the inner `loop` that follows one contour: every round marks a result event that was
    not processed before, so it ends after at most `result_events.len()` rounds — the fuel the model gives it
    (`res.size + 1`) is never used up, for every arena, iteration map and start position.  (The helper
    `get_next_pos` has its own loop and its own fuel message.) -/
theorem C03_contour_loop_terminates (res map : Array Nat) (contourId : Int) (initial : Pt) (st : CE) (pos : Nat)
    (hsz : st.processed.size = res.size) (hp : st.processed[pos]! = false) :
    contourLoop res map contourId initial (res.size + 1) st pos ≠ .error (.fuel "connect_edges contour loop") := by
  apply contourLoop_fuel res map contourId initial res.size st pos hsz hp
  unfold unproc
  rw [← hsz]
  exact Array.count_le_size

end Gbo.Props
