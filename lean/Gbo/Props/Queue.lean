import Gbo.Proofs.HeapInv
import Gbo.Proofs.HeapSort
import Gbo.Props.C15
import Gbo.Model.Sweep
/-
  The event queue: std's BinaryHeap (as modelled) driven by the event order.  On the events of a valid input
  the order is a total order, so the queue keeps the heap invariant, loses and invents nothing, and always
  pops an event that no queued event precedes.  (C13 "left event first in sweep order", C15 "the queue and
  the order are consistent", C03 "every queued event is popped exactly once".)
-/
namespace Gbo.Props
open Gbo

/-- the events of a valid input: linked to their other endpoint, and two different events at one point, of
    one kind and collinear, belong to different operands -/
structure ValidEvents (a : Arena) (U : Nat → Prop) : Prop where
  linked : ∀ i, U i → ∃ o, Linked (a.view i) o
  pairOk : ∀ i j, U i → U j → i ≠ j → PairOk (a.view i) (a.view j)

theorem evLe_eq_lt_or_gt (a : Arena) (i j : Nat) :
    (evLe a i j = true ↔ cmpEv a i j = .lt) := by
  unfold evLe
  have := C15_cmp_never_equal (a.view i) (a.view j)
  unfold cmpEv at *
  cases h : cmpView (a.view i) (a.view j) <;> simp_all

/-- on valid events `≤` of the queue is transitive and total on distinct events -/
theorem evLe_pre (a : Arena) (U : Nat → Prop) (hv : ValidEvents a U) : Heap.Pre (evLe a) U := by
  constructor
  · intro x y z hx hy hz hxy hyz hxz h1 h2
    rw [evLe_eq_lt_or_gt] at h1 h2 ⊢
    obtain ⟨ox, kx⟩ := hv.linked x hx
    obtain ⟨oy, ky⟩ := hv.linked y hy
    obtain ⟨oz, kz⟩ := hv.linked z hz
    -- cmp x y = lt  ⇒  cmp y x = gt, etc.
    have a1 := C15_cmp_antisymmetric (a.view x) (a.view y) ox oy kx.1 ky.1 (hv.pairOk x y hx hy hxy)
    have a2 := C15_cmp_antisymmetric (a.view y) (a.view z) oy oz ky.1 kz.1 (hv.pairOk y z hy hz hyz)
    have a3 := C15_cmp_antisymmetric (a.view z) (a.view x) oz ox kz.1 kx.1 (hv.pairOk z x hz hx (Ne.symm hxz))
    unfold cmpEv at h1 h2 ⊢
    rw [h1] at a1
    rw [h2] at a2
    have t := C15_cmp_transitive (a.view z) (a.view y) (a.view x) oz oy ox kz ky kx
      (hv.pairOk z y hz hy (Ne.symm hyz)) (hv.pairOk y x hy hx (Ne.symm hxy)) (hv.pairOk z x hz hx (Ne.symm hxz))
      a2 a1
    rw [t] at a3
    exact a3
  · intro x y hx hy hxy
    obtain ⟨ox, kx⟩ := hv.linked x hx
    obtain ⟨oy, ky⟩ := hv.linked y hy
    have a1 := C15_cmp_antisymmetric (a.view x) (a.view y) ox oy kx.1 ky.1 (hv.pairOk x y hx hy hxy)
    rw [evLe_eq_lt_or_gt, evLe_eq_lt_or_gt]
    unfold cmpEv
    have ne := C15_cmp_never_equal (a.view x) (a.view y)
    cases h : cmpView (a.view x) (a.view y)
    · exact Or.inl rfl
    · exact absurd h ne
    · right; rw [h] at a1; exact a1

/-- **the queue pops in sweep order.**  If the queue is a heap of valid events, `pop` returns an event that
    every other queued event is `≤` (no queued event is processed before it), what remains is again a heap
    of the same events minus the popped one -/
theorem queue_pop_is_first (a : Arena) (U : Nat → Prop) (hv : ValidEvents a U) (q : Array Nat)
    (hall : Heap.AllIn U q) (hheap : Heap.IsHeap (evLe a) q) (top : Nat) (q' : Array Nat)
    (h : Heap.pop (evLe a) q = some (top, q')) :
    (∀ i, i < q.size → q[i]! = top ∨ cmpEv a q[i]! top = .lt) ∧
    Heap.IsHeap (evLe a) q' ∧ Heap.AllIn U q' ∧ q'.size + 1 = q.size ∧
    ∀ v, q'.count v + (if top = v then 1 else 0) = q.count v := by
  obtain ⟨h1, h2, h3, h4, h5⟩ := Heap.pop_spec (evLe a) (evLe_pre a U hv) q hall hheap top q' h
  refine ⟨fun i hi => ?_, h2, h3, h4, h5⟩
  rcases h1 i hi with e | e
  · exact Or.inl e
  · exact Or.inr ((evLe_eq_lt_or_gt a _ _).mp e)

/-- pushing a valid event keeps the queue a heap and adds exactly that event -/
theorem queue_push (a : Arena) (U : Nat → Prop) (hv : ValidEvents a U) (q : Array Nat) (x : Nat) (hx : U x)
    (hall : Heap.AllIn U q) (hheap : Heap.IsHeap (evLe a) q) :
    Heap.IsHeap (evLe a) (Heap.push (evLe a) q x) ∧ Heap.AllIn U (Heap.push (evLe a) q x) ∧
    ∀ v, (Heap.push (evLe a) q x).count v = q.count v + (if x = v then 1 else 0) := by
  obtain ⟨h1, h2, _, h4⟩ := Heap.push_spec (evLe a) (evLe_pre a U hv) q x hx hall hheap
  exact ⟨h1, h2, h4⟩

/-- the queue empties exactly when nothing is queued -/
theorem queue_pop_none (a : Arena) (q : Array Nat) : Heap.pop (evLe a) q = none ↔ q.size = 0 :=
  Heap.pop_none_iff (evLe a) q

/-- **draining the queue lists the events in sweep order**: popping until the queue is empty (nothing pushed in
    between — what the public `fill_queue` stage hands to the sweep) yields every queued event exactly once,
    and no event is preceded by one that comes out later -/
theorem queue_drain_in_sweep_order (a : Arena) (U : Nat → Prop) (hv : ValidEvents a U) (q : Array Nat)
    (hall : Heap.AllIn U q) (hheap : Heap.IsHeap (evLe a) q) :
    Heap.Descending (evLe a) (Heap.drain (evLe a) q.size q) ∧
    (Heap.drain (evLe a) q.size q).length = q.size ∧
    ∀ v, (Heap.drain (evLe a) q.size q).count v = q.count v :=
  Heap.drain_spec (evLe a) (evLe_pre a U hv) q.size q (Nat.le_refl _) hall hheap

/-- a concrete queue: the four events of two segments pushed in the wrong order; the first pop is the
    left-most lowest event (index 0), the second the left event of the other segment (index 2) -/
example :
    let a : Arena :=
      #[{ point := ⟨0, 0⟩, left := true, other := some 1, isSubject := true, contourId := 0, isExteriorRing := true },
        { point := ⟨1, 0⟩, left := false, other := some 0, isSubject := true, contourId := 0, isExteriorRing := true },
        { point := ⟨0, 1⟩, left := true, other := some 3, isSubject := false, contourId := 0, isExteriorRing := true },
        { point := ⟨2, 2⟩, left := false, other := some 2, isSubject := false, contourId := 0, isExteriorRing := true }]
    let q := [3, 1, 2, 0].foldl (Heap.push (evLe a)) #[]
    (match Heap.pop (evLe a) q with
     | some (t1, q1) => (match Heap.pop (evLe a) q1 with
        | some (t2, _) => t1 == 0 && t2 == 2
        | none => false)
     | none => false) = true := by
  decide +kernel

end Gbo.Props
