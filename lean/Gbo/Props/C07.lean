import Gbo.Props.C01
import Gbo.Spec.Valid
import Gbo.Proofs.QueueContent
/-
  C07 — the result does not depend on how an operand is written down or wrapped.
  Proved outright, for every arithmetic and every input: wrapping (the four trait implementations) and
  repeated consecutive vertices (`process_polygon` skips collapsed edges).
-/
namespace Gbo.Props
open Gbo Gbo.Spec

theorem C07_wrapping (ar : Arith) (cfg : Cfg) (a b : Poly) (op : Op) :
    polyPoly ar cfg a b op = multiMulti ar cfg [a] [b] op
    ∧ polyMulti ar cfg a [b] op = multiMulti ar cfg [a] [b] op
    ∧ multiPoly ar cfg [a] b op = multiMulti ar cfg [a] [b] op := ⟨rfl, rfl, rfl⟩

theorem processLine_same (s : Bool) (c : Nat) (e : Bool) (st : FQ × Option BBox) (p : Pt) :
    processLine s c e st p p = st := by
  simp [processLine]

/-- a repeated vertex changes neither the events, their order, nor the bounding box -/
theorem processRing_repeat (s : Bool) (c : Nat) (e : Bool) (st : FQ × Option BBox) (p : Pt) (rest : Ring) :
    processRing s c e st (p :: p :: rest) = processRing s c e st (p :: rest) := by
  simp [processRing, processLine_same]

theorem dedup_head (q : Pt) (rest : Ring) : ∃ t, dedupConsecutive (q :: rest) = q :: t := by
  induction rest generalizing q with
  | nil => exact ⟨[], rfl⟩
  | cons r rs ih =>
    by_cases h : q = r
    · subst h
      simp only [dedupConsecutive, if_true]
      exact ih q
    · exact ⟨dedupConsecutive (r :: rs), by simp [dedupConsecutive, h]⟩

theorem processRing_dedup (s : Bool) (c : Nat) (e : Bool) (r : Ring) :
    ∀ st, processRing s c e st (dedupConsecutive r) = processRing s c e st r := by
  induction r with
  | nil => intro st; rfl
  | cons p rest ih =>
    cases rest with
    | nil => intro st; rfl
    | cons q rest =>
      intro st
      by_cases h : p = q
      · subst h
        simp only [dedupConsecutive, if_true]
        rw [ih st, processRing_repeat]
      · simp only [dedupConsecutive, h, if_false]
        obtain ⟨t, ht⟩ := dedup_head q rest
        rw [ht]
        simp only [processRing]
        rw [← ht, ih]

def dedupPoly (p : Poly) : Poly := { ext := dedupConsecutive p.ext, holes := p.holes.map dedupConsecutive }

theorem processPolygon_dedup (s : Bool) (c : Nat) (e : Bool) (st : FQ × Option BBox) (p : Poly) :
    processPolygon s c e st (dedupPoly p) = processPolygon s c e st p := by
  simp only [processPolygon, dedupPoly, processRing_dedup]
  generalize processRing s c e st p.ext = st0
  induction p.holes generalizing st0 with
  | nil => rfl
  | cons h hs ih => simp only [List.map_cons, List.foldl_cons, processRing_dedup, ih]

/-- `fill_queue` produces the same queue, arena and boxes whether or not vertices are repeated -/
theorem C07_repeated_vertices_fillQueue (a b : MPoly) (op : Op) :
    fillQueue (a.map dedupPoly) (b.map dedupPoly) op = fillQueue a b op := by
  unfold fillQueue
  have h1 : ∀ (acc : Nat × FQ × Option BBox), List.foldl subjStep acc (a.map dedupPoly) = List.foldl subjStep acc a := by
    induction a with
    | nil => intro acc; rfl
    | cons p ps ih =>
      intro acc
      simp only [List.map_cons, List.foldl_cons, subjStep, processPolygon_dedup]
      exact ih _
  have h2 : ∀ (acc : Nat × FQ × Option BBox), List.foldl (clipStep op) acc (b.map dedupPoly) = List.foldl (clipStep op) acc b := by
    induction b with
    | nil => intro acc; rfl
    | cons p ps ih =>
      intro acc
      simp only [List.map_cons, List.foldl_cons, clipStep, processPolygon_dedup]
      exact ih _
  simp only [h1, h2]

/-- Hence, whenever the sweep runs (the boxes overlap), the whole result is identical; on the shortcut
    path the operands themselves are handed back (with their repeated vertices). -/
theorem C07_repeated_vertices (ar : Arith) (cfg : Cfg) (a b : MPoly) (op : Op)
    (h : boxesDisjoint (fillQueue a b op).sbbox (fillQueue a b op).cbbox = false) :
    (booleanOperation ar cfg (a.map dedupPoly) (b.map dedupPoly) op).map (·.result)
      = (booleanOperation ar cfg a b op).map (·.result) := by
  unfold booleanOperation
  simp only [C07_repeated_vertices_fillQueue, h]
  cases hs : (fillQueue a b op).sbbox <;> cases hc : (fillQueue a b op).cbbox <;> simp_all [boxesDisjoint]

/-- non-vacuity: a square with a tripled vertex against an overlapping square -/
example :
    let sq : Poly := { ext := [⟨0,0⟩, ⟨2,0⟩, ⟨2,0⟩, ⟨2,0⟩, ⟨2,2⟩, ⟨0,2⟩, ⟨0,0⟩], holes := [] }
    let sq2 : Poly := { ext := [⟨1,1⟩, ⟨3,1⟩, ⟨3,3⟩, ⟨1,3⟩, ⟨1,1⟩], holes := [] }
    boxesDisjoint (fillQueue [sq] [sq2] .union).sbbox (fillQueue [sq] [sq2] .union).cbbox = false := by
  decide +kernel

/-- **Ring direction.**  Writing a ring in the opposite direction makes `process_polygon` queue exactly the
    same segments (left endpoint, right endpoint, operand, contour id, exterior flag), as a multiset — for
    every ring, degenerate lines and repeated vertices included.  Only the positions in the event arena
    differ. -/
theorem C07_queue_ring_reversed (subj : Bool) (cid : Nat) (ext : Bool) (ring : Ring) (st : FQ × Option BBox)
    (h : st.1.arena.size % 2 = 0) :
    (arenaSegs (processRing subj cid ext st ring.reverse).1.arena).Perm
      (arenaSegs (processRing subj cid ext st ring).1.arena) :=
  processRing_reverse_perm subj cid ext ring st h

/-- **Ring start.**  Starting a closed ring one vertex later queues the same segments (by induction: at any
    other vertex). -/
theorem C07_queue_ring_rotated (subj : Bool) (cid : Nat) (ext : Bool) (p m : Pt) (mid : List Pt) (st : FQ × Option BBox)
    (h : st.1.arena.size % 2 = 0) :
    (arenaSegs (processRing subj cid ext st (m :: mid ++ [p] ++ [m])).1.arena).Perm
      (arenaSegs (processRing subj cid ext st (p :: m :: mid ++ [p])).1.arena) :=
  processRing_rotate_perm subj cid ext p m mid st h

/-- non-vacuity: a triangle written clockwise from (0,0) and counter-clockwise from (2,0) -/
example :
    let r1 : Ring := [⟨0, 0⟩, ⟨0, 2⟩, ⟨2, 0⟩, ⟨0, 0⟩]
    let r2 : Ring := [⟨2, 0⟩, ⟨0, 2⟩, ⟨0, 0⟩, ⟨2, 0⟩]
    (arenaSegs (processRing true 1 true ({}, none) r1).1.arena).length = 3 ∧
    ∀ s ∈ arenaSegs (processRing true 1 true ({}, none) r1).1.arena,
      s ∈ arenaSegs (processRing true 1 true ({}, none) r2).1.arena := by
  decide +kernel

end Gbo.Props
