import Gbo.Proofs.BBoxMem
import Gbo.Props.C01
/-
  C09 / C01 / C06 — the bounding-box shortcut is sound: when an axis-parallel line separates the vertices
  of the two operands (which is what disjoint bounding boxes mean), no point lies in both operands, and
  the value returned by `trivial_result` has exactly the region the operation names (structural reading
  on both sides).  For all inputs with closed rings; arithmetic plays no role.
-/
namespace Gbo.Props
open Gbo Gbo.Spec

def vertsOf (m : MPoly) : List Pt := m.flatMap (fun p => p.ext ++ p.holes.flatMap id)

def ClosedRings (m : MPoly) : Prop := ∀ p ∈ m, p.ext.head? = p.ext.getLast?

/-- an axis-parallel line separates the two vertex sets (either order, either axis) -/
def BoxesApart (a b : MPoly) : Prop :=
  (∃ c, (∀ p ∈ vertsOf a, p.x ≤ c) ∧ (∀ p ∈ vertsOf b, c < p.x)) ∨
  (∃ c, (∀ p ∈ vertsOf b, p.x ≤ c) ∧ (∀ p ∈ vertsOf a, c < p.x)) ∨
  (∃ c, (∀ p ∈ vertsOf a, p.y ≤ c) ∧ (∀ p ∈ vertsOf b, c < p.y)) ∨
  (∃ c, (∀ p ∈ vertsOf b, p.y ≤ c) ∧ (∀ p ∈ vertsOf a, c < p.y))

theorem ext_verts {m : MPoly} {p : Poly} (hp : p ∈ m) {v : Pt} (hv : v ∈ p.ext) : v ∈ vertsOf m := by
  unfold vertsOf
  rw [List.mem_flatMap]
  exact ⟨p, hp, List.mem_append_left _ hv⟩

theorem memMP_false_of_ext (m : MPoly) (q : Pt) (h : ∀ p ∈ m, memRing p.ext q = false) : memMP m q = false := by
  unfold memMP
  rw [List.any_eq_false]
  intro p hp
  simp [memPoly, h p hp]

/-- the two half-plane lemmas: everything on one side of a vertical / horizontal line -/
theorem memMP_false_x_gt (m : MPoly) (q : Pt) (h : ∀ v ∈ vertsOf m, q.x < v.x) : memMP m q = false :=
  memMP_false_of_ext m q (fun p hp => memRing_false_of_left _ _ (fun v hv => h v (ext_verts hp hv)))

theorem memMP_false_x_le (m : MPoly) (q : Pt) (h : ∀ v ∈ vertsOf m, v.x ≤ q.x) : memMP m q = false :=
  memMP_false_of_ext m q (fun p hp => memRing_false_of_right _ _ (fun v hv => h v (ext_verts hp hv)))

theorem memMP_false_y_gt (m : MPoly) (q : Pt) (h : ∀ v ∈ vertsOf m, q.y < v.y) : memMP m q = false :=
  memMP_false_of_ext m q (fun p hp => memRing_false_of_below _ _ (fun v hv => h v (ext_verts hp hv)))

theorem memMP_false_y_lt (m : MPoly) (q : Pt) (hc : ClosedRings m) (h : ∀ v ∈ vertsOf m, v.y < q.y) : memMP m q = false :=
  memMP_false_of_ext m q (fun p hp => memRing_false_of_above _ _ (hc p hp) (fun v hv => h v (ext_verts hp hv)))

/-- separated operands have no common point -/
theorem not_both_of_apart (a b : MPoly) (ha : ClosedRings a) (hb : ClosedRings b) (h : BoxesApart a b) (q : Pt) :
    memMP a q = false ∨ memMP b q = false := by
  rcases h with ⟨c, h1, h2⟩ | ⟨c, h1, h2⟩ | ⟨c, h1, h2⟩ | ⟨c, h1, h2⟩
  · by_cases hq : q.x ≤ c
    · exact Or.inr (memMP_false_x_gt b q (fun v hv => lt_of_le_of_lt hq (h2 v hv)))
    · exact Or.inl (memMP_false_x_le a q (fun v hv => le_trans (h1 v hv) (le_of_lt (not_le.mp hq))))
  · by_cases hq : q.x ≤ c
    · exact Or.inl (memMP_false_x_gt a q (fun v hv => lt_of_le_of_lt hq (h2 v hv)))
    · exact Or.inr (memMP_false_x_le b q (fun v hv => le_trans (h1 v hv) (le_of_lt (not_le.mp hq))))
  · by_cases hq : q.y ≤ c
    · exact Or.inr (memMP_false_y_gt b q (fun v hv => lt_of_le_of_lt hq (h2 v hv)))
    · exact Or.inl (memMP_false_y_lt a q ha (fun v hv => lt_of_le_of_lt (h1 v hv) (not_le.mp hq)))
  · by_cases hq : q.y ≤ c
    · exact Or.inl (memMP_false_y_gt a q (fun v hv => lt_of_le_of_lt hq (h2 v hv)))
    · exact Or.inr (memMP_false_y_lt b q hb (fun v hv => lt_of_le_of_lt (h1 v hv) (not_le.mp hq)))

theorem memMP_append (a b : MPoly) (q : Pt) : memMP (a ++ b) q = (memMP a q || memMP b q) := by
  unfold memMP; rw [List.any_append]

/-- **the shortcut is sound**: with separated operands the value of `trivial_result` has the region the
    operation names, at every point of the plane -/
theorem C01_trivial_path (a b : MPoly) (op : Op) (ha : ClosedRings a) (hb : ClosedRings b) (h : BoxesApart a b) (q : Pt) :
    memMP (trivialResult a b op) q = opSem op (memMP a q) (memMP b q) := by
  have hnb := not_both_of_apart a b ha hb h q
  cases op
  · -- intersection: the empty result
    show memMP [] q = (memMP a q && memMP b q)
    have : memMP [] q = false := rfl
    rw [this]
    rcases hnb with h | h <;> rw [h] <;> simp
  · -- difference: the subject unchanged
    show memMP a q = (memMP a q && !memMP b q)
    rcases hnb with h | h <;> rw [h] <;> simp
  · -- union: both operands side by side
    show memMP (a ++ b) q = (memMP a q || memMP b q)
    exact memMP_append a b q
  · -- xor: the same value; no point is in both
    show memMP (a ++ b) q = (memMP a q != memMP b q)
    rw [memMP_append]
    rcases hnb with h | h <;> rw [h] <;> cases memMP a q <;> cases memMP b q <;> simp_all

/-- a far-away part contributes only itself: adding a part whose vertices are separated from everything
    else changes the shortcut's value by that part's own region (C09, on the shortcut path) -/
theorem C09_far_part_union (a b part : MPoly) (q : Pt) :
    memMP (trivialResult (a ++ part) b .union) q = (memMP (trivialResult a b .union) q || memMP part q) := by
  simp only [trivialResult, memMP_append]
  cases memMP a q <;> cases memMP b q <;> cases memMP part q <;> rfl

/-- non-vacuity: two unit squares one apart -/
example :
    let a : MPoly := [{ ext := [⟨0,0⟩, ⟨1,0⟩, ⟨1,1⟩, ⟨0,1⟩, ⟨0,0⟩], holes := [] }]
    let b : MPoly := [{ ext := [⟨2,0⟩, ⟨3,0⟩, ⟨3,1⟩, ⟨2,1⟩, ⟨2,0⟩], holes := [] }]
    BoxesApart a b ∧ ClosedRings a ∧ ClosedRings b := by
  refine ⟨Or.inl ⟨1, ?_, ?_⟩, ?_, ?_⟩
  · intro p hp; simp [vertsOf] at hp; rcases hp with rfl | rfl | rfl | rfl | rfl <;> decide +kernel
  · intro p hp; simp [vertsOf] at hp; rcases hp with rfl | rfl | rfl | rfl | rfl <;> decide +kernel
  · intro p hp; simp at hp; subst hp; rfl
  · intro p hp; simp at hp; subst hp; rfl

end Gbo.Props
