import Gbo.Model.Connect
import Gbo.Proofs.Provenance
import Gbo.Proofs.SweepProvenance
import Gbo.Props.C13
import Gbo.Proofs.EndToEnd
import Gbo.Proofs.FillVertices
/-
  C04 — output geometry comes from the inputs.  Proved here: every ring the model hands to the result is
  closed (what `Polygon::new` / `LineString::close` guarantees) and on the shortcut path the rings are the
  operands' own rings.  Provenance of edges and vertices, area and orientation are decided per run by the
  exact predicates of Gbo.Spec.Valid on the implementation's output.
-/
namespace Gbo.Props
open Gbo

/-- `LineString::close`: the ring ends where it starts (or is empty) -/
theorem C04_closeRing_closed (r : Ring) : (closeRing r).head? = (closeRing r).getLast? := by
  cases r with
  | nil => rfl
  | cons p rest =>
    by_cases h : (p :: rest).getLast? = some p
    · simp only [closeRing, h, if_true]
      simpa using h.symm
    · simp only [closeRing, h, if_false, List.head?_cons]
      have : p :: rest ++ [p] = (p :: rest) ++ [p] := rfl
      rw [this, List.getLast?_append]
      rfl

/-- closing keeps all vertices in order and adds at most the first vertex again -/
theorem C04_closeRing_prefix (r : Ring) : ∃ t, closeRing r = r ++ t ∧ t.length ≤ 1 := by
  cases r with
  | nil => exact ⟨[], rfl, by simp⟩
  | cons p rest =>
    by_cases h : (p :: rest).getLast? = some p
    · exact ⟨[], by simp [closeRing, h], by simp⟩
    · exact ⟨[p], by simp [closeRing, h], by simp⟩

/-- on the shortcut path the operands' rings are handed back unchanged (in their given direction) -/
theorem C04_shortcut_rings_unchanged (a b : MPoly) :
    trivialResult a b .difference = a ∧ trivialResult a b .union = a ++ b ∧ trivialResult a b .xor = a ++ b
    ∧ trivialResult a b .intersection = [] := ⟨rfl, rfl, rfl, rfl⟩

example : closeRing [⟨0,0⟩, ⟨1,0⟩, ⟨1,1⟩] = [⟨0,0⟩, ⟨1,0⟩, ⟨1,1⟩, ⟨0,0⟩] := by decide +kernel

/-- **No invented vertices, one step of the sweep.**  `possible_intersection` (every arithmetic, both the
    crossing and the collinear-overlap branch, all return codes) never changes the point of an existing
    event, and every event it appends sits at the intersection point the routine computed or at the point of
    an existing event — in corner case 1 of `divide_segment` moved by one representable number in x.
    Stated as an invariant: any predicate `Q` on points that holds for all present events and for the computed
    intersection point, and is closed under that bump, holds for all events afterwards. -/
theorem C04_step_provenance (ar : Arith) (cfg : Cfg) (st st' : SwSt) (se1 se2 o1 o2 r : Nat) (Q : Pt → Prop)
    (h1 : st.arena[se1]!.other = some o1) (h2 : st.arena[se2]!.other = some o2)
    (hs1 : se1 < st.arena.size) (hs2 : se2 < st.arena.size) (ho1 : o1 < st.arena.size) (ho2 : o2 < st.arena.size)
    (hQ : PointsIn st.arena Q) (hb : ∀ q, Q q → Q { q with x := ar.nextUp q.x })
    (hi : ∀ p, ar.isect st.arena[se1]!.point st.arena[o1]!.point st.arena[se2]!.point st.arena[o2]!.point = .point p → Q p)
    (h : possibleIntersection ar cfg st se1 se2 = .ok (r, st')) :
    PointsIn st'.arena Q ∧ st.arena.size ≤ st'.arena.size ∧
    ∀ i, i < st.arena.size → st'.arena[i]!.point = st.arena[i]!.point := by
  obtain ⟨a, b, c⟩ := possibleIntersection_points ar cfg st st' se1 se2 o1 o2 r Q h1 h2 hs1 hs2 ho1 ho2 hQ hb hi h
  exact ⟨a, b, c⟩

/-- under exact arithmetic there is no bump: the new points are exactly the computed intersection point or
    points of existing events -/
theorem C04_step_provenance_exact (cfg : Cfg) (st st' : SwSt) (se1 se2 o1 o2 r : Nat) (Q : Pt → Prop)
    (h1 : st.arena[se1]!.other = some o1) (h2 : st.arena[se2]!.other = some o2)
    (hs1 : se1 < st.arena.size) (hs2 : se2 < st.arena.size) (ho1 : o1 < st.arena.size) (ho2 : o2 < st.arena.size)
    (hQ : PointsIn st.arena Q)
    (hi : ∀ p, Arith.exact.isect st.arena[se1]!.point st.arena[o1]!.point st.arena[se2]!.point st.arena[o2]!.point = .point p → Q p)
    (h : possibleIntersection Arith.exact cfg st se1 se2 = .ok (r, st')) :
    PointsIn st'.arena Q :=
  (C04_step_provenance Arith.exact cfg st st' se1 se2 o1 o2 r Q h1 h2 hs1 hs2 ho1 ho2 hQ (fun q hq => hq) hi h).1

/-- **No invented vertices — the whole sweep, every input, every arithmetic.**  Whenever `subdivide` returns,
    the point of every event in its arena is *generated* from the points of the events `fill_queue` created
    (the operands' vertices): it is one of them, or an intersection point the routine computed for two segments
    whose four endpoints are generated, or such a point moved by the one-ulp bump of `divide_segment`.  (The
    contours assembled afterwards consist of event points only.)  Under exact arithmetic the bump is the
    identity, so every vertex is an input vertex or an exact intersection point of two sub-segments. -/
theorem C04_subdivide_provenance (ar : Arith) (cfg : Cfg) (a b : MPoly) (op : Op) (sb cb : BBox) (sw : SweepOut)
    (h : subdivide ar cfg (fillQueue a b op).fq sb cb op = .ok sw) :
    PointsIn sw.arena (Gen ar (fun p => ∃ i, i < (fillQueue a b op).fq.arena.size ∧ (fillQueue a b op).fq.arena[i]!.point = p)) :=
  subdivide_provenance ar cfg _ sb cb op sw h (C13_links_initial a b op)

/-- **No invented vertices, end to end.**  For every pair of operands, every operation and every arithmetic:
    whenever `boolean_operation` returns through the sweep (not through the bounding-box shortcut, where the
    operands' own rings are handed back: `C04_shortcut_rings_unchanged`), every vertex of every ring of every
    returned polygon is *generated* from the operands' vertices (the points of the events `fill_queue`
    created) by intersection points the routine computed for two segments between generated points and by the
    one-ulp bump of `divide_segment`.  Chain: `fill_queue` links its pairs and queues valid indices; the sweep
    keeps both (`subdivide_provenance`, `subdivide_sorted_valid`); `order_events` permutes a sub-list of the
    swept events; `connect_edges` emits points of those events only (`connectEdges_points`); `Polygon::new`
    only repeats the first vertex (`mem_closeRing`). -/
theorem C04_vertices_generated (ar : Arith) (cfg : Cfg) (subject clipping : MPoly) (op : Op) (out : RunOut)
    (h : booleanOperation ar cfg subject clipping op = .ok out) (hnt : out.trivial = false) :
    ∀ poly, poly ∈ out.result → ∀ ring, ring ∈ poly.ext :: poly.holes → ∀ p, p ∈ ring →
      Gen ar (InputVertex subject clipping op) p :=
  booleanOperation_vertices ar cfg subject clipping op out (C13_fillQueue subject clipping op).1 h hnt

/-- … stated with the operands themselves: the generators are the vertices of the rings of `subject` and
    `clipping` -/
theorem C04_vertices_from_operands (ar : Arith) (cfg : Cfg) (subject clipping : MPoly) (op : Op) (out : RunOut)
    (h : booleanOperation ar cfg subject clipping op = .ok out) (hnt : out.trivial = false) :
    ∀ poly, poly ∈ out.result → ∀ ring, ring ∈ poly.ext :: poly.holes → ∀ p, p ∈ ring →
      Gen ar (VertexOf (subject ++ clipping)) p := by
  intro poly hpoly ring hring p hp
  refine Gen.mono ?_ p (C04_vertices_generated ar cfg subject clipping op out h hnt poly hpoly ring hring p hp)
  rintro q ⟨i, hi, hq⟩
  rw [← hq]
  exact fillQueue_vertices subject clipping op i hi

/-- every ring returned on the sweep path is closed (first vertex = last vertex) or empty -/
theorem C04_rings_closed (ar : Arith) (cfg : Cfg) (subject clipping : MPoly) (op : Op) (out : RunOut)
    (h : booleanOperation ar cfg subject clipping op = .ok out) (hnt : out.trivial = false) :
    ∀ poly, poly ∈ out.result → ∀ ring, ring ∈ poly.ext :: poly.holes → ring.head? = ring.getLast? := by
  obtain ⟨_, _, _, _, _, _, _, hrings⟩ := booleanOperation_rings ar cfg subject clipping op out h hnt
  intro poly hpoly ring hring
  obtain ⟨c, _, hr⟩ := hrings poly hpoly ring hring
  rw [hr]; exact C04_closeRing_closed _

/-- non-vacuity: two crossing squares; the sweep path is taken and returns a ring -/
example :
    (match booleanOperation Arith.exact { budget := 1000 }
        [{ ext := [⟨0, 0⟩, ⟨2, 0⟩, ⟨2, 2⟩, ⟨0, 2⟩, ⟨0, 0⟩], holes := [] }]
        [{ ext := [⟨1, 1⟩, ⟨3, 1⟩, ⟨3, 3⟩, ⟨1, 3⟩, ⟨1, 1⟩], holes := [] }] .intersection with
     | .ok out => out.trivial == false && out.result.length == 1
     | .error _ => false) = true := by
  decide +kernel

end Gbo.Props
