import Gbo.Model.Connect
/-
  C04 — output geometry comes from the inputs.  Proved here: every ring the model hands to the result is
  closed (what `Polygon::new` / `LineString::close` guarantees) and on the shortcut path the rings are the
  operands' own rings.  Provenance of edges and vertices, area and orientation are decided per run by the
  exact predicates of Gbo.Spec.Valid on the implementation's output.
-/
namespace Gbo.Props
open Gbo

/-- `LineString::close`: the ring ends where it starts (or is empty) -/
theorem C04_closeRing_closed (r : Ring) : (closeRing r).head? = (closeRing r).getLast? := by
  cases r with
  | nil => rfl
  | cons p rest =>
    by_cases h : (p :: rest).getLast? = some p
    · simp only [closeRing, h, if_true]
      simpa using h.symm
    · simp only [closeRing, h, if_false, List.head?_cons]
      have : p :: rest ++ [p] = (p :: rest) ++ [p] := rfl
      rw [this, List.getLast?_append]
      rfl

/-- closing keeps all vertices in order and adds at most the first vertex again -/
theorem C04_closeRing_prefix (r : Ring) : ∃ t, closeRing r = r ++ t ∧ t.length ≤ 1 := by
  cases r with
  | nil => exact ⟨[], rfl, by simp⟩
  | cons p rest =>
    by_cases h : (p :: rest).getLast? = some p
    · exact ⟨[], by simp [closeRing, h], by simp⟩
    · exact ⟨[p], by simp [closeRing, h], by simp⟩

/-- on the shortcut path the operands' rings are handed back unchanged (in their given direction) -/
theorem C04_shortcut_rings_unchanged (a b : MPoly) :
    trivialResult a b .difference = a ∧ trivialResult a b .union = a ++ b ∧ trivialResult a b .xor = a ++ b
    ∧ trivialResult a b .intersection = [] := ⟨rfl, rfl, rfl, rfl⟩

example : closeRing [⟨0,0⟩, ⟨1,0⟩, ⟨1,1⟩] = [⟨0,0⟩, ⟨1,0⟩, ⟨1,1⟩, ⟨0,0⟩] := by decide +kernel

end Gbo.Props
