import Gbo.Proofs.SplayWalk
/-
  C17 — the splay tree behaves as a sorted map for every operation history.

  `history_refines`: for every lawful comparator and EVERY finite sequence of operations (insert, remove,
  get, find_key, contains, next, prev, min, max, clear, len, is_empty, extend, consuming iteration in any
  mix of directions), the model of `SplayTree` returns exactly what a sorted association list returns,
  `len` is the number of stored keys, and the search-tree invariant is maintained.  The model is tied to
  lib/src/splay by the correspondence check (tools/check C17).
-/
namespace Gbo.Props
open Gbo Gbo.Tree

variable {K V : Type}

inductive SOp (K V : Type)
  | insert (k : K) (v : V) | remove (k : K) | get (k : K) | findKey (k : K) | contains (k : K)
  | next (k : K) | prev (k : K) | min | max | clear | len | isEmpty
  | extend (kvs : List (K × V))
  | consume (dirs : List Bool)     -- into_iter, then `next` (true) / `next_back` (false); the rest is dropped

inductive SOut (K V : Type)
  | optV (o : Option V) | optK (o : Option K) | bool (b : Bool) | optKV (o : Option (K × V)) | nat (n : Nat) | unit
  | items (l : List (Option (K × V) × Nat))    -- each item with the size hint before it

/-- consuming iteration on the model -/
def consumeModel : TreeIter K V → List Bool → List (Option (K × V) × Nat)
  | _, [] => []
  | it, d :: ds =>
    let r := if d then it.next else it.nextBack
    (r.2, it.remaining) :: consumeModel r.1 ds

/-- consuming iteration on the reference list -/
def consumeSpec : List (K × V) → List Bool → List (Option (K × V) × Nat)
  | _, [] => []
  | l, d :: ds =>
    if d then (l.head?, l.length) :: consumeSpec l.tail ds
    else (l.getLast?, l.length) :: consumeSpec l.dropLast ds

def stepModel (cmp : K → K → Ordering) (s : SplayTree K V) : SOp K V → SplayTree K V × SOut K V
  | .insert k v => let r := s.insert cmp k v; (r.1, .optV r.2)
  | .remove k => let r := s.remove cmp k; (r.1, .optV r.2)
  | .get k => let r := s.get cmp k; (r.1, .optV r.2)
  | .findKey k => let r := s.findKey cmp k; (r.1, .optK r.2)
  | .contains k => let r := s.contains cmp k; (r.1, .bool r.2)
  | .next k => let r := s.next cmp k; (r.1, .optKV r.2)
  | .prev k => let r := s.prev cmp k; (r.1, .optKV r.2)
  | .min => (s, .optK s.min)
  | .max => (s, .optK s.max)
  | .clear => (s.clear, .unit)
  | .len => (s, .nat s.len)
  | .isEmpty => (s, .bool s.isEmpty)
  | .extend kvs => (s.extend cmp kvs, .unit)
  | .consume dirs => ({}, .items (consumeModel (TreeIter.ofTree s) dirs))

def stepSpec (cmp : K → K → Ordering) (l : List (K × V)) : SOp K V → List (K × V) × SOut K V
  | .insert k v => let r := sInsert cmp k v l; (r.1, .optV r.2)
  | .remove k => let r := sRemove cmp k l; (r.1, .optV r.2)
  | .get k => (l, .optV ((sGet cmp k l).map (·.2)))
  | .findKey k => (l, .optK ((sGet cmp k l).map (·.1)))
  | .contains k => (l, .bool (sGet cmp k l).isSome)
  | .next k => (l, .optKV (sNext cmp k l))
  | .prev k => (l, .optKV (sPrev cmp k l))
  | .min => (l, .optK (l.head?.map (·.1)))
  | .max => (l, .optK (l.getLast?.map (·.1)))
  | .clear => ([], .unit)
  | .len => (l, .nat l.length)
  | .isEmpty => (l, .bool l.isEmpty)
  | .extend kvs => (kvs.foldl (fun l kv => (sInsert cmp kv.1 kv.2 l).1) l, .unit)
  | .consume dirs => ([], .items (consumeSpec l dirs))

def runModel (cmp : K → K → Ordering) : SplayTree K V → List (SOp K V) → List (SOut K V)
  | _, [] => []
  | s, op :: ops => let r := stepModel cmp s op; r.2 :: runModel cmp r.1 ops

def runSpec (cmp : K → K → Ordering) : List (K × V) → List (SOp K V) → List (SOut K V)
  | _, [] => []
  | l, op :: ops => let r := stepSpec cmp l op; r.2 :: runSpec cmp r.1 ops

theorem next_refines {cmp : K → K → Ordering} (h : LawfulCmp cmp) (s : SplayTree K V) (key : K) (hi : s.Inv cmp) :
    (s.next cmp key).1.abs = s.abs ∧ (s.next cmp key).1.Inv cmp ∧ (s.next cmp key).2 = sNext cmp key s.abs := by
  obtain ⟨hb, hsz⟩ := hi
  unfold SplayTree.next SplayTree.abs
  cases hr : s.root with
  | nil => simp only []; rw [hr] at hb hsz; exact ⟨by rw [hr], ⟨by rw [hr]; exact hb, by rw [hr]; exact hsz⟩, rfl⟩
  | node a k0 v0 b =>
    simp only []
    have hin := splay_inorder cmp key (node a k0 v0 b)
    rw [hr] at hb hsz
    have hb' : Bst cmp (splay cmp key (node a k0 v0 b)) := by unfold Bst; rw [hin]; exact hb
    refine ⟨hin, ⟨hb', by show s.size = _; rw [hin]; exact hsz⟩, ?_⟩
    rw [succWalk_spec h key _ hb', hin]
    cases sNext cmp key (inorder (node a k0 v0 b)) <;> rfl

theorem prev_refines {cmp : K → K → Ordering} (h : LawfulCmp cmp) (s : SplayTree K V) (key : K) (hi : s.Inv cmp) :
    (s.prev cmp key).1.abs = s.abs ∧ (s.prev cmp key).1.Inv cmp ∧ (s.prev cmp key).2 = sPrev cmp key s.abs := by
  obtain ⟨hb, hsz⟩ := hi
  unfold SplayTree.prev SplayTree.abs
  cases hr : s.root with
  | nil => simp only []; rw [hr] at hb hsz; exact ⟨by rw [hr], ⟨by rw [hr]; exact hb, by rw [hr]; exact hsz⟩, rfl⟩
  | node a k0 v0 b =>
    simp only []
    have hin := splay_inorder cmp key (node a k0 v0 b)
    rw [hr] at hb hsz
    have hb' : Bst cmp (splay cmp key (node a k0 v0 b)) := by unfold Bst; rw [hin]; exact hb
    refine ⟨hin, ⟨hb', by show s.size = _; rw [hin]; exact hsz⟩, ?_⟩
    rw [predWalk_spec h key _ hb', hin]
    cases sPrev cmp key (inorder (node a k0 v0 b)) <;> rfl

theorem extend_refines {cmp : K → K → Ordering} (h : LawfulCmp cmp) (kvs : List (K × V)) (s : SplayTree K V) (hi : s.Inv cmp) :
    (s.extend cmp kvs).abs = kvs.foldl (fun l kv => (sInsert cmp kv.1 kv.2 l).1) s.abs ∧ (s.extend cmp kvs).Inv cmp := by
  induction kvs generalizing s with
  | nil => exact ⟨rfl, hi⟩
  | cons kv rest ih =>
    unfold SplayTree.extend
    simp only [List.foldl_cons]
    obtain ⟨h1, _, h3⟩ := SplayTree.insert_refines h s kv.1 kv.2 hi
    have := ih (s.insert cmp kv.1 kv.2).1 h3
    unfold SplayTree.extend at this
    rw [h1] at this
    exact this

theorem consume_refines (it : TreeIter K V) (dirs : List Bool) (hrem : it.remaining = (inorder it.cur).length) :
    consumeModel it dirs = consumeSpec (inorder it.cur) dirs := by
  induction dirs generalizing it with
  | nil => rfl
  | cons d ds ih =>
    simp only [consumeModel, consumeSpec]
    cases d
    · -- next_back
      simp only [Bool.false_eq_true, if_false]
      unfold TreeIter.nextBack
      cases hc : it.cur with
      | nil =>
        simp only [inorder, List.getLast?_nil, List.length_nil, List.dropLast_nil]
        rw [hc] at hrem
        rw [ih it (by rw [hc]; exact hrem), hc]
        simp [inorder, hrem]
      | node l k v r =>
        have hsp := iterBackLoop_spec l k v r
        simp only at hsp
        rw [hc] at hrem
        have hlen : (inorder (node l k v r)).length = (inorder (iterBackLoop l k v r).2.2).length + 1 := by
          simp only [inorder]; rw [← hsp]; simp
        simp only
        rw [ih _ (by simp only; rw [hrem, hlen]; simp)]
        simp only [inorder]
        rw [← hsp]
        simp [hrem, inorder, ← hsp]
    · -- next
      simp only [if_true]
      unfold TreeIter.next
      cases hc : it.cur with
      | nil =>
        simp only [inorder, List.head?_nil, List.length_nil, List.tail_nil]
        rw [hc] at hrem
        rw [ih it (by rw [hc]; exact hrem), hc]
        simp [inorder, hrem]
      | node l k v r =>
        have hsp := iterNextLoop_spec l k v r
        simp only at hsp
        rw [hc] at hrem
        simp only
        rw [ih _ (by simp only; rw [hrem]; simp only [inorder]; rw [← hsp]; simp)]
        simp only [inorder]
        rw [← hsp]
        simp [hrem, inorder, ← hsp]

/-- one step: same output, abstraction commutes, invariant kept -/
theorem step_refines {cmp : K → K → Ordering} (h : LawfulCmp cmp) (s : SplayTree K V) (op : SOp K V) (hi : s.Inv cmp) :
    (stepModel cmp s op).2 = (stepSpec cmp s.abs op).2
    ∧ (stepModel cmp s op).1.abs = (stepSpec cmp s.abs op).1
    ∧ (stepModel cmp s op).1.Inv cmp := by
  cases op with
  | insert k v =>
    obtain ⟨h1, h2, h3⟩ := SplayTree.insert_refines h s k v hi
    exact ⟨by simp [stepModel, stepSpec, h2], h1, h3⟩
  | remove k =>
    obtain ⟨h1, h2, h3⟩ := SplayTree.remove_refines h s k hi
    exact ⟨by simp [stepModel, stepSpec, h2], h1, h3⟩
  | get k =>
    obtain ⟨h1, _, h3, h4⟩ := SplayTree.get_refines h s k hi
    exact ⟨by simp [stepModel, stepSpec, h4], h1, h3⟩
  | findKey k =>
    obtain ⟨h1, _, h3, h4⟩ := SplayTree.findKey_refines h s k hi
    exact ⟨by simp [stepModel, stepSpec, h4], h1, h3⟩
  | contains k =>
    obtain ⟨h1, _, h3, h4⟩ := SplayTree.findKey_refines h s k hi
    refine ⟨?_, h1, h3⟩
    simp only [stepModel, stepSpec, SplayTree.contains, h4]
    cases sGet cmp k s.abs <;> rfl
  | next k =>
    obtain ⟨h1, h2, h3⟩ := next_refines h s k hi
    exact ⟨by simp [stepModel, stepSpec, h3], h1, h2⟩
  | prev k =>
    obtain ⟨h1, h2, h3⟩ := prev_refines h s k hi
    exact ⟨by simp [stepModel, stepSpec, h3], h1, h2⟩
  | min => exact ⟨by simp [stepModel, stepSpec, SplayTree.min, SplayTree.abs, minKey_spec], rfl, hi⟩
  | max => exact ⟨by simp [stepModel, stepSpec, SplayTree.max, SplayTree.abs, maxKey_spec], rfl, hi⟩
  | clear => exact ⟨rfl, rfl, ⟨(List.Pairwise.nil : List.Pairwise _ ([] : List (K × V))), rfl⟩⟩
  | len => exact ⟨by simp [stepModel, stepSpec, SplayTree.len, SplayTree.abs, hi.2], rfl, hi⟩
  | isEmpty =>
    refine ⟨?_, rfl, hi⟩
    simp only [stepModel, stepSpec, SplayTree.isEmpty, SplayTree.abs, hi.2]
    cases inorder s.root <;> simp
  | extend kvs =>
    obtain ⟨h1, h2⟩ := extend_refines h kvs s hi
    exact ⟨rfl, h1, h2⟩
  | consume dirs =>
    refine ⟨?_, rfl, ⟨(List.Pairwise.nil : List.Pairwise _ ([] : List (K × V))), rfl⟩⟩
    simp only [stepModel, stepSpec, SplayTree.abs]
    rw [consume_refines (TreeIter.ofTree s) dirs (by simp [TreeIter.ofTree, hi.2])]
    rfl

/-- **C17**: every operation history on the splay tree returns what the sorted association list returns. -/
theorem history_refines {cmp : K → K → Ordering} (h : LawfulCmp cmp) (ops : List (SOp K V)) (s : SplayTree K V) (hi : s.Inv cmp) :
    runModel cmp s ops = runSpec cmp s.abs ops := by
  induction ops generalizing s with
  | nil => rfl
  | cons op ops ih =>
    obtain ⟨h1, h2, h3⟩ := step_refines h s op hi
    simp only [runModel, runSpec]
    rw [h1, ih _ h3, h2]

/-- starting from the empty tree -/
theorem C17_history_refines {cmp : K → K → Ordering} (h : LawfulCmp cmp) (ops : List (SOp K V)) :
    runModel cmp ({} : SplayTree K V) ops = runSpec cmp [] ops :=
  history_refines h ops {} ⟨(List.Pairwise.nil : List.Pairwise _ ([] : List (K × V))), rfl⟩

/-- the invariant along every history: `len` = number of stored keys, keys strictly increasing -/
theorem C17_invariant {cmp : K → K → Ordering} (h : LawfulCmp cmp) (ops : List (SOp K V)) (s : SplayTree K V) (hi : s.Inv cmp) :
    (ops.foldl (fun s op => (stepModel cmp s op).1) s).Inv cmp := by
  induction ops generalizing s with
  | nil => exact hi
  | cons op ops ih => exact ih _ (step_refines h s op hi).2.2

/-- forward consumption yields the stored entries in strictly increasing key order -/
theorem C17_iter_strictly_increasing {cmp : K → K → Ordering} (s : SplayTree K V) (hi : s.Inv cmp) :
    SortedKV cmp s.abs ∧
    consumeModel (TreeIter.ofTree s) (List.replicate s.size true)
      = consumeSpec s.abs (List.replicate s.size true) :=
  ⟨hi.1, consume_refines _ _ (by simp [TreeIter.ofTree, hi.2])⟩

/-- lookups restructure the tree but never copy, drop or re-create a node: the sequence of stored
    (key, value) nodes is unchanged by `splay`, for any comparator at all -/
theorem C17_nodes_preserved (cmp : K → K → Ordering) (key : K) (t : Tree K V) :
    inorder (splay cmp key t) = inorder t := splay_inorder cmp key t

theorem int_compare_eq (a b : Int) : compare a b = .eq ↔ a = b := by
  constructor
  · intro h
    rcases Int.lt_trichotomy a b with h1 | h1 | h1
    · rw [Int.compare_eq_lt.2 h1] at h; cases h
    · exact h1
    · rw [Int.compare_eq_gt.2 h1] at h; cases h
  · intro h; subst h; simp

/-- the integer comparators used by the correspondence check are lawful -/
theorem lawful_compare_int : LawfulCmp (fun a b : Int => compare a b) where
  refl a := by simp
  swap a b := by
    rcases Int.lt_trichotomy a b with h | h | h
    · simp [Int.compare_eq_lt.2 h, Int.compare_eq_gt.2 h, Ordering.swap]
    · subst h; simp [Ordering.swap]
    · simp [Int.compare_eq_lt.2 h, Int.compare_eq_gt.2 h, Ordering.swap]
  lt_trans h1 h2 := by rw [Int.compare_eq_lt] at *; omega
  eq_lt h1 h2 := by rw [Int.compare_eq_lt] at *; rw [int_compare_eq] at h1; omega
  lt_eq h1 h2 := by rw [Int.compare_eq_lt] at *; rw [int_compare_eq] at h2; omega
  eq_trans h1 h2 := by rw [int_compare_eq] at *; omega

/-- non-vacuity: removal of a node with two children in a concrete history, checked by evaluation -/
example :
    runModel (fun a b : Int => compare a b) ({} : SplayTree Int Int)
      [.insert 2 20, .insert 1 10, .insert 3 30, .get 2, .remove 2, .next 1, .prev 3, .len, .consume [true, false, true]]
    = runSpec (fun a b : Int => compare a b) []
      [.insert 2 20, .insert 1 10, .insert 3 30, .get 2, .remove 2, .next 1, .prev 3, .len, .consume [true, false, true]] :=
  C17_history_refines lawful_compare_int _

end Gbo.Props
