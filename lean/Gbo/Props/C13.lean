import Gbo.Proofs.FillQueue
import Gbo.Proofs.Divide
import Gbo.Proofs.Links
import Gbo.Proofs.SweepInv
import Gbo.Proofs.SweepKeeps
import Gbo.Proofs.Once
/-
  C13 — the sweep yields a planar subdivision.  Proved here, for ALL inputs: the queue-filling clause
  (`fill_queue` creates exactly one mutually linked pair per non-degenerate input edge, the left event
  first in sweep order, and exact bounding boxes).  The planarity / coverage clauses about `subdivide` are
  decided per run by the exact oracle on the implementation's event list (tools/check C13).
-/
namespace Gbo.Props
open Gbo

/-- starts of all non-degenerate lines of an operand (one per event pair), in queue-filling order -/
def operandStarts (m : MPoly) : List Pt := m.flatMap polyStarts

theorem subjectFold_spec (ps : List Poly) :
    ∀ (acc : Nat × FQ × Option BBox), Paired acc.2.1.arena →
      Paired (ps.foldl subjStep acc).2.1.arena
      ∧ (ps.foldl subjStep acc).2.1.arena.size = acc.2.1.arena.size + 2 * (operandStarts ps).length
      ∧ (ps.foldl subjStep acc).2.2 = (operandStarts ps).foldl bboxAdd acc.2.2 := by
  induction ps with
  | nil => intro acc hp; exact ⟨hp, by simp [operandStarts], rfl⟩
  | cons p ps ih =>
    intro acc hp
    obtain ⟨h1, h2, h3⟩ := processPolygon_spec true (acc.1 + 1) true p (acc.2.1, acc.2.2) hp
    simp only [List.foldl_cons]
    obtain ⟨g1, g2, g3⟩ := ih (subjStep acc p) h1
    refine ⟨g1, ?_, ?_⟩
    · rw [g2]; simp only [subjStep]; rw [h2]; simp [operandStarts, List.length_append]; omega
    · rw [g3]; simp only [subjStep]; rw [h3]; simp [operandStarts, List.foldl_append]

theorem clippingFold_spec (op : Op) (ps : List Poly) :
    ∀ (acc : Nat × FQ × Option BBox), Paired acc.2.1.arena →
      Paired (ps.foldl (clipStep op) acc).2.1.arena
      ∧ (ps.foldl (clipStep op) acc).2.1.arena.size = acc.2.1.arena.size + 2 * (operandStarts ps).length
      ∧ (ps.foldl (clipStep op) acc).2.2 = (operandStarts ps).foldl bboxAdd acc.2.2 := by
  induction ps with
  | nil => intro acc hp; exact ⟨hp, by simp [operandStarts], rfl⟩
  | cons p ps ih =>
    intro acc hp
    obtain ⟨h1, h2, h3⟩ := processPolygon_spec false (if (op != .difference) = true then acc.1 + 1 else acc.1) (op != .difference) p (acc.2.1, acc.2.2) hp
    simp only [List.foldl_cons]
    obtain ⟨g1, g2, g3⟩ := ih (clipStep op acc p) h1
    refine ⟨g1, ?_, ?_⟩
    · rw [g2]; simp only [clipStep]; rw [h2]; simp [operandStarts, List.length_append]; omega
    · rw [g3]; simp only [clipStep]; rw [h3]; simp [operandStarts, List.foldl_append]

/-- **C13, queue filling**: pairs, count, boxes — for every input and every operation -/
theorem C13_fillQueue (a b : MPoly) (op : Op) :
    Paired (fillQueue a b op).fq.arena
    ∧ (fillQueue a b op).fq.arena.size = 2 * ((operandStarts a).length + (operandStarts b).length)
    ∧ (fillQueue a b op).sbbox = (operandStarts a).foldl bboxAdd none
    ∧ (fillQueue a b op).cbbox = (operandStarts b).foldl bboxAdd none := by
  unfold fillQueue
  obtain ⟨h1, h2, h3⟩ := subjectFold_spec a (0, {}, none) paired_empty
  obtain ⟨g1, g2, g3⟩ := clippingFold_spec op b
    ((a.foldl subjStep (0, {}, none)).1, (a.foldl subjStep (0, {}, none)).2.1, none) h1
  refine ⟨g1, ?_, h3, g3⟩
  rw [g2]
  simp only
  rw [h2]
  show (FQ.arena {}).size + 2 * (operandStarts a).length + 2 * (operandStarts b).length = _
  simp only [show (FQ.arena {}).size = 0 from rfl]
  omega

/-- what a pair is: both events linked to each other, exactly one of them a left event, of non-zero
    length, the left event first in sweep order (so that `Ord::cmp` pops it first) -/
theorem C13_pair_left_first (a : Arena) (k : Nat) (h : PairAt a k) :
    ∃ e1 e2, a[2 * k]? = some e1 ∧ a[2 * k + 1]? = some e2 ∧ e1.point ≠ e2.point ∧
      ((e1.left = true ∧ e2.left = false ∧ ptLt e1.point e2.point) ∨ (e1.left = false ∧ e2.left = true ∧ ptLt e2.point e1.point)) := by
  obtain ⟨e1, e2, g1, g2, _, _, hl, hne, h1, h2, _⟩ := h
  refine ⟨e1, e2, g1, g2, hne, ?_⟩
  cases hl2 : e2.left
  · left; rw [hl2] at hl; simp at hl; exact ⟨hl, rfl, h1 hl⟩
  · right; rw [hl2] at hl; simp at hl; exact ⟨hl, rfl, h2 hl2⟩

/-- non-vacuity: a unit square against a triangle -/
example :
    let sq : Poly := { ext := [⟨0,0⟩, ⟨1,0⟩, ⟨1,1⟩, ⟨0,1⟩, ⟨0,0⟩], holes := [] }
    let tr : Poly := { ext := [⟨0,0⟩, ⟨2,1⟩, ⟨0,2⟩, ⟨0,0⟩, ⟨0,0⟩], holes := [] }
    (fillQueue [sq] [tr] .union).fq.arena.size = 14 ∧ (operandStarts [sq]).length = 4 ∧ (operandStarts [tr]).length = 3 := by
  decide +kernel

/-- One division step under exact arithmetic.  When `divide_segment` is handed a point of the segment (for a
    crossing that is `C16_exact_point_on_both`; for an overlap the point is an endpoint of the other segment
    lying on this one), it appends two events at that point and re-links the pairing so that the old segment
    `P_L P_R` is replaced by the two pieces `P_L inter` and `inter P_R`, whose union is exactly the old
    segment; nothing else in the arena changes its point or its partner.  This is the step that keeps "the
    pieces of every input edge tile that edge" invariant through the sweep. -/
theorem C13_divide_exact (cfg : Cfg) (st st' : SwSt) (seL seR : Nat) (inter : Pt)
    (h : divideSegment Arith.exact cfg st seL inter = .ok st')
    (hoth : st.arena[seL]!.other = some seR) (hL : seL < st.arena.size) (hR : seR < st.arena.size) (hne : seL ≠ seR)
    (hon : OnSegP inter st.arena[seL]!.point st.arena[seR]!.point) :
    st'.arena.size = st.arena.size + 2 ∧
    st'.arena[seL]!.other = some st.arena.size ∧ st'.arena[st.arena.size]!.other = some seL ∧
    st'.arena[st.arena.size + 1]!.other = some seR ∧ st'.arena[seR]!.other = some (st.arena.size + 1) ∧
    (∀ x, OnSegP x st.arena[seL]!.point st.arena[seR]!.point ↔
      (OnSegP x st'.arena[seL]!.point st'.arena[st.arena.size]!.point ∨
       OnSegP x st'.arena[st.arena.size + 1]!.point st'.arena[seR]!.point)) ∧
    (∀ i, i < st.arena.size → i ≠ seL → i ≠ seR →
      st'.arena[i]!.other = st.arena[i]!.other ∧ st'.arena[i]!.point = st.arena[i]!.point) := by
  have he := divideSegment_exact_arena cfg st st' seL seR inter h hoth
  obtain ⟨h1, h2, h3, h4, h5, h6, h7, h8, h9⟩ := divideArena_spec st.arena seL seR inter hL hR hne
  rw [he]
  refine ⟨h1, h5, h6, h8, h7, ?_, fun i hi n1 n2 => ⟨h9 i hi n1 n2, h2 i hi⟩⟩
  intro x
  rw [h2 seL hL, h2 seR hR, h3, h4]
  exact OnSegP_split inter _ _ x hon

/-- non-vacuity: dividing the diagonal of a square at its midpoint -/
example :
    let a : Arena := #[{ point := ⟨0, 0⟩, left := true, other := some 1, isSubject := true, contourId := 0, isExteriorRing := true },
                       { point := ⟨2, 2⟩, left := false, other := some 0, isSubject := true, contourId := 0, isExteriorRing := true }]
    (match divideSegment Arith.exact {} { arena := a, heap := #[] } 0 ⟨1, 1⟩ with
     | .ok st' => st'.arena.size == 4 && st'.arena[0]!.other == some 2 && st'.arena[3]!.other == some 1
     | .error _ => false) = true := by
  decide +kernel

/-- **Every sub-segment is a mutually linked event pair — as an invariant.**  The arena `fill_queue` builds is
    mutually linked (`e.other.other = e`, partner different from `e` and present), and `possible_intersection`
    — every branch: crossing, the four collinear-overlap cases, all return codes — keeps it so, for every
    arithmetic.  (`compute_fields` and the sweep-line operations do not touch `other`.) -/
theorem C13_links_initial (a b : MPoly) (op : Op) : MutualLinks (fillQueue a b op).fq.arena :=
  mutualLinks_of_paired _ (C13_fillQueue a b op).1

theorem C13_links_preserved (ar : Arith) (cfg : Cfg) (st st' : SwSt) (se1 se2 r : Nat)
    (h : possibleIntersection ar cfg st se1 se2 = .ok (r, st')) (hl : MutualLinks st.arena) :
    MutualLinks st'.arena :=
  possibleIntersection_links ar cfg st st' se1 se2 r h hl

/-- **After the whole sweep, for every input and every arithmetic:** whenever `subdivide` returns, every event
    that has a partner is linked back by that partner (a different, existing event) — "every sub-segment is
    a mutually linked left/right event pair" as a theorem about the complete loop (insertion and removal
    branches, neighbour checks, recomputations after return code 2, all branches of `possible_intersection`,
    `divide_segment` with its bump and its left/right swap). -/
theorem C13_subdivide_links (ar : Arith) (cfg : Cfg) (a b : MPoly) (op : Op) (sb cb : BBox) (sw : SweepOut)
    (h : subdivide ar cfg (fillQueue a b op).fq sb cb op = .ok sw) : MutualLinks sw.arena :=
  subdivide_preserves ar (mutualLinks_stable ar) cfg _ sb cb op sw h (C13_links_initial a b op)

/-- **Whole sweep, every input, every arithmetic:** the two events of every sub-segment carry the same operand
    flag and the same contour id (new events made by `divide_segment` inherit them from the divided segment),
    and no event of the queue is ever removed or moved. -/
theorem C13_subdivide_pair_flags (ar : Arith) (cfg : Cfg) (a b : MPoly) (op : Op) (sb cb : BBox) (sw : SweepOut)
    (h : subdivide ar cfg (fillQueue a b op).fq sb cb op = .ok sw) :
    LinkedFlags sw.arena ∧ Keeps (fillQueue a b op).fq.arena sw.arena :=
  ⟨subdivide_linkedFlags ar cfg _ sb cb op sw h (C13_fillQueue a b op).1, subdivide_keeps ar cfg _ sb cb op sw h⟩

/-- `fill_queue` queues every event it creates exactly once (and nothing else) -/
theorem C13_fillQueue_queues_each_event_once (a b : MPoly) (op : Op) :
    ∀ v, (fillQueue a b op).fq.heap.count v = if v < (fillQueue a b op).fq.arena.size then 1 else 0 :=
  fillQueue_once a b op

/-- **Whole sweep, every input, every arithmetic: every event is handled at most once, and exactly once when
    the sweep is not cut short.**  Whenever `subdivide` returns, `sorted_events` holds indices of the returned
    arena only and holds none of them twice (conservation: at every moment each event of the arena — the
    operands' and those `divide_segment` appended — is either still queued or already recorded, once in
    total); for union and xor, which have no early exit, the loop ends only with an empty queue and
    `sorted_events` is a rearrangement of *all* events of the arena. -/
theorem C13_events_processed_once (ar : Arith) (cfg : Cfg) (a b : MPoly) (op : Op) (sb cb : BBox) (sw : SweepOut)
    (h : subdivide ar cfg (fillQueue a b op).fq sb cb op = .ok sw) :
    sw.sorted.toList.Nodup ∧ (∀ x, x ∈ sw.sorted.toList → x < sw.arena.size) ∧
    ((op = .union ∨ op = .xor) → sw.sorted.toList.Perm (List.range sw.arena.size)) :=
  ⟨subdivide_sorted_nodup ar cfg _ sb cb op sw h (fillQueue_once a b op),
   subdivide_sorted_valid ar cfg _ sb cb op sw h (fillQueue_valid a b op),
   fun hop => subdivide_sorted_perm ar cfg _ sb cb op sw hop h (fillQueue_once a b op)⟩

end Gbo.Props
