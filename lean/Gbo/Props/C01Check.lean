import Gbo.Proofs.Layout
/-
  C01, per run: the check that `tools/check C01` evaluates on the implementation's output (`CHECK region`,
  tolerance 0 on exact families) is a kernel-checked certificate: when it answers `ok`, the result, read
  structurally, equals the named Boolean combination of the operands, read even-odd, at EVERY point of the
  plane that lies on no edge and on none of finitely many vertical lines.  Only the quantifier over operand
  pairs remains sampled.
-/
namespace Gbo.Props
open Gbo Gbo.Spec

theorem memEdges_opEdges (m : MPoly) (q : Pt) : memEdges (opEdges m) q = memEO m q := by
  have key : ∀ rs : List Ring, parity ((rs.flatMap ringEdges).map (edgeBelow q)) = parity (rs.map (fun r => memRing r q)) := by
    intro rs
    rw [List.map_flatMap, parity_flatMap]
    rfl
  unfold memEdges opEdges memEO
  rw [key]
  unfold allRings
  rw [List.map_flatMap]

/-- **translation validation with a proved checker** -/
theorem C01_check_sound (a b r : MPoly) (op : Op) (c t : Nat)
    (h : c01Check a b r op 0 = .ok c t) (q : Pt)
    (hclear : ∀ i, i < (c01Layout a b r).atoms.size → ∀ e ∈ (c01Layout a b r).atoms[i]!, onSeg q e = false)
    (hx : ∀ y ∈ breakpoints (tagAll (c01Layout a b r).atoms), q.x ≠ y) :
    memMP r q = opSem op (memEO a q) (memEO b q) := by
  unfold c01Check at h
  have hs := regionFormulaCheck_sound _ _ c t h q hclear hx
  unfold c01Formula at hs
  unfold c01Layout at hs
  obtain ⟨hmatch, hext⟩ := layout_spec r #[opEdges a, opEdges b]
  have e0 : ((layout r #[opEdges a, opEdges b]).atoms.map (fun es => memEdges es q))[0]! = memEO a q := by
    rw [getElem!_map_of_getElem? _ q 0 (opEdges a) (hext 0 _ (by simp)), memEdges_opEdges]
  have e1 : ((layout r #[opEdges a, opEdges b]).atoms.map (fun es => memEdges es q))[1]! = memEO b q := by
    rw [getElem!_map_of_getElem? _ q 1 (opEdges b) (hext 1 _ (by simp)), memEdges_opEdges]
  rw [e0, e1] at hs
  have em : evalMP ((layout r #[opEdges a, opEdges b]).atoms.map (fun es => memEdges es q)) (layout r #[opEdges a, opEdges b]) = memMP r q :=
    evalMP_spec _ q _ r hmatch
  rw [em] at hs
  simpa using hs

/-- non-vacuity: the check accepts the union of two overlapping squares, so the theorem's premise is met -/
example :
    (match c01Check
        [{ ext := [⟨0,0⟩, ⟨2,0⟩, ⟨2,2⟩, ⟨0,2⟩, ⟨0,0⟩], holes := [] }]
        [{ ext := [⟨1,0⟩, ⟨3,0⟩, ⟨3,2⟩, ⟨1,2⟩, ⟨1,0⟩], holes := [] }]
        [{ ext := [⟨0,0⟩, ⟨1,0⟩, ⟨2,0⟩, ⟨3,0⟩, ⟨3,2⟩, ⟨2,2⟩, ⟨1,2⟩, ⟨0,2⟩, ⟨0,0⟩], holes := [] }]
        .union 0 with
      | .ok _ _ => true
      | _ => false) = true := by
  decide +kernel

end Gbo.Props

namespace Gbo.Props
open Gbo Gbo.Spec

/-- the same certificate for any tolerance ≥ 0 (floating families): the statement then speaks about the
    points left / right of everything and the points of the cells that were checked; cells thinner than the
    tolerance are the ones the run reports as skipped -/
theorem C01_check_sound_tol (a b r : MPoly) (op : Op) (tol : Rat) (htol : 0 ≤ tol) (c t : Nat)
    (h : c01Check a b r op tol = .ok c t) (q : Pt)
    (hclear : ∀ i, i < (c01Layout a b r).atoms.size → ∀ e ∈ (c01Layout a b r).atoms[i]!, onSeg q e = false)
    (hcell : (∀ y ∈ breakpoints (tagAll (c01Layout a b r).atoms), q.x < y)
           ∨ (∀ y ∈ breakpoints (tagAll (c01Layout a b r).atoms), y < q.x)
           ∨ InCheckedCell (tagAll (c01Layout a b r).atoms) tol (breakpoints (tagAll (c01Layout a b r).atoms)) q) :
    memMP r q = opSem op (memEO a q) (memEO b q) := by
  unfold c01Check at h
  have hs := regionFormulaCheck_sound_tol _ _ tol htol c t h q hclear hcell
  unfold c01Formula at hs
  unfold c01Layout at hs
  obtain ⟨hmatch, hext⟩ := layout_spec r #[opEdges a, opEdges b]
  have e0 : ((layout r #[opEdges a, opEdges b]).atoms.map (fun es => memEdges es q))[0]! = memEO a q := by
    rw [getElem!_map_of_getElem? _ q 0 (opEdges a) (hext 0 _ (by simp)), memEdges_opEdges]
  have e1 : ((layout r #[opEdges a, opEdges b]).atoms.map (fun es => memEdges es q))[1]! = memEO b q := by
    rw [getElem!_map_of_getElem? _ q 1 (opEdges b) (hext 1 _ (by simp)), memEdges_opEdges]
  rw [e0, e1] at hs
  have em : evalMP ((layout r #[opEdges a, opEdges b]).atoms.map (fun es => memEdges es q)) (layout r #[opEdges a, opEdges b]) = memMP r q :=
    evalMP_spec _ q _ r hmatch
  rw [em] at hs
  simpa using hs

end Gbo.Props
