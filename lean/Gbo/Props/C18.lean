import Gbo.Proofs.SplayWalk
/-
  C18 — bounded stack.  What a model can carry: the teardown (`drop_tree`, used by `clear`, `Drop` and a
  partly consumed `IntoIter`) and the consuming iterator are LOOPS whose whole state is one tree — no
  auxiliary stack whose size could grow with the number or arrangement of nodes — and they free / yield
  every node exactly once, in ascending key order.  The order is observable and is compared with the real
  code by the stack scenarios (keys record the order in which they are dropped); frame sizes and the real
  stack limit are runtime facts decided by the child-process runs of tools/check C18.
-/
namespace Gbo.Props
open Gbo Gbo.Tree

variable {K V : Type}

theorem count_eq_length (t : Tree K V) : count t = (inorder t).length := by
  induction t with
  | nil => rfl
  | node l k v r ihl ihr => simp [count, inorder, ihl, ihr]; omega

/-- the teardown frees exactly the stored nodes, each once, in in-order sequence, for any tree shape -/
theorem C18_teardown_frees_each_node_once (t : Tree K V) : dropAll (count t) t = inorder t := by
  generalize hn : count t = n
  induction n generalizing t with
  | zero =>
    cases t with
    | nil => rfl
    | node l k v r => simp [count] at hn
  | succ n ih =>
    cases t with
    | nil => simp [count] at hn
    | node l k v r =>
      simp only [dropAll]
      have hsp := iterNextLoop_spec l k v r
      simp only at hsp
      have hlen : count (iterNextLoop l k v r).2.2 = n := by
        have h1 : ((iterNextLoop l k v r).1, (iterNextLoop l k v r).2.1) :: inorder (iterNextLoop l k v r).2.2
            = inorder (node l k v r) := by simpa [inorder] using hsp
        have h2 := congrArg List.length h1
        rw [← count_eq_length (node l k v r), hn] at h2
        rw [count_eq_length]
        simpa using h2
      rw [ih _ hlen]
      simpa [inorder] using hsp

/-- the state of the teardown loop is a single tree at every step: the number of nodes it still holds
    decreases by exactly one per freed node (nothing is parked on an auxiliary stack) -/
theorem C18_teardown_state_is_one_tree (l : Tree K V) (k : K) (v : V) (r : Tree K V) :
    count (iterNextLoop l k v r).2.2 + 1 = count (node l k v r) := by
  have hsp := iterNextLoop_spec l k v r
  simp only at hsp
  have h := congrArg List.length hsp
  rw [count_eq_length, count_eq_length]
  simpa [inorder] using h

/-- the consuming iterator (either direction) never loses or duplicates a node -/
theorem C18_iterator_steps (l : Tree K V) (k : K) (v : V) (r : Tree K V) :
    ((iterNextLoop l k v r).1, (iterNextLoop l k v r).2.1) :: inorder (iterNextLoop l k v r).2.2 = inorder l ++ (k, v) :: inorder r
    ∧ inorder (iterBackLoop l k v r).2.2 ++ [((iterBackLoop l k v r).1, (iterBackLoop l k v r).2.1)] = inorder l ++ (k, v) :: inorder r :=
  ⟨iterNextLoop_spec l k v r, iterBackLoop_spec l k v r⟩

/-- non-vacuity: a left chain of three nodes (what monotone insertion builds) -/
example : dropAll 3 (node (node (node nil 1 () nil) 2 () nil) 3 () nil : Tree Nat Unit) = [(1, ()), (2, ()), (3, ())] := by
  decide

end Gbo.Props
