import Gbo.Proofs.Transform
import Gbo.Proofs.ScaleIsect
/-
  C08 — results commute with exact similarity transforms.  Proved: the two exact predicates everything
  else is built from — coordinate comparisons and the orientation sign, hence the whole event order — are
  unchanged by scaling with any positive factor (in particular 2^k) and by translation.  The rounded
  arithmetic of the intersection routine is scale-covariant only for powers of two and in the absence of
  underflow; that and the equivariance of the whole pipeline are decided per run (bit-identical mapped
  results for 2^k scaling with k in ±200 and for integer translations on exact runs; regions for the eight
  axis symmetries).
-/
namespace Gbo.Props
open Gbo

theorem C08_orientation_scale (k : Rat) (a b c : Pt) :
    orient (scalePt k a) (scalePt k b) (scalePt k c) = k * k * orient a b c := orient_scale k a b c

theorem C08_orientation_shift (dx dy : Rat) (a b c : Pt) :
    orient (shiftPt dx dy a) (shiftPt dx dy b) (shiftPt dx dy c) = orient a b c := orient_shift dx dy a b c

theorem C08_event_order_scale (k : Rat) (hk : 0 < k) (e1 e2 : EvView) :
    cmpView (mapView (scalePt k) e1) (mapView (scalePt k) e2) = cmpView e1 e2 := cmpView_scale k hk e1 e2

theorem C08_event_order_shift (dx dy : Rat) (e1 e2 : EvView) :
    cmpView (mapView (shiftPt dx dy) e1) (mapView (shiftPt dx dy) e2) = cmpView e1 e2 := cmpView_shift dx dy e1 e2

/-- a mirror image reverses the orientation sign: only the region commutes with the axis symmetries -/
theorem C08_orientation_mirror (a b c : Pt) :
    orient ⟨-a.x, a.y⟩ ⟨-b.x, b.y⟩ ⟨-c.x, c.y⟩ = - orient a b c := by
  unfold orient; ring

example : cmpView (mapView (scalePt 8) ⟨⟨0, 0⟩, true, some ⟨1, 1⟩, true⟩) (mapView (scalePt 8) ⟨⟨0, 0⟩, true, some ⟨2, 1⟩, false⟩)
    = cmpView ⟨⟨0, 0⟩, true, some ⟨1, 1⟩, true⟩ ⟨⟨0, 0⟩, true, some ⟨2, 1⟩, false⟩ :=
  C08_event_order_scale 8 (by decide +kernel) _ _

/-- **The rounded intersection routine commutes with exact scaling.**  If the arithmetic rounds `c·q` and
    `c²·q` to `c` resp. `c²` times the rounding of `q` (binary floating point: `c` a power of two, nothing
    over- or underflowing — the hypothesis is validated per run by the `mappedrings` checks at 2^-60 and
    2^-200 and by the scaled f32 cases), then the computed intersection of the scaled segments is the scaled
    computed intersection: same classification, coordinates scaled bit for bit.  With `C08_event_order_scale`
    and `C08_orientation_scale` every decision and every computed coordinate of the sweep scales. -/
theorem C08_intersection_scale (ar : Arith) (c : Rat) (h : ScalesExactly ar c) (hc : 0 < c) (a1 a2 b1 b2 : Pt) :
    ar.isect (scalePt c a1) (scalePt c a2) (scalePt c b1) (scalePt c b2) = scaleIsect c (ar.isect a1 a2 b1 b2) :=
  isect_scale h hc a1 a2 b1 b2

/-- the hypothesis is satisfiable: exact arithmetic scales exactly by every factor -/
example (c : Rat) : ScalesExactly Arith.exact c := scalesExactly_exact c

end Gbo.Props
