import Gbo.Proofs.Transform
import Gbo.Proofs.ScaleIsect
import Gbo.Proofs.MapRun
/-
  C08 — results commute with exact similarity transforms.  Proved: the two exact predicates everything
  else is built from — coordinate comparisons and the orientation sign, hence the whole event order — are
  unchanged by scaling with any positive factor (in particular 2^k) and by translation; the rounded
  intersection routine commutes with every scale factor the arithmetic handles exactly; and, on top of
  these, the **whole run** (`fill_queue`, the sweep, `connect_edges`, the assembly) is equivariant under every
  map of the plane that the two orders and the arithmetic cannot tell from the identity
  (`C08_run_equivariant`), which scaling by c > 0 is for exact arithmetic (`C08_exact_scaling`) and for any
  arithmetic that scales exactly by c.  Binary floating point scales exactly by powers of two only while
  nothing over- or underflows (`rndBin` has a smallest exponent), and the eight axis symmetries are not
  order preserving, so those cases are decided per run (bit-identical mapped results for 2^k scaling with
  k in ±200 and for integer translations on exact runs; regions for the eight axis symmetries).
-/
namespace Gbo.Props
open Gbo

theorem C08_orientation_scale (k : Rat) (a b c : Pt) :
    orient (scalePt k a) (scalePt k b) (scalePt k c) = k * k * orient a b c := orient_scale k a b c

theorem C08_orientation_shift (dx dy : Rat) (a b c : Pt) :
    orient (shiftPt dx dy a) (shiftPt dx dy b) (shiftPt dx dy c) = orient a b c := orient_shift dx dy a b c

theorem C08_event_order_scale (k : Rat) (hk : 0 < k) (e1 e2 : EvView) :
    cmpView (mapView (scalePt k) e1) (mapView (scalePt k) e2) = cmpView e1 e2 := cmpView_scale k hk e1 e2

theorem C08_event_order_shift (dx dy : Rat) (e1 e2 : EvView) :
    cmpView (mapView (shiftPt dx dy) e1) (mapView (shiftPt dx dy) e2) = cmpView e1 e2 := cmpView_shift dx dy e1 e2

/-- a mirror image reverses the orientation sign: only the region commutes with the axis symmetries -/
theorem C08_orientation_mirror (a b c : Pt) :
    orient ⟨-a.x, a.y⟩ ⟨-b.x, b.y⟩ ⟨-c.x, c.y⟩ = - orient a b c := by
  unfold orient; ring

example : cmpView (mapView (scalePt 8) ⟨⟨0, 0⟩, true, some ⟨1, 1⟩, true⟩) (mapView (scalePt 8) ⟨⟨0, 0⟩, true, some ⟨2, 1⟩, false⟩)
    = cmpView ⟨⟨0, 0⟩, true, some ⟨1, 1⟩, true⟩ ⟨⟨0, 0⟩, true, some ⟨2, 1⟩, false⟩ :=
  C08_event_order_scale 8 (by decide +kernel) _ _

/-- **The rounded intersection routine commutes with exact scaling.**  If the arithmetic rounds `c·q` and
    `c²·q` to `c` resp. `c²` times the rounding of `q` (binary floating point: `c` a power of two, nothing
    over- or underflowing — the hypothesis is validated per run by the `mappedrings` checks at 2^-60 and
    2^-200 and by the scaled f32 cases), then the computed intersection of the scaled segments is the scaled
    computed intersection: same classification, coordinates scaled bit for bit.  With `C08_event_order_scale`
    and `C08_orientation_scale` every decision and every computed coordinate of the sweep scales. -/
theorem C08_intersection_scale (ar : Arith) (c : Rat) (h : ScalesExactly ar c) (hc : 0 < c) (a1 a2 b1 b2 : Pt) :
    ar.isect (scalePt c a1) (scalePt c a2) (scalePt c b1) (scalePt c b2) = scaleIsect c (ar.isect a1 a2 b1 b2) :=
  isect_scale h hc a1 a2 b1 b2

/-- the hypothesis is satisfiable: exact arithmetic scales exactly by every factor -/
example (c : Rat) : ScalesExactly Arith.exact c := scalesExactly_exact c

/-- **C08, the whole run (every input, every operation).**  Let `f` be a map of the plane that acts on each
    coordinate separately, preserves the coordinate order and the orientation sign, fixes the origin, and
    commutes with the arithmetic's intersection routine and one-ulp step (`RunMap ar f gx gy`).  Then
    `boolean_operation` on the mapped operands behaves exactly as on the original ones — it returns, or fails
    with the same failure — and the result is the original result with every ring mapped by `f`: same
    polygons in the same order, same vertices in the same order, same number of processed events.  Proof:
    both orders (events, segments) are invariant, so the queue, the sweep line and every index-level step of
    the mapped run are *equal* to those of the original run (`fillQueue_map`, `subdivide_map`,
    `connectEdges_map`); only the points stored in the arena differ, by `f`. -/
theorem C08_run_equivariant (ar : Arith) (f : Pt → Pt) (gx gy : Rat → Rat) (h : RunMap ar f gx gy) (cfg : Cfg)
    (subject clipping : MPoly) (op : Op) :
    booleanOperation ar cfg (subject.map (mapPoly f)) (clipping.map (mapPoly f)) op =
      exMap (mapOut f) (booleanOperation ar cfg subject clipping op) :=
  booleanOperation_map h cfg subject clipping op

/-- the hypotheses are met by scaling with `c > 0` whenever the arithmetic scales exactly by `c` -/
theorem C08_scaling_is_runMap (ar : Arith) (c : Rat) (hc : 0 < c) (hs : ScalesExactly ar c)
    (hn : ∀ x, ar.nextUp (c * x) = c * ar.nextUp x) :
    RunMap ar (scalePt c) (fun x => c * x) (fun y => c * y) :=
  scale_runMap ar c hc hs hn

/-- **C08 for the algorithm itself (exact arithmetic), every positive scale factor, every input:** the result
    of the scaled operands is the scaled result -/
theorem C08_exact_scaling (c : Rat) (hc : 0 < c) (cfg : Cfg) (subject clipping : MPoly) (op : Op) :
    booleanOperation Arith.exact cfg (subject.map (mapPoly (scalePt c))) (clipping.map (mapPoly (scalePt c))) op =
      exMap (mapOut (scalePt c)) (booleanOperation Arith.exact cfg subject clipping op) :=
  booleanOperation_map (scale_runMap Arith.exact c hc (scalesExactly_exact c) (fun _ => rfl)) cfg subject clipping op

/-- the whole sweep, same statement one level down (arena, `sorted_events`, counters) -/
theorem C08_subdivide_equivariant (ar : Arith) (f : Pt → Pt) (gx gy : Rat → Rat) (h : RunMap ar f gx gy) (cfg : Cfg)
    (fq : FQ) (sb cb : BBox) (op : Op) :
    subdivide ar cfg (mapFQ f fq) (mapBB gx gy sb) (mapBB gx gy cb) op =
      exMap (mapSweepOut f) (subdivide ar cfg fq sb cb op) :=
  subdivide_map h cfg fq sb cb op

end Gbo.Props
