import Gbo.Props.C07
/-
  C06 — set-algebra laws.  Proved outright: with an empty operand (no polygons, or rings without any
  edge) every operation takes the shortcut and returns the listed value, for every arithmetic.
-/
namespace Gbo.Props
open Gbo Gbo.Spec

/-- an operand none of whose rings has an edge (`LineString::lines()` yields nothing) -/
def NoEdges (m : MPoly) : Prop := ∀ p ∈ m, p.ext.length ≤ 1 ∧ ∀ h ∈ p.holes, h.length ≤ 1

theorem processRing_short (s : Bool) (c : Nat) (e : Bool) (st : FQ × Option BBox) (r : Ring) (h : r.length ≤ 1) :
    processRing s c e st r = st := by
  match r, h with
  | [], _ => rfl
  | [_], _ => rfl

theorem processPolygon_noEdges (s : Bool) (c : Nat) (e : Bool) (st : FQ × Option BBox) (p : Poly)
    (h : p.ext.length ≤ 1 ∧ ∀ r ∈ p.holes, r.length ≤ 1) : processPolygon s c e st p = st := by
  unfold processPolygon
  rw [processRing_short _ _ _ _ _ h.1]
  have := h.2
  generalize p.holes = hs at this
  induction hs with
  | nil => rfl
  | cons r rs ih =>
    simp only [List.foldl_cons]
    rw [processRing_short _ _ _ _ _ (this r List.mem_cons_self)]
    exact ih (fun r' hr' => this r' (List.mem_cons_of_mem _ hr'))

theorem fillQueue_subject_noEdges (a b : MPoly) (op : Op) (h : NoEdges a) : (fillQueue a b op).sbbox = none := by
  unfold fillQueue
  have : ∀ (cid : Nat), ∃ cid', List.foldl subjStep (cid, {}, none) a = (cid', {}, none) := by
    induction a with
    | nil => intro cid; exact ⟨cid, rfl⟩
    | cons p ps ih =>
      intro cid
      simp only [List.foldl_cons, subjStep]
      rw [processPolygon_noEdges _ _ _ _ _ (h p List.mem_cons_self)]
      exact ih (fun p' hp' => h p' (List.mem_cons_of_mem _ hp')) (cid + 1)
  obtain ⟨cid', hc⟩ := this 0
  simp only [hc]

theorem fillQueue_clipping_noEdges (a b : MPoly) (op : Op) (h : NoEdges b) : (fillQueue a b op).cbbox = none := by
  unfold fillQueue
  generalize List.foldl subjStep (0, {}, none) a = acc0
  have : ∀ (cid : Nat) (fq : FQ), ∃ cid', List.foldl (clipStep op) (cid, fq, none) b = (cid', fq, none) := by
    induction b with
    | nil => intro cid fq; exact ⟨cid, rfl⟩
    | cons p ps ih =>
      intro cid fq
      simp only [List.foldl_cons, clipStep]
      rw [processPolygon_noEdges _ _ _ _ _ (h p List.mem_cons_self)]
      exact ih (fun p' hp' => h p' (List.mem_cons_of_mem _ hp')) _ fq
  obtain ⟨cid', hc⟩ := this acc0.1 acc0.2.1
  simp only [hc]

/-- C06, empty operand: the call returns, takes the shortcut, and the value is the listed one -/
theorem C06_empty (ar : Arith) (cfg : Cfg) (a b : MPoly) (op : Op) (h : NoEdges a ∨ NoEdges b) :
    ∃ r, booleanOperation ar cfg a b op = .ok r ∧ r.trivial = true ∧ r.result = trivialResult a b op := by
  unfold booleanOperation
  have hd : boxesDisjoint (fillQueue a b op).sbbox (fillQueue a b op).cbbox = true := by
    rcases h with h | h
    · rw [fillQueue_subject_noEdges a b op h]; rfl
    · rw [fillQueue_clipping_noEdges a b op h]
      cases (fillQueue a b op).sbbox <;> rfl
  simp only [hd, if_true]
  exact ⟨_, rfl, rfl, rfl⟩

/-- the values: `A ∪ ∅ = A`, `A \ ∅ = A`, `A ∩ ∅ = ∅`, `∅ \ A = ∅` (as lists of polygons) -/
theorem C06_empty_values (a : MPoly) :
    trivialResult a [] .union = a ∧ trivialResult a [] .difference = a ∧ trivialResult a [] .intersection = []
    ∧ trivialResult [] a .difference = [] ∧ trivialResult [] a .union = a ∧ trivialResult a [] .xor = a := by
  simp [trivialResult]

/-- touching boxes do not take the shortcut: the test is strict -/
example : boxesDisjoint (some ⟨0, 0, 1, 1⟩) (some ⟨1, 0, 2, 1⟩) = false := by decide +kernel
example : boxesDisjoint (some ⟨0, 0, 1, 1⟩) (some ⟨2, 0, 3, 1⟩) = true := by decide +kernel
/-- non-vacuity of `NoEdges`: the empty operand and a polygon with an empty exterior -/
example : NoEdges [] ∧ NoEdges [{ ext := [], holes := [] }] := by
  constructor <;> intro p hp <;> simp_all

/-- the set-algebra laws of C06, pointwise, for the semantics of the four operations: commutativity of
    ∩, ∪, ⊕; A op A; an empty operand -/
theorem C06_laws (a b : Bool) :
    opSem .intersection a b = opSem .intersection b a
    ∧ opSem .union a b = opSem .union b a
    ∧ opSem .xor a b = opSem .xor b a
    ∧ opSem .intersection a a = a ∧ opSem .union a a = a
    ∧ opSem .difference a a = false ∧ opSem .xor a a = false
    ∧ opSem .union a false = a ∧ opSem .difference a false = a
    ∧ opSem .intersection a false = false ∧ opSem .difference false a = false
    ∧ opSem .xor a false = a := by
  cases a <;> cases b <;> decide

/-- C06 commutativity is a consequence of C01 for the two calls: wherever both results have the region their
    operation names, they have the same region -/
theorem C06_of_C01 (op : Op) (hop : op ≠ .difference) (a b r1 r2 : MPoly) (q : Pt)
    (h1 : memMP r1 q = opSem op (memEO a q) (memEO b q))
    (h2 : memMP r2 q = opSem op (memEO b q) (memEO a q)) : memMP r1 q = memMP r2 q := by
  rw [h1, h2]
  cases op with
  | intersection => exact (C06_laws _ _).1
  | union => exact (C06_laws _ _).2.1
  | xor => exact (C06_laws _ _).2.2.1
  | difference => exact absurd rfl hop

/-- C06 (operand swap), table level: for the three symmetric operations neither the edge selection nor the
    result transition looks at which operand an edge belongs to — swapping the operands (which flips
    `is_subject` on every event) cannot change which edges are selected or their transition.  For
    difference both do depend on it (second part: a witness), which is why swap is not claimed there. -/
theorem C06_tables_symmetric (op : Op) (hop : op ≠ .difference) (et : EdgeType) (s s' io oio : Bool) :
    inResultOf et op s oio = inResultOf et op s' oio
    ∧ resultTransitionOf et op s io oio = resultTransitionOf et op s' io oio := by
  cases op <;> first | exact absurd rfl hop | (cases et <;> cases s <;> cases s' <;> cases io <;> cases oio <;> decide)

theorem C06_tables_difference_asymmetric :
    inResultOf .normal .difference true true ≠ inResultOf .normal .difference false true := by decide

/-- C06 (A op A), table level: when every edge coincides with an edge of the other operand with the same
    orientation, `possible_intersection` types the pair (non-contributing, same-transition); the tables then
    select exactly one edge of each pair for intersection and union — with the transition of the edge
    itself, "outside → inside" iff the edge's own operand is entered — and no edge at all for difference
    and xor, whatever the flags are. -/
theorem C06_tables_self (op : Op) (s io oio : Bool) :
    inResultOf .nonContributing op s oio = false
    ∧ inResultOf .sameTransition op s oio = (op == .intersection || op == .union)
    ∧ (inResultOf .sameTransition op s oio = true →
        resultTransitionOf .sameTransition op s io oio = if io then .inOut else .outIn) := by
  cases op <;> cases s <;> cases io <;> cases oio <;> decide

end Gbo.Props
