import Gbo.Proofs.Isect
import Gbo.Model.Sweep
/-
  C16 — the pairwise intersection step.

  Proved for EVERY rounding (any `Arith`, hence f32 and f64): containment of every reported point in the
  bounding boxes of both segments, no report for disjoint boxes, and the "meet only at a common endpoint /
  no intersection => both segments untouched" clauses of `possible_intersection`.
  Proved for exact arithmetic, non-parallel segments: `None` exactly when the segments are disjoint, the
  reported point lies on both segments, independence of the argument order.
  Not proved: the collinear-overlap branch and the effect of `divide_segment` on the event arena (decided
  per run by the function-level correspondence and the classification oracle against exact arithmetic).
-/
namespace Gbo.Props
open Gbo

theorem C16_point_in_both_boxes (ar : Arith) (a1 a2 b1 b2 p : Pt) (h : ar.isect a1 a2 b1 b2 = .point p) :
    InBox p (segBox a1 a2) ∧ InBox p (segBox b1 b2) := isect_point_in_both_boxes ar a1 a2 b1 b2 p h

theorem C16_overlap_in_both_boxes (ar : Arith) (a1 a2 b1 b2 p q : Pt) (h : ar.isect a1 a2 b1 b2 = .overlap p q) :
    (InBox p (segBox a1 a2) ∧ InBox p (segBox b1 b2)) ∧ (InBox q (segBox a1 a2) ∧ InBox q (segBox b1 b2)) :=
  isect_overlap_in_both_boxes ar a1 a2 b1 b2 p q h

theorem C16_none_of_disjoint_boxes (ar : Arith) (a1 a2 b1 b2 : Pt) (h : isectBBox a1 a2 b1 b2 = none) :
    ar.isect a1 a2 b1 b2 = .none := isect_none_of_disjoint_boxes ar a1 a2 b1 b2 h

theorem C16_exact_none_iff_disjoint (a1 a2 b1 b2 : Pt) (hk : krossOf a1 a2 b1 b2 ≠ 0) :
    Arith.exact.isect a1 a2 b1 b2 = .none ↔ ¬ ∃ p, OnSegP p a1 a2 ∧ OnSegP p b1 b2 :=
  isect_exact_none_iff_disjoint a1 a2 b1 b2 hk

theorem C16_exact_point_on_both (a1 a2 b1 b2 p : Pt) (hk : krossOf a1 a2 b1 b2 ≠ 0)
    (h : Arith.exact.isect a1 a2 b1 b2 = .point p) : OnSegP p a1 a2 ∧ OnSegP p b1 b2 :=
  isect_exact_point_on_both a1 a2 b1 b2 p hk h

/-- the classification does not depend on the order in which the two segments are given -/
theorem C16_exact_none_symmetric (a1 a2 b1 b2 : Pt) (hk : krossOf a1 a2 b1 b2 ≠ 0) :
    Arith.exact.isect a1 a2 b1 b2 = .none ↔ Arith.exact.isect b1 b2 a1 a2 = .none := by
  have hk' : krossOf b1 b2 a1 a2 ≠ 0 := by
    unfold krossOf at hk ⊢
    intro h; apply hk; linarith
  rw [isect_exact_none_iff_disjoint a1 a2 b1 b2 hk, isect_exact_none_iff_disjoint b1 b2 a1 a2 hk']
  constructor
  · intro h ⟨p, hp1, hp2⟩; exact h ⟨p, hp2, hp1⟩
  · intro h ⟨p, hp1, hp2⟩; exact h ⟨p, hp2, hp1⟩

/-- `possible_intersection`: no intersection, or segments that meet only in a common endpoint, leave both
    segments and the queue untouched and return 0 — for every rounding -/
theorem C16_untouched (ar : Arith) (cfg : Cfg) (st : SwSt) (se1 se2 o1 o2 : Nat)
    (h1 : st.arena[se1]!.other = some o1) (h2 : st.arena[se2]!.other = some o2)
    (h : ar.isect st.arena[se1]!.point st.arena[o1]!.point st.arena[se2]!.point st.arena[o2]!.point = .none
       ∨ (∃ p, ar.isect st.arena[se1]!.point st.arena[o1]!.point st.arena[se2]!.point st.arena[o2]!.point = .point p
            ∧ (st.arena[se1]!.point = st.arena[se2]!.point ∨ st.arena[o1]!.point = st.arena[o2]!.point))) :
    possibleIntersection ar cfg st se1 se2 = .ok (0, st) := by
  unfold possibleIntersection
  simp only [h1, h2]
  rcases h with h | ⟨p, hp, hshared⟩
  · simp [h]; rfl
  · simp [hp, hshared]; rfl

/-- non-vacuity: two crossing lattice segments; the exact routine reports the crossing point (1, 1) -/
example : Arith.exact.isect ⟨0, 0⟩ ⟨2, 2⟩ ⟨0, 2⟩ ⟨2, 0⟩ = .point ⟨1, 1⟩ ∧ krossOf ⟨0, 0⟩ ⟨2, 2⟩ ⟨0, 2⟩ ⟨2, 0⟩ ≠ 0 := by
  decide +kernel

/-- and binary64 rounding agrees on this input -/
example : Arith.f64.isect ⟨0, 0⟩ ⟨2, 2⟩ ⟨0, 2⟩ ⟨2, 0⟩ = .point ⟨1, 1⟩ := by decide +kernel

end Gbo.Props
