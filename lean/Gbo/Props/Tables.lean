import Gbo.Model.Connect
import Gbo.Spec.Region
/-
  Table theorems shared by C01, C05 and C14: the per-operation edge selection and the result transition
  are exactly "the named Boolean combination changes across the edge" / "is true above the edge",
  for every flag combination, including coincident edge pairs.
-/
namespace Gbo.Props
open Gbo Gbo.Spec

/-- membership of the two operands just below a sub-segment `e` of operand `own` that has no
    coincident twin: crossing `e` upwards flips the own operand and leaves the other one alone -/
structure Sides where
  ownBelow : Bool
  otherBelow : Bool
deriving DecidableEq, Repr

namespace Sides
def ownAbove (s : Sides) : Bool := !s.ownBelow
def otherAbove (s : Sides) : Bool := s.otherBelow
end Sides

/-- the value of `op` on (subject, clipping) memberships given own/other and which one is the subject -/
def resultOf (op : Op) (isSubject : Bool) (own other : Bool) : Bool :=
  if isSubject then opSem op own other else opSem op other own

/-- the flags the sweep is meant to record for such an edge (C14's reading) -/
def flagsOf (s : Sides) : Bool × Bool := (!s.ownAbove, !s.otherBelow)

/-- `Normal` edges: selected iff the result changes across the edge; `OutIn` iff the result holds above. -/
theorem C01_tables_normal (op : Op) (isSubject ownBelow otherBelow : Bool) :
    let s : Sides := { ownBelow := ownBelow, otherBelow := otherBelow }
    let (io, oio) := flagsOf s
    inResultOf .normal op isSubject oio
        = (resultOf op isSubject s.ownBelow s.otherBelow != resultOf op isSubject s.ownAbove s.otherAbove)
    ∧ (inResultOf .normal op isSubject oio = true →
        (resultTransitionOf .normal op isSubject io oio = .outIn ↔ resultOf op isSubject s.ownAbove s.otherAbove = true)) := by
  cases op <;> cases isSubject <;> cases ownBelow <;> cases otherBelow <;> decide

/-- the edge type `possible_intersection` gives the lower edge of a coincident pair: both edges leave
    their operand in the same direction (`in_out` equal) or not -/
def twinType (ownBelow otherBelow : Bool) : EdgeType :=
  if (!(!ownBelow)) = (!(!otherBelow)) then .sameTransition else .differentTransition

/-- Coincident pairs: the lower edge (typed Same/DifferentTransition) carries the boundary exactly when
    the result changes across the pair, with the direction of the combined change. -/
theorem C01_tables_twin (op : Op) (isSubject ownBelow otherBelow : Bool) :
    let ownAbove := !ownBelow
    let otherAbove := !otherBelow
    let et := twinType ownBelow otherBelow
    let io := !ownAbove
    let oio := !otherBelow
    inResultOf et op isSubject oio
        = (resultOf op isSubject ownBelow otherBelow != resultOf op isSubject ownAbove otherAbove)
    ∧ (inResultOf et op isSubject oio = true →
        (resultTransitionOf et op isSubject io oio = .outIn ↔ resultOf op isSubject ownAbove otherAbove = true))
    ∧ inResultOf .nonContributing op isSubject oio = false := by
  cases op <;> cases isSubject <;> cases ownBelow <;> cases otherBelow <;> decide

/-- non-vacuity: a union edge with the other operand outside is selected and is an `OutIn` boundary -/
example : inResultOf .normal .union true true = true ∧ resultTransitionOf .normal .union true false true = .outIn := by decide

/-- The pinned tree's table (before fix 1711bf9) took the other operand's state from below the pair:
    it is wrong for a coincident pair, e.g. union with both operands starting at the shared edge. -/
def resultTransitionPinned (op : Op) (isSubject inOut otherInOut : Bool) : ResTrans :=
  let thisIn := !inOut
  let thatIn := !otherInOut
  let isIn := match op with
    | .intersection => thisIn && thatIn
    | .union => thisIn || thatIn
    | .xor => thisIn != thatIn
    | .difference => if isSubject then thisIn && !thatIn else thatIn && !thisIn
  if isIn then .outIn else .inOut

theorem C01_counterexample_F1_pinned :
    -- both operands end at the shared edge (inside below, outside above): union is outside above,
    -- but the pinned table reports OutIn
    resultTransitionPinned .union true true false = .outIn
    ∧ resultOf .union true false false = false
    ∧ resultTransitionOf .sameTransition .union true true false = .inOut := by decide

end Gbo.Props
