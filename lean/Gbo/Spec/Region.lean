import Gbo.Model.Sweep
/-
  Executable specification of regions (imports nothing outside core and the model's basic types).

  * point membership by the crossing-number rule with the half-open convention,
  * the region comparator: a finite computation that decides a Boolean formula over ring
    memberships for all points of the checked cells of a slab decomposition.
-/
namespace Gbo.Spec
open Gbo

abbrev Seg := Pt × Pt

def ringEdges : Ring → List Seg
  | p :: q :: rest => (p, q) :: ringEdges (q :: rest)
  | _ => []

/-- the edge `a b` is crossed by the upward ray from below `q`... i.e. it lies strictly below `q`
    and its half-open x-extent contains `q.x` -/
def edgeBelow (q : Pt) (e : Seg) : Bool :=
  let (l, r) := if e.1.x ≤ e.2.x then (e.1, e.2) else (e.2, e.1)
  decide (l.x ≤ q.x) && decide (q.x < r.x) && decide (orient l r q > 0)

def parity (l : List Bool) : Bool := l.foldl (fun acc b => acc != b) false

def memEdges (es : List Seg) (q : Pt) : Bool := parity (es.map (edgeBelow q))
def memRing (r : Ring) (q : Pt) : Bool := memEdges (ringEdges r) q
/-- even-odd reading of all rings together -/
def memEO (m : MPoly) (q : Pt) : Bool :=
  parity (m.flatMap (fun p => (p.ext :: p.holes).map (fun r => memRing r q)))
/-- structural reading: inside the exterior and outside every hole of some polygon -/
def memPoly (p : Poly) (q : Pt) : Bool := memRing p.ext q && p.holes.all (fun h => !memRing h q)
def memMP (m : MPoly) (q : Pt) : Bool := m.any (fun p => memPoly p q)

def opSem : Op → Bool → Bool → Bool
  | .intersection, a, b => a && b
  | .union, a, b => a || b
  | .difference, a, b => a && !b
  | .xor, a, b => a != b

def onSeg (q : Pt) (e : Seg) : Bool :=
  decide (orient e.1 e.2 q = 0) &&
  decide (rmin e.1.x e.2.x ≤ q.x) && decide (q.x ≤ rmax e.1.x e.2.x) &&
  decide (rmin e.1.y e.2.y ≤ q.y) && decide (q.y ≤ rmax e.1.y e.2.y)

/-! ### the comparator

  Decides a Boolean formula over atom memberships for all points of the plane that are clear of the
  edges, by a slab decomposition.  The checker VERIFIES its own preconditions per slab (every edge either
  spans the slab or misses its interior, the spanning edges are ordered at both slab ends, all edges lie
  between the outermost breakpoints), so that its soundness (Gbo/Proofs/Comparator.lean) does not depend
  on how the breakpoints were found. -/

/-- y of the (non-vertical) segment's line at abscissa x -/
def yAt (e : Seg) (x : Rat) : Rat :=
  e.1.y + (e.2.y - e.1.y) * (x - e.1.x) / (e.2.x - e.1.x)

/-- abscissa of the crossing of two non-parallel lines, if any -/
def crossX (e f : Seg) : Option Rat :=
  let d1x := e.2.x - e.1.x
  let d1y := e.2.y - e.1.y
  let d2x := f.2.x - f.1.x
  let d2y := f.2.y - f.1.y
  let den := d1x * d2y - d1y * d2x
  if den = 0 then none else
  let t := ((f.1.x - e.1.x) * d2y - (f.1.y - e.1.y) * d2x) / den
  some (e.1.x + t * d1x)

def insertSorted (x : Rat) : List Rat → List Rat
  | [] => [x]
  | y :: ys => if x < y then x :: y :: ys else if x = y then y :: ys else y :: insertSorted x ys

def sortDedup (xs : List Rat) : List Rat := xs.foldl (fun acc x => insertSorted x acc) []

structure Tagged where
  seg : Seg
  atom : Nat
deriving Inhabited, DecidableEq

def segMinX (e : Seg) : Rat := rmin e.1.x e.2.x
def segMaxX (e : Seg) : Rat := rmax e.1.x e.2.x

/-- the edge is not vertical and its x-extent contains the whole slab -/
def spansSlab (e : Seg) (x0 x1 : Rat) : Bool :=
  decide (e.1.x ≠ e.2.x) && decide (segMinX e ≤ x0) && decide (x1 ≤ segMaxX e)

/-- the edge is vertical or its x-extent misses the interior of the slab -/
def missesSlab (e : Seg) (x0 x1 : Rat) : Bool :=
  decide (e.1.x = e.2.x) || decide (segMaxX e ≤ x0) || decide (x1 ≤ segMinX e)

/-- insertion sort of tagged edges by their ordinate at `xm` -/
def insertByY (xm : Rat) (t : Tagged) : List Tagged → List Tagged
  | [] => [t]
  | u :: us => if yAt t.seg xm ≤ yAt u.seg xm then t :: u :: us else u :: insertByY xm t us

def sortByY (xm : Rat) (ts : List Tagged) : List Tagged := ts.foldl (fun l t => insertByY xm t l) []

/-- consecutive edges are (weakly) ordered at abscissa `x` -/
def orderedAt (x : Rat) : List Tagged → Bool
  | a :: b :: rest => decide (yAt a.seg x ≤ yAt b.seg x) && orderedAt x (b :: rest)
  | _ => true

/-- number of edges of atom `i` in the list, mod 2 -/
def oddCount (i : Nat) (ts : List Tagged) : Bool := parity (ts.map (fun t => t.atom == i))

/-- the membership vector produced by crossing exactly the edges `ts` from below -/
def vecOf (n : Nat) (ts : List Tagged) : Array Bool := (Array.range n).map (fun i => oddCount i ts)

inductive CheckResult
  | ok (cells thin : Nat)
  | fail (witness : Pt)
  | unordered (x : Rat)        -- a precondition of a slab does not hold (a bug of the checker, never of the input)
deriving Repr, Inhabited

/-- Is the gap between the `j`-th and the `(j+1)`-th edge of the slab (counted from below) a real cell?
    `none`: the two edges coincide on the slab; `some thin`. -/
def gapKind (tol xm : Rat) (below above : Option Tagged) : Option Bool :=
  match below, above with
  | some a, some b =>
    let d := yAt b.seg xm - yAt a.seg xm
    if d = 0 then none else some (decide (d ≤ tol))
  | _, _ => some false

/-- walk the gaps of one slab from below: `done` are the edges already crossed (in order), `rest` those
    still above.  Returns the first gap where `f` fails (as the index of the gap), counting cells. -/
def walkGaps (f : Array Bool → Bool) (n : Nat) (tol xm : Rat) : List Tagged → List Tagged → Nat × Nat → Option (List Tagged) ⊕ (Nat × Nat)
  | done, [], (c, t) =>
    if f (vecOf n done) then .inr (c + 1, t) else .inl (some done)
  | done, b :: rest, (c, t) =>
    match gapKind tol xm done.getLast? (some b) with
    | none => walkGaps f n tol xm (done ++ [b]) rest (c, t)
    | some true => walkGaps f n tol xm (done ++ [b]) rest (c, t + 1)
    | some false =>
      if f (vecOf n done) then walkGaps f n tol xm (done ++ [b]) rest (c + 1, t)
      else .inl (some done)

/-- the same walk with the membership vector maintained incrementally (`v` = `vecOf n done`, `last` =
    `done.getLast?`, `k` = `done.length`); this is the one that is executed — Gbo/Proofs/ComparatorB.lean
    proves that it succeeds only if `walkGaps` does -/
def walkGapsV (f : Array Bool → Bool) (tol xm : Rat) : Option Tagged → Nat → List Tagged → Array Bool → Nat × Nat → Option Nat ⊕ (Nat × Nat)
  | _, k, [], v, (c, t) =>
    if f v then .inr (c + 1, t) else .inl (some k)
  | last, k, b :: rest, v, (c, t) =>
    match gapKind tol xm last (some b) with
    | none => walkGapsV f tol xm (some b) (k + 1) rest (v.modify b.atom (fun x => !x)) (c, t)
    | some true => walkGapsV f tol xm (some b) (k + 1) rest (v.modify b.atom (fun x => !x)) (c, t + 1)
    | some false =>
      if f v then walkGapsV f tol xm (some b) (k + 1) rest (v.modify b.atom (fun x => !x)) (c + 1, t)
      else .inl (some k)

/-- a witness point inside the gap above the edges `done` at the middle of the slab -/
def gapWitness (xm : Rat) (done rest : List Tagged) : Pt :=
  match done.getLast?, rest.head? with
  | some a, some b => { x := xm, y := (yAt a.seg xm + yAt b.seg xm) / 2 }
  | some a, none => { x := xm, y := yAt a.seg xm + 1 }
  | none, some b => { x := xm, y := yAt b.seg xm - 1 }
  | none, none => { x := xm, y := 0 }

/-- all checks of one slab -/
def checkSlab (all : List Tagged) (f : Array Bool → Bool) (n : Nat) (tol x0 x1 : Rat) (acc : Nat × Nat) :
    CheckResult ⊕ (Nat × Nat) :=
  let xm := (x0 + x1) / 2
  if !(all.all (fun t => spansSlab t.seg x0 x1 || missesSlab t.seg x0 x1)) then .inl (.unordered xm) else
  let sorted := sortByY xm (all.filter (fun t => spansSlab t.seg x0 x1))
  if !(orderedAt x0 sorted && orderedAt x1 sorted) then .inl (.unordered xm) else
  match walkGapsV f tol xm none 0 sorted (vecOf n []) acc with
  | .inr acc' => .inr acc'
  | .inl (some k) => .inl (.fail (gapWitness xm (sorted.take k) (sorted.drop k)))
  | .inl none => .inl (.unordered xm)

def checkSlabs (all : List Tagged) (f : Array Bool → Bool) (n : Nat) (tol : Rat) : List Rat → Nat × Nat → CheckResult
  | x0 :: x1 :: rest, acc =>
    if x1 - x0 ≤ tol then
      -- a slab thinner than the tolerance is skipped and counted (never for tol = 0 and x0 < x1)
      if x0 < x1 then checkSlabs all f n tol (x1 :: rest) (acc.1, acc.2 + 1) else .unordered x0
    else
      match checkSlab all f n tol x0 x1 acc with
      | .inl r => r
      | .inr acc' => checkSlabs all f n tol (x1 :: rest) acc'
  | _, acc => .ok acc.1 acc.2

/-- all edges lie between the outermost breakpoints -/
def boundsOk (all : List Tagged) (xs : List Rat) : Bool :=
  match xs.head?, xs.getLast? with
  | some lo, some hi => all.all (fun t => decide (lo ≤ segMinX t.seg) && decide (segMaxX t.seg ≤ hi))
  | _, _ => all.isEmpty

def tagAll (atoms : Array (List Seg)) : List Tagged :=
  (List.range atoms.size).flatMap (fun i => atoms[i]!.map (fun s => { seg := s, atom := i }))

/-- breakpoints: every endpoint abscissa and every crossing abscissa inside both x-extents -/
def breakpoints (all : List Tagged) : List Rat :=
  let nonvert := (all.filter (fun t => t.seg.1.x ≠ t.seg.2.x)).toArray
  let xsEnd := all.flatMap (fun t => [t.seg.1.x, t.seg.2.x])
  let xsCross : List Rat := Id.run do
    let mut out : List Rat := []
    for i in [0:nonvert.size] do
      for j in [i+1:nonvert.size] do
        let e := nonvert[i]!.seg
        let g := nonvert[j]!.seg
        match crossX e g with
        | none => pure ()
        | some x =>
          if segMinX e < x ∧ x < segMaxX e ∧ segMinX g < x ∧ x < segMaxX g then
            out := x :: out
    return out
  sortDedup (xsEnd ++ xsCross)

/-- The comparator.  `atoms[i]` is the edge list of atom `i` (usually one ring); `f` is the formula
    over the atoms' memberships that must hold at every point clear of the edges. -/
def regionFormulaCheck (atoms : Array (List Seg)) (f : Array Bool → Bool) (tol : Rat) : CheckResult :=
  let all := tagAll atoms
  let xs := breakpoints all
  let n := atoms.size
  if !boundsOk all xs then .unordered 0 else
  -- left and right of all edges every membership is false
  if !(f (vecOf n [])) then .fail { x := (xs.head?.getD 0) - 1, y := 0 } else
  checkSlabs all f n tol xs (0, 0)

end Gbo.Spec
