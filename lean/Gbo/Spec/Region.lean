import Gbo.Model.Sweep
/-
  Executable specification of regions (imports nothing outside core and the model's basic types).

  * point membership by the crossing-number rule with the half-open convention,
  * the region comparator: a finite computation that decides a Boolean formula over ring
    memberships for all points of the checked cells of a slab decomposition.
-/
namespace Gbo.Spec
open Gbo

abbrev Seg := Pt × Pt

def ringEdges : Ring → List Seg
  | p :: q :: rest => (p, q) :: ringEdges (q :: rest)
  | _ => []

/-- the edge `a b` is crossed by the upward ray from below `q`... i.e. it lies strictly below `q`
    and its half-open x-extent contains `q.x` -/
def edgeBelow (q : Pt) (e : Seg) : Bool :=
  let (l, r) := if e.1.x ≤ e.2.x then (e.1, e.2) else (e.2, e.1)
  decide (l.x ≤ q.x) && decide (q.x < r.x) && decide (orient l r q > 0)

def parity (l : List Bool) : Bool := l.foldl (fun acc b => acc != b) false

def memEdges (es : List Seg) (q : Pt) : Bool := parity (es.map (edgeBelow q))
def memRing (r : Ring) (q : Pt) : Bool := memEdges (ringEdges r) q
/-- even-odd reading of all rings together -/
def memEO (m : MPoly) (q : Pt) : Bool :=
  parity (m.flatMap (fun p => (p.ext :: p.holes).map (fun r => memRing r q)))
/-- structural reading: inside the exterior and outside every hole of some polygon -/
def memPoly (p : Poly) (q : Pt) : Bool := memRing p.ext q && p.holes.all (fun h => !memRing h q)
def memMP (m : MPoly) (q : Pt) : Bool := m.any (fun p => memPoly p q)

def opSem : Op → Bool → Bool → Bool
  | .intersection, a, b => a && b
  | .union, a, b => a || b
  | .difference, a, b => a && !b
  | .xor, a, b => a != b

def onSeg (q : Pt) (e : Seg) : Bool :=
  decide (orient e.1 e.2 q = 0) &&
  decide (rmin e.1.x e.2.x ≤ q.x) && decide (q.x ≤ rmax e.1.x e.2.x) &&
  decide (rmin e.1.y e.2.y ≤ q.y) && decide (q.y ≤ rmax e.1.y e.2.y)

/-! ### the comparator -/

/-- y of the (non-vertical) segment's line at abscissa x -/
def yAt (e : Seg) (x : Rat) : Rat :=
  e.1.y + (e.2.y - e.1.y) * (x - e.1.x) / (e.2.x - e.1.x)

/-- abscissa of the crossing of two non-parallel lines, if any -/
def crossX (e f : Seg) : Option Rat :=
  let d1x := e.2.x - e.1.x
  let d1y := e.2.y - e.1.y
  let d2x := f.2.x - f.1.x
  let d2y := f.2.y - f.1.y
  let den := d1x * d2y - d1y * d2x
  if den = 0 then none else
  let t := ((f.1.x - e.1.x) * d2y - (f.1.y - e.1.y) * d2x) / den
  some (e.1.x + t * d1x)

def insertSorted (x : Rat) : List Rat → List Rat
  | [] => [x]
  | y :: ys => if x < y then x :: y :: ys else if x = y then y :: ys else y :: insertSorted x ys

def sortDedup (xs : List Rat) : List Rat := xs.foldl (fun acc x => insertSorted x acc) []

structure Tagged where
  seg : Seg
  atom : Nat
deriving Inhabited

def spans (e : Seg) (x0 x1 : Rat) : Bool :=
  decide (rmin e.1.x e.2.x ≤ x0) && decide (x1 ≤ rmax e.1.x e.2.x) && decide (e.1.x ≠ e.2.x)

/-- insertion sort of tagged edges by (y at xm) -/
def insertByY (xm : Rat) (t : Tagged × Rat) : List (Tagged × Rat) → List (Tagged × Rat)
  | [] => [t]
  | u :: us => if t.2 ≤ u.2 then t :: u :: us else u :: insertByY xm t us

inductive CheckResult
  | ok (cells thin : Nat)
  | fail (witness : Pt)
  | unordered (x : Rat)        -- the slab's edges are not consistently ordered at both ends (checker bug or missed breakpoint)
deriving Repr, Inhabited

structure SlabAcc where
  cells : Nat := 0
  thin : Nat := 0
  bad : Option CheckResult := none

/-- walk up the sorted edges of one slab, evaluating `f` on the parity vector in every gap -/
def walkSlab (f : Array Bool → Bool) (tol : Rat) (xm : Rat) :
    List (Tagged × Rat) → Array Bool → Option Rat → SlabAcc → SlabAcc
  | [], v, prevY, acc =>
    -- above the topmost edge: unbounded cell; evaluate once
    match acc.bad with
    | some _ => acc
    | none =>
      if f v then { acc with cells := acc.cells + 1 }
      else { acc with bad := some (.fail { x := xm, y := (prevY.getD 0) + 1 }) }
  | (t, y) :: rest, v, prevY, acc =>
    match acc.bad with
    | some _ => acc
    | none =>
      -- the gap below this edge (above prevY)
      let acc :=
        match prevY with
        | none =>
          if f v then { acc with cells := acc.cells + 1 }
          else { acc with bad := some (.fail { x := xm, y := y - 1 }) }
        | some py =>
          if py = y then acc
          else if y - py ≤ tol then { acc with thin := acc.thin + 1 }
          else if f v then { acc with cells := acc.cells + 1 }
          else { acc with bad := some (.fail { x := xm, y := (py + y) / 2 }) }
      let v := v.modify t.atom (fun b => !b)
      walkSlab f tol xm rest v (some y) acc

/-- The comparator.  `atoms[i]` is the edge list of atom `i` (usually one ring); `f` is the formula
    over the atoms' memberships that must hold at every point clear of the edges. -/
def regionFormulaCheck (atoms : Array (List Seg)) (f : Array Bool → Bool) (tol : Rat) : CheckResult :=
  let tagged : List Tagged :=
    (List.range atoms.size).flatMap (fun i => atoms[i]!.map (fun s => { seg := s, atom := i }))
  let nonvert := tagged.filter (fun t => t.seg.1.x ≠ t.seg.2.x)
  let xsEnd := tagged.flatMap (fun t => [t.seg.1.x, t.seg.2.x])
  let segs := nonvert.toArray
  let xsCross : List Rat := Id.run do
    let mut out : List Rat := []
    for i in [0:segs.size] do
      for j in [i+1:segs.size] do
        let e := segs[i]!.seg
        let g := segs[j]!.seg
        -- only crossings within both x-extents matter
        match crossX e g with
        | none => pure ()
        | some x =>
          if rmin e.1.x e.2.x < x ∧ x < rmax e.1.x e.2.x ∧ rmin g.1.x g.2.x < x ∧ x < rmax g.1.x g.2.x then
            out := x :: out
    return out
  let xs := sortDedup (xsEnd ++ xsCross)
  let nAtoms := atoms.size
  let rec slabs : List Rat → SlabAcc → SlabAcc
    | x0 :: x1 :: rest, acc =>
      match acc.bad with
      | some _ => acc
      | none =>
        if x1 - x0 ≤ tol then slabs (x1 :: rest) { acc with thin := acc.thin + 1 } else
        let xm := (x0 + x1) / 2
        let sp := nonvert.filter (fun t => spans t.seg x0 x1)
        let sorted := sp.foldl (fun l t => insertByY xm (t, yAt t.seg xm) l) []
        -- consistency: the same order (weakly) at both ends of the slab
        let okEnds := Id.run do
          let arr := sorted.toArray
          let mut ok := true
          for i in [0:arr.size - 1] do
            let a := arr[i]!.1.seg
            let b := arr[i+1]!.1.seg
            if !(yAt a x0 ≤ yAt b x0 ∧ yAt a x1 ≤ yAt b x1) then ok := false
          return ok
        if !okEnds then { acc with bad := some (.unordered xm) } else
        let acc := walkSlab f tol xm sorted (Array.replicate nAtoms false) none acc
        slabs (x1 :: rest) acc
    | _, acc => acc
  -- outside the outermost breakpoints every membership is false
  if !(f (Array.replicate nAtoms false)) then
    .fail { x := (xs.head?.getD 0) - 1, y := 0 }
  else
    let acc := slabs xs {}
    match acc.bad with
    | some r => r
    | none => .ok acc.cells acc.thin

end Gbo.Spec
