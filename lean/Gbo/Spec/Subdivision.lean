import Gbo.Spec.Valid
/-
  Oracles on the implementation's intermediate data: the event list returned by `subdivide` (C13
  planar subdivision, C14 classification) and the queue returned by `fill_queue` (C13).
-/
namespace Gbo.Spec
open Gbo

structure SubEv where
  point : Pt
  other : Option Pt
  left : Bool
  subj : Bool
  inOut : Bool
  otherInOut : Bool
  et : EdgeType
  rt : ResTrans
  prev : Int
  cid : Nat
  ext : Bool
deriving Repr, Inhabited

def SubEv.view (e : SubEv) : EvView := { point := e.point, left := e.left, otherPt := e.other, isSubject := e.subj }
def SubEv.seg (e : SubEv) : Seg := (e.point, e.other.getD e.point)

def inputEdges (m : MPoly) : List Seg :=
  ((allRings m).flatMap ringEdges).filter (fun e => e.1 ≠ e.2)

def bboxOf (es : List Seg) : Option BBox :=
  (es.flatMap (fun e => [e.1, e.2])).foldl (fun b p => bboxAdd b p) none

/-- sweep order of two points as endpoints of one segment: is `p` processed before `q`? -/
def ptBefore (p q : Pt) : Bool := decide (p.x < q.x) || (decide (p.x = q.x) && decide (p.y < q.y))

/-- C13, queue filling: one left/right pair per non-degenerate input edge, left first, popped in order -/
def fillqCheck (evs : Array SubEv) (a b : MPoly) (sb cb : Option BBox) : Option String :=
  let ea := inputEdges a
  let eb := inputEdges b
  if evs.size ≠ 2 * (ea.length + eb.length) then some s!"{evs.size} events for {ea.length + eb.length} non-degenerate edges" else
  if sb ≠ bboxOf ea || cb ≠ bboxOf eb then some "bounding boxes are not the exact boxes" else
  -- every edge has its pair
  let missing := (ea.map (fun e => (e, true)) ++ eb.map (fun e => (e, false))).filter (fun (e, s) =>
    let (l, r) := if ptBefore e.1 e.2 then (e.1, e.2) else (e.2, e.1)
    let nl := (evs.filter (fun v => v.left && v.subj == s && v.point = l && v.other = some r)).size
    let nr := (evs.filter (fun v => !v.left && v.subj == s && v.point = r && v.other = some l)).size
    let mult := ((if s then ea else eb).filter (fun f => (f = e) || (f = (e.2, e.1)))).length
    nl ≠ mult || nr ≠ mult)
  if !missing.isEmpty then some "an input edge is not represented by exactly one left/right pair" else
  -- pop order
  let unordered := (List.range (evs.size - 1)).any (fun i => cmpView evs[i]!.view evs[i+1]!.view != .gt)
  if unordered then some "queue does not pop in sweep order" else
  if evs.any (fun v => v.other.isNone || v.other = some v.point) then some "degenerate or unlinked event" else
  none

/-- the sub-segments (left events) whose right event was processed too -/
def processedSubsegs (evs : Array SubEv) : Array SubEv :=
  evs.filter (fun v => v.left && v.other.isSome &&
    evs.any (fun w => !w.left && w.subj == v.subj && some w.point = v.other && w.other = some v.point))

def sameSeg (s t : Seg) : Bool := (s.1 = t.1 && s.2 = t.2) || (s.1 = t.2 && s.2 = t.1)

def interiorTouch (p : Pt) (s : Seg) : Bool := onSeg p s && p ≠ s.1 && p ≠ s.2

def nearSeg (p : Pt) (e : Seg) (tol : Rat) : Bool :=
  if tol = 0 then onSeg p e else decide (dist2PtSeg p e ≤ tol * tol)

/-- C13 on the event list of `subdivide` -/
def planarCheck (evs : Array SubEv) (a b : MPoly) (tol : Rat) (full : Bool) : Option String :=
  let lefts := evs.filter (·.left)
  if lefts.any (fun v => v.other.isNone) then some "left event without right event" else
  if lefts.any (fun v => v.other = some v.point) then some "zero-length sub-segment" else
  if lefts.any (fun v => !ptBefore v.point (v.other.getD v.point)) then some "left event not first in sweep order" else
  let subs := if full then lefts else processedSubsegs evs
  let n := subs.size
  let bad := (List.range n).findSome? (fun i => (List.range n).findSome? (fun j =>
    if j ≤ i then none else
    let s := subs[i]!.seg
    let t := subs[j]!.seg
    if properCross s t then some s!"sub-segments cross: {repr s} {repr t}" else
    if sameSeg s t then (if subs[i]!.subj == subs[j]!.subj then some "coincident sub-segments of one operand" else none) else
    if collinearOverlap s t then some s!"sub-segments overlap partially: {repr s} {repr t}" else
    if interiorTouch s.1 t || interiorTouch s.2 t || interiorTouch t.1 s || interiorTouch t.2 s then
      some s!"sub-segments touch away from common endpoints: {repr s} {repr t}" else
    none))
  match bad with
  | some m => some m
  | none =>
    if !full then none else
    -- coverage: the pieces of every input edge chain from one end to the other
    let chainOk (e : Seg) (subj : Bool) : Bool :=
      let (l, r) := if ptBefore e.1 e.2 then (e.1, e.2) else (e.2, e.1)
      let pieces := subs.filter (fun v => v.subj == subj && nearSeg v.point e tol && nearSeg (v.other.getD v.point) e tol)
      -- pieces are followed in either direction (rounding can turn a piece of a nearly vertical edge
      -- around); a chain exists iff `r` is reachable from `l` through pieces (a greedy walk can run into a
      -- short piece of a neighbouring edge that lies within the tolerance and dead-end there)
      let rec reach : Nat → List Pt → Bool
        | 0, seen => seen.contains r
        | fuel + 1, seen =>
          if seen.contains r then true else
          let next := pieces.foldl (fun (acc : List Pt) v =>
            let o := v.other.getD v.point
            let acc := if seen.contains v.point && !seen.contains o && !acc.contains o then o :: acc else acc
            if seen.contains o && !seen.contains v.point && !acc.contains v.point then v.point :: acc else acc) []
          if next.isEmpty then false else reach fuel (next ++ seen)
      reach (pieces.size + 1) [l]
    if (inputEdges a).any (fun e => !chainOk e true) then some "a subject edge is not covered by a chain of its sub-segments" else
    if (inputEdges b).any (fun e => !chainOk e false) then some "a clipping edge is not covered by a chain of its sub-segments" else
    none

structure FlagReport where
  checked : Nat := 0
  unclear : Nat := 0
  bad : Option String := none
deriving Repr, Inhabited

/-- C14 on the event list of `subdivide` -/
def flagsCheck (evs : Array SubEv) (a b : MPoly) (op : Op) (tol : Rat) : FlagReport :=
  let subs := processedSubsegs evs
  let all := evs.filter (fun v => v.left && v.other.isSome)
  subs.foldl (fun (rep : FlagReport) s =>
    match rep.bad with
    | some _ => rep
    | none =>
      let sg := s.seg
      if sg.1.x = sg.2.x then rep else   -- vertical sub-segments have no above/below side points
      let m : Pt := { x := (sg.1.x + sg.2.x) / 2, y := (sg.1.y + sg.2.y) / 2 }
      let twin := all.any (fun t => t.subj != s.subj && sameSeg t.seg sg)
      -- vertical clearances to the other sub-segments through m.x
      let gaps : List Rat := all.toList.filterMap (fun t =>
        let tg := t.seg
        if sameSeg tg sg then none else
        if tg.1.x = tg.2.x then
          (if tg.1.x = m.x then
             let lo := rmin tg.1.y tg.2.y
             let hi := rmax tg.1.y tg.2.y
             if lo ≤ m.y ∧ m.y ≤ hi then some 0 else if m.y < lo then some (lo - m.y) else some (hi - m.y)
           else none)
        else if rmin tg.1.x tg.2.x ≤ m.x ∧ m.x ≤ rmax tg.1.x tg.2.x then some (yAt tg m.x - m.y) else none)
      if gaps.any (fun g => g = 0) then { rep with unclear := rep.unclear + 1 } else
      let up := (gaps.filter (· > 0)).foldl (fun (acc : Option Rat) g => match acc with | none => some g | some x => some (rmin x g)) none
      let dn := (gaps.filter (· < 0)).foldl (fun (acc : Option Rat) g => match acc with | none => some g | some x => some (rmax x g)) none
      let du : Rat := (up.getD 2) / 2
      let dd : Rat := (dn.getD (-2)) / 2
      if du ≤ tol || -dd ≤ tol then { rep with unclear := rep.unclear + 1 } else
      let pa : Pt := { x := m.x, y := m.y + du }
      let pb : Pt := { x := m.x, y := m.y + dd }
      let crowded := tol > 0 && (inputEdges a ++ inputEdges b).any (fun e =>
        decide (dist2PtSeg pa e ≤ tol * tol) || decide (dist2PtSeg pb e ≤ tol * tol))
      if crowded then { rep with unclear := rep.unclear + 1 } else
      let own := if s.subj then a else b
      let oth := if s.subj then b else a
      let res (q : Pt) : Bool := opSem op (memEO a q) (memEO b q)
      let fail (w : String) : FlagReport := { rep with bad := some s!"{w} at sub-segment {repr sg} (subject={s.subj})" }
      if s.inOut != !memEO own pa then fail "in_out does not match the own operand above" else
      let othSide := if twin && s.et == .nonContributing then pa else pb
      if s.otherInOut != !memEO oth othSide then fail "other_in_out does not match the other operand" else
      let differs := res pa != res pb
      let inRes := s.rt != .none
      let expectIn := if twin && s.et == .nonContributing then false else differs
      if twin && s.et == .normal then fail "coincident sub-segments are not typed" else
      if inRes != expectIn then fail "in_result does not match the result boundary" else
      if inRes && (s.rt == .outIn) != res pa then fail "result transition has the wrong direction" else
      -- the recorded lower result edge
      let prevOk :=
        if s.prev < (0 : Int) then true else
        match evs[s.prev.toNat]? with
        | none => false
        | some p =>
          let pg := p.seg
          -- a result edge, not vertical, that entered the sweep line before `s`; the link may be
          -- inherited through non-result edges, so the recorded edge may already have ended: where
          -- it still spans the start of `s` it must pass below it
          p.left && p.rt != .none && pg.1.x ≠ pg.2.x &&
          decide (rmin pg.1.x pg.2.x ≤ sg.1.x) &&
          (if sg.1.x ≤ rmax pg.1.x pg.2.x then decide (yAt pg sg.1.x ≤ sg.1.y + tol) else true)
      if !prevOk then fail "prev_in_result is not a result edge below" else
      { rep with checked := rep.checked + 1 }) {}

end Gbo.Spec
