import Gbo.Spec.Region
/-
  Executable predicates of the property statements: operand validity, output validity (C02),
  geometric provenance (C04), areas (C05).  All exact rational arithmetic.
-/
namespace Gbo.Spec
open Gbo

def sgn (q : Rat) : Int := if q > 0 then 1 else if q < 0 then -1 else 0

/-- interiors of the two segments cross in exactly one point -/
def properCross (e f : Seg) : Bool :=
  let a := sgn (orient e.1 e.2 f.1)
  let b := sgn (orient e.1 e.2 f.2)
  let c := sgn (orient f.1 f.2 e.1)
  let d := sgn (orient f.1 f.2 e.2)
  a * b < 0 && c * d < 0

/-- position of `p` along `e` (0 at e.1, 1 at e.2), for `p` on the line of `e` (non-degenerate `e`) -/
def paramOn (e : Seg) (p : Pt) : Rat :=
  let dx := e.2.x - e.1.x
  let dy := e.2.y - e.1.y
  ((p.x - e.1.x) * dx + (p.y - e.1.y) * dy) / (dx * dx + dy * dy)

/-- collinear and sharing a piece of positive length -/
def collinearOverlap (e f : Seg) : Bool :=
  if e.1 = e.2 || f.1 = f.2 then false else
  if orient e.1 e.2 f.1 ≠ 0 || orient e.1 e.2 f.2 ≠ 0 then false else
  let s := paramOn e f.1
  let t := paramOn e f.2
  let lo := rmax (rmin s t) 0
  let hi := rmin (rmax s t) 1
  decide (lo < hi)

/-- the segments have at least one common point -/
def segsTouch (e f : Seg) : Bool :=
  properCross e f || onSeg e.1 f || onSeg e.2 f || onSeg f.1 e || onSeg f.2 e

def dedupConsecutive : Ring → Ring
  | p :: q :: rest => if p = q then dedupConsecutive (q :: rest) else p :: dedupConsecutive (q :: rest)
  | r => r

/-- twice the signed area (shoelace); positive = counter-clockwise -/
def area2 (r : Ring) : Rat := (ringEdges r).foldl (fun acc e => acc + (e.1.x * e.2.y - e.2.x * e.1.y)) 0

def areaRingAbs (r : Ring) : Rat := let a := area2 r; (if a < 0 then -a else a) / 2
def areaMP (m : MPoly) : Rat :=
  m.foldl (fun acc p => acc + areaRingAbs p.ext - p.holes.foldl (fun a h => a + areaRingAbs h) 0) 0

def distinctCount (r : Ring) : Nat := (r.foldl (fun (acc : List Pt) p => if acc.contains p then acc else p :: acc) []).length

/-- a simple closed ring: closed, at least three distinct vertices, non-adjacent edges disjoint,
    adjacent edges meeting only in their common endpoint (after dropping repeated vertices) -/
def simpleRing (r0 : Ring) : Bool :=
  let r := dedupConsecutive r0
  let es := (ringEdges r).toArray
  let n := es.size
  r.head? == r.getLast? && n ≥ 3 && distinctCount r ≥ 3 && area2 r ≠ 0 &&
  (List.range n).all (fun i => (List.range n).all (fun j =>
    if j ≤ i then true else
    let e := es[i]!
    let f := es[j]!
    let adjacent := j = i + 1 || (i = 0 && j = n - 1)
    if adjacent then !collinearOverlap e f && !properCross e f &&
      -- they share exactly the common vertex: the far endpoints are not on the other edge
      (if j = i + 1 then !onSeg e.1 f && !onSeg f.2 e else !onSeg e.2 f && !onSeg f.1 e)
    else !segsTouch e f))

def allRings (m : MPoly) : List Ring := m.flatMap (fun p => p.ext :: p.holes)

/-- edges of different rings touch only in points and never cross -/
def ringsNonCrossing (rs : List Ring) : Bool :=
  let arr := rs.toArray.map (fun r => ringEdges (dedupConsecutive r))
  (List.range arr.size).all (fun i => (List.range arr.size).all (fun j =>
    if j ≤ i then true else
    arr[i]!.all (fun e => arr[j]!.all (fun f => !properCross e f && !collinearOverlap e f))))

/-- atoms and nesting formula of a multipolygon: each ring is an atom (offset `off`) -/
structure Layout where
  polys : List (Nat × List Nat)     -- (atom of exterior, atoms of holes)
  atoms : Array (List Seg)

def holeStep (a : List Nat × Array (List Seg)) (h : Ring) : List Nat × Array (List Seg) :=
  (a.1 ++ [a.2.size], a.2.push (ringEdges h))

def polyStep (acc : Layout) (p : Poly) : Layout :=
  let r := p.holes.foldl holeStep ([], acc.atoms.push (ringEdges p.ext))
  { polys := acc.polys ++ [(acc.atoms.size, r.1)], atoms := r.2 }

/-- every ring of `m` becomes one more atom after the given ones -/
def layout (m : MPoly) (atoms : Array (List Seg)) : Layout :=
  m.foldl polyStep { polys := [], atoms := atoms }

def evalPoly (v : Array Bool) (p : Nat × List Nat) : Bool := v[p.1]! && p.2.all (fun h => !v[h]!)
def evalMP (v : Array Bool) (l : Layout) : Bool := l.polys.any (evalPoly v)
def evalEO (v : Array Bool) (l : Layout) : Bool := parity (l.polys.flatMap (fun p => (p.1 :: p.2).map (fun a => v[a]!)))

def pairsAll {α} (l : List α) (f : α → α → Bool) : Bool :=
  match l with
  | [] => true
  | x :: xs => xs.all (f x) && pairsAll xs f

/-- nesting formula: holes inside their exterior, holes of one polygon disjoint, polygons disjoint -/
def nestingFormula (l : Layout) (v : Array Bool) : Bool :=
  l.polys.all (fun p => p.2.all (fun h => !v[h]! || v[p.1]!) && pairsAll p.2 (fun h1 h2 => !(v[h1]! && v[h2]!))) &&
  pairsAll l.polys (fun p q => !(evalPoly v p && evalPoly v q))

inductive Verdict
  | pass (cells thin : Nat)
  | fail (why : String) (w : Option Pt)
  | internal (why : String)
deriving Repr, Inhabited

def Verdict.isPass : Verdict → Bool
  | .pass .. => true
  | _ => false

/-- run the comparator and confirm a failure by direct evaluation of the membership definition -/
def checkFormula (what : String) (atoms : Array (List Seg)) (f : Array Bool → Bool) (tol : Rat) : Verdict :=
  match regionFormulaCheck atoms f tol with
  | .ok c t => .pass c t
  | .unordered x => .internal s!"{what}: slab at {x} not consistently ordered"
  | .fail w =>
    let v := atoms.map (fun es => memEdges es w)
    if f v then .internal s!"{what}: comparator failed at a point where the formula holds"
    else .fail what (some w)

/-- operand validity as the properties' quantifier states it -/
def validOperand (m : MPoly) : Verdict :=
  if !(allRings m).all simpleRing then .fail "ring not simple" none else
  if !ringsNonCrossing (allRings m) then .fail "rings cross or share a segment" none else
  let l := layout m #[]
  checkFormula "operand nesting" l.atoms (nestingFormula l) 0

/-- the wider notion of C03's quantifier ("including empty operands, empty rings"): an interior ring without
    coordinates, and a polygon consisting of such rings only, enclose nothing; they are left out and the rest
    must be a valid operand.  Used for judging the *outcome* of a call (no panic, no runaway), not for the
    geometric oracles, whose statements are about rings with area. -/
def validOperandForOutcome (m0 : MPoly) : Verdict :=
  let m : MPoly := (m0.map (fun p => { p with holes := p.holes.filter (fun r => !r.isEmpty) })).filter
    (fun p => !(p.ext.isEmpty && p.holes.isEmpty))
  validOperand m

/-- What a result must satisfy to be fed back in (C11): closed rings with area, whose edges neither cross
    nor share a segment (rings may touch themselves and each other at points), correctly nested. -/
def acceptableOperand (m : MPoly) : Verdict :=
  let rs := (allRings m).map dedupConsecutive
  if !rs.all (fun r => r.head? == r.getLast? && (ringEdges r).length ≥ 3 && area2 r ≠ 0) then .fail "ring not closed or without area" none else
  let es := (rs.flatMap ringEdges).toArray
  let bad := (List.range es.size).any (fun i => (List.range es.size).any (fun j =>
    if j ≤ i then false else properCross es[i]! es[j]! || collinearOverlap es[i]! es[j]!))
  if bad then .fail "edges cross or share a segment" none else
  let l := layout m #[]
  checkFormula "operand nesting" l.atoms (nestingFormula l) 0

/-- no boundary segment shared by two rings or traversed twice -/
def noSharedSegments (m : MPoly) : Bool :=
  let es := ((allRings m).flatMap (fun r => ringEdges (dedupConsecutive r))).toArray
  (List.range es.size).all (fun i => (List.range es.size).all (fun j =>
    if j ≤ i then true else !collinearOverlap es[i]! es[j]!))

/-! ### C04 -/

def dist2PtSeg (p : Pt) (e : Seg) : Rat :=
  if e.1 = e.2 then (p.x - e.1.x) * (p.x - e.1.x) + (p.y - e.1.y) * (p.y - e.1.y) else
  let t := paramOn e p
  let t := rmax 0 (rmin 1 t)
  let cx := e.1.x + t * (e.2.x - e.1.x)
  let cy := e.1.y + t * (e.2.y - e.1.y)
  (p.x - cx) * (p.x - cx) + (p.y - cy) * (p.y - cy)

def dist2 (p q : Pt) : Rat := (p.x - q.x) * (p.x - q.x) + (p.y - q.y) * (p.y - q.y)

/-- exact intersection point of two non-parallel segments that meet -/
def exactMeet (e f : Seg) : Option Pt :=
  match Arith.exact.isect e.1 e.2 f.1 f.2 with
  | .point p => some p
  | _ => none

structure GeomReport where
  edgesOff : Nat := 0       -- result edges not on any input edge
  vertsOff : Nat := 0       -- result vertices neither input vertices nor (near) intersection points
  badRings : Nat := 0       -- not closed / < 3 distinct vertices / zero area
  cwRings : Nat := 0        -- clockwise rings
  vertices : Nat := 0
  inputVerts : Nat := 0
deriving Repr, Inhabited

def geomCheck (inputs : List Seg) (res : MPoly) (tol : Rat) : GeomReport :=
  let tol2 := tol * tol
  let inVerts := inputs.flatMap (fun e => [e.1, e.2])
  let inArr := inputs.toArray
  let meets : List Pt := Id.run do
    let mut out : List Pt := []
    for i in [0:inArr.size] do
      for j in [i+1:inArr.size] do
        match exactMeet inArr[i]! inArr[j]! with
        | some p => out := p :: out
        | none => pure ()
    return out
  (allRings res).foldl (fun (g : GeomReport) r =>
    let closed := r.head? == r.getLast?
    let bad := !closed || distinctCount r < 3 || area2 r = 0
    let g := { g with badRings := g.badRings + (if bad then 1 else 0), cwRings := g.cwRings + (if area2 r < 0 then 1 else 0) }
    let g := (ringEdges r).foldl (fun (g : GeomReport) e =>
      let on := inputs.any (fun i =>
        if tol = 0 then onSeg e.1 i && onSeg e.2 i
        else decide (dist2PtSeg e.1 i ≤ tol2) && decide (dist2PtSeg e.2 i ≤ tol2))
      if on then g else { g with edgesOff := g.edgesOff + 1 }) g
    r.foldl (fun (g : GeomReport) p =>
      let isIn := inVerts.contains p
      let ok := isIn || meets.any (fun m => if tol = 0 then m = p else decide (dist2 m p ≤ tol2))
      { g with vertices := g.vertices + 1, inputVerts := g.inputVerts + (if isIn then 1 else 0),
               vertsOff := g.vertsOff + (if ok then 0 else 1) }) g) {}

end Gbo.Spec

namespace Gbo.Spec
open Gbo

/-! ### the C01 region check as one definition (so that its soundness theorem applies to what is run) -/

def opEdges (m : MPoly) : List Seg := (allRings m).flatMap ringEdges

/-- atom 0: all edges of the subject, atom 1: all edges of the clipping operand, then one atom per ring of
    the result -/
def c01Layout (a b r : MPoly) : Layout := layout r #[opEdges a, opEdges b]

def c01Formula (op : Op) (l : Layout) (v : Array Bool) : Bool := evalMP v l == opSem op v[0]! v[1]!

/-- "the result, read structurally, is `op` of the operands, read even-odd", for all clear points -/
def c01Check (a b r : MPoly) (op : Op) (tol : Rat) : CheckResult :=
  regionFormulaCheck (c01Layout a b r).atoms (c01Formula op (c01Layout a b r)) tol

end Gbo.Spec

namespace Gbo.Spec
open Gbo

/-- `c01Check` with the failure re-confirmed by direct evaluation of the membership definitions at the
    witness point (so that a defect of the comparator can never be reported as a violation) -/
def c01Verdict (a b r : MPoly) (op : Op) (tol : Rat) : Verdict :=
  match c01Check a b r op tol with
  | .ok c t => .pass c t
  | .unordered x => .internal s!"region: slab at {x} violates a precondition of the comparator"
  | .fail w =>
    if memMP r w == opSem op (memEO a w) (memEO b w) then .internal "region: comparator failed at a point where the statement holds"
    else .fail "region" (some w)

end Gbo.Spec

namespace Gbo.Spec
open Gbo

/-! ### C02 and the "same region" relation as single definitions with soundness theorems -/

/-- nesting facts + "structural reading = even-odd reading" in one formula over the rings of `m` -/
def c02Formula (l : Layout) (v : Array Bool) : Bool := nestingFormula l v && (evalMP v l == evalEO v l)

def c02Check (m : MPoly) (tol : Rat) : CheckResult :=
  regionFormulaCheck (layout m #[]).atoms (c02Formula (layout m #[])) tol

/-- the two results describe the same region (structural reading on both sides) -/
def sameRegionLayouts (r1 r2 : MPoly) : Layout × Layout :=
  let l1 := layout r1 #[]
  let l2 := layout r2 l1.atoms
  (l1, l2)

/-- C02 on a result: no shared boundary segment, then `c02Check` (its soundness: Gbo.Props.C02_check_sound),
    a failure being re-confirmed at the witness point by direct evaluation -/
def validOutput (m : MPoly) (tol : Rat) : Verdict :=
  if !noSharedSegments m then .fail "boundary segment shared or traversed twice" none else
  match c02Check m tol with
  | .ok c t => .pass c t
  | .unordered x => .internal s!"valid: slab at {x} violates a precondition of the comparator"
  | .fail w =>
    let l := layout m #[]
    let v := l.atoms.map (fun es => memEdges es w)
    if c02Formula l v then .internal "valid: comparator failed at a point where the formula holds"
    else if !nestingFormula l v then .fail "result nesting" (some w)
    else .fail "struct = even-odd" (some w)

def sameRegionCheck (r1 r2 : MPoly) (tol : Rat) : CheckResult :=
  let ls := sameRegionLayouts r1 r2
  regionFormulaCheck ls.2.atoms (fun v => evalMP v ls.1 == evalMP v ls.2) tol

/-- "same region" with re-confirmation of a failure -/
def sameRegionVerdict (r1 r2 : MPoly) (tol : Rat) : Verdict :=
  match sameRegionCheck r1 r2 tol with
  | .ok c t => .pass c t
  | .unordered x => .internal s!"sameregion: slab at {x} violates a precondition of the comparator"
  | .fail w => if memMP r1 w == memMP r2 w then .internal "sameregion: comparator failed at a point where the regions agree"
               else .fail "sameregion" (some w)


end Gbo.Spec
