import Gbo.Proofs.HeapInv
/-
  Draining the queue: popping until empty lists the contents in non-increasing order (every element is `≤` all
  elements popped before it), i.e. the events come out in sweep order when nothing is pushed in between.
-/
namespace Gbo.Heap

variable (le : Nat → Nat → Bool)

/-- pop until empty (fuel = number of elements) -/
def drain : Nat → Array Nat → List Nat
  | 0, _ => []
  | fuel + 1, d =>
    match pop le d with
    | none => []
    | some (top, d') => top :: drain fuel d'

/-- every later element is `≤` (or equal to) every earlier one -/
def Descending : List Nat → Prop
  | [] => True
  | x :: xs => (∀ y ∈ xs, leq le y x) ∧ Descending xs

theorem mem_of_count_pos {d : Array Nat} {v : Nat} (h : 0 < d.count v) : ∃ i, i < d.size ∧ d[i]! = v := by
  have hm : v ∈ d := Array.count_pos_iff.mp h
  obtain ⟨i, hi, he⟩ := Array.mem_iff_getElem.mp hm
  exact ⟨i, hi, by simp [getElem!_pos, hi, he]⟩

theorem drain_spec {U : Nat → Prop} (hpre : Pre le U) :
    ∀ (fuel : Nat) (d : Array Nat), d.size ≤ fuel → AllIn U d → IsHeap le d →
      Descending le (drain le fuel d) ∧ (drain le fuel d).length = d.size ∧
      ∀ v, (drain le fuel d).count v = d.count v := by
  intro fuel
  induction fuel with
  | zero =>
    intro d hs _ _
    have : d.size = 0 := by omega
    have hd : d = #[] := Array.eq_empty_of_size_eq_zero this
    subst hd
    simp [drain, Descending]
  | succ fuel ih =>
    intro d hs hall hheap
    unfold drain
    cases hp : pop le d with
    | none =>
      have h0 := (pop_none_iff le d).mp hp
      have hd : d = #[] := Array.eq_empty_of_size_eq_zero h0
      subst hd
      simp [Descending]
    | some r =>
      obtain ⟨top, d'⟩ := r
      obtain ⟨hmax, hheap', hall', hsz, hcnt⟩ := pop_spec le hpre d hall hheap top d' hp
      obtain ⟨i1, i2, i3⟩ := ih d' (by omega) hall' hheap'
      simp only
      refine ⟨⟨?_, i1⟩, by simp [i2]; omega, ?_⟩
      · intro y hy
        -- y is in d', hence in d, hence ≤ top
        have hc : 0 < (drain le fuel d').count y := List.count_pos_iff.mpr hy
        rw [i3 y] at hc
        have hc2 : 0 < d.count y := by have := hcnt y; omega
        obtain ⟨i, hi, he⟩ := mem_of_count_pos hc2
        rw [← he]; exact hmax i hi
      · intro v
        rw [List.count_cons, i3 v]
        have := hcnt v
        by_cases htv : top = v
        · simp [htv] at this ⊢; omega
        · have hb : (top == v) = false := by simpa using htv
          simp [htv, hb] at this ⊢; omega

end Gbo.Heap
