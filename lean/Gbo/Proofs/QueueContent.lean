import Gbo.Proofs.FillQueue
import Gbo.Proofs.Orders
import Gbo.Proofs.Divide
/-
  What `fill_queue` stores, as a list of segments, and why that list (as a multiset) does not depend on
  where a ring starts or in which direction it is written.
-/
namespace Gbo

/-- a queued segment: sweep-earlier endpoint first -/
structure SegRec where
  l : Pt
  r : Pt
  subj : Bool
  cid : Nat
  ext : Bool
deriving DecidableEq, Repr

/-- the segment represented by a linked pair of events -/
def pairSeg (e1 e2 : Ev) : SegRec :=
  if e1.left then ⟨e1.point, e2.point, e1.isSubject, e1.contourId, e1.isExteriorRing⟩
  else ⟨e2.point, e1.point, e1.isSubject, e1.contourId, e1.isExteriorRing⟩

/-- the segments of an arena filled by `fill_queue` (pairs at positions 2k, 2k+1) -/
def arenaSegs (a : Arena) : List SegRec :=
  (List.range (a.size / 2)).map (fun k => pairSeg a[2 * k]! a[2 * k + 1]!)

/-- the segment `process_polygon` queues for the line `s -> e` -/
def lineSeg (subj : Bool) (cid : Nat) (ext : Bool) (se : Pt × Pt) : SegRec :=
  pairSeg (mkPair 0 se.1 se.2 subj cid ext).1 (mkPair 0 se.1 se.2 subj cid ext).2

/-- the non-degenerate lines of a ring, in order -/
def ringLines : Ring → List (Pt × Pt)
  | p :: q :: rest => if p = q then ringLines (q :: rest) else (p, q) :: ringLines (q :: rest)
  | _ => []

theorem pairSeg_mkPair (n : Nat) (s e : Pt) (subj : Bool) (cid : Nat) (ext : Bool) :
    pairSeg (mkPair n s e subj cid ext).1 (mkPair n s e subj cid ext).2 = lineSeg subj cid ext (s, e) := by
  unfold lineSeg pairSeg mkPair
  simp only

theorem arenaSegs_push2 (a : Arena) (e1 e2 : Ev) (h : a.size % 2 = 0) :
    arenaSegs ((a.push e1).push e2) = arenaSegs a ++ [pairSeg e1 e2] := by
  unfold arenaSegs
  have hsz : ((a.push e1).push e2).size / 2 = a.size / 2 + 1 := by simp; omega
  rw [hsz, List.range_succ, List.map_append]
  congr 1
  · apply List.map_congr_left
    intro k hk
    have hk' : k < a.size / 2 := List.mem_range.mp hk
    have h1 : 2 * k < a.size := by omega
    have h2 : 2 * k + 1 < a.size := by omega
    rw [get!_push_lt _ _ _ (by simp; omega), get!_push_lt _ _ _ h1,
        get!_push_lt _ _ _ (by simp; omega), get!_push_lt _ _ _ h2]
  · have hk : 2 * (a.size / 2) = a.size := by omega
    simp only [List.map_cons, List.map_nil, hk]
    rw [get!_push_lt _ _ _ (by simp), get!_push_eq, get!_push2_snd]

theorem processLine_segs (subj : Bool) (cid : Nat) (ext : Bool) (st : FQ × Option BBox) (s e : Pt)
    (h : st.1.arena.size % 2 = 0) :
    arenaSegs (processLine subj cid ext st s e).1.arena =
      arenaSegs st.1.arena ++ (if s = e then [] else [lineSeg subj cid ext (s, e)]) ∧
    (processLine subj cid ext st s e).1.arena.size % 2 = 0 := by
  by_cases hse : s = e
  · simp [processLine, hse, h]
  · obtain ⟨fq, bb⟩ := st
    simp only [processLine, hse, if_false]
    refine ⟨?_, by simp only [Array.size_push]; simp only at h; omega⟩
    rw [arenaSegs_push2 _ _ _ h, pairSeg_mkPair]

theorem processRing_segs (subj : Bool) (cid : Nat) (ext : Bool) (ring : Ring) :
    ∀ (st : FQ × Option BBox), st.1.arena.size % 2 = 0 →
      arenaSegs (processRing subj cid ext st ring).1.arena =
        arenaSegs st.1.arena ++ (ringLines ring).map (lineSeg subj cid ext) ∧
      (processRing subj cid ext st ring).1.arena.size % 2 = 0 := by
  induction ring with
  | nil => intro st h; simp [processRing, ringLines, h]
  | cons p rest ih =>
    cases rest with
    | nil => intro st h; simp [processRing, ringLines, h]
    | cons q rest =>
      intro st h
      obtain ⟨h1, h2⟩ := processLine_segs subj cid ext st p q h
      obtain ⟨g1, g2⟩ := ih (processLine subj cid ext st p q) h2
      simp only [processRing]
      refine ⟨?_, g2⟩
      rw [g1, h1]
      by_cases hpq : p = q <;> simp [ringLines, hpq]

/-- the queued segment does not depend on the direction of the line -/
theorem lineSeg_of_ptLt (subj : Bool) (cid : Nat) (ext : Bool) (s e : Pt) (h : ptLt s e) :
    lineSeg subj cid ext (s, e) = ⟨s, e, subj, cid, ext⟩ ∧ lineSeg subj cid ext (e, s) = ⟨s, e, subj, cid, ext⟩ := by
  have h1 : cmpView ({ point := s, left := false, otherPt := some e, isSubject := subj } : EvView)
      { point := e, left := false, otherPt := some s, isSubject := subj } = .gt := cmpView_of_ptLt h
  have h2 : cmpView ({ point := e, left := false, otherPt := some s, isSubject := subj } : EvView)
      { point := s, left := false, otherPt := some e, isSubject := subj } = .lt := cmpView_of_ptGt h
  constructor
  · simp [lineSeg, pairSeg, mkPair, h1]
  · simp [lineSeg, pairSeg, mkPair, h2]

theorem lineSeg_swap (subj : Bool) (cid : Nat) (ext : Bool) (s e : Pt) (hne : s ≠ e) :
    lineSeg subj cid ext (e, s) = lineSeg subj cid ext (s, e) := by
  rcases ptLt_trichotomy s e with h | h | h
  · obtain ⟨a, b⟩ := lineSeg_of_ptLt subj cid ext s e h; rw [a, b]
  · exact absurd h hne
  · obtain ⟨a, b⟩ := lineSeg_of_ptLt subj cid ext e s h; rw [a, b]

theorem ringLines_ne (ring : Ring) : ∀ se ∈ ringLines ring, se.1 ≠ se.2 := by
  induction ring with
  | nil => intro se h; simp [ringLines] at h
  | cons p rest ih =>
    cases rest with
    | nil => intro se h; simp [ringLines] at h
    | cons q rest =>
      intro se h
      unfold ringLines at h
      split at h
      · exact ih se h
      · rcases List.mem_cons.mp h with h | h
        · subst h; assumption
        · exact ih se h

/-- appending one vertex appends (at most) one line -/
theorem ringLines_snoc (l : List Pt) (b a : Pt) :
    ringLines (l ++ [b] ++ [a]) = ringLines (l ++ [b]) ++ (if b = a then [] else [(b, a)]) := by
  induction l with
  | nil => simp [ringLines]
  | cons x l ih =>
    cases l with
    | nil =>
      simp only [List.cons_append, List.nil_append, ringLines]
      by_cases hxb : x = b <;> by_cases hba : b = a <;> simp [hxb, hba, ringLines]
    | cons y t =>
      have ih' := ih
      simp only [List.cons_append] at ih' ⊢
      unfold ringLines
      by_cases hxy : x = y
      · simp only [hxy, if_true]; exact ih'
      · simp only [hxy, if_false, List.cons_append]; rw [ih']

theorem ringLines_reverse (ring : Ring) :
    ringLines ring.reverse = ((ringLines ring).reverse).map (fun se => (se.2, se.1)) := by
  induction ring with
  | nil => simp [ringLines]
  | cons p rest ih =>
    cases rest with
    | nil => simp [ringLines]
    | cons q rest =>
      have e : (p :: q :: rest).reverse = rest.reverse ++ [q] ++ [p] := by simp
      rw [e, ringLines_snoc]
      have e2 : rest.reverse ++ [q] = (q :: rest).reverse := by simp
      rw [e2, ih]
      have hl : ringLines (p :: q :: rest) = if p = q then ringLines (q :: rest) else (p, q) :: ringLines (q :: rest) := by
        rw [ringLines]
      rw [hl]
      by_cases hpq : p = q
      · have hqp : q = p := hpq.symm
        simp [hpq]
      · have hqp : ¬ q = p := fun h => hpq h.symm
        simp [hpq, hqp]

theorem map_lineSeg_swap (subj : Bool) (cid : Nat) (ext : Bool) (ls : List (Pt × Pt)) (h : ∀ se ∈ ls, se.1 ≠ se.2) :
    (ls.map (fun se => (se.2, se.1))).map (lineSeg subj cid ext) = ls.map (lineSeg subj cid ext) := by
  rw [List.map_map]
  apply List.map_congr_left
  intro se hse
  exact lineSeg_swap subj cid ext se.1 se.2 (h se hse)

/-- writing a ring in the opposite direction queues the same segments (as a multiset) -/
theorem processRing_reverse_perm (subj : Bool) (cid : Nat) (ext : Bool) (ring : Ring) (st : FQ × Option BBox)
    (h : st.1.arena.size % 2 = 0) :
    (arenaSegs (processRing subj cid ext st ring.reverse).1.arena).Perm
      (arenaSegs (processRing subj cid ext st ring).1.arena) := by
  rw [(processRing_segs subj cid ext ring.reverse st h).1, (processRing_segs subj cid ext ring st h).1]
  apply List.Perm.append_left
  rw [ringLines_reverse, map_lineSeg_swap subj cid ext (ringLines ring).reverse
    (fun se hse => ringLines_ne ring se (List.mem_reverse.mp hse)), List.map_reverse]
  exact List.reverse_perm _

/-- starting a closed ring `p, m, …, p` one vertex later (`m, …, p, m`) queues the same segments -/
theorem processRing_rotate_perm (subj : Bool) (cid : Nat) (ext : Bool) (p m : Pt) (mid : List Pt) (st : FQ × Option BBox)
    (h : st.1.arena.size % 2 = 0) :
    (arenaSegs (processRing subj cid ext st (m :: mid ++ [p] ++ [m])).1.arena).Perm
      (arenaSegs (processRing subj cid ext st (p :: m :: mid ++ [p])).1.arena) := by
  rw [(processRing_segs subj cid ext _ st h).1, (processRing_segs subj cid ext _ st h).1]
  apply List.Perm.append_left
  apply List.Perm.map
  have e1 : ringLines (m :: mid ++ [p] ++ [m]) = ringLines (m :: mid ++ [p]) ++ (if p = m then [] else [(p, m)]) := by
    have := ringLines_snoc (m :: mid) p m
    simpa using this
  have e2 : ringLines (p :: m :: mid ++ [p]) = (if p = m then [] else [(p, m)]) ++ ringLines (m :: mid ++ [p]) := by
    show ringLines (p :: m :: (mid ++ [p])) = _
    rw [ringLines]
    by_cases hpm : p = m <;> simp [hpm]
  rw [e1, e2]
  exact List.perm_append_comm

end Gbo
