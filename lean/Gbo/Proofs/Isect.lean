import Mathlib.Tactic.Linarith
import Mathlib.Tactic.Ring
import Mathlib.Tactic.FieldSimp
import Mathlib.Tactic.SplitIfs
import Gbo.Model.Event
/-
  The segment intersection routine: containment for EVERY rounding, correctness under exact arithmetic.
-/
namespace Gbo

def InBox (p : Pt) (b : BBox) : Prop := b.minx ≤ p.x ∧ p.x ≤ b.maxx ∧ b.miny ≤ p.y ∧ p.y ≤ b.maxy

/-- bounding box of a segment -/
def segBox (a b : Pt) : BBox := { minx := rmin a.x b.x, miny := rmin a.y b.y, maxx := rmax a.x b.x, maxy := rmax a.y b.y }

theorem rmin_le_left (a b : Rat) : rmin a b ≤ a := by unfold rmin; split_ifs <;> linarith
theorem rmin_le_right (a b : Rat) : rmin a b ≤ b := by unfold rmin; split_ifs <;> linarith
theorem le_rmax_left (a b : Rat) : a ≤ rmax a b := by unfold rmax; split_ifs <;> linarith
theorem le_rmax_right (a b : Rat) : b ≤ rmax a b := by unfold rmax; split_ifs <;> linarith
theorem le_rmin {a b c : Rat} (h1 : c ≤ a) (h2 : c ≤ b) : c ≤ rmin a b := by unfold rmin; split_ifs <;> assumption
theorem rmax_le {a b c : Rat} (h1 : a ≤ c) (h2 : b ≤ c) : rmax a b ≤ c := by unfold rmax; split_ifs <;> assumption

theorem clampPt_inBox (p : Pt) (bb : BBox) (hx : bb.minx ≤ bb.maxx) (hy : bb.miny ≤ bb.maxy) : InBox (clampPt p bb) bb := by
  unfold InBox clampPt
  simp only
  refine ⟨?_, ?_, ?_, ?_⟩ <;> split_ifs <;> linarith

/-- the clamp box is a proper box contained in the boxes of both segments -/
theorem isectBBox_spec {a1 a2 b1 b2 : Pt} {bb : BBox} (h : isectBBox a1 a2 b1 b2 = some bb) :
    bb.minx ≤ bb.maxx ∧ bb.miny ≤ bb.maxy ∧
    (∀ p, InBox p bb → InBox p (segBox a1 a2) ∧ InBox p (segBox b1 b2)) := by
  unfold isectBBox at h
  -- name the eight interval ends
  have e1 : (if a1.x < a2.x then (a1.x, a2.x) else (a2.x, a1.x)) = (rmin a1.x a2.x, rmax a1.x a2.x) := by
    unfold rmin rmax; split_ifs <;> first | rfl | (exfalso; linarith) | (congr 1 <;> linarith)
  have e2 : (if a1.y < a2.y then (a1.y, a2.y) else (a2.y, a1.y)) = (rmin a1.y a2.y, rmax a1.y a2.y) := by
    unfold rmin rmax; split_ifs <;> first | rfl | (exfalso; linarith) | (congr 1 <;> linarith)
  have e3 : (if b1.x < b2.x then (b1.x, b2.x) else (b2.x, b1.x)) = (rmin b1.x b2.x, rmax b1.x b2.x) := by
    unfold rmin rmax; split_ifs <;> first | rfl | (exfalso; linarith) | (congr 1 <;> linarith)
  have e4 : (if b1.y < b2.y then (b1.y, b2.y) else (b2.y, b1.y)) = (rmin b1.y b2.y, rmax b1.y b2.y) := by
    unfold rmin rmax; split_ifs <;> first | rfl | (exfalso; linarith) | (congr 1 <;> linarith)
  rw [e1, e2, e3, e4] at h
  simp only at h
  split_ifs at h with hc
  cases h
  refine ⟨hc.1, hc.2, ?_⟩
  intro p hp
  obtain ⟨h1, h2, h3, h4⟩ := hp
  simp only at h1 h2 h3 h4
  unfold InBox segBox
  simp only
  have := le_rmax_left (rmin a1.x a2.x) (rmin b1.x b2.x)
  have := le_rmax_right (rmin a1.x a2.x) (rmin b1.x b2.x)
  have := le_rmax_left (rmin a1.y a2.y) (rmin b1.y b2.y)
  have := le_rmax_right (rmin a1.y a2.y) (rmin b1.y b2.y)
  have := rmin_le_left (rmax a1.x a2.x) (rmax b1.x b2.x)
  have := rmin_le_right (rmax a1.x a2.x) (rmax b1.x b2.x)
  have := rmin_le_left (rmax a1.y a2.y) (rmax b1.y b2.y)
  have := rmin_le_right (rmax a1.y a2.y) (rmax b1.y b2.y)
  refine ⟨⟨?_, ?_, ?_, ?_⟩, ⟨?_, ?_, ?_, ?_⟩⟩ <;> linarith

/-- **for every rounding**: whatever point the routine reports lies in the bounding boxes of both segments -/
theorem isect_point_in_both_boxes (ar : Arith) (a1 a2 b1 b2 p : Pt) (h : ar.isect a1 a2 b1 b2 = .point p) :
    InBox p (segBox a1 a2) ∧ InBox p (segBox b1 b2) := by
  unfold Arith.isect at h
  cases hb : isectBBox a1 a2 b1 b2 with
  | none => rw [hb] at h; cases h
  | some bb =>
    rw [hb] at h
    obtain ⟨hx, hy, hin⟩ := isectBBox_spec hb
    cases hi : ar.isectImpl a1 a2 b1 b2 with
    | none => rw [hi] at h; cases h
    | point q =>
      rw [hi] at h
      simp only [Isect.point.injEq] at h
      subst h
      exact hin _ (clampPt_inBox q bb hx hy)
    | overlap q r => rw [hi] at h; cases h
    | nonfinite => rw [hi] at h; cases h

theorem isect_overlap_in_both_boxes (ar : Arith) (a1 a2 b1 b2 p q : Pt) (h : ar.isect a1 a2 b1 b2 = .overlap p q) :
    (InBox p (segBox a1 a2) ∧ InBox p (segBox b1 b2)) ∧ (InBox q (segBox a1 a2) ∧ InBox q (segBox b1 b2)) := by
  unfold Arith.isect at h
  cases hb : isectBBox a1 a2 b1 b2 with
  | none => rw [hb] at h; cases h
  | some bb =>
    rw [hb] at h
    obtain ⟨hx, hy, hin⟩ := isectBBox_spec hb
    cases hi : ar.isectImpl a1 a2 b1 b2 with
    | none => rw [hi] at h; cases h
    | point r => rw [hi] at h; cases h
    | overlap r s =>
      rw [hi] at h
      simp only [Isect.overlap.injEq] at h
      obtain ⟨h1, h2⟩ := h
      subst h1; subst h2
      exact ⟨hin _ (clampPt_inBox r bb hx hy), hin _ (clampPt_inBox s bb hx hy)⟩
    | nonfinite => rw [hi] at h; cases h

/-- disjoint bounding boxes: no intersection is reported, for every rounding -/
theorem isect_none_of_disjoint_boxes (ar : Arith) (a1 a2 b1 b2 : Pt) (h : isectBBox a1 a2 b1 b2 = none) :
    ar.isect a1 a2 b1 b2 = .none := by
  unfold Arith.isect; rw [h]

end Gbo

namespace Gbo

/-! ### exact arithmetic: the crossing case -/

/-- `p` lies on the closed segment `a b` -/
def OnSegP (p a b : Pt) : Prop :=
  ∃ t : Rat, 0 ≤ t ∧ t ≤ 1 ∧ p.x = a.x + t * (b.x - a.x) ∧ p.y = a.y + t * (b.y - a.y)

def krossOf (a1 a2 b1 b2 : Pt) : Rat := (a2.x - a1.x) * (b2.y - b1.y) - (a2.y - a1.y) * (b2.x - b1.x)
def sOf (a1 a2 b1 b2 : Pt) : Rat := ((b1.x - a1.x) * (b2.y - b1.y) - (b1.y - a1.y) * (b2.x - b1.x)) / krossOf a1 a2 b1 b2
def tOf (a1 a2 b1 b2 : Pt) : Rat := ((b1.x - a1.x) * (a2.y - a1.y) - (b1.y - a1.y) * (a2.x - a1.x)) / krossOf a1 a2 b1 b2
def atA (a1 a2 : Pt) (s : Rat) : Pt := { x := a1.x + s * (a2.x - a1.x), y := a1.y + s * (a2.y - a1.y) }

theorem sq_pos_iff_ne (k : Rat) : k * k > 0 ↔ k ≠ 0 := by
  constructor
  · intro h hk; rw [hk] at h; simp at h
  · intro h; exact mul_self_pos.mpr h

/-- the routine under exact arithmetic, non-parallel segments -/
theorem isectImpl_exact_nonparallel (a1 a2 b1 b2 : Pt) (hk : krossOf a1 a2 b1 b2 ≠ 0) :
    Arith.exact.isectImpl a1 a2 b1 b2 =
      (let s := sOf a1 a2 b1 b2
       let t := tOf a1 a2 b1 b2
       if s < 0 ∨ s > 1 then .none else
       if t < 0 ∨ t > 1 then .none else
       if s = 0 ∨ s = 1 then .point (atA a1 a2 s) else
       if t = 0 ∨ t = 1 then .point (atA b1 b2 t) else .point (atA a1 a2 s)) := by
  unfold Arith.isectImpl
  simp only [Arith.exact, Arith.sub, Arith.mul, Arith.div, Arith.add, Arith.cross, Arith.dot, Arith.midPoint, id]
  have hk' : ((a2.x - a1.x) * (b2.y - b1.y) - (a2.y - a1.y) * (b2.x - b1.x)) ≠ 0 := hk
  simp only [ne_eq, hk', not_false_eq_true, if_true]
  rfl

theorem s_mul_kross (a1 a2 b1 b2 : Pt) (hk : krossOf a1 a2 b1 b2 ≠ 0) :
    sOf a1 a2 b1 b2 * krossOf a1 a2 b1 b2 = (b1.x - a1.x) * (b2.y - b1.y) - (b1.y - a1.y) * (b2.x - b1.x) := by
  unfold sOf; exact div_mul_cancel₀ _ hk

theorem t_mul_kross (a1 a2 b1 b2 : Pt) (hk : krossOf a1 a2 b1 b2 ≠ 0) :
    tOf a1 a2 b1 b2 * krossOf a1 a2 b1 b2 = (b1.x - a1.x) * (a2.y - a1.y) - (b1.y - a1.y) * (a2.x - a1.x) := by
  unfold tOf; exact div_mul_cancel₀ _ hk

/-- Cramer: the two parametrisations meet in the same point -/
theorem atA_eq_atB (a1 a2 b1 b2 : Pt) (hk : krossOf a1 a2 b1 b2 ≠ 0) :
    atA a1 a2 (sOf a1 a2 b1 b2) = atA b1 b2 (tOf a1 a2 b1 b2) := by
  have hs := s_mul_kross a1 a2 b1 b2 hk
  have ht := t_mul_kross a1 a2 b1 b2 hk
  generalize sOf a1 a2 b1 b2 = s at hs
  generalize tOf a1 a2 b1 b2 = t at ht
  unfold atA
  have ex : a1.x + s * (a2.x - a1.x) = b1.x + t * (b2.x - b1.x) := by
    apply mul_right_cancel₀ hk
    have : (a1.x + s * (a2.x - a1.x)) * krossOf a1 a2 b1 b2
        = a1.x * krossOf a1 a2 b1 b2 + (s * krossOf a1 a2 b1 b2) * (a2.x - a1.x) := by ring
    rw [this, hs]
    have : (b1.x + t * (b2.x - b1.x)) * krossOf a1 a2 b1 b2
        = b1.x * krossOf a1 a2 b1 b2 + (t * krossOf a1 a2 b1 b2) * (b2.x - b1.x) := by ring
    rw [this, ht]
    unfold krossOf; ring
  have ey : a1.y + s * (a2.y - a1.y) = b1.y + t * (b2.y - b1.y) := by
    apply mul_right_cancel₀ hk
    have : (a1.y + s * (a2.y - a1.y)) * krossOf a1 a2 b1 b2
        = a1.y * krossOf a1 a2 b1 b2 + (s * krossOf a1 a2 b1 b2) * (a2.y - a1.y) := by ring
    rw [this, hs]
    have : (b1.y + t * (b2.y - b1.y)) * krossOf a1 a2 b1 b2
        = b1.y * krossOf a1 a2 b1 b2 + (t * krossOf a1 a2 b1 b2) * (b2.y - b1.y) := by ring
    rw [this, ht]
    unfold krossOf; ring
  rw [ex, ey]

/-- uniqueness: a common point of two non-parallel segments has exactly these parameters -/
theorem params_unique (a1 a2 b1 b2 : Pt) (hk : krossOf a1 a2 b1 b2 ≠ 0) (s t : Rat)
    (hx : a1.x + s * (a2.x - a1.x) = b1.x + t * (b2.x - b1.x))
    (hy : a1.y + s * (a2.y - a1.y) = b1.y + t * (b2.y - b1.y)) :
    s = sOf a1 a2 b1 b2 ∧ t = tOf a1 a2 b1 b2 := by
  have h1 : s * (a2.x - a1.x) = (b1.x - a1.x) + t * (b2.x - b1.x) := by linarith
  have h2 : s * (a2.y - a1.y) = (b1.y - a1.y) + t * (b2.y - b1.y) := by linarith
  constructor
  · apply mul_right_cancel₀ hk
    rw [s_mul_kross _ _ _ _ hk]
    have : s * krossOf a1 a2 b1 b2 = (s * (a2.x - a1.x)) * (b2.y - b1.y) - (s * (a2.y - a1.y)) * (b2.x - b1.x) := by
      unfold krossOf; ring
    rw [this, h1, h2]; ring
  · apply mul_right_cancel₀ hk
    rw [t_mul_kross _ _ _ _ hk]
    have h1' : t * (b2.x - b1.x) = s * (a2.x - a1.x) - (b1.x - a1.x) := by linarith
    have h2' : t * (b2.y - b1.y) = s * (a2.y - a1.y) - (b1.y - a1.y) := by linarith
    have : t * krossOf a1 a2 b1 b2 = (a2.x - a1.x) * (t * (b2.y - b1.y)) - (a2.y - a1.y) * (t * (b2.x - b1.x)) := by
      unfold krossOf; ring
    rw [this, h1', h2']; ring

end Gbo

namespace Gbo

theorem between_of_param (a b t : Rat) (h0 : 0 ≤ t) (h1 : t ≤ 1) :
    rmin a b ≤ a + t * (b - a) ∧ a + t * (b - a) ≤ rmax a b := by
  unfold rmin rmax
  split_ifs with h
  · constructor
    · have : 0 ≤ t * (b - a) := mul_nonneg h0 (by linarith)
      linarith
    · have : t * (b - a) ≤ 1 * (b - a) := mul_le_mul_of_nonneg_right h1 (by linarith)
      linarith
  · have hba : b - a ≤ 0 := by linarith
    constructor
    · have : 1 * (b - a) ≤ t * (b - a) := mul_le_mul_of_nonpos_right h1 hba
      linarith
    · have : t * (b - a) ≤ 0 := mul_nonpos_of_nonneg_of_nonpos h0 hba
      linarith

theorem onSegP_inBox {p a b : Pt} (h : OnSegP p a b) : InBox p (segBox a b) := by
  obtain ⟨t, h0, h1, hx, hy⟩ := h
  unfold InBox segBox
  simp only
  have bx := between_of_param a.x b.x t h0 h1
  have by' := between_of_param a.y b.y t h0 h1
  rw [hx, hy]
  exact ⟨bx.1, bx.2, by'.1, by'.2⟩

theorem atA_onSegP (a b : Pt) (s : Rat) (h0 : 0 ≤ s) (h1 : s ≤ 1) : OnSegP (atA a b s) a b :=
  ⟨s, h0, h1, rfl, rfl⟩

/-- a point in the boxes of both segments lies in the clamp box, which therefore exists -/
theorem isectBBox_of_common {a1 a2 b1 b2 p : Pt} (ha : InBox p (segBox a1 a2)) (hb : InBox p (segBox b1 b2)) :
    ∃ bb, isectBBox a1 a2 b1 b2 = some bb ∧ InBox p bb := by
  unfold isectBBox
  have e1 : (if a1.x < a2.x then (a1.x, a2.x) else (a2.x, a1.x)) = (rmin a1.x a2.x, rmax a1.x a2.x) := by
    unfold rmin rmax; split_ifs <;> first | rfl | (exfalso; linarith) | (congr 1 <;> linarith)
  have e2 : (if a1.y < a2.y then (a1.y, a2.y) else (a2.y, a1.y)) = (rmin a1.y a2.y, rmax a1.y a2.y) := by
    unfold rmin rmax; split_ifs <;> first | rfl | (exfalso; linarith) | (congr 1 <;> linarith)
  have e3 : (if b1.x < b2.x then (b1.x, b2.x) else (b2.x, b1.x)) = (rmin b1.x b2.x, rmax b1.x b2.x) := by
    unfold rmin rmax; split_ifs <;> first | rfl | (exfalso; linarith) | (congr 1 <;> linarith)
  have e4 : (if b1.y < b2.y then (b1.y, b2.y) else (b2.y, b1.y)) = (rmin b1.y b2.y, rmax b1.y b2.y) := by
    unfold rmin rmax; split_ifs <;> first | rfl | (exfalso; linarith) | (congr 1 <;> linarith)
  rw [e1, e2, e3, e4]
  simp only
  unfold InBox segBox at ha hb
  simp only at ha hb
  obtain ⟨a1', a2', a3', a4'⟩ := ha
  obtain ⟨b1', b2', b3', b4'⟩ := hb
  have l1 : rmax (rmin a1.x a2.x) (rmin b1.x b2.x) ≤ p.x := rmax_le a1' b1'
  have l2 : p.x ≤ rmin (rmax a1.x a2.x) (rmax b1.x b2.x) := le_rmin a2' b2'
  have l3 : rmax (rmin a1.y a2.y) (rmin b1.y b2.y) ≤ p.y := rmax_le a3' b3'
  have l4 : p.y ≤ rmin (rmax a1.y a2.y) (rmax b1.y b2.y) := le_rmin a4' b4'
  have hc : rmax (rmin a1.x a2.x) (rmin b1.x b2.x) ≤ rmin (rmax a1.x a2.x) (rmax b1.x b2.x) ∧
      rmax (rmin a1.y a2.y) (rmin b1.y b2.y) ≤ rmin (rmax a1.y a2.y) (rmax b1.y b2.y) := ⟨by linarith, by linarith⟩
  rw [if_pos hc]
  exact ⟨_, rfl, l1, l2, l3, l4⟩

theorem clampPt_eq_of_inBox {p : Pt} {bb : BBox} (h : InBox p bb) : clampPt p bb = p := by
  obtain ⟨h1, h2, h3, h4⟩ := h
  unfold clampPt
  have n1 : ¬ p.x < bb.minx := by linarith
  have n2 : ¬ p.x > bb.maxx := by linarith
  have n3 : ¬ p.y < bb.miny := by linarith
  have n4 : ¬ p.y > bb.maxy := by linarith
  simp [n1, n2, n3, n4]

/-- exact arithmetic, non-parallel segments: the full case analysis of the routine -/
theorem isect_exact_nonparallel (a1 a2 b1 b2 : Pt) (hk : krossOf a1 a2 b1 b2 ≠ 0) :
    let s := sOf a1 a2 b1 b2
    let t := tOf a1 a2 b1 b2
    (0 ≤ s ∧ s ≤ 1 ∧ 0 ≤ t ∧ t ≤ 1 → Arith.exact.isect a1 a2 b1 b2 = .point (atA a1 a2 s))
    ∧ (¬ (0 ≤ s ∧ s ≤ 1 ∧ 0 ≤ t ∧ t ≤ 1) → Arith.exact.isect a1 a2 b1 b2 = .none) := by
  intro s t
  have himpl := isectImpl_exact_nonparallel a1 a2 b1 b2 hk
  have heq := atA_eq_atB a1 a2 b1 b2 hk
  constructor
  · rintro ⟨s0, s1, t0, t1⟩
    have hq : Arith.exact.isectImpl a1 a2 b1 b2 = .point (atA a1 a2 s) := by
      rw [himpl]
      simp only
      have n1 : ¬ (sOf a1 a2 b1 b2 < 0 ∨ sOf a1 a2 b1 b2 > 1) := by
        rintro (h | h) <;> linarith
      have n2 : ¬ (tOf a1 a2 b1 b2 < 0 ∨ tOf a1 a2 b1 b2 > 1) := by
        rintro (h | h) <;> linarith
      rw [if_neg n1, if_neg n2]
      split_ifs
      · rfl
      · rw [← heq]
      · rfl
    have hA : OnSegP (atA a1 a2 s) a1 a2 := atA_onSegP a1 a2 s s0 s1
    have hB : OnSegP (atA a1 a2 s) b1 b2 := by
      show OnSegP (atA a1 a2 (sOf a1 a2 b1 b2)) b1 b2
      rw [heq]; exact atA_onSegP b1 b2 t t0 t1
    obtain ⟨bb, hbb, hin⟩ := isectBBox_of_common (onSegP_inBox hA) (onSegP_inBox hB)
    unfold Arith.isect
    rw [hbb, hq]
    simp only
    rw [clampPt_eq_of_inBox hin]
  · intro hn
    unfold Arith.isect
    cases hbb : isectBBox a1 a2 b1 b2 with
    | none => rfl
    | some bb =>
      have : Arith.exact.isectImpl a1 a2 b1 b2 = .none := by
        rw [himpl]
        simp only
        by_cases h1 : sOf a1 a2 b1 b2 < 0 ∨ sOf a1 a2 b1 b2 > 1
        · rw [if_pos h1]
        · rw [if_neg h1]
          by_cases h2 : tOf a1 a2 b1 b2 < 0 ∨ tOf a1 a2 b1 b2 > 1
          · rw [if_pos h2]
          · exfalso
            apply hn
            push_neg at h1 h2
            exact ⟨h1.1, h1.2, h2.1, h2.2⟩
      rw [this]

/-- **C16, exact arithmetic, crossing case**: no intersection is reported exactly when the segments are
    disjoint; otherwise the reported point lies on both segments. -/
theorem isect_exact_none_iff_disjoint (a1 a2 b1 b2 : Pt) (hk : krossOf a1 a2 b1 b2 ≠ 0) :
    Arith.exact.isect a1 a2 b1 b2 = .none ↔ ¬ ∃ p, OnSegP p a1 a2 ∧ OnSegP p b1 b2 := by
  obtain ⟨hyes, hno⟩ := isect_exact_nonparallel a1 a2 b1 b2 hk
  constructor
  · intro hnone
    rintro ⟨p, ⟨s', s0, s1, hx, hy⟩, ⟨t', t0, t1, hx', hy'⟩⟩
    obtain ⟨es, et⟩ := params_unique a1 a2 b1 b2 hk s' t' (by rw [← hx, ← hx']) (by rw [← hy, ← hy'])
    have := hyes ⟨es ▸ s0, es ▸ s1, et ▸ t0, et ▸ t1⟩
    rw [this] at hnone; cases hnone
  · intro hdis
    by_contra hne
    apply hdis
    by_cases hin : 0 ≤ sOf a1 a2 b1 b2 ∧ sOf a1 a2 b1 b2 ≤ 1 ∧ 0 ≤ tOf a1 a2 b1 b2 ∧ tOf a1 a2 b1 b2 ≤ 1
    · refine ⟨atA a1 a2 (sOf a1 a2 b1 b2), atA_onSegP _ _ _ hin.1 hin.2.1, ?_⟩
      rw [atA_eq_atB a1 a2 b1 b2 hk]
      exact atA_onSegP _ _ _ hin.2.2.1 hin.2.2.2
    · exact absurd (hno hin) hne

theorem isect_exact_point_on_both (a1 a2 b1 b2 p : Pt) (hk : krossOf a1 a2 b1 b2 ≠ 0)
    (h : Arith.exact.isect a1 a2 b1 b2 = .point p) : OnSegP p a1 a2 ∧ OnSegP p b1 b2 := by
  obtain ⟨hyes, hno⟩ := isect_exact_nonparallel a1 a2 b1 b2 hk
  by_cases hin : 0 ≤ sOf a1 a2 b1 b2 ∧ sOf a1 a2 b1 b2 ≤ 1 ∧ 0 ≤ tOf a1 a2 b1 b2 ∧ tOf a1 a2 b1 b2 ≤ 1
  · rw [hyes hin] at h
    simp only [Isect.point.injEq] at h
    subst h
    refine ⟨atA_onSegP _ _ _ hin.1 hin.2.1, ?_⟩
    rw [atA_eq_atB a1 a2 b1 b2 hk]
    exact atA_onSegP _ _ _ hin.2.2.1 hin.2.2.2
  · rw [hno hin] at h; cases h

end Gbo
