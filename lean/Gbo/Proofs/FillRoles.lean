import Gbo.Model.Sweep
/-
  `fill_queue` under the four operations: the operation decides only the contour ids and exterior flags of the
  clipping polygons' events (`Difference`).  `stripRole` forgets those two fields; the event order never reads
  them, so the arena (stripped), the heap array and the boxes are the same for every operation.
-/
namespace Gbo

/-- forget the two fields `fill_queue` sets differently under `Difference` -/
def stripRole (e : Ev) : Ev := { e with contourId := 0, isExteriorRing := false }

theorem stripRole_default : stripRole default = default := rfl

theorem getElem!_map_stripRole (a : Arena) (i : Nat) : (a.map stripRole)[i]! = stripRole a[i]! := by
  by_cases h : i < a.size
  · rw [getElem!_pos (a.map stripRole) i (by simpa using h), getElem!_pos a i h]; simp
  · rw [getElem!_neg (a.map stripRole) i (by simpa using h), getElem!_neg a i h]; rfl

theorem view_map_stripRole (a : Arena) (i : Nat) : Arena.view (a.map stripRole) i = a.view i := by
  unfold Arena.view
  simp only [getElem!_map_stripRole]
  rfl

theorem evLe_map_stripRole (a : Arena) : evLe (a.map stripRole) = evLe a := by
  funext i j
  simp only [evLe, cmpEv, view_map_stripRole]

theorem evLe_of_strip_eq {a a' : Arena} (h : a.map stripRole = a'.map stripRole) : evLe a = evLe a' := by
  rw [← evLe_map_stripRole a, h, evLe_map_stripRole]

/-- two fill states that differ in contour ids and exterior flags only -/
def SameGeo (st st' : FQ × Option BBox) : Prop :=
  st.1.arena.map stripRole = st'.1.arena.map stripRole ∧ st.1.heap = st'.1.heap ∧ st.2 = st'.2

theorem processLine_sameGeo (subj : Bool) (c c' : Nat) (x x' : Bool) (st st' : FQ × Option BBox) (s e : Pt)
    (h : SameGeo st st') : SameGeo (processLine subj c x st s e) (processLine subj c' x' st' s e) := by
  obtain ⟨⟨a, hp⟩, bb⟩ := st
  obtain ⟨⟨a', hp'⟩, bb'⟩ := st'
  obtain ⟨h1, h2, h3⟩ := h
  simp only at h1 h2 h3
  subst h2 h3
  have hs : a.size = a'.size := by simpa using congrArg Array.size h1
  unfold processLine
  split
  · exact ⟨h1, rfl, rfl⟩
  · have hm : (((a.push (mkPair a.size s e subj c x).1).push (mkPair a.size s e subj c x).2).map stripRole)
        = (((a'.push (mkPair a'.size s e subj c' x').1).push (mkPair a'.size s e subj c' x').2).map stripRole) := by
      simp only [Array.map_push, h1, hs]
      rfl
    refine ⟨hm, ?_, rfl⟩
    simp only
    rw [evLe_of_strip_eq hm, hs]

theorem processRing_sameGeo (subj : Bool) (c c' : Nat) (x x' : Bool) (r : Ring) :
    ∀ st st' : FQ × Option BBox, SameGeo st st' →
      SameGeo (processRing subj c x st r) (processRing subj c' x' st' r) := by
  induction r with
  | nil => intro st st' h; simpa [processRing] using h
  | cons p rest ih =>
    intro st st' h
    cases rest with
    | nil => simpa [processRing] using h
    | cons q rest' =>
      simp only [processRing]
      exact ih _ _ (processLine_sameGeo subj c c' x x' st st' p q h)

theorem foldl_sameGeo {β} (f g : FQ × Option BBox → β → FQ × Option BBox)
    (hfg : ∀ st st' b, SameGeo st st' → SameGeo (f st b) (g st' b)) (l : List β) :
    ∀ st st', SameGeo st st' → SameGeo (l.foldl f st) (l.foldl g st') := by
  induction l with
  | nil => intro st st' h; exact h
  | cons b l ih => intro st st' h; exact ih _ _ (hfg _ _ b h)

theorem processPolygon_sameGeo (subj : Bool) (c c' : Nat) (x x' : Bool) (p : Poly) (st st' : FQ × Option BBox)
    (h : SameGeo st st') : SameGeo (processPolygon subj c x st p) (processPolygon subj c' x' st' p) := by
  unfold processPolygon
  exact foldl_sameGeo _ _ (fun s s' r hs => processRing_sameGeo subj c c' false false r s s' hs) _ _ _
    (processRing_sameGeo subj c c' x x' p.ext st st' h)

theorem clipFold_sameGeo (op op' : Op) (l : List Poly) :
    ∀ acc acc' : Nat × FQ × Option BBox, SameGeo (acc.2.1, acc.2.2) (acc'.2.1, acc'.2.2) →
      SameGeo ((l.foldl (clipStep op) acc).2.1, (l.foldl (clipStep op) acc).2.2)
              ((l.foldl (clipStep op') acc').2.1, (l.foldl (clipStep op') acc').2.2) := by
  induction l with
  | nil => intro acc acc' h; exact h
  | cons p l ih =>
    intro acc acc' h
    simp only [List.foldl_cons]
    apply ih
    simp only [clipStep]
    exact processPolygon_sameGeo false _ _ _ _ p _ _ h

end Gbo
