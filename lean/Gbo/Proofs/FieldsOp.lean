import Gbo.Proofs.Divide
/-
  `compute_fields` under the four operations: the operation decides `result_transition` (and through it
  `prev_in_result`), nothing else.  `stripResult` forgets those two fields; arenas that agree after forgetting
  them still agree after `compute_fields` with any two operations.
-/
namespace Gbo

/-- forget the two fields of an event that `compute_fields` derives from the operation -/
def stripResult (e : Ev) : Ev := { e with resTrans := .none, prevInResult := none }

theorem getElem!_map_stripResult (a : Arena) (i : Nat) : (a.map stripResult)[i]! = stripResult a[i]! := by
  by_cases h : i < a.size
  · rw [getElem!_pos (a.map stripResult) i (by simpa using h), getElem!_pos a i h]; simp
  · rw [getElem!_neg (a.map stripResult) i (by simpa using h), getElem!_neg a i h]; rfl

theorem fields_of_stripResult_eq {e e' : Ev} (h : stripResult e = stripResult e') :
    e.point = e'.point ∧ e.left = e'.left ∧ e.isSubject = e'.isSubject ∧ e.other = e'.other
    ∧ e.inOut = e'.inOut ∧ e.otherInOut = e'.otherInOut :=
  by
  have h1 := congrArg Ev.point h; have h2 := congrArg Ev.left h; have h3 := congrArg Ev.isSubject h
  have h4 := congrArg Ev.other h; have h5 := congrArg Ev.inOut h; have h6 := congrArg Ev.otherInOut h
  exact ⟨h1, h2, h3, h4, h5, h6⟩

theorem stripResult_update (e : Ev) (io oio : Bool) (pir : Option Nat) (rt : ResTrans) :
    stripResult { e with inOut := io, otherInOut := oio, prevInResult := pir, resTrans := rt }
      = { stripResult e with inOut := io, otherInOut := oio } := rfl

theorem stripResult_pointwise {a a' : Arena} (h : a.map stripResult = a'.map stripResult) (j : Nat) :
    stripResult a[j]! = stripResult a'[j]! := by
  rw [← getElem!_map_stripResult, h, getElem!_map_stripResult]

theorem view_of_stripResult_eq {a a' : Arena} (h : a.map stripResult = a'.map stripResult) (j : Nat) :
    a.view j = a'.view j := by
  have hj := stripResult_pointwise h j
  have hp : a[j]!.point = a'[j]!.point := (fields_of_stripResult_eq hj).1
  have hl : a[j]!.left = a'[j]!.left := (fields_of_stripResult_eq hj).2.1
  have hs : a[j]!.isSubject = a'[j]!.isSubject := (fields_of_stripResult_eq hj).2.2.1
  have ho : a[j]!.other = a'[j]!.other := (fields_of_stripResult_eq hj).2.2.2.1
  unfold Arena.view
  simp only [hp, hl, hs, ho]
  congr 1
  cases a'[j]!.other with
  | none => rfl
  | some k => simp only [Option.map_some]; exact congrArg some ((fields_of_stripResult_eq (stripResult_pointwise h k)).1)

/-- the in/out flags `compute_fields` assigns, as a function of what it reads -/
def cfFlags (a : Arena) (event : Nat) (prev : Option Nat) : Bool × Bool :=
  propagateFlags a[event]!.isSubject
    (prev.map (fun p => (a[p]!.isSubject, a[p]!.inOut, a[p]!.otherInOut, (a.view p).isVertical)))

theorem computeFields_get_strip (a : Arena) (event : Nat) (prev : Option Nat) (op : Op) (j : Nat) :
    stripResult (computeFields a event prev op)[j]!
      = if event = j ∧ j < a.size then
          { stripResult a[j]! with inOut := (cfFlags a event prev).1, otherInOut := (cfFlags a event prev).2 }
        else stripResult a[j]! := by
  unfold computeFields
  simp only [get!_modify]
  split
  · next hc => obtain ⟨rfl, _⟩ := hc; rfl
  · rfl

theorem cfFlags_of_stripResult_eq {a a' : Arena} (h : a.map stripResult = a'.map stripResult)
    (event : Nat) (prev : Option Nat) : cfFlags a event prev = cfFlags a' event prev := by
  have hflags : ∀ p, (a[p]!.isSubject, a[p]!.inOut, a[p]!.otherInOut, (a.view p).isVertical)
      = (a'[p]!.isSubject, a'[p]!.inOut, a'[p]!.otherInOut, (a'.view p).isVertical) := by
    intro p
    have hj := fields_of_stripResult_eq (stripResult_pointwise h p)
    rw [hj.2.2.1, hj.2.2.2.2.1, hj.2.2.2.2.2, view_of_stripResult_eq h p]
  unfold cfFlags
  rw [(fields_of_stripResult_eq (stripResult_pointwise h event)).2.2.1]
  cases prev <;> simp [hflags]

/-- `compute_fields` and the operation: the operation decides `result_transition` (hence `in_result`) and
    through it `prev_in_result`, nothing else.  Arenas that agree on every other field still do after
    `compute_fields`, whatever the two operations are — in particular the in/out flags of C14 are the
    same for all four operations. -/
theorem computeFields_stripResult (a a' : Arena) (h : a.map stripResult = a'.map stripResult)
    (event : Nat) (prev : Option Nat) (op op' : Op) :
    (computeFields a event prev op).map stripResult = (computeFields a' event prev op').map stripResult := by
  have hs : a.size = a'.size := by simpa using congrArg Array.size h
  apply Array.ext
  · simp [computeFields, hs]
  · intro j h1 h2
    have e1 := getElem!_map_stripResult (computeFields a event prev op) j
    have e2 := getElem!_map_stripResult (computeFields a' event prev op') j
    rw [getElem!_pos _ j h1] at e1
    rw [getElem!_pos _ j h2] at e2
    rw [e1, e2, computeFields_get_strip, computeFields_get_strip, cfFlags_of_stripResult_eq h,
      stripResult_pointwise h j, hs]

end Gbo
