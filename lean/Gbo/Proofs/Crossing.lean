import Gbo.Proofs.Divide
/-
  `possible_intersection` in the crossing case under exact arithmetic: both segments are divided at the one
  point the intersection routine reports (each only if the point is interior to it).
-/
namespace Gbo

/-- the arena after the crossing branch: divide `se1` at `p` if `p` is interior to it, then `se2` likewise -/
def crossArena (a : Arena) (se1 o1 se2 o2 : Nat) (p : Pt) : Arena :=
  let a1 := if a[se1]!.point ≠ p ∧ a[o1]!.point ≠ p then divideArena a se1 o1 p else a
  if a[se2]!.point ≠ p ∧ a[o2]!.point ≠ p then divideArena a1 se2 o2 p else a1

theorem possibleIntersection_exact_crossing (cfg : Cfg) (st st' : SwSt) (se1 se2 o1 o2 : Nat) (p : Pt) (r : Nat)
    (h1 : st.arena[se1]!.other = some o1) (h2 : st.arena[se2]!.other = some o2)
    (hb1 : se1 < st.arena.size) (hbo1 : o1 < st.arena.size) (hb2 : se2 < st.arena.size) (hbo2 : o2 < st.arena.size)
    (hd1 : se1 ≠ o1) (hd2 : se2 ≠ se1) (hd3 : se2 ≠ o1)
    (hp : Arith.exact.isect st.arena[se1]!.point st.arena[o1]!.point st.arena[se2]!.point st.arena[o2]!.point = .point p)
    (hns : ¬ (st.arena[se1]!.point = st.arena[se2]!.point ∨ st.arena[o1]!.point = st.arena[o2]!.point))
    (h : possibleIntersection Arith.exact cfg st se1 se2 = .ok (r, st')) :
    r = 1 ∧ st'.arena = crossArena st.arena se1 o1 se2 o2 p := by
  unfold possibleIntersection at h
  simp only [h1, h2, hp, hns, if_false] at h
  unfold crossArena
  by_cases c1 : st.arena[se1]!.point ≠ p ∧ st.arena[o1]!.point ≠ p
  · rw [if_pos c1] at h
    rw [if_pos c1]
    cases hds : divideSegment Arith.exact cfg st se1 p with
    | error e => simp [hds, bind, Except.bind] at h
    | ok st1 =>
      have ha1 := divideSegment_exact_arena cfg st st1 se1 o1 p hds h1
      obtain ⟨_, hpts, _, _, _, _, _, _, hoth⟩ := divideArena_spec st.arena se1 o1 p hb1 hbo1 hd1
      have h2' : st1.arena[se2]!.other = some o2 := by
        rw [ha1, hoth se2 hb2 hd2 hd3, h2]
      simp only [hds, bind, Except.bind] at h
      by_cases c2 : st.arena[se2]!.point ≠ p ∧ st.arena[o2]!.point ≠ p
      · rw [if_pos c2] at h
        rw [if_pos c2]
        cases hds2 : divideSegment Arith.exact cfg st1 se2 p with
        | error e => simp [hds2] at h
        | ok st2 =>
          have ha2 := divideSegment_exact_arena cfg st1 st2 se2 o2 p hds2 h2'
          simp only [hds2, pure, Except.pure, Except.ok.injEq, Prod.mk.injEq] at h
          obtain ⟨hr, hst⟩ := h
          exact ⟨hr.symm, by rw [← hst, ha2, ha1]⟩
      · rw [if_neg c2] at h
        rw [if_neg c2]
        simp only [pure, Except.pure, Except.ok.injEq, Prod.mk.injEq] at h
        obtain ⟨hr, hst⟩ := h
        exact ⟨hr.symm, by rw [← hst, ha1]⟩
  · rw [if_neg c1] at h
    rw [if_neg c1]
    simp only [pure, Except.pure, bind, Except.bind] at h
    by_cases c2 : st.arena[se2]!.point ≠ p ∧ st.arena[o2]!.point ≠ p
    · rw [if_pos c2] at h
      rw [if_pos c2]
      cases hds2 : divideSegment Arith.exact cfg st se2 p with
      | error e => simp [hds2] at h
      | ok st2 =>
        have ha2 := divideSegment_exact_arena cfg st st2 se2 o2 p hds2 h2
        simp only [hds2, Except.ok.injEq, Prod.mk.injEq] at h
        obtain ⟨hr, hst⟩ := h
        exact ⟨hr.symm, by rw [← hst, ha2]⟩
    · rw [if_neg c2] at h
      rw [if_neg c2]
      simp only [Except.ok.injEq, Prod.mk.injEq] at h
      obtain ⟨hr, hst⟩ := h
      exact ⟨hr.symm, by rw [← hst]⟩

end Gbo
