import Gbo.Model.Connect
/-
  The coordinate type enters the run in exactly two places: the intersection routine and the one-ulp step of
  `divide_segment`.  Two arithmetics that agree on these give the same run.
-/
namespace Gbo

/-- two arithmetics compute the same intersections and the same one-ulp steps -/
def SameArith (ar1 ar2 : Arith) : Prop :=
  (∀ a1 a2 b1 b2 : Pt, ar1.isect a1 a2 b1 b2 = ar2.isect a1 a2 b1 b2) ∧ (∀ x : Rat, ar1.nextUp x = ar2.nextUp x)

variable {ar1 ar2 : Arith}

theorem compareSegCore_frame (h : SameArith ar1 ar2) (dbg : Bool) (li : Bool → Ordering) (old new : SegView) :
    compareSegCore ar1 dbg li old new = compareSegCore ar2 dbg li old new := by
  unfold compareSegCore
  simp only [h.1]

theorem segCmp_frame (h : SameArith ar1 ar2) (dbg : Bool) (a : Arena) : segCmp ar1 dbg a = segCmp ar2 dbg a := by
  funext i j
  unfold segCmp compareSegView
  simp only [compareSegCore_frame h]

theorem divideSegment_frame (h : SameArith ar1 ar2) (cfg : Cfg) (st : SwSt) (seL : Nat) (p : Pt) :
    divideSegment ar1 cfg st seL p = divideSegment ar2 cfg st seL p := by
  unfold divideSegment
  simp only [h.2]

theorem overlapBranch_frame (h : SameArith ar1 ar2) (cfg : Cfg) (st : SwSt) (se1 o1 se2 o2 : Nat) :
    overlapBranch ar1 cfg st se1 o1 se2 o2 = overlapBranch ar2 cfg st se1 o1 se2 o2 := by
  unfold overlapBranch
  simp only [divideSegment_frame h]

theorem possibleIntersection_frame (h : SameArith ar1 ar2) (cfg : Cfg) (st : SwSt) (se1 se2 : Nat) :
    possibleIntersection ar1 cfg st se1 se2 = possibleIntersection ar2 cfg st se1 se2 := by
  unfold possibleIntersection
  simp only [h.1, divideSegment_frame h, overlapBranch_frame h]

theorem checkNext_frame (h : SameArith ar1 ar2) (cfg : Cfg) (op : Op) (st : SwSt) (event : Nat) (prev next : Option Nat) :
    checkNext ar1 cfg op st event prev next = checkNext ar2 cfg op st event prev next := by
  unfold checkNext
  simp only [possibleIntersection_frame h]

theorem checkPrev_frame (h : SameArith ar1 ar2) (cfg : Cfg) (op : Op) (st : SwSt) (event : Nat) (prev : Option Nat) :
    checkPrev ar1 cfg op st event prev = checkPrev ar2 cfg op st event prev := by
  unfold checkPrev
  simp only [possibleIntersection_frame h, segCmp_frame h]

theorem checkRemoval_frame (h : SameArith ar1 ar2) (cfg : Cfg) (st : SwSt) (prev next : Option (Nat × Unit)) :
    checkRemoval ar1 cfg st prev next = checkRemoval ar2 cfg st prev next := by
  unfold checkRemoval
  simp only [possibleIntersection_frame h]

theorem sweepStep_frame (h : SameArith ar1 ar2) (cfg : Cfg) (op : Op) (rb sx : Rat) (st : SwSt) (event : Nat) :
    sweepStep ar1 cfg op rb sx st event = sweepStep ar2 cfg op rb sx st event := by
  unfold sweepStep
  simp only [segCmp_frame h, checkNext_frame h, checkPrev_frame h, checkRemoval_frame h]

theorem sweepLoop_frame (h : SameArith ar1 ar2) (cfg : Cfg) (op : Op) (rb sx : Rat) :
    ∀ (fuel : Nat) (st : SwSt), sweepLoop ar1 cfg op rb sx fuel st = sweepLoop ar2 cfg op rb sx fuel st := by
  intro fuel
  induction fuel with
  | zero => intro st; rfl
  | succ fuel ih =>
    intro st
    unfold sweepLoop
    simp only [sweepStep_frame h, ih]

theorem subdivide_frame (h : SameArith ar1 ar2) (cfg : Cfg) (fq : FQ) (sb cb : BBox) (op : Op) :
    subdivide ar1 cfg fq sb cb op = subdivide ar2 cfg fq sb cb op := by
  unfold subdivide
  simp only [sweepLoop_frame h]

/-- the whole run -/
theorem booleanOperation_frame (h : SameArith ar1 ar2) (cfg : Cfg) (subject clipping : MPoly) (op : Op) :
    booleanOperation ar1 cfg subject clipping op = booleanOperation ar2 cfg subject clipping op := by
  unfold booleanOperation
  simp only [subdivide_frame h]

end Gbo
