import Gbo.Proofs.ComparatorC
import Gbo.Spec.Valid
/-
  The atom layout of a multipolygon (one atom per ring) evaluates to the structural / even-odd reading.
-/
namespace Gbo.Spec
open Gbo Gbo.Props

def HolesMatch (atoms : Array (List Seg)) : List Nat → List Ring → Prop
  | [], [] => True
  | h :: hs, r :: rs => atoms[h]? = some (ringEdges r) ∧ HolesMatch atoms hs rs
  | _, _ => False

def PolysMatch (atoms : Array (List Seg)) : List (Nat × List Nat) → MPoly → Prop
  | [], [] => True
  | (e, hs) :: ps, p :: m => atoms[e]? = some (ringEdges p.ext) ∧ HolesMatch atoms hs p.holes ∧ PolysMatch atoms ps m
  | _, _ => False

/-- `b` extends `a` (same entries at all old positions) -/
def Extends (a b : Array (List Seg)) : Prop := ∀ (i : Nat) (x : List Seg), a[i]? = some x → b[i]? = some x

theorem Extends.refl (a : Array (List Seg)) : Extends a a := fun _ _ h => h
theorem Extends.trans {a b c : Array (List Seg)} (h1 : Extends a b) (h2 : Extends b c) : Extends a c :=
  fun i x h => h2 i x (h1 i x h)
theorem extends_push (a : Array (List Seg)) (x : List Seg) : Extends a (a.push x) := by
  intro i y h
  have hi : i < a.size := by
    by_contra hn
    rw [Array.getElem?_eq_none (by omega)] at h; cases h
  rw [Array.getElem?_push]
  have : ¬ i = a.size := by omega
  simp only [this, if_false]; exact h

theorem holesMatch_mono {a b : Array (List Seg)} (hab : Extends a b) : ∀ hs rs, HolesMatch a hs rs → HolesMatch b hs rs := by
  intro hs
  induction hs with
  | nil => intro rs h; cases rs <;> simp_all [HolesMatch]
  | cons h hs ih =>
    intro rs hm
    cases rs with
    | nil => simp [HolesMatch] at hm
    | cons r rs => exact ⟨hab _ _ hm.1, ih rs hm.2⟩

theorem polysMatch_mono {a b : Array (List Seg)} (hab : Extends a b) : ∀ ps m, PolysMatch a ps m → PolysMatch b ps m := by
  intro ps
  induction ps with
  | nil => intro m h; cases m <;> simp_all [PolysMatch]
  | cons p ps ih =>
    intro m hm
    obtain ⟨e, hs⟩ := p
    cases m with
    | nil => simp [PolysMatch] at hm
    | cons q m => exact ⟨hab _ _ hm.1, holesMatch_mono hab _ _ hm.2.1, ih m hm.2.2⟩

theorem holesMatch_snoc {a : Array (List Seg)} : ∀ hs rs (h : Nat) (r : Ring), HolesMatch a hs rs →
    a[h]? = some (ringEdges r) → HolesMatch a (hs ++ [h]) (rs ++ [r]) := by
  intro hs
  induction hs with
  | nil => intro rs h r hm hh; cases rs with
    | nil => exact ⟨hh, trivial⟩
    | cons _ _ => simp [HolesMatch] at hm
  | cons x xs ih =>
    intro rs h r hm hh
    cases rs with
    | nil => simp [HolesMatch] at hm
    | cons y ys => exact ⟨hm.1, ih ys h r hm.2 hh⟩

theorem polysMatch_snoc {a : Array (List Seg)} : ∀ ps m (e : Nat) (hs : List Nat) (p : Poly), PolysMatch a ps m →
    a[e]? = some (ringEdges p.ext) → HolesMatch a hs p.holes → PolysMatch a (ps ++ [(e, hs)]) (m ++ [p]) := by
  intro ps
  induction ps with
  | nil => intro m e hs p hm he hh; cases m with
    | nil => exact ⟨he, hh, trivial⟩
    | cons _ _ => simp [PolysMatch] at hm
  | cons x xs ih =>
    intro m e hs p hm he hh
    obtain ⟨e0, hs0⟩ := x
    cases m with
    | nil => simp [PolysMatch] at hm
    | cons y ys => exact ⟨hm.1, hm.2.1, ih ys e hs p hm.2.2 he hh⟩

/-- the fold over the holes of one polygon -/
theorem holeFold_spec : ∀ (holes : List Ring) (acc : List Nat × Array (List Seg)) (done : List Ring),
    HolesMatch acc.2 acc.1 done →
    HolesMatch (holes.foldl holeStep acc).2 (holes.foldl holeStep acc).1 (done ++ holes)
    ∧ Extends acc.2 (holes.foldl holeStep acc).2 := by
  intro holes
  induction holes with
  | nil => intro acc done h; simpa using ⟨h, Extends.refl _⟩
  | cons r rs ih =>
    intro acc done h
    simp only [List.foldl_cons]
    have hext := extends_push acc.2 (ringEdges r)
    have hstep : HolesMatch (holeStep acc r).2 (holeStep acc r).1 (done ++ [r]) := by
      simp only [holeStep]
      apply holesMatch_snoc _ _ _ _ (holesMatch_mono hext _ _ h)
      simp
    obtain ⟨h1, h2⟩ := ih (holeStep acc r) (done ++ [r]) hstep
    refine ⟨by simpa using h1, Extends.trans hext h2⟩

theorem polyFold_spec : ∀ (m : MPoly) (acc : Layout) (done : MPoly), PolysMatch acc.atoms acc.polys done →
    PolysMatch (m.foldl polyStep acc).atoms (m.foldl polyStep acc).polys (done ++ m)
    ∧ Extends acc.atoms (m.foldl polyStep acc).atoms := by
  intro m
  induction m with
  | nil => intro acc done h; simpa using ⟨h, Extends.refl _⟩
  | cons p ps ih =>
    intro acc done h
    simp only [List.foldl_cons]
    have hext1 := extends_push acc.atoms (ringEdges p.ext)
    obtain ⟨hh, hext2⟩ := holeFold_spec p.holes ([], acc.atoms.push (ringEdges p.ext)) [] trivial
    simp only [List.nil_append] at hh
    have hext : Extends acc.atoms (polyStep acc p).atoms := Extends.trans hext1 hext2
    have hstep : PolysMatch (polyStep acc p).atoms (polyStep acc p).polys (done ++ [p]) := by
      simp only [polyStep]
      apply polysMatch_snoc _ _ _ _ _ (polysMatch_mono hext _ _ h)
      · exact hext2 acc.atoms.size _ (by simp)
      · exact hh
    obtain ⟨h1, h2⟩ := ih (polyStep acc p) (done ++ [p]) hstep
    exact ⟨by simpa using h1, Extends.trans hext h2⟩

theorem layout_spec (m : MPoly) (base : Array (List Seg)) :
    PolysMatch (layout m base).atoms (layout m base).polys m ∧ Extends base (layout m base).atoms := by
  have := polyFold_spec m { polys := [], atoms := base } [] trivial
  simpa [layout] using this

/-- reading the membership vector through the layout gives the structural membership -/
theorem getElem!_map_of_getElem? (atoms : Array (List Seg)) (q : Pt) (i : Nat) (es : List Seg) (h : atoms[i]? = some es) :
    (atoms.map (fun es => memEdges es q))[i]! = memEdges es q := by
  have hi : i < atoms.size := by
    by_contra hn
    rw [Array.getElem?_eq_none (by omega)] at h; cases h
  rw [getElem!_pos _ i (by simpa using hi)]
  simp only [Array.getElem_map]
  rw [Array.getElem?_eq_getElem hi] at h
  rw [Option.some.inj h]

theorem holes_eval (atoms : Array (List Seg)) (q : Pt) : ∀ hs rs, HolesMatch atoms hs rs →
    hs.all (fun h => !(atoms.map (fun es => memEdges es q))[h]!) = rs.all (fun r => !memRing r q) := by
  intro hs
  induction hs with
  | nil => intro rs h; cases rs with
    | nil => rfl
    | cons _ _ => simp [HolesMatch] at h
  | cons h hs ih =>
    intro rs hm
    cases rs with
    | nil => simp [HolesMatch] at hm
    | cons r rs =>
      simp only [List.all_cons]
      rw [getElem!_map_of_getElem? atoms q h _ hm.1, ih rs hm.2]
      rfl

theorem evalMP_spec (atoms : Array (List Seg)) (q : Pt) : ∀ ps m, PolysMatch atoms ps m →
    ps.any (evalPoly (atoms.map (fun es => memEdges es q))) = memMP m q := by
  intro ps
  induction ps with
  | nil => intro m h; cases m with
    | nil => rfl
    | cons _ _ => simp [PolysMatch] at h
  | cons p ps ih =>
    intro m hm
    obtain ⟨e, hs⟩ := p
    cases m with
    | nil => simp [PolysMatch] at hm
    | cons y ys =>
      unfold memMP
      simp only [List.any_cons]
      have := ih ys hm.2.2
      unfold memMP at this
      rw [this]
      congr 1
      simp only [evalPoly, memPoly]
      rw [getElem!_map_of_getElem? atoms q e _ hm.1, holes_eval atoms q hs y.holes hm.2.1]
      rfl

end Gbo.Spec
