import Gbo.Proofs.Orders
import Gbo.Model.Sweep
/-
  `fill_queue`: one mutually linked left/right pair per non-degenerate input edge, the left event first in
  sweep order, exact bounding boxes.  For all inputs (arithmetic plays no role here).
-/
namespace Gbo

theorem mkPair_spec (n : Nat) (s e : Pt) (subj : Bool) (cid : Nat) (ext : Bool) (hne : s ≠ e) :
    let p := mkPair n s e subj cid ext
    p.1.point = s ∧ p.2.point = e ∧ p.1.other = some (n + 1) ∧ p.2.other = some n
    ∧ p.1.left = !p.2.left
    ∧ (p.1.left = true → ptLt s e) ∧ (p.2.left = true → ptLt e s)
    ∧ p.1.isSubject = subj ∧ p.2.isSubject = subj ∧ p.1.contourId = cid ∧ p.2.contourId = cid := by
  unfold mkPair
  refine ⟨rfl, rfl, rfl, rfl, rfl, ?_, ?_, rfl, rfl, rfl, rfl⟩
  · intro h
    rcases ptLt_trichotomy s e with h' | h' | h'
    · exact h'
    · exact absurd h' hne
    · exfalso
      have := cmpView_of_ptGt (e1 := ⟨s, false, some e, subj⟩) (e2 := ⟨e, false, some s, subj⟩) h'
      simp [this] at h
  · intro h
    rcases ptLt_trichotomy s e with h' | h' | h'
    · exfalso
      have := cmpView_of_ptLt (e1 := ⟨s, false, some e, subj⟩) (e2 := ⟨e, false, some s, subj⟩) h'
      simp [this] at h
    · exact absurd h' hne
    · exact h'

theorem push2_get_old {α} (a : Array α) (x y : α) (i : Nat) (hi : i < a.size) : ((a.push x).push y)[i]? = a[i]? := by
  rw [Array.getElem?_push, Array.getElem?_push]
  have h1 : ¬ i = a.size + 1 := by omega
  have h2 : ¬ i = a.size := by omega
  simp [h1, h2]
theorem push2_get_fst {α} (a : Array α) (x y : α) : ((a.push x).push y)[a.size]? = some x := by
  rw [Array.getElem?_push, Array.getElem?_push]
  simp [Array.size_push]
theorem push2_get_snd {α} (a : Array α) (x y : α) : ((a.push x).push y)[a.size + 1]? = some y := by
  rw [Array.getElem?_push]
  simp [Array.size_push]

/-- the pair stored at positions `2k`, `2k+1` -/
def PairAt (a : Arena) (k : Nat) : Prop :=
  ∃ e1 e2, a[2 * k]? = some e1 ∧ a[2 * k + 1]? = some e2
    ∧ e1.other = some (2 * k + 1) ∧ e2.other = some (2 * k)
    ∧ e1.left = !e2.left ∧ e1.point ≠ e2.point
    ∧ (e1.left = true → ptLt e1.point e2.point) ∧ (e2.left = true → ptLt e2.point e1.point)
    ∧ e1.isSubject = e2.isSubject ∧ e1.contourId = e2.contourId

/-- every event of the arena belongs to such a pair -/
def Paired (a : Arena) : Prop := a.size % 2 = 0 ∧ ∀ k, 2 * k + 1 < a.size → PairAt a k

theorem paired_empty : Paired (#[] : Arena) := ⟨rfl, fun k hk => by simp at hk⟩

/-- starts of the non-degenerate lines of a ring, in order -/
def ringStarts : Ring → List Pt
  | p :: q :: rest => if p = q then ringStarts (q :: rest) else p :: ringStarts (q :: rest)
  | _ => []

theorem processLine_spec (subj : Bool) (cid : Nat) (ext : Bool) (st : FQ × Option BBox) (s e : Pt)
    (hp : Paired st.1.arena) :
    let r := processLine subj cid ext st s e
    Paired r.1.arena
    ∧ r.1.arena.size = st.1.arena.size + (if s = e then 0 else 2)
    ∧ r.2 = (if s = e then st.2 else bboxAdd st.2 s)
    ∧ (∀ i, i < st.1.arena.size → r.1.arena[i]? = st.1.arena[i]?) := by
  by_cases hse : s = e
  · simp only [processLine, hse, if_true]
    exact ⟨hp, by simp, trivial, fun i _ => trivial⟩
  · obtain ⟨fq, bb⟩ := st
    obtain ⟨hev, hpairs⟩ := hp
    simp only at hev hpairs
    have hspec := mkPair_spec fq.arena.size s e subj cid ext hse
    simp only at hspec
    obtain ⟨p1, p2, o1, o2, hl, hl1, hl2, s1, s2, c1, c2⟩ := hspec
    have harena : (processLine subj cid ext (fq, bb) s e).1.arena
        = (fq.arena.push (mkPair fq.arena.size s e subj cid ext).1).push (mkPair fq.arena.size s e subj cid ext).2 := by
      simp only [processLine, hse, if_false]
    have hbb : (processLine subj cid ext (fq, bb) s e).2 = bboxAdd bb s := by
      simp only [processLine, hse, if_false]
    simp only [hse, if_false]
    rw [harena, hbb]
    refine ⟨⟨by simp only [Array.size_push]; omega, ?_⟩, by simp only [Array.size_push], rfl, ?_⟩
    · intro k hk
      simp only [Array.size_push] at hk
      by_cases hold : 2 * k + 1 < fq.arena.size
      · obtain ⟨e1, e2, g1, g2, rest⟩ := hpairs k hold
        exact ⟨e1, e2, by rw [push2_get_old _ _ _ _ (by omega)]; exact g1, by rw [push2_get_old _ _ _ _ hold]; exact g2, rest⟩
      · -- the new pair
        have hk2 : 2 * k = fq.arena.size := by omega
        refine ⟨(mkPair fq.arena.size s e subj cid ext).1, (mkPair fq.arena.size s e subj cid ext).2, ?_, ?_, ?_, ?_, hl, ?_, ?_, ?_, ?_, ?_⟩
        · rw [hk2]; exact push2_get_fst _ _ _
        · rw [hk2]; exact push2_get_snd _ _ _
        · rw [hk2]; exact o1
        · rw [hk2]; exact o2
        · rw [p1, p2]; exact hse
        · rw [p1, p2]; exact hl1
        · rw [p1, p2]; exact hl2
        · rw [s1, s2]
        · rw [c1, c2]
    · intro i hi
      exact push2_get_old _ _ _ _ hi

theorem processRing_spec (subj : Bool) (cid : Nat) (ext : Bool) (ring : Ring) :
    ∀ (st : FQ × Option BBox), Paired st.1.arena →
      let r := processRing subj cid ext st ring
      Paired r.1.arena
      ∧ r.1.arena.size = st.1.arena.size + 2 * (ringStarts ring).length
      ∧ r.2 = (ringStarts ring).foldl bboxAdd st.2 := by
  induction ring with
  | nil => intro st hp; exact ⟨hp, by simp [processRing, ringStarts], rfl⟩
  | cons p rest ih =>
    cases rest with
    | nil => intro st hp; exact ⟨hp, by simp [processRing, ringStarts], rfl⟩
    | cons q rest =>
      intro st hp
      obtain ⟨h1, h2, h3, _⟩ := processLine_spec subj cid ext st p q hp
      obtain ⟨g1, g2, g3⟩ := ih (processLine subj cid ext st p q) h1
      simp only [processRing]
      refine ⟨g1, ?_, ?_⟩
      · rw [g2, h2]
        by_cases hpq : p = q <;> simp [ringStarts, hpq] <;> omega
      · rw [g3, h3]
        by_cases hpq : p = q <;> simp [ringStarts, hpq]

/-- starts of the non-degenerate lines of all rings of a polygon -/
def polyStarts (p : Poly) : List Pt := ringStarts p.ext ++ p.holes.flatMap ringStarts

theorem processPolygon_spec (subj : Bool) (cid : Nat) (ext : Bool) (p : Poly) (st : FQ × Option BBox)
    (hp : Paired st.1.arena) :
    let r := processPolygon subj cid ext st p
    Paired r.1.arena
    ∧ r.1.arena.size = st.1.arena.size + 2 * (polyStarts p).length
    ∧ r.2 = (polyStarts p).foldl bboxAdd st.2 := by
  unfold processPolygon polyStarts
  obtain ⟨h1, h2, h3⟩ := processRing_spec subj cid ext p.ext st hp
  generalize processRing subj cid ext st p.ext = st1 at h1 h2 h3
  have : ∀ (hs : List Ring) (st1 : FQ × Option BBox), Paired st1.1.arena →
      Paired (hs.foldl (fun st h => processRing subj cid false st h) st1).1.arena
      ∧ (hs.foldl (fun st h => processRing subj cid false st h) st1).1.arena.size = st1.1.arena.size + 2 * (hs.flatMap ringStarts).length
      ∧ (hs.foldl (fun st h => processRing subj cid false st h) st1).2 = (hs.flatMap ringStarts).foldl bboxAdd st1.2 := by
    intro hs
    induction hs with
    | nil => intro st1 hp1; exact ⟨hp1, by simp, rfl⟩
    | cons h hs ih =>
      intro st1 hp1
      obtain ⟨k1, k2, k3⟩ := processRing_spec subj cid false h st1 hp1
      obtain ⟨m1, m2, m3⟩ := ih _ k1
      simp only [List.foldl_cons, List.flatMap_cons, List.length_append, List.foldl_append]
      refine ⟨m1, ?_, ?_⟩
      · rw [m2, k2]; omega
      · rw [m3, k3]
  obtain ⟨m1, m2, m3⟩ := this p.holes st1 h1
  refine ⟨m1, ?_, ?_⟩
  · rw [m2, h2, List.length_append]; omega
  · rw [m3, h3, List.foldl_append]

end Gbo
