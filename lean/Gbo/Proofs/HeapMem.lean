import Gbo.Proofs.HeapInv
/-
  Contents of the queue without any assumption on the comparison: `push` adds exactly the pushed element and
  `pop` removes exactly the popped one (as multisets), whatever `le` is.
-/
namespace Gbo.Heap

variable (le : Nat → Nat → Bool)

theorem siftUpLoop_count (elt : Nat) :
    ∀ (fuel : Nat) (d : Array Nat) (pos : Nat), pos < fuel → pos < d.size →
      (siftUpLoop le elt fuel d pos).size = d.size ∧
      ∀ v, (siftUpLoop le elt fuel d pos).count v = (d.set! pos elt).count v := by
  intro fuel
  induction fuel with
  | zero => intro d pos h; omega
  | succ fuel ih =>
    intro d pos hf hp
    rw [siftUpLoop_succ]
    split
    · rename_i hp0
      split
      · exact ⟨size_set _ _ _, fun _ => rfl⟩
      · have hq : par pos < pos := par_lt hp0
        obtain ⟨r1, r2⟩ := ih (d.set! pos d[par pos]!) (par pos) (by omega) (by rw [size_set]; omega)
        refine ⟨by rw [r1, size_set], fun v => ?_⟩
        rw [r2 v]
        have c1 := count_set_add (d.set! pos d[par pos]!) (par pos) elt v (by rw [size_set]; omega)
        rw [get_set_ne _ _ _ _ (by omega : pos ≠ par pos)] at c1
        have c2 := count_set_add d pos d[par pos]! v hp
        have c3 := count_set_add d pos elt v hp
        omega
    · exact ⟨size_set _ _ _, fun _ => rfl⟩

theorem push_count (d : Array Nat) (x : Nat) :
    (push le d x).size = d.size + 1 ∧ ∀ v, (push le d x).count v = d.count v + (if x = v then 1 else 0) := by
  unfold push siftUp
  rw [get_push_eq]
  obtain ⟨r1, r2⟩ := siftUpLoop_count le x (d.size + 1) (d.push x) d.size (by omega) (by simp)
  refine ⟨by rw [r1]; simp, fun v => ?_⟩
  rw [r2 v]
  have c1 := count_set_add (d.push x) d.size x v (by simp)
  rw [get_push_eq] at c1
  have c2 : (d.push x).count v = d.count v + (if x = v then 1 else 0) := by
    rw [Array.count_push]
    by_cases hxv : x = v <;> simp [hxv]
  omega

theorem siftDownLoop_count (n : Nat) :
    ∀ (fuel : Nat) (d : Array Nat) (pos : Nat), d.size = n → pos < n →
      (siftDownLoop le n fuel d pos).1.size = n ∧ (siftDownLoop le n fuel d pos).2 < n ∧
      ∀ elt v, ((siftDownLoop le n fuel d pos).1.set! (siftDownLoop le n fuel d pos).2 elt).count v =
        (d.set! pos elt).count v := by
  intro fuel
  induction fuel with
  | zero => intro d pos hn hp; exact ⟨hn, hp, fun _ _ => rfl⟩
  | succ fuel ih =>
    intro d pos hn hp
    rw [siftDownLoop_succ]
    split
    · rename_i h2
      have hbc : bigChild le d pos = 2 * pos + 1 ∨ bigChild le d pos = 2 * pos + 2 := by
        unfold bigChild; split <;> simp
      have hcn : bigChild le d pos < d.size := by rcases hbc with h | h <;> omega
      have hcpos : pos ≠ bigChild le d pos := by rcases hbc with h | h <;> omega
      obtain ⟨r1, r2, r3⟩ := ih (d.set! pos d[bigChild le d pos]!) (bigChild le d pos) (by rw [size_set]; exact hn) (by omega)
      refine ⟨r1, r2, fun elt v => ?_⟩
      rw [r3 elt v]
      exact count_move d pos _ elt v (by omega) hcn hcpos
    · split
      · rename_i _ h1
        refine ⟨by rw [size_set]; exact hn, by omega, fun elt v => ?_⟩
        exact count_move d pos _ elt v (by omega) (by omega) (by omega)
      · exact ⟨hn, hp, fun _ _ => rfl⟩

theorem siftDownToBottom_count (d : Array Nat) (h : 0 < d.size) :
    (siftDownToBottom le d).size = d.size ∧ ∀ v, (siftDownToBottom le d).count v = d.count v := by
  obtain ⟨r1, r2, r3⟩ := siftDownLoop_count le d.size d.size d 0 rfl h
  unfold siftDownToBottom
  generalize siftDownLoop le d.size d.size d 0 = r at r1 r2 r3
  obtain ⟨d', pos⟩ := r
  simp only at r1 r2 r3 ⊢
  obtain ⟨s1, s2⟩ := siftUpLoop_count le d[0]! (pos + 1) d' pos (by omega) (by omega)
  refine ⟨by rw [s1, r1], fun v => ?_⟩
  rw [s2 v, r3 d[0]! v]
  have c1 := count_set_add d 0 d[0]! v h
  omega

theorem pop_count (d : Array Nat) (top : Nat) (d' : Array Nat) (h : pop le d = some (top, d')) :
    d'.size + 1 = d.size ∧ ∀ v, d'.count v + (if top = v then 1 else 0) = d.count v := by
  unfold pop at h
  by_cases h0 : d.size = 0
  · simp [h0] at h
  · simp only [h0, if_false] at h
    have hpos : 0 < d.size := Nat.pos_of_ne_zero h0
    by_cases h1 : d.pop.size = 0
    · simp only [h1, if_true, Option.some.injEq, Prod.mk.injEq] at h
      obtain ⟨ht, hd⟩ := h
      subst hd
      refine ⟨by simp; omega, fun v => ?_⟩
      have := count_pop d hpos v
      rw [ht] at this
      exact this
    · simp only [h1, if_false, Option.some.injEq, Prod.mk.injEq] at h
      obtain ⟨ht, hd⟩ := h
      have hsz : 2 ≤ d.size := by simp at h1; omega
      have hpsz : d.pop.size = d.size - 1 := by simp
      obtain ⟨r3, r4⟩ := siftDownToBottom_count le (d.pop.set! 0 d[d.size - 1]!) (by rw [size_set, hpsz]; omega)
      rw [hd] at r3 r4
      refine ⟨by rw [r3, size_set, hpsz]; omega, fun v => ?_⟩
      rw [r4 v]
      have c1 := count_set_add d.pop 0 d[d.size - 1]! v (by rw [hpsz]; omega)
      rw [get_pop d 0 (by omega)] at c1
      have c2 := count_pop d hpos v
      have htop : top = d[0]! := by rw [← ht, get_pop d 0 (by omega)]
      rw [htop]
      omega

/-- membership forms -/
theorem mem_push (d : Array Nat) (x v : Nat) (h : v ∈ (push le d x).toList) : v = x ∨ v ∈ d.toList := by
  have hc : 0 < (push le d x).count v := Array.count_pos_iff.mpr (Array.mem_toList_iff.mp h)
  rw [(push_count le d x).2 v] at hc
  by_cases hxv : x = v
  · exact Or.inl hxv.symm
  · right
    simp only [hxv, if_false, Nat.add_zero] at hc
    exact Array.mem_toList_iff.mpr (Array.count_pos_iff.mp hc)

theorem mem_pop (d : Array Nat) (top : Nat) (d' : Array Nat) (h : pop le d = some (top, d')) :
    top ∈ d.toList ∧ ∀ v, v ∈ d'.toList → v ∈ d.toList := by
  obtain ⟨_, hc⟩ := pop_count le d top d' h
  constructor
  · have := hc top
    simp only [if_true] at this
    exact Array.mem_toList_iff.mpr (Array.count_pos_iff.mp (by omega))
  · intro v hv
    have hp : 0 < d'.count v := Array.count_pos_iff.mpr (Array.mem_toList_iff.mp hv)
    have := hc v
    exact Array.mem_toList_iff.mpr (Array.count_pos_iff.mp (by omega))

end Gbo.Heap
