import Gbo.Proofs.Links
/-
  Arena invariants through the whole sweep: a property of the arena that `compute_fields`, `divide_segment`
  and the edge-type marking preserve is preserved by `subdivide`.  Instantiated with the mutual linking of
  event pairs.
-/
namespace Gbo

theorem computeFields_size (a : Arena) (e : Nat) (prev : Option Nat) (op : Op) :
    (computeFields a e prev op).size = a.size := by
  unfold computeFields; simp

theorem computeFields_other (a : Arena) (e : Nat) (prev : Option Nat) (op : Op) (j : Nat) :
    (computeFields a e prev op)[j]!.other = a[j]!.other := by
  unfold computeFields
  simp only
  exact get!_modify_other_keep a e j _ (fun _ => rfl)

theorem computeFields_links (a : Arena) (e : Nat) (prev : Option Nat) (op : Op) (hl : MutualLinks a) :
    MutualLinks (computeFields a e prev op) := by
  intro i hi o ho
  rw [computeFields_size] at hi
  rw [computeFields_other] at ho
  obtain ⟨h1, h2, h3⟩ := hl i hi o ho
  exact ⟨by rw [computeFields_size]; exact h1, h2, by rw [computeFields_other]; exact h3⟩

/-- the hypotheses under which an arena property survives the sweep: `compute_fields` and
    `possible_intersection` preserve it (nothing else in the loop writes to the arena) -/
structure SweepStable (ar : Arith) (P : Arena → Prop) : Prop where
  fields : ∀ (a : Arena) (e : Nat) (prev : Option Nat) (op : Op), P a → P (computeFields a e prev op)
  pi : ∀ (cfg : Cfg) (st st' : SwSt) (se1 se2 r : Nat),
      possibleIntersection ar cfg st se1 se2 = .ok (r, st') → P st.arena → P st'.arena

/-- … which follows when `divide_segment` (at any point) and the edge-type marking preserve it -/
theorem SweepStable.of_divide (ar : Arith) {P : Arena → Prop}
    (fields : ∀ (a : Arena) (e : Nat) (prev : Option Nat) (op : Op), P a → P (computeFields a e prev op))
    (divide : ∀ (ar : Arith) (cfg : Cfg) (st st' : SwSt) (idx : Nat) (p : Pt),
      divideSegment ar cfg st idx p = .ok st' → P st.arena → P st'.arena)
    (mark : ∀ (a : Arena) (se1 se2 : Nat), P a → P (markCoincident a se1 se2)) : SweepStable ar P :=
  ⟨fields, fun cfg st st' se1 se2 r h hP => possibleIntersection_preserves P divide mark ar cfg st st' se1 se2 r h hP⟩

theorem checkNext_preserves {P : Arena → Prop} (ar : Arith) (hs : SweepStable ar P) (cfg : Cfg) (op : Op)
    (st st' : SwSt) (event : Nat) (prev next : Option Nat)
    (h : checkNext ar cfg op st event prev next = .ok st') (hP : P st.arena) : P st'.arena := by
  unfold checkNext at h
  cases next with
  | none => simp only [pure, Except.pure, Except.ok.injEq] at h; rw [← h]; exact hP
  | some nx =>
    simp only at h
    obtain ⟨x, e1, h⟩ := bind_ok _ _ _ h
    obtain ⟨code, st1⟩ := x
    have x1 : P st1.arena := hs.pi cfg st st1 event nx code e1 hP
    simp only at h
    split at h
    · simp only [pure, Except.pure, Except.ok.injEq] at h
      rw [← h]
      simp only
      exact hs.fields _ _ _ _ (hs.fields _ _ _ _ x1)
    · simp only [pure, Except.pure, Except.ok.injEq] at h
      rw [← h]; exact x1

theorem checkPrev_preserves {P : Arena → Prop} (ar : Arith) (hs : SweepStable ar P) (cfg : Cfg) (op : Op)
    (st st' : SwSt) (event : Nat) (prev : Option Nat)
    (h : checkPrev ar cfg op st event prev = .ok st') (hP : P st.arena) : P st'.arena := by
  unfold checkPrev at h
  cases prev with
  | none => simp only [pure, Except.pure, Except.ok.injEq] at h; rw [← h]; exact hP
  | some pv =>
    simp only at h
    obtain ⟨x, e1, h⟩ := bind_ok _ _ _ h
    obtain ⟨code, st1⟩ := x
    have x1 : P st1.arena := hs.pi cfg st st1 pv event code e1 hP
    simp only at h
    split at h
    · simp only [pure, Except.pure, Except.ok.injEq] at h
      rw [← h]
      simp only
      exact hs.fields _ _ _ _ (hs.fields _ _ _ _ x1)
    · simp only [pure, Except.pure, Except.ok.injEq] at h
      rw [← h]; exact x1

theorem checkRemoval_preserves {P : Arena → Prop} (ar : Arith) (hs : SweepStable ar P) (cfg : Cfg)
    (st st' : SwSt) (prev next : Option (Nat × Unit))
    (h : checkRemoval ar cfg st prev next = .ok st') (hP : P st.arena) : P st'.arena := by
  unfold checkRemoval at h
  split at h
  · obtain ⟨x, e1, h⟩ := bind_ok _ _ _ h
    obtain ⟨code, st1⟩ := x
    simp only [pure, Except.pure, Except.ok.injEq] at h
    rw [← h]; exact hs.pi cfg st st1 _ _ code e1 hP
  · simp only [pure, Except.pure, Except.ok.injEq] at h
    rw [← h]; exact hP

theorem sweepStep_preserves {P : Arena → Prop} (ar : Arith) (hs : SweepStable ar P) (cfg : Cfg) (op : Op)
    (rightbound sbMaxX : Rat) (st st' : SwSt) (event : Nat) (b : Bool)
    (h : sweepStep ar cfg op rightbound sbMaxX st event = .ok (b, st')) (hP : P st.arena) : P st'.arena := by
  unfold sweepStep at h
  simp only at h
  split at h
  · simp only [pure, Except.pure, Except.ok.injEq, Prod.mk.injEq] at h
    rw [← h.2]; exact hP
  · split at h
    · -- a left event: insertion
      split at h
      · simp [throw, throwThe, MonadExceptOf.throw, bind, Except.bind] at h
      · obtain ⟨st1, e1, h⟩ := bind_ok _ _ _ h
        have x1 : P st1.arena := checkNext_preserves ar hs cfg op _ st1 event _ _ e1 (hs.fields _ _ _ _ hP)
        obtain ⟨st2, e2, h⟩ := bind_ok _ _ _ h
        have x2 : P st2.arena := checkPrev_preserves ar hs cfg op st1 st2 event _ e2 x1
        simp only [pure, Except.pure, Except.ok.injEq, Prod.mk.injEq] at h
        rw [← h.2]; exact x2
    · -- a right event: removal
      split at h
      · simp only [pure, Except.pure, Except.ok.injEq, Prod.mk.injEq] at h
        rw [← h.2]; exact hP
      · rename_i other _
        by_cases hd : cfg.dbg = true
        · simp only [hd, if_true, Bool.true_and] at h
          split at h
          · simp [throw, throwThe, MonadExceptOf.throw, bind, Except.bind] at h
          · split at h
            · simp only [pure, Except.pure, Except.ok.injEq, Prod.mk.injEq] at h
              rw [← h.2]; exact hP
            · obtain ⟨st1, e1, h⟩ := bind_ok _ _ _ h
              have x1 : P st1.arena := checkRemoval_preserves ar hs cfg _ st1 _ _ e1 hP
              simp only [pure, Except.pure, Except.ok.injEq, Prod.mk.injEq] at h
              rw [← h.2]; exact x1
        · have hd' : cfg.dbg = false := by simpa using hd
          simp only [hd', Bool.false_eq_true, if_false, Bool.false_and] at h
          split at h
          · simp only [pure, Except.pure, Except.ok.injEq, Prod.mk.injEq] at h
            rw [← h.2]; exact hP
          · obtain ⟨st1, e1, h⟩ := bind_ok _ _ _ h
            have x1 : P st1.arena := checkRemoval_preserves ar hs cfg _ st1 _ _ e1 hP
            simp only [pure, Except.pure, Except.ok.injEq, Prod.mk.injEq] at h
            rw [← h.2]; exact x1

theorem sweepLoop_preserves {P : Arena → Prop} (ar : Arith) (hs : SweepStable ar P) (cfg : Cfg) (op : Op)
    (rightbound sbMaxX : Rat) :
    ∀ (fuel : Nat) (st st' : SwSt), sweepLoop ar cfg op rightbound sbMaxX fuel st = .ok st' → P st.arena → P st'.arena := by
  intro fuel
  induction fuel with
  | zero => intro st st' h; simp [sweepLoop] at h
  | succ fuel ih =>
    intro st st' h hP
    unfold sweepLoop at h
    split at h
    · simp only [Except.ok.injEq] at h; rw [← h]; exact hP
    · simp only at h
      split at h
      · simp at h
      · split at h
        · simp at h
        · rename_i st1 hstep
          simp only [Except.ok.injEq] at h
          rw [← h]
          exact sweepStep_preserves ar hs cfg op rightbound sbMaxX _ st1 _ true hstep hP
        · rename_i st1 hstep
          exact ih st1 st' h (sweepStep_preserves ar hs cfg op rightbound sbMaxX _ st1 _ false hstep hP)

/-- a sweep-stable property of the queue's arena holds for the arena `subdivide` returns -/
theorem subdivide_preserves {P : Arena → Prop} (ar : Arith) (hs : SweepStable ar P) (cfg : Cfg) (fq : FQ) (sb cb : BBox)
    (op : Op) (sw : SweepOut) (h : subdivide ar cfg fq sb cb op = .ok sw) (hP : P fq.arena) : P sw.arena := by
  unfold subdivide at h
  simp only at h
  split at h
  · simp at h
  · rename_i st hl
    simp only [Except.ok.injEq] at h
    rw [← h]
    exact sweepLoop_preserves ar hs cfg op _ _ _ _ st hl hP

theorem mutualLinks_stable (ar : Arith) : SweepStable ar MutualLinks :=
  SweepStable.of_divide ar (fun a e prev op h => computeFields_links a e prev op h)
   (fun ar cfg st st' idx p h hl => divideSegment_links ar cfg st st' idx p h hl)
   (fun a se1 se2 hl => markCoincident_links a se1 se2 hl)

end Gbo
