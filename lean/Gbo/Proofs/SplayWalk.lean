import Gbo.Proofs.SplayRefine
/-
  Successor / predecessor walks, min / max, the consuming iterators.
-/
namespace Gbo
namespace Tree
variable {K V : Type}

theorem succWalk_spec {cmp : K → K → Ordering} (h : LawfulCmp cmp) (key : K) (t : Tree K V) (hb : Bst cmp t) (acc : Option (K × V)) :
    succWalk cmp key t acc = (match sNext cmp key (inorder t) with | some x => some x | none => acc) := by
  induction t generalizing acc with
  | nil => rfl
  | node l k v r ihl ihr =>
    rw [bst_node_iff] at hb
    obtain ⟨hbl, hbr, hlk, hkr, _⟩ := hb
    simp only [succWalk, sNext, inorder, List.find?_append]
    cases hc : cmp key k
    · -- lt
      simp only [List.find?_cons, hc, beq_self_eq_true]
      rw [ihl hbl]
      simp only [sNext]
      cases List.find? (fun x => cmp key x.1 == .lt) (inorder l) <;> rfl
    · -- eq
      have hnone : List.find? (fun x => cmp key x.1 == .lt) (inorder l) = none := by
        rw [List.find?_eq_none]
        intro x hx
        have := h.eq_gt hc ((h.gt_iff _ _).2 (hlk x hx))
        simp [this]
      simp only [hnone, Option.none_or, List.find?_cons, hc]
      rw [ihr hbr]; rfl
    · -- gt
      have hnone : List.find? (fun x => cmp key x.1 == .lt) (inorder l) = none := by
        rw [List.find?_eq_none]
        intro x hx
        have := h.gt_trans hc ((h.gt_iff _ _).2 (hlk x hx))
        simp [this]
      simp only [hnone, Option.none_or, List.find?_cons, hc]
      rw [ihr hbr]; rfl

theorem filter_all_false {α} (p : α → Bool) (l : List α) (h : ∀ x ∈ l, p x = false) : l.filter p = [] := by
  rw [List.filter_eq_nil_iff]; intro x hx; simp [h x hx]

theorem getLast?_append_cons {α} (l m : List α) (x : α) : (l ++ x :: m).getLast? = (x :: m).getLast? := by
  rw [List.getLast?_append]
  cases h : (x :: m).getLast? with
  | none => simp at h
  | some z => rfl

theorem predWalk_spec {cmp : K → K → Ordering} (h : LawfulCmp cmp) (key : K) (t : Tree K V) (hb : Bst cmp t) (acc : Option (K × V)) :
    predWalk cmp key t acc = (match sPrev cmp key (inorder t) with | some x => some x | none => acc) := by
  induction t generalizing acc with
  | nil => rfl
  | node l k v r ihl ihr =>
    rw [bst_node_iff] at hb
    obtain ⟨hbl, hbr, hlk, hkr, _⟩ := hb
    simp only [predWalk, sPrev, inorder, List.filter_append, List.filter_cons]
    cases hc : cmp key k
    · -- lt: everything right of k is above key as well
      have hr0 : (inorder r).filter (fun x => cmp key x.1 == .gt) = [] := by
        apply filter_all_false; intro y hy
        have := h.lt_trans hc (hkr y hy); simp [this]
      simp only [hr0, hc]
      rw [ihl hbl]
      simp [sPrev]
    · -- eq
      have hr0 : (inorder r).filter (fun x => cmp key x.1 == .gt) = [] := by
        apply filter_all_false; intro y hy
        have := h.eq_lt hc (hkr y hy); simp [this]
      simp only [hr0, hc]
      rw [ihl hbl]
      simp [sPrev]
    · -- gt
      simp only [hc, beq_self_eq_true, if_true]
      rw [ihr hbr]
      simp only [sPrev]
      rw [getLast?_append_cons]
      cases hf : (inorder r).filter (fun x => cmp key x.1 == .gt) with
      | nil => simp
      | cons y ys =>
        rw [show ((k, v) :: y :: ys) = [(k, v)] ++ y :: ys by rfl, getLast?_append_cons]
        cases hl : (y :: ys).getLast? with
        | none => simp at hl
        | some z => rfl

theorem minKey_spec (t : Tree K V) : minKey t = (inorder t).head?.map (·.1) := by
  fun_induction minKey t with
  | case1 => rfl
  | case2 k v r => simp [inorder]
  | case3 a b c d k v r ih =>
    rw [ih]
    simp only [inorder]
    cases h : inorder a ++ (b, c) :: inorder d with
    | nil => simp at h
    | cons x xs => simp

theorem maxKey_spec (t : Tree K V) : maxKey t = (inorder t).getLast?.map (·.1) := by
  fun_induction maxKey t with
  | case1 => rfl
  | case2 l k v => simp [inorder]
  | case3 l k v a b c d ih =>
    rw [ih]
    simp only [inorder]
    rw [show inorder l ++ (k, v) :: (inorder a ++ (b, c) :: inorder d)
          = (inorder l ++ (k, v) :: inorder a) ++ (b, c) :: inorder d by simp]
    rw [getLast?_append_cons, getLast?_append_cons]

theorem iterNextLoop_spec (l : Tree K V) (k : K) (v : V) (r : Tree K V) :
    let res := iterNextLoop l k v r
    (res.1, res.2.1) :: inorder res.2.2 = inorder l ++ (k, v) :: inorder r := by
  induction l generalizing k v r with
  | nil => simp [iterNextLoop, inorder]
  | node ll lk lv lr ihl _ =>
    simp only [iterNextLoop]
    have := ihl lk lv (node lr k v r)
    simp only [inorder] at this ⊢
    rw [this]
    simp

theorem iterBackLoop_spec (l : Tree K V) (k : K) (v : V) (r : Tree K V) :
    let res := iterBackLoop l k v r
    inorder res.2.2 ++ [(res.1, res.2.1)] = inorder l ++ (k, v) :: inorder r := by
  induction r generalizing l k v with
  | nil => simp [iterBackLoop, inorder]
  | node rl rk rv rr _ ihr =>
    simp only [iterBackLoop]
    have := ihr (node l k v rl) rk rv
    simp only [inorder] at this ⊢
    rw [this]
    simp

end Tree
end Gbo
