import Gbo.Proofs.StateInv
import Gbo.Proofs.FillValid
/-
  Conservation of events: at every moment of the sweep every event of the arena is either still in the queue
  or already recorded in `sorted_events`, exactly once in total.  Hence no event is processed twice, and when
  the queue runs empty (union and xor have no early exit) every event has been processed exactly once.
-/
namespace Gbo

theorem once_arith (n v : Nat) :
    (if v < n then 1 else 0) + (if n = v then 1 else 0) + (if n + 1 = v then 1 else 0) =
      (if v < n + 1 + 1 then 1 else 0 : Nat) := by
  split <;> split <;> split <;> split <;> omega

theorem once_arith' (n v : Nat) :
    (if v < n then 1 else 0) + (if n + 1 = v then 1 else 0) + (if n = v then 1 else 0) =
      (if v < n + 2 then 1 else 0 : Nat) := by
  split <;> split <;> split <;> split <;> omega

/-- the queue `fill_queue` builds holds every index of its arena exactly once and nothing else -/
def HeapOnce (fq : FQ) : Prop := ∀ v, fq.heap.count v = if v < fq.arena.size then 1 else 0

theorem processLine_once (subj : Bool) (cid : Nat) (ext : Bool) (st : FQ × Option BBox) (s e : Pt)
    (h : HeapOnce st.1) : HeapOnce (processLine subj cid ext st s e).1 := by
  unfold processLine
  split
  · exact h
  · obtain ⟨fq, bb⟩ := st
    simp only
    intro v
    simp only [Array.size_push]
    rw [(Heap.push_count _ _ _).2 v, (Heap.push_count _ _ _).2 v]
    have := h v
    simp only at this
    rw [this]
    exact once_arith fq.arena.size v

theorem processRing_once (subj : Bool) (cid : Nat) (ext : Bool) (ring : Ring) :
    ∀ (st : FQ × Option BBox), HeapOnce st.1 → HeapOnce (processRing subj cid ext st ring).1 := by
  induction ring with
  | nil => intro st h; simpa [processRing] using h
  | cons p rest ih =>
    cases rest with
    | nil => intro st h; simpa [processRing] using h
    | cons q rest =>
      intro st h
      simp only [processRing]
      exact ih _ (processLine_once subj cid ext st p q h)

theorem foldl_once {α : Type} (step : FQ × Option BBox → α → FQ × Option BBox)
    (hstep : ∀ st x, HeapOnce st.1 → HeapOnce (step st x).1) :
    ∀ (xs : List α) (st : FQ × Option BBox), HeapOnce st.1 → HeapOnce (xs.foldl step st).1 := by
  intro xs
  induction xs with
  | nil => intro st h; exact h
  | cons x xs ih => intro st h; exact ih _ (hstep st x h)

theorem processPolygon_once (subj : Bool) (cid : Nat) (ext : Bool) (st : FQ × Option BBox) (p : Poly)
    (h : HeapOnce st.1) : HeapOnce (processPolygon subj cid ext st p).1 := by
  unfold processPolygon
  simp only
  exact foldl_once _ (fun st hole hv => processRing_once subj cid false hole st hv) _ _
    (processRing_once subj cid ext p.ext st h)

/-- **`fill_queue` queues every event it creates exactly once** -/
theorem fillQueue_once (a b : MPoly) (op : Op) : HeapOnce (fillQueue a b op).fq := by
  unfold fillQueue
  simp only
  have hsub : ∀ (ps : List Poly) (acc : Nat × FQ × Option BBox), HeapOnce acc.2.1 →
      HeapOnce (ps.foldl subjStep acc).2.1 := by
    intro ps
    induction ps with
    | nil => intro acc h; exact h
    | cons p ps ih =>
      intro acc h
      simp only [List.foldl_cons]
      apply ih
      unfold subjStep
      exact processPolygon_once true _ true (acc.2.1, acc.2.2) p h
  have hclip : ∀ (ps : List Poly) (acc : Nat × FQ × Option BBox), HeapOnce acc.2.1 →
      HeapOnce (ps.foldl (clipStep op) acc).2.1 := by
    intro ps
    induction ps with
    | nil => intro acc h; exact h
    | cons p ps ih =>
      intro acc h
      simp only [List.foldl_cons]
      apply ih
      unfold clipStep
      exact processPolygon_once false _ _ (acc.2.1, acc.2.2) p h
  apply hclip
  apply hsub
  intro v
  simp

/-- every event of the arena is in the queue or in `sorted_events`, once in total; nothing else is -/
def Once (st : SwSt) : Prop :=
  ∀ v, st.heap.count v + st.sorted.count v = if v < st.arena.size then 1 else 0

theorem once_congr : InvCongr Once := by
  intro st st2 hsz hh hso h v
  rw [hsz, hh, hso]; exact h v

theorem once_divide : InvDivide Once := by
  intro ar cfg st st' idx p hd h
  rcases divideSegment_state ar cfg st st' idx p hd with he | ⟨seR, A, hA, hAd, hheap, hsorted, _⟩
  · rw [he]; exact h
  · have hsz : st'.arena.size = st.arena.size + 2 := by rw [hA, hAd, divideArena_size]
    intro v
    rw [hheap, hsorted, hsz, (Heap.push_count _ _ _).2 v, (Heap.push_count _ _ _).2 v]
    have := h v
    have key := once_arith' st.arena.size v
    omega

/-- the loop: pop an event, record it, process it -/
theorem sweepLoop_once (ar : Arith) (cfg : Cfg) (op : Op) (rightbound sbMaxX : Rat) :
    ∀ (fuel : Nat) (st st' : SwSt), sweepLoop ar cfg op rightbound sbMaxX fuel st = .ok st' → Once st → Once st' := by
  intro fuel
  induction fuel with
  | zero => intro st st' h; simp [sweepLoop] at h
  | succ fuel ih =>
    intro st st' h hP
    unfold sweepLoop at h
    split at h
    · simp only [Except.ok.injEq] at h; rw [← h]; exact hP
    · rename_i event hp hpop
      have hcnt := (Heap.pop_count _ _ _ _ hpop).2
      have h0 : Once { ({ st with heap := hp, popped := st.popped + 1 } : SwSt) with
          sorted := st.sorted.push event } := by
        intro v
        have a1 := hP v
        have a2 := hcnt v
        show hp.count v + (st.sorted.push event).count v = if v < st.arena.size then 1 else 0
        rw [Array.count_push]
        by_cases hev : event = v
        · simp only [hev, if_true, beq_self_eq_true] at a2 ⊢
          omega
        · have hb : (event == v) = false := by simpa using hev
          simp only [hev, if_false, hb, Bool.false_eq_true] at a2 ⊢
          omega
      simp only at h
      split at h
      · simp at h
      · split at h
        · simp at h
        · rename_i st1 hstep
          simp only [Except.ok.injEq] at h
          rw [← h]
          exact sweepStep_inv Once once_congr once_divide ar cfg op rightbound sbMaxX _ st1 event true hstep h0
        · rename_i st1 hstep
          exact ih st1 st' h
            (sweepStep_inv Once once_congr once_divide ar cfg op rightbound sbMaxX _ st1 event false hstep h0)

/-- union and xor have no early exit: `sweepStep` never asks the loop to stop -/
theorem sweepStep_no_exit (ar : Arith) (cfg : Cfg) (op : Op) (rightbound sbMaxX : Rat) (st st' : SwSt) (event : Nat)
    (b : Bool) (hop : op = .union ∨ op = .xor)
    (h : sweepStep ar cfg op rightbound sbMaxX st event = .ok (b, st')) : b = false := by
  unfold sweepStep at h
  simp only at h
  split at h
  · rename_i hc
    rcases hop with hop | hop <;> subst hop <;> simp at hc
  · split at h
    · split at h
      · simp [throw, throwThe, MonadExceptOf.throw, bind, Except.bind] at h
      · obtain ⟨st1, e1, h⟩ := bind_ok _ _ _ h
        obtain ⟨st2, e2, h⟩ := bind_ok _ _ _ h
        simp only [pure, Except.pure, Except.ok.injEq, Prod.mk.injEq] at h
        exact h.1.symm
    · split at h
      · simp only [pure, Except.pure, Except.ok.injEq, Prod.mk.injEq] at h
        exact h.1.symm
      · by_cases hd : cfg.dbg = true
        · simp only [hd, if_true, Bool.true_and] at h
          split at h
          · simp [throw, throwThe, MonadExceptOf.throw, bind, Except.bind] at h
          · split at h
            · simp only [pure, Except.pure, Except.ok.injEq, Prod.mk.injEq] at h
              exact h.1.symm
            · obtain ⟨st1, e1, h⟩ := bind_ok _ _ _ h
              simp only [pure, Except.pure, Except.ok.injEq, Prod.mk.injEq] at h
              exact h.1.symm
        · have hd' : cfg.dbg = false := by simpa using hd
          simp only [hd', Bool.false_eq_true, if_false, Bool.false_and] at h
          split at h
          · simp only [pure, Except.pure, Except.ok.injEq, Prod.mk.injEq] at h
            exact h.1.symm
          · obtain ⟨st1, e1, h⟩ := bind_ok _ _ _ h
            simp only [pure, Except.pure, Except.ok.injEq, Prod.mk.injEq] at h
            exact h.1.symm

/-- so for union and xor the loop ends only when the queue is empty -/
theorem sweepLoop_drains (ar : Arith) (cfg : Cfg) (op : Op) (rightbound sbMaxX : Rat) (hop : op = .union ∨ op = .xor) :
    ∀ (fuel : Nat) (st st' : SwSt), sweepLoop ar cfg op rightbound sbMaxX fuel st = .ok st' → st'.heap.size = 0 := by
  intro fuel
  induction fuel with
  | zero => intro st st' h; simp [sweepLoop] at h
  | succ fuel ih =>
    intro st st' h
    unfold sweepLoop at h
    split at h
    · rename_i hpop
      simp only [Except.ok.injEq] at h; rw [← h]
      exact (Heap.pop_none_iff _ _).mp hpop
    · simp only at h
      split at h
      · simp at h
      · split at h
        · simp at h
        · rename_i st1 hstep
          have := sweepStep_no_exit ar cfg op rightbound sbMaxX _ st1 _ true hop hstep
          cases this
        · rename_i st1 hstep
          exact ih st1 st' h

/-- **no event is processed twice**: `sorted_events` as returned by `subdivide` has no duplicates (and, by
    `subdivide_sorted_valid`, only holds events of the arena), provided the queue held every event of its
    arena once (`fillQueue_once`) -/
theorem subdivide_sorted_nodup (ar : Arith) (cfg : Cfg) (fq : FQ) (sb cb : BBox) (op : Op) (sw : SweepOut)
    (h : subdivide ar cfg fq sb cb op = .ok sw) (hq : HeapOnce fq) : sw.sorted.toList.Nodup := by
  unfold subdivide at h
  simp only at h
  split at h
  · simp at h
  · rename_i st hl
    simp only [Except.ok.injEq] at h
    rw [← h]
    have h0 : Once ({ arena := fq.arena, heap := fq.heap } : SwSt) := by
      intro v; simpa using hq v
    have hfin := sweepLoop_once ar cfg op _ _ _ _ st hl h0
    apply List.nodup_iff_count.mpr
    intro v
    rw [Array.count_toList]
    show st.sorted.count v ≤ 1
    have := hfin v
    split at this <;> omega

/-- **union and xor process every event exactly once**: `sorted_events` is a rearrangement of all indices of
    the returned arena -/
theorem subdivide_sorted_perm (ar : Arith) (cfg : Cfg) (fq : FQ) (sb cb : BBox) (op : Op) (sw : SweepOut)
    (hop : op = .union ∨ op = .xor)
    (h : subdivide ar cfg fq sb cb op = .ok sw) (hq : HeapOnce fq) :
    sw.sorted.toList.Perm (List.range sw.arena.size) := by
  unfold subdivide at h
  simp only at h
  split at h
  · simp at h
  · rename_i st hl
    simp only [Except.ok.injEq] at h
    rw [← h]
    have h0 : Once ({ arena := fq.arena, heap := fq.heap } : SwSt) := by
      intro v; simpa using hq v
    have hfin := sweepLoop_once ar cfg op _ _ _ _ st hl h0
    have hempty := sweepLoop_drains ar cfg op _ _ hop _ _ st hl
    apply List.perm_iff_count.mpr
    intro v
    rw [Array.count_toList, List.count_range]
    have hz : st.heap.count v = 0 := by
      have : st.heap = #[] := Array.eq_empty_of_size_eq_zero hempty
      rw [this]; simp
    have := hfin v
    show st.sorted.count v = if v < st.arena.size then 1 else 0
    omega

end Gbo
