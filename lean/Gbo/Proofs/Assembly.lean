import Gbo.Proofs.HoleLinks
/-
  The bookkeeping of `connect_edges` (`hole_of`, `hole_ids`) through the whole contour loop, and what the final
  assembly in `boolean_operation` makes of it: every traced contour becomes exactly one ring of the result --
  an exterior contour the shell of its own polygon, a hole contour an interior of the polygon of the contour
  it names as its parent.
-/
namespace Gbo

def pushHole (cid : Int) (c : Contour) : Contour := { c with holeIds := c.holeIds.push cid }

/-- `initialize_from_context`, complete: the new contour has no holes yet; if it is a hole of `p`, the list of
    contours changes in exactly one place (its id is appended to `p`'s holes), and `p` is either a contour
    that is no hole itself or the parent of an existing contour -/
theorem initializeFromContext_spec (cfg : Cfg) (a : Arena) (event : Nat) (cs cs' : Array Contour)
    (cid : Int) (c : Contour) (h : initializeFromContext cfg a event cs cid = .ok (c, cs')) :
    c.holeIds = #[] ∧
    (match c.holeOf with
     | none => cs' = cs
     | some p => idxOk cs.size p = true ∧ cs' = cs.modify p.toNat (pushHole cid) ∧
         (cs[p.toNat]!.holeOf = none ∨ ∃ l : Int, idxOk cs.size l = true ∧ cs[l.toNat]!.holeOf = some p)) := by
  unfold initializeFromContext at h
  split at h
  · simp only [Except.ok.injEq, Prod.mk.injEq] at h
    obtain ⟨hc, hcs⟩ := h
    subst hc; subst hcs
    exact ⟨rfl, rfl⟩
  · simp only at h
    split at h
    · split at h
      · simp at h
      · rename_i hlow
        split at h
        · rename_i parent hpar
          split at h
          · simp at h
          · rename_i hpok
            simp only [Except.ok.injEq, Prod.mk.injEq] at h
            obtain ⟨hc, hcs⟩ := h
            subst hc; subst hcs
            have hp : idxOk cs.size parent = true := by simpa using hpok
            refine ⟨rfl, hp, rfl, Or.inr ⟨_, by simpa using hlow, hpar⟩⟩
        · rename_i hnone
          simp only [Except.ok.injEq, Prod.mk.injEq] at h
          obtain ⟨hc, hcs⟩ := h
          subst hc; subst hcs
          have hp : idxOk cs.size (a[‹Nat›]!.outputContourId) = true := by simpa using hlow
          exact ⟨rfl, hp, rfl, Or.inl hnone⟩
    · split at h
      · split at h
        · simp at h
        · simp only [Except.ok.injEq, Prod.mk.injEq] at h
          obtain ⟨hc, hcs⟩ := h
          subst hc; subst hcs
          exact ⟨rfl, rfl⟩
      · simp only [Except.ok.injEq, Prod.mk.injEq] at h
        obtain ⟨hc, hcs⟩ := h
        subst hc; subst hcs
        exact ⟨rfl, rfl⟩

/-! ### the index list the assembly walks -/

/-- the rings polygon `j` contributes: its own id and its holes, if `j` is no hole itself -/
def ringIds (cs : Array Contour) (j : Nat) : List Int :=
  if cs[j]!.holeOf.isNone then (j : Int) :: cs[j]!.holeIds.toList else []

/-- ids of all rings of the result in the order `boolean_operation` emits them -/
def assembleIdx (cs : Array Contour) : List Int := (List.range cs.size).flatMap (ringIds cs)

/-- the bookkeeping invariant of the contour loop -/
structure Book (cs : Array Contour) : Prop where
  /-- every contour id occurs exactly once among the emitted rings -/
  perm : (assembleIdx cs).Perm ((List.range cs.size).map Int.ofNat)
  /-- a hole names an existing contour that is no hole, and that contour lists it -/
  parent : ∀ j, j < cs.size → ∀ p, cs[j]!.holeOf = some p →
      idxOk cs.size p = true ∧ cs[p.toNat]!.holeOf = none ∧ (j : Int) ∈ cs[p.toNat]!.holeIds.toList
  /-- whatever a contour lists as a hole is an existing contour that names it as its parent -/
  child : ∀ q, q < cs.size → ∀ h, h ∈ cs[q]!.holeIds.toList →
      idxOk cs.size h = true ∧ cs[h.toNat]!.holeOf = some (q : Int)

theorem getC_push_lt (cs : Array Contour) (c : Contour) (j : Nat) (h : j < cs.size) : (cs.push c)[j]! = cs[j]! := by
  simp [getElem!_pos, h, Nat.lt_succ_of_lt h, Array.getElem_push_lt]

theorem getC_push_eq (cs : Array Contour) (c : Contour) : (cs.push c)[cs.size]! = c := by
  simp [getElem!_pos]

theorem flatMap_congr' {l : List Nat} {f g : Nat → List Int} (h : ∀ j, j ∈ l → f j = g j) :
    l.flatMap f = l.flatMap g := by
  induction l with
  | nil => rfl
  | cons a l ih =>
    simp only [List.flatMap_cons]
    rw [h a (by simp), ih (fun j hj => h j (by simp [hj]))]

theorem flatMap_congr'' {γ : Type} {l : List Nat} {f g : Nat → List γ} (h : ∀ j, j ∈ l → f j = g j) :
    l.flatMap f = l.flatMap g := by
  induction l with
  | nil => rfl
  | cons a l ih =>
    simp only [List.flatMap_cons]
    rw [h a (by simp), ih (fun j hj => h j (by simp [hj]))]

/-- appending one element to the list of one member of a duplicate-free index list -/
theorem flatMap_update_perm {l : List Nat} (hnd : l.Nodup) {f g : Nat → List Int} {k : Nat} {x : Int}
    (hk : k ∈ l) (hgk : g k = f k ++ [x]) (hg : ∀ j, j ∈ l → j ≠ k → g j = f j) :
    (l.flatMap g).Perm (l.flatMap f ++ [x]) := by
  induction l with
  | nil => simp at hk
  | cons a l ih =>
    simp only [List.flatMap_cons]
    have hnd' := List.nodup_cons.mp hnd
    by_cases hak : a = k
    · subst hak
      have hrest : l.flatMap g = l.flatMap f :=
        flatMap_congr' (fun j hj => hg j (by simp [hj]) (fun e => hnd'.1 (e ▸ hj)))
      rw [hgk, hrest]
      -- (f a ++ [x]) ++ rest ~ (f a ++ rest) ++ [x]
      rw [List.append_assoc, List.append_assoc]
      exact List.Perm.append_left _ (List.perm_append_comm)
    · have hk' : k ∈ l := by
        rcases List.mem_cons.mp hk with e | e
        · exact absurd e.symm hak
        · exact e
      rw [hg a (by simp) hak, List.append_assoc]
      exact List.Perm.append_left _ (ih hnd'.2 hk' (fun j hj hne => hg j (by simp [hj]) hne))

theorem idxOk_lt {n : Nat} {i : Int} (h : idxOk n i = true) : 0 ≤ i ∧ i.toNat < n := by
  unfold idxOk at h; simp at h; exact h

theorem idxOk_mono {n m : Nat} {i : Int} (h : idxOk n i = true) (hnm : n ≤ m) : idxOk m i = true := by
  have := idxOk_lt h
  unfold idxOk; simp; exact ⟨this.1, Nat.lt_of_lt_of_le this.2 hnm⟩

theorem idxOk_self (n : Nat) : idxOk (n + 1) (n : Int) = true := by
  unfold idxOk; simp

theorem book_empty : Book #[] :=
  ⟨by simp [assembleIdx], fun j hj => by simp at hj, fun q hq => by simp at hq⟩

/-- a new contour that is no hole: one more polygon -/
theorem book_push_none (cs : Array Contour) (c : Contour) (hb : Book cs) (hof : c.holeOf = none)
    (hids : c.holeIds = #[]) : Book (cs.push c) := by
  have hsz : (cs.push c).size = cs.size + 1 := by simp
  refine ⟨?_, ?_, ?_⟩
  · unfold assembleIdx
    rw [hsz, List.range_succ, List.flatMap_append, List.map_append]
    have h1 : (List.range cs.size).flatMap (ringIds (cs.push c)) = (List.range cs.size).flatMap (ringIds cs) :=
      flatMap_congr' (fun j hj => by
        have hj' : j < cs.size := List.mem_range.mp hj
        unfold ringIds; rw [getC_push_lt cs c j hj'])
    have h2 : [cs.size].flatMap (ringIds (cs.push c)) = [(cs.size : Int)] := by
      simp [ringIds, hof, hids]
    rw [h1, h2]
    exact List.Perm.append hb.perm (by simp)
  · intro j hj p hp
    rw [hsz] at hj
    by_cases hjn : j < cs.size
    · rw [getC_push_lt cs c j hjn] at hp
      obtain ⟨h1, h2, h3⟩ := hb.parent j hjn p hp
      have hplt := (idxOk_lt h1).2
      rw [getC_push_lt cs c _ hplt]
      exact ⟨idxOk_mono h1 (by omega), h2, h3⟩
    · have : j = cs.size := by omega
      subst this
      rw [getC_push_eq, hof] at hp
      cases hp
  · intro q hq h hh
    rw [hsz] at hq
    by_cases hqn : q < cs.size
    · rw [getC_push_lt cs c q hqn] at hh
      obtain ⟨h1, h2⟩ := hb.child q hqn h hh
      have hlt := (idxOk_lt h1).2
      rw [getC_push_lt cs c _ hlt]
      exact ⟨idxOk_mono h1 (by omega), h2⟩
    · have : q = cs.size := by omega
      subst this
      rw [getC_push_eq, hids] at hh
      simp at hh

theorem getC_pushHole (cs : Array Contour) (k j : Nat) (cid : Int) :
    (cs.modify k (pushHole cid))[j]! = if k = j ∧ j < cs.size then pushHole cid cs[j]! else cs[j]! :=
  getC_modify cs k j (pushHole cid)

/-- a new contour that is a hole of the exterior contour `p`: one more interior ring of `p`'s polygon -/
theorem book_push_some (cs : Array Contour) (c : Contour) (p : Int) (hb : Book cs) (hof : c.holeOf = some p)
    (hids : c.holeIds = #[]) (hp : idxOk cs.size p = true) (hext : cs[p.toNat]!.holeOf = none) :
    Book ((cs.modify p.toNat (pushHole (cs.size : Int))).push c) := by
  obtain ⟨hp0, hplt⟩ := idxOk_lt hp
  generalize hk : p.toNat = k at hplt hext
  have hpk : p = (k : Int) := by rw [← hk]; exact (Int.toNat_of_nonneg hp0).symm
  generalize hm : cs.modify k (pushHole (cs.size : Int)) = cm
  have hmsz : cm.size = cs.size := by rw [← hm]; simp
  have hsz : (cm.push c).size = cs.size + 1 := by simp [hmsz]
  -- the entries of the new list
  have old : ∀ j, j < cs.size → (cm.push c)[j]! = if k = j then pushHole (cs.size : Int) cs[j]! else cs[j]! := by
    intro j hj
    rw [getC_push_lt cm c j (by omega), ← hm, getC_pushHole]
    simp [hj]
  have new : (cm.push c)[cs.size]! = c := by rw [← hmsz]; exact getC_push_eq cm c
  have oldOf : ∀ j, j < cs.size → (cm.push c)[j]!.holeOf = cs[j]!.holeOf := by
    intro j hj; rw [old j hj]; split <;> rfl
  refine ⟨?_, ?_, ?_⟩
  · unfold assembleIdx
    rw [hsz, List.range_succ, List.flatMap_append, List.map_append]
    have h2 : [cs.size].flatMap (ringIds (cm.push c)) = [] := by
      simp [ringIds, new, hof]
    rw [h2, List.append_nil]
    have h1 : ((List.range cs.size).flatMap (ringIds (cm.push c))).Perm
        ((List.range cs.size).flatMap (ringIds cs) ++ [(cs.size : Int)]) := by
      apply flatMap_update_perm (List.nodup_range) (k := k) (List.mem_range.mpr hplt)
      · unfold ringIds
        rw [old k hplt]
        simp [pushHole, hext]
      · intro j hjm hj
        have hjn : j < cs.size := List.mem_range.mp hjm
        unfold ringIds
        rw [old j hjn]; simp [Ne.symm hj]
    exact h1.trans (List.Perm.append hb.perm (by simp))
  · intro j hj q hq
    rw [hsz] at hj
    by_cases hjn : j < cs.size
    · rw [oldOf j hjn] at hq
      obtain ⟨h1, h2, h3⟩ := hb.parent j hjn q hq
      have hqlt := (idxOk_lt h1).2
      refine ⟨idxOk_mono h1 (by omega), by rw [oldOf _ hqlt]; exact h2, ?_⟩
      rw [old _ hqlt]
      split
      · simp [pushHole, h3]
      · exact h3
    · have : j = cs.size := by omega
      subst this
      rw [new, hof] at hq
      cases hq
      refine ⟨idxOk_mono hp (by omega), ?_, ?_⟩
      · rw [hk, oldOf k hplt]; exact hext
      · rw [hk, old k hplt]; simp [pushHole]
  · intro q hq h hh
    rw [hsz] at hq
    by_cases hqn : q < cs.size
    · rw [old q hqn] at hh
      by_cases hkq : k = q
      · subst hkq
        simp only [if_true, pushHole, Array.toList_push, List.mem_append, List.mem_singleton] at hh
        rcases hh with hh | hh
        · obtain ⟨h1, h2⟩ := hb.child k hqn h hh
          have hlt := (idxOk_lt h1).2
          exact ⟨idxOk_mono h1 (by omega), by rw [oldOf _ hlt]; exact h2⟩
        · subst hh
          refine ⟨by rw [hsz]; exact idxOk_self _, ?_⟩
          simp only [Int.toNat_natCast]
          rw [new, hof, hpk]
      · simp only [hkq, if_false] at hh
        obtain ⟨h1, h2⟩ := hb.child q hqn h hh
        have hlt := (idxOk_lt h1).2
        exact ⟨idxOk_mono h1 (by omega), by rw [oldOf _ hlt]; exact h2⟩
    · have : q = cs.size := by omega
      subst this
      rw [new, hids] at hh
      simp at hh

/-- the contour loop only appends points: parent link and hole list of the contour under construction stay -/
theorem contourLoop_book (res map : Array Nat) (contourId : Int) (initial : Pt) :
    ∀ (fuel : Nat) (st st' : CE) (pos : Nat), contourLoop res map contourId initial fuel st pos = .ok st' →
      st'.contour.holeOf = st.contour.holeOf ∧ st'.contour.holeIds = st.contour.holeIds := by
  intro fuel
  induction fuel with
  | zero => intro st st' pos h; simp [contourLoop] at h
  | succ fuel ih =>
    intro st st' pos h
    unfold contourLoop at h
    split at h
    · simp at h
    · simp only at h
      split at h
      · simp at h
      · split at h
        · simp at h
        · simp only [Except.ok.injEq] at h
          rw [← h]; exact ⟨rfl, rfl⟩
        · split at h
          · simp only [Except.ok.injEq] at h
            rw [← h]; exact ⟨rfl, rfl⟩
          · obtain ⟨h1, h2⟩ := ih _ st' _ h
            exact ⟨h1, h2⟩

theorem go_book (cfg : Cfg) (res map : Array Nat) :
    ∀ (fuel i : Nat) (a : Arena) (processed : Array Bool) (contours cs : Array Contour) (a' : Arena),
      connectEdges.go cfg res map fuel i a processed contours = .ok (cs, a') → Book contours → Book cs := by
  intro fuel
  induction fuel with
  | zero =>
    intro i a processed contours cs a' h hb
    simp only [connectEdges.go, Except.ok.injEq, Prod.mk.injEq] at h
    rw [← h.1]; exact hb
  | succ fuel ih =>
    intro i a processed contours cs a' h hb
    unfold connectEdges.go at h
    split at h
    · simp only [Except.ok.injEq, Prod.mk.injEq] at h
      rw [← h.1]; exact hb
    · split at h
      · exact ih _ _ _ _ _ _ h hb
      · simp only at h
        split at h
        · simp at h
        · rename_i contour contours1 hinit
          obtain ⟨hids, hspec⟩ := initializeFromContext_spec cfg a _ contours contours1 _ contour hinit
          split at h
          · simp at h
          · rename_i st hloop
            obtain ⟨hof', hids'⟩ := contourLoop_book res map _ _ _ _ st i hloop
            simp only at hof' hids'
            apply ih _ _ _ _ _ _ h
            cases hc : contour.holeOf with
            | none =>
              rw [hc] at hspec
              simp only at hspec
              rw [hspec]
              exact book_push_none contours st.contour hb (by rw [hof', hc]) (by rw [hids', hids])
            | some p =>
              rw [hc] at hspec
              simp only at hspec
              obtain ⟨hp, hcs, hpar⟩ := hspec
              rw [hcs]
              have hext : contours[p.toNat]!.holeOf = none := by
                rcases hpar with hpar | ⟨l, hl, hlp⟩
                · exact hpar
                · exact (hb.parent l.toNat (idxOk_lt hl).2 p hlp).2.1
              exact book_push_some contours st.contour p hb (by rw [hof', hc]) (by rw [hids', hids]) hp hext

/-- **the bookkeeping of `connect_edges`**, for every arena and every list of result events -/
theorem connectEdges_book (cfg : Cfg) (a : Arena) (sorted : Array Nat) (cs : Array Contour) (a' : Arena)
    (h : connectEdges cfg a sorted = .ok (cs, a')) : Book cs := by
  unfold connectEdges at h
  split at h
  · simp at h
  · simp only at h
    exact go_book cfg _ _ _ _ _ _ _ _ _ h book_empty

/-! ### the assembly in `boolean_operation` -/

/-- the ring `Polygon::new` makes of contour `i` -/
def ringOf (cs : Array Contour) (i : Int) : Ring := closeRing cs[i.toNat]!.points.toList

/-- the polygon the assembly makes of an exterior contour -/
def polyOf (cs : Array Contour) (c : Contour) : Poly :=
  { ext := closeRing c.points.toList, holes := c.holeIds.toList.map (ringOf cs) }

theorem mapM_option_all {α β : Type} (f : α → Option β) (g : α → β) :
    ∀ (l : List α), (∀ x, x ∈ l → f x = some (g x)) → l.mapM f = some (l.map g) := by
  intro l
  induction l with
  | nil => intro _; simp [List.mapM_nil, pure]
  | cons a l ih =>
    intro h
    rw [List.mapM_cons, h a (by simp), ih (fun x hx => h x (by simp [hx]))]
    simp [bind, Option.bind, pure]

theorem mapM_except_all {ε α β : Type} (f : α → Except ε β) (g : α → β) :
    ∀ (l : List α), (∀ x, x ∈ l → f x = .ok (g x)) → l.mapM f = .ok (l.map g) := by
  intro l
  induction l with
  | nil => intro _; simp [List.mapM_nil, pure, Except.pure]
  | cons a l ih =>
    intro h
    rw [List.mapM_cons, h a (by simp), ih (fun x hx => h x (by simp [hx]))]
    simp [bind, Except.bind, pure, Except.pure]

theorem flatMap_filter_if {α β : Type} (p : α → Bool) (F : α → List β) (l : List α) :
    (l.filter p).flatMap F = l.flatMap (fun x => if p x then F x else []) := by
  induction l with
  | nil => rfl
  | cons a l ih =>
    by_cases hp : p a = true
    · simp [hp, List.flatMap_cons, ih]
    · simp [hp, List.flatMap_cons, ih]

theorem flatMap_map' {α β γ : Type} (g : α → β) (F : β → List γ) (l : List α) :
    (l.map g).flatMap F = l.flatMap (fun x => F (g x)) := by
  induction l with
  | nil => rfl
  | cons a l ih => simp [List.flatMap_cons, ih]

theorem map_flatMap' {α β γ : Type} (F : α → List β) (g : β → γ) (l : List α) :
    (l.flatMap F).map g = l.flatMap (fun x => (F x).map g) := by
  induction l with
  | nil => rfl
  | cons a l ih => simp [List.flatMap_cons, ih]

theorem toList_eq_range_map (cs : Array Contour) : cs.toList = (List.range cs.size).map (fun j => cs[j]!) := by
  apply List.ext_getElem
  · simp
  · intro i h1 h2
    simp at h1
    simp [getElem!_pos, h1]

/-- with the bookkeeping invariant the per-polygon step of the assembly cannot fail, and it yields `polyOf` -/
theorem assemble_step (cs : Array Contour) (hb : Book cs) (c : Contour) (hc : c ∈ cs.toList) :
    (match c.holeIds.toList.mapM (fun (h : Int) =>
        if idxOk cs.size h then some (closeRing cs[h.toNat]!.points.toList) else none) with
     | none => (Except.error (.panic .indexContour) : Except Fail Poly)
     | some holes => .ok { ext := closeRing c.points.toList, holes := holes }) = .ok (polyOf cs c) := by
  rw [toList_eq_range_map] at hc
  obtain ⟨q, hq, hcq⟩ := List.mem_map.mp hc
  have hq' : q < cs.size := List.mem_range.mp hq
  have hall : c.holeIds.toList.mapM (fun (h : Int) =>
      if idxOk cs.size h then some (closeRing cs[h.toNat]!.points.toList) else none) =
      some (c.holeIds.toList.map (ringOf cs)) := by
    apply mapM_option_all
    intro h hh
    rw [← hcq] at hh
    have := (hb.child q hq' h hh).1
    simp [this, ringOf]
  rw [hall]
  rfl

/-- the rings of the result, polygon by polygon, are the rings of the ids `assembleIdx` lists -/
theorem assemble_rings (cs : Array Contour) :
    ((cs.toList.filter (fun c => c.holeOf.isNone)).map (polyOf cs)).flatMap (fun p => p.ext :: p.holes) =
      (assembleIdx cs).map (ringOf cs) := by
  rw [flatMap_map', flatMap_filter_if]
  conv => lhs; rw [toList_eq_range_map, flatMap_map']
  unfold assembleIdx
  rw [map_flatMap']
  apply flatMap_congr''
  intro j _
  unfold ringIds polyOf ringOf
  split
  · simp
  · rfl

/-- on the sweep path the result is assembled, without failing, from the contours `connect_edges` returned,
    which satisfy the bookkeeping invariant -/
theorem booleanOperation_assembly (ar : Arith) (cfg : Cfg) (subject clipping : MPoly) (op : Op) (out : RunOut)
    (h : booleanOperation ar cfg subject clipping op = .ok out) (hnt : out.trivial = false) :
    ∃ cs : Array Contour, Book cs ∧
      out.result = (cs.toList.filter (fun c => c.holeOf.isNone)).map (polyOf cs) := by
  unfold booleanOperation at h
  simp only at h
  split at h
  · simp only [Except.ok.injEq] at h
    rw [← h] at hnt; simp at hnt
  · split at h
    · split at h
      · simp at h
      · rename_i sw hsub
        split at h
        · simp at h
        · rename_i contours a' hcon
          have hb := connectEdges_book cfg sw.arena sw.sorted contours a' hcon
          refine ⟨contours, hb, ?_⟩
          have hall := mapM_except_all (ε := Fail) _ (polyOf contours)
            (contours.toList.filter (fun c => c.holeOf.isNone))
            (fun c hc => assemble_step contours hb c (List.mem_filter.mp hc).1)
          split at h
          · rename_i e he
            have : (Except.error e : Except Fail (List Poly)) = .ok _ := he.symm.trans hall
            cases this
          · rename_i ps hps
            have e : (Except.ok ps : Except Fail (List Poly)) = .ok _ := hps.symm.trans hall
            simp only [Except.ok.injEq] at e h
            rw [← h, e]
    · simp only [Except.ok.injEq] at h
      rw [← h] at hnt; simp at hnt

end Gbo
