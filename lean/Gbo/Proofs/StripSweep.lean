import Gbo.Proofs.MapRun
import Gbo.Proofs.FieldsOp
/-
  Towards "the four sweeps of one operand pair build the same subdivision" (C05): `stripResult` pushed through
  the parts of the sweep that do not depend on the operation.  They neither read nor write `result_transition`
  / `prev_in_result`, so they commute with forgetting them (`sA`, `sSw`).  Done so far: the two orders,
  `divide_segment`.  Not done: `possible_intersection`, the loop.
-/
namespace Gbo

/-- the arena with the operation-dependent fields forgotten -/
def sA (a : Arena) : Arena := a.map stripResult
def sSw (st : SwSt) : SwSt := { st with arena := sA st.arena }

theorem sA_size (a : Arena) : (sA a).size = a.size := by simp [sA]
theorem sA_get (a : Arena) (i : Nat) : (sA a)[i]! = stripResult a[i]! := getElem!_map_stripResult a i
theorem sA_push (a : Arena) (e : Ev) : sA (a.push e) = (sA a).push (stripResult e) := by simp [sA]

theorem sA_modify (a : Arena) (i : Nat) (g : Ev → Ev) (hg : ∀ e, stripResult (g e) = g (stripResult e)) :
    sA (a.modify i g) = (sA a).modify i g := by
  apply Array.ext
  · simp [sA]
  · intro j h1 h2
    simp only [sA, Array.getElem_map, Array.getElem_modify]
    split
    · exact hg _
    · rfl

theorem sA_modify_left (a : Arena) (i : Nat) (l : Bool) :
    sA (a.modify i (fun ev => { ev with left := l })) = (sA a).modify i (fun ev => { ev with left := l }) :=
  sA_modify a i _ (fun _ => rfl)
theorem sA_modify_other (a : Arena) (i : Nat) (o : Option Nat) :
    sA (a.modify i (fun ev => { ev with other := o })) = (sA a).modify i (fun ev => { ev with other := o }) :=
  sA_modify a i _ (fun _ => rfl)
theorem sA_modify_edgeType (a : Arena) (i : Nat) (t : EdgeType) :
    sA (a.modify i (fun ev => { ev with edgeType := t })) = (sA a).modify i (fun ev => { ev with edgeType := t }) :=
  sA_modify a i _ (fun _ => rfl)

theorem sA_view (a : Arena) (i : Nat) : (sA a).view i = a.view i := by
  unfold Arena.view
  simp only [sA_get]
  rfl

theorem sA_cmpEv (a : Arena) (i j : Nat) : cmpEv (sA a) i j = cmpEv a i j := by
  simp only [cmpEv, sA_view]
theorem sA_evLe (a : Arena) : evLe (sA a) = evLe a := by
  funext i j; simp only [evLe, sA_cmpEv]
theorem sA_isBefore (a : Arena) (i j : Nat) : isBefore (sA a) i j = isBefore a i j := by
  simp only [isBefore, sA_cmpEv]

theorem sA_dividePush (a : Arena) (seL seR : Nat) (p : Pt) :
    dividePush (sA a) seL seR p = sA (dividePush a seL seR p) := by
  unfold dividePush
  simp only [sA_push, sA_get]
  rfl

theorem sA_divideArena (a : Arena) (seL seR : Nat) (p : Pt) :
    divideArena (sA a) seL seR p = sA (divideArena a seL seR p) := by
  unfold divideArena
  simp only [sA_size, sA_dividePush, sA_isBefore]
  split
  · simp only [sA_modify_left, sA_modify_other]
  · simp only [sA_modify_other]

/-- `divide_segment` neither reads nor writes the operation-dependent fields -/
theorem sA_divideSegment (ar : Arith) (cfg : Cfg) (st : SwSt) (seL : Nat) (p : Pt) :
    divideSegment ar cfg (sSw st) seL p = exMap sSw (divideSegment ar cfg st seL p) := by
  unfold divideSegment
  simp only [sSw, sA_get, sA_size]
  have hl : (stripResult st.arena[seL]!).left = st.arena[seL]!.left := rfl
  have ho : (stripResult st.arena[seL]!).other = st.arena[seL]!.other := rfl
  have hp : (stripResult st.arena[seL]!).point = st.arena[seL]!.point := rfl
  rw [hl, ho, hp]
  by_cases h1 : (cfg.dbg && !st.arena[seL]!.left) = true
  · simp [h1, exMap, throw, throwThe, MonadExceptOf.throw, bind, Except.bind]
  · simp only [h1, Bool.false_eq_true, if_false]
    cases st.arena[seL]!.other with
    | none => simp [exMap, pure, Except.pure, sSw]
    | some seR =>
      by_cases hb : p.x = st.arena[seL]!.point.x ∧ p.y < st.arena[seL]!.point.y
      · simp only [if_pos hb]
        rw [sA_dividePush, sA_isBefore, sA_divideArena, sA_evLe]
        split
        · simp [exMap, throw, throwThe, MonadExceptOf.throw, bind, Except.bind]
        · simp [exMap, pure, Except.pure, sSw]
      · simp only [if_neg hb]
        rw [sA_dividePush, sA_isBefore, sA_divideArena, sA_evLe]
        split
        · simp [exMap, throw, throwThe, MonadExceptOf.throw, bind, Except.bind]
        · simp [exMap, pure, Except.pure, sSw]

end Gbo
