import Gbo.Proofs.MapRun
import Gbo.Proofs.FieldsOp
/-
  Towards "the four sweeps of one operand pair build the same subdivision" (C05): `stripResult` pushed through
  the parts of the sweep that do not depend on the operation.  They neither read nor write `result_transition`
  / `prev_in_result`, so they commute with forgetting them (`sA`, `sSw`).  Done so far: the two orders,
  `divide_segment`, `possible_intersection` with its overlap branch.  Not done: the loop.
-/
namespace Gbo

/-- the arena with the operation-dependent fields forgotten -/
def sA (a : Arena) : Arena := a.map stripResult
def sSw (st : SwSt) : SwSt := { st with arena := sA st.arena }

theorem sA_size (a : Arena) : (sA a).size = a.size := by simp [sA]
theorem sA_get (a : Arena) (i : Nat) : (sA a)[i]! = stripResult a[i]! := getElem!_map_stripResult a i
theorem sA_push (a : Arena) (e : Ev) : sA (a.push e) = (sA a).push (stripResult e) := by simp [sA]

theorem sA_modify (a : Arena) (i : Nat) (g : Ev → Ev) (hg : ∀ e, stripResult (g e) = g (stripResult e)) :
    sA (a.modify i g) = (sA a).modify i g := by
  apply Array.ext
  · simp [sA]
  · intro j h1 h2
    simp only [sA, Array.getElem_map, Array.getElem_modify]
    split
    · exact hg _
    · rfl

theorem sA_modify_left (a : Arena) (i : Nat) (l : Bool) :
    sA (a.modify i (fun ev => { ev with left := l })) = (sA a).modify i (fun ev => { ev with left := l }) :=
  sA_modify a i _ (fun _ => rfl)
theorem sA_modify_other (a : Arena) (i : Nat) (o : Option Nat) :
    sA (a.modify i (fun ev => { ev with other := o })) = (sA a).modify i (fun ev => { ev with other := o }) :=
  sA_modify a i _ (fun _ => rfl)
theorem sA_modify_edgeType (a : Arena) (i : Nat) (t : EdgeType) :
    sA (a.modify i (fun ev => { ev with edgeType := t })) = (sA a).modify i (fun ev => { ev with edgeType := t }) :=
  sA_modify a i _ (fun _ => rfl)

theorem sA_view (a : Arena) (i : Nat) : (sA a).view i = a.view i := by
  unfold Arena.view
  simp only [sA_get]
  rfl

theorem sA_cmpEv (a : Arena) (i j : Nat) : cmpEv (sA a) i j = cmpEv a i j := by
  simp only [cmpEv, sA_view]
theorem sA_evLe (a : Arena) : evLe (sA a) = evLe a := by
  funext i j; simp only [evLe, sA_cmpEv]
theorem sA_isBefore (a : Arena) (i j : Nat) : isBefore (sA a) i j = isBefore a i j := by
  simp only [isBefore, sA_cmpEv]

theorem sA_dividePush (a : Arena) (seL seR : Nat) (p : Pt) :
    dividePush (sA a) seL seR p = sA (dividePush a seL seR p) := by
  unfold dividePush
  simp only [sA_push, sA_get]
  rfl

theorem sA_divideArena (a : Arena) (seL seR : Nat) (p : Pt) :
    divideArena (sA a) seL seR p = sA (divideArena a seL seR p) := by
  unfold divideArena
  simp only [sA_size, sA_dividePush, sA_isBefore]
  split
  · simp only [sA_modify_left, sA_modify_other]
  · simp only [sA_modify_other]

/-- `divide_segment` neither reads nor writes the operation-dependent fields -/
theorem sA_divideSegment (ar : Arith) (cfg : Cfg) (st : SwSt) (seL : Nat) (p : Pt) :
    divideSegment ar cfg (sSw st) seL p = exMap sSw (divideSegment ar cfg st seL p) := by
  unfold divideSegment
  simp only [sSw, sA_get, sA_size]
  have hl : (stripResult st.arena[seL]!).left = st.arena[seL]!.left := rfl
  have ho : (stripResult st.arena[seL]!).other = st.arena[seL]!.other := rfl
  have hp : (stripResult st.arena[seL]!).point = st.arena[seL]!.point := rfl
  rw [hl, ho, hp]
  by_cases h1 : (cfg.dbg && !st.arena[seL]!.left) = true
  · simp [h1, exMap, throw, throwThe, MonadExceptOf.throw, bind, Except.bind]
  · simp only [h1, Bool.false_eq_true, if_false]
    cases st.arena[seL]!.other with
    | none => simp [exMap, pure, Except.pure, sSw]
    | some seR =>
      by_cases hb : p.x = st.arena[seL]!.point.x ∧ p.y < st.arena[seL]!.point.y
      · simp only [if_pos hb]
        rw [sA_dividePush, sA_isBefore, sA_divideArena, sA_evLe]
        split
        · simp [exMap, throw, throwThe, MonadExceptOf.throw, bind, Except.bind]
        · simp [exMap, pure, Except.pure, sSw]
      · simp only [if_neg hb]
        rw [sA_dividePush, sA_isBefore, sA_divideArena, sA_evLe]
        split
        · simp [exMap, throw, throwThe, MonadExceptOf.throw, bind, Except.bind]
        · simp [exMap, pure, Except.pure, sSw]

/-! ### possible_intersection -/

theorem sA_overlapEvents (a : Arena) (se1 o1 se2 o2 : Nat) :
    overlapEvents (sA a) se1 o1 se2 o2 = overlapEvents a se1 o1 se2 o2 := by
  unfold overlapEvents
  simp only [sA_get, sA_cmpEv]
  rfl

theorem sA_markCoincident (a : Arena) (se1 se2 : Nat) :
    markCoincident (sA a) se1 se2 = sA (markCoincident a se1 se2) := by
  unfold markCoincident
  simp only
  have e : (sA a).modify se2 (fun ev => { ev with edgeType := .nonContributing }) =
      sA (a.modify se2 (fun ev => { ev with edgeType := .nonContributing })) :=
    (sA_modify_edgeType a se2 _).symm
  rw [e, sA_get, sA_get]
  exact (sA_modify_edgeType _ _ _).symm

def sRes (r : Nat × SwSt) : Nat × SwSt := (r.1, sSw r.2)

theorem sSw_arena (st : SwSt) : (sSw st).arena = sA st.arena := rfl

theorem sA_overlapBranch (ar : Arith) (cfg : Cfg) (st : SwSt) (se1 o1 se2 o2 : Nat) :
    overlapBranch ar cfg (sSw st) se1 o1 se2 o2 = exMap sRes (overlapBranch ar cfg st se1 o1 se2 o2) := by
  have hpt : ∀ e : Ev, (stripResult e).point = e.point := fun _ => rfl
  have hsub : ∀ e : Ev, (stripResult e).isSubject = e.isSubject := fun _ => rfl
  have hoth : ∀ e : Ev, (stripResult e).other = e.other := fun _ => rfl
  unfold overlapBranch
  simp only [sSw_arena, sA_overlapEvents, sA_get, hpt, hsub]
  split
  · rfl
  · split
    · rw [sA_markCoincident, sA_get]
      simp only [hpt]
      have key := sA_divideSegment ar cfg ({ st with arena := markCoincident st.arena se1 se2 })
        ((overlapEvents st.arena se1 o1 se2 o2)[1]!.2)
        ((markCoincident st.arena se1 se2)[(overlapEvents st.arena se1 o1 se2 o2)[0]!.1]!.point)
      split
      · change (divideSegment ar cfg (sSw { st with arena := markCoincident st.arena se1 se2 }) _ _ >>= _) = _
        rw [key]
        cases divideSegment ar cfg { st with arena := markCoincident st.arena se1 se2 } _ _ <;> rfl
      · rfl
    · split
      · rw [sA_divideSegment]
        cases divideSegment ar cfg st _ _ <;> rfl
      · split
        · rw [sA_divideSegment]
          cases hd1 : divideSegment ar cfg st _ _ with
          | error e => rfl
          | ok st1 =>
            simp only [exMap, bind, Except.bind]
            rw [sA_divideSegment]
            cases divideSegment ar cfg st1 _ _ <;> rfl
        · rw [sA_divideSegment]
          cases hd1 : divideSegment ar cfg st _ _ with
          | error e => rfl
          | ok st1 =>
            simp only [exMap, bind, Except.bind, sSw_arena, sA_get, hoth]
            cases st1.arena[(overlapEvents st.arena se1 o1 se2 o2)[3]!.1]!.other with
            | none => rfl
            | some o =>
              simp only
              rw [sA_divideSegment]
              cases divideSegment ar cfg st1 _ _ <;> rfl

/-- `possible_intersection` neither reads nor writes the fields the operation decides -/
theorem sA_possibleIntersection (ar : Arith) (cfg : Cfg) (st : SwSt) (se1 se2 : Nat) :
    possibleIntersection ar cfg (sSw st) se1 se2 = exMap sRes (possibleIntersection ar cfg st se1 se2) := by
  have hpt : ∀ e : Ev, (stripResult e).point = e.point := fun _ => rfl
  have hoth : ∀ e : Ev, (stripResult e).other = e.other := fun _ => rfl
  unfold possibleIntersection
  simp only [sSw_arena, sA_get, hpt, hoth]
  cases st.arena[se1]!.other with
  | none => rfl
  | some o1 =>
    cases st.arena[se2]!.other with
    | none => rfl
    | some o2 =>
      simp only
      cases hi : ar.isect st.arena[se1]!.point st.arena[o1]!.point st.arena[se2]!.point st.arena[o2]!.point with
      | nonfinite => rfl
      | none => rfl
      | overlap p q => exact sA_overlapBranch ar cfg st se1 o1 se2 o2
      | point inter =>
        simp only
        split
        · rfl
        · simp only [ne_eq]
          split
          · rw [sA_divideSegment]
            cases hd1 : divideSegment ar cfg st se1 inter with
            | error e => rfl
            | ok st1 =>
              simp only [exMap, bind, Except.bind]
              split
              · rw [sA_divideSegment]
                cases divideSegment ar cfg st1 se2 inter <;> rfl
              · rfl
          · simp only [pure, Except.pure, bind, Except.bind]
            split
            · rw [sA_divideSegment]
              cases divideSegment ar cfg st se2 inter <;> rfl
            · rfl

end Gbo
