import Mathlib.Tactic.Linarith
import Mathlib.Tactic.Ring
import Mathlib.Tactic.FieldSimp
import Gbo.Spec.Region
import Gbo.Props.C02
/-
  Soundness of the region comparator (Gbo.Spec.regionFormulaCheck), tolerance 0:
  if it answers `ok`, the formula holds at EVERY point of the plane that is clear of the edges and does
  not lie on one of the finitely many vertical breakpoint lines.
-/
namespace Gbo.Spec
open Gbo Gbo.Props

/-! ### A. parity and counting -/

theorem parity_false_cons (l : List Bool) : parity (false :: l) = parity l := by
  rw [parity_cons]; cases parity l <;> rfl

theorem parity_perm {l m : List Bool} (h : List.Perm l m) : parity l = parity m := by
  induction h with
  | nil => rfl
  | cons x _ ih => rw [parity_cons, parity_cons, ih]
  | swap x y l => rw [parity_cons, parity_cons, parity_cons, parity_cons]; cases x <;> cases y <;> cases parity l <;> rfl
  | trans _ _ ih1 ih2 => rw [ih1, ih2]

theorem oddCount_perm (i : Nat) {l m : List Tagged} (h : List.Perm l m) : oddCount i l = oddCount i m := by
  unfold oddCount
  exact parity_perm (h.map _)

theorem vecOf_perm (n : Nat) {l m : List Tagged} (h : List.Perm l m) : vecOf n l = vecOf n m := by
  unfold vecOf
  congr 1
  funext i
  exact oddCount_perm i h

theorem parity_flatMap {α} (l : List α) (g : α → List Bool) :
    parity (l.flatMap g) = parity (l.map (fun x => parity (g x))) := by
  induction l with
  | nil => rfl
  | cons x xs ih => rw [List.flatMap_cons, parity_append, ih, List.map_cons, parity_cons]

theorem parity_all_false_map {α} (l : List α) : parity (l.map (fun _ => false)) = false := by
  apply parity_of_all_false
  intro b hb
  rw [List.mem_map] at hb
  obtain ⟨_, _, rfl⟩ := hb
  rfl

/-- the list has exactly one position `i` (below `n`) where `g` may be true -/
theorem parity_range_single (n i : Nat) (hi : i < n) (X : Bool) :
    parity ((List.range n).map (fun j => if j = i then X else false)) = X := by
  induction n with
  | zero => omega
  | succ n ih =>
    rw [List.range_succ, List.map_append, parity_append]
    by_cases h : i = n
    · subst h
      have : parity ((List.range i).map (fun j => if j = i then X else false)) = false := by
        apply parity_of_all_false
        intro b hb
        rw [List.mem_map] at hb
        obtain ⟨j, hj, rfl⟩ := hb
        rw [List.mem_range] at hj
        have : j ≠ i := by omega
        simp [this]
      rw [this]
      simp [parity_cons, parity_nil]
    · have hlt : i < n := by omega
      rw [ih hlt]
      have : ¬ n = i := fun h' => h h'.symm
      simp [this, parity_cons, parity_nil]

/-- the edges of atom `i` among the tagged edges that satisfy `p` -/
theorem oddCount_tagAll_filter (atoms : Array (List Seg)) (p : Seg → Bool) (i : Nat) (hi : i < atoms.size) :
    oddCount i ((tagAll atoms).filter (fun t => p t.seg)) = parity (atoms[i]!.map p) := by
  unfold oddCount tagAll
  rw [List.filter_flatMap, List.map_flatMap, parity_flatMap]
  have hblock : ∀ j, parity (List.map (fun t : Tagged => t.atom == i)
        (List.filter (fun t => p t.seg) (List.map (fun s => ({ seg := s, atom := j } : Tagged)) atoms[j]!)))
      = if j = i then parity (atoms[i]!.map p) else false := by
    intro j
    by_cases hj : j = i
    · subst hj
      simp only [if_true]
      generalize atoms[j]! = es
      induction es with
      | nil => rfl
      | cons e es ih =>
        simp only [List.map_cons, List.filter_cons]
        by_cases hp : p e
        · simp only [hp, if_true, List.map_cons, beq_self_eq_true, parity_cons, ih]
        · simp only [hp, Bool.false_eq_true, if_false, parity_false_cons, ih]
    · simp only [hj, if_false]
      apply parity_of_all_false
      intro b hb
      rw [List.mem_map] at hb
      obtain ⟨t, ht, rfl⟩ := hb
      rw [List.mem_filter, List.mem_map] at ht
      obtain ⟨⟨s, _, rfl⟩, _⟩ := ht
      simp [hj]
  have : (List.map (fun x => parity (List.map (fun t : Tagged => t.atom == i)
        (List.filter (fun t => p t.seg) (List.map (fun s => ({ seg := s, atom := x } : Tagged)) atoms[x]!)))) (List.range atoms.size))
      = (List.range atoms.size).map (fun j => if j = i then parity (atoms[i]!.map p) else false) := by
    apply List.map_congr_left
    intro j _
    exact hblock j
  rw [this]
  exact parity_range_single atoms.size i hi _

/-- **the membership vector is the vector of the edges below the point** -/
theorem memVec_eq_vecOf (atoms : Array (List Seg)) (q : Pt) :
    atoms.map (fun es => memEdges es q) = vecOf atoms.size ((tagAll atoms).filter (fun t => edgeBelow q t.seg)) := by
  apply Array.ext
  · simp [vecOf]
  · intro i h1 h2
    simp only [vecOf, Array.getElem_map, Array.getElem_range]
    have hi : i < atoms.size := by simpa using h1
    rw [oddCount_tagAll_filter atoms (edgeBelow q) i hi]
    unfold memEdges
    rw [getElem!_pos atoms i hi]

end Gbo.Spec

namespace Gbo.Spec
open Gbo Gbo.Props

/-! ### B. one edge against a point inside a slab -/

theorem rmin_def' (a b : Rat) : rmin a b = if a ≤ b then a else b := rfl
theorem rmax_def' (a b : Rat) : rmax a b = if a ≤ b then b else a := rfl

/-- an edge whose x-extent misses the open slab is not below any point of the slab -/
theorem edgeBelow_of_misses (q : Pt) (e : Seg) (x0 x1 : Rat) (h0 : x0 < q.x) (h1 : q.x < x1)
    (hm : missesSlab e x0 x1 = true) : edgeBelow q e = false := by
  unfold missesSlab segMaxX segMinX rmax rmin at hm
  unfold edgeBelow
  simp only [Bool.or_eq_true, decide_eq_true_eq] at hm
  by_cases hx : e.1.x ≤ e.2.x
  · simp only [hx, if_true] at hm ⊢
    rcases hm with (hv | hmax) | hmin
    · simp only [Bool.and_eq_false_imp, Bool.and_eq_true, decide_eq_true_eq, decide_eq_false_iff_not, not_lt, and_imp]
      intro a b; exfalso; rw [hv] at a; linarith
    · simp only [Bool.and_eq_false_imp, Bool.and_eq_true, decide_eq_true_eq, decide_eq_false_iff_not, not_lt, and_imp]
      intro a b; exfalso; linarith
    · simp only [Bool.and_eq_false_imp, Bool.and_eq_true, decide_eq_true_eq, decide_eq_false_iff_not, not_lt, and_imp]
      intro a b; exfalso; linarith
  · simp only [hx, if_false] at hm ⊢
    have hx' : e.2.x < e.1.x := not_le.mp hx
    rcases hm with (hv | hmax) | hmin
    · exfalso; rw [hv] at hx'; exact lt_irrefl _ hx'
    · simp only [Bool.and_eq_false_imp, Bool.and_eq_true, decide_eq_true_eq, decide_eq_false_iff_not, not_lt, and_imp]
      intro a b; exfalso; linarith
    · simp only [Bool.and_eq_false_imp, Bool.and_eq_true, decide_eq_true_eq, decide_eq_false_iff_not, not_lt, and_imp]
      intro a b; exfalso; linarith

/-- the ordinate of the line of `e` at `x`, cleared of the division -/
theorem yAt_mul (e : Seg) (x : Rat) (h : e.1.x ≠ e.2.x) :
    yAt e x * (e.2.x - e.1.x) = e.1.y * (e.2.x - e.1.x) + (e.2.y - e.1.y) * (x - e.1.x) := by
  unfold yAt
  have hd : e.2.x - e.1.x ≠ 0 := fun h' => h (by linarith)
  field_simp

/-- an edge spanning the slab is below a point of the slab exactly when its line passes below it -/
theorem edgeBelow_of_spans (q : Pt) (e : Seg) (x0 x1 : Rat) (h0 : x0 < q.x) (h1 : q.x < x1)
    (hs : spansSlab e x0 x1 = true) : edgeBelow q e = decide (yAt e q.x < q.y) := by
  unfold spansSlab segMaxX segMinX rmax rmin at hs
  simp only [Bool.and_eq_true, decide_eq_true_eq] at hs
  obtain ⟨⟨hne, hmin⟩, hmax⟩ := hs
  have hy := yAt_mul e q.x hne
  unfold edgeBelow orient
  by_cases hx : e.1.x ≤ e.2.x
  · simp only [hx, if_true] at hmin hmax ⊢
    have hlt : e.1.x < e.2.x := lt_of_le_of_ne hx hne
    have hl : e.1.x ≤ q.x := by linarith
    have hr : q.x < e.2.x := by linarith
    have hd : 0 < e.2.x - e.1.x := by linarith
    simp only [hl, hr, decide_true, Bool.true_and]
    congr 1
    apply propext
    constructor
    · intro ho
      by_contra hn
      have hge : q.y ≤ yAt e q.x := not_lt.mp hn
      have : q.y * (e.2.x - e.1.x) ≤ yAt e q.x * (e.2.x - e.1.x) := mul_le_mul_of_nonneg_right hge (le_of_lt hd)
      rw [hy] at this
      nlinarith
    · intro hlt'
      have : yAt e q.x * (e.2.x - e.1.x) < q.y * (e.2.x - e.1.x) := mul_lt_mul_of_pos_right hlt' hd
      rw [hy] at this
      nlinarith
  · simp only [hx, if_false] at hmin hmax ⊢
    have hlt : e.2.x < e.1.x := not_le.mp hx
    have hl : e.2.x ≤ q.x := by linarith
    have hr : q.x < e.1.x := by linarith
    have hd : e.2.x - e.1.x < 0 := by linarith
    simp only [hl, hr, decide_true, Bool.true_and]
    congr 1
    apply propext
    constructor
    · intro ho
      by_contra hn
      have hge : q.y ≤ yAt e q.x := not_lt.mp hn
      have : yAt e q.x * (e.2.x - e.1.x) ≤ q.y * (e.2.x - e.1.x) := mul_le_mul_of_nonpos_right hge (le_of_lt hd)
      rw [hy] at this
      nlinarith
    · intro hlt'
      have : q.y * (e.2.x - e.1.x) < yAt e q.x * (e.2.x - e.1.x) := mul_lt_mul_of_neg_right hlt' hd
      rw [hy] at this
      nlinarith

/-- a point of the open slab lies on a spanning edge exactly when it lies on its line -/
theorem onSeg_of_spans (q : Pt) (e : Seg) (x0 x1 : Rat) (h0 : x0 < q.x) (h1 : q.x < x1)
    (hs : spansSlab e x0 x1 = true) (hq : q.y = yAt e q.x) : onSeg q e = true := by
  unfold spansSlab segMaxX segMinX at hs
  simp only [Bool.and_eq_true, decide_eq_true_eq] at hs
  obtain ⟨⟨hne, hmin⟩, hmax⟩ := hs
  have hy := yAt_mul e q.x hne
  rw [← hq] at hy
  unfold onSeg
  simp only [Bool.and_eq_true, decide_eq_true_eq]
  have hxl : rmin e.1.x e.2.x ≤ q.x := by linarith
  have hxr : q.x ≤ rmax e.1.x e.2.x := by linarith
  refine ⟨⟨⟨⟨?_, hxl⟩, hxr⟩, ?_⟩, ?_⟩
  · unfold orient; nlinarith
  · -- q.y between the endpoint ordinates: it is a convex combination of them
    unfold rmin rmax at *
    by_cases hx : e.1.x ≤ e.2.x
    · simp only [hx, if_true] at hxl hxr
      have hd : 0 < e.2.x - e.1.x := by have := lt_of_le_of_ne hx hne; linarith
      by_cases hyy : e.1.y ≤ e.2.y
      · simp only [hyy, if_true]
        by_contra hn
        have : q.y < e.1.y := not_le.mp hn
        nlinarith
      · simp only [hyy, if_false]
        by_contra hn
        have : q.y < e.2.y := not_le.mp hn
        nlinarith
    · simp only [hx, if_false] at hxl hxr
      have hd : e.2.x - e.1.x < 0 := by have := not_le.mp hx; linarith
      by_cases hyy : e.1.y ≤ e.2.y
      · simp only [hyy, if_true]
        by_contra hn
        have : q.y < e.1.y := not_le.mp hn
        nlinarith
      · simp only [hyy, if_false]
        by_contra hn
        have : q.y < e.2.y := not_le.mp hn
        nlinarith
  · unfold rmin rmax at *
    by_cases hx : e.1.x ≤ e.2.x
    · simp only [hx, if_true] at hxl hxr
      have hd : 0 < e.2.x - e.1.x := by have := lt_of_le_of_ne hx hne; linarith
      by_cases hyy : e.1.y ≤ e.2.y
      · simp only [hyy, if_true]
        by_contra hn
        have : e.2.y < q.y := not_le.mp hn
        nlinarith
      · simp only [hyy, if_false]
        by_contra hn
        have : e.1.y < q.y := not_le.mp hn
        nlinarith
    · simp only [hx, if_false] at hxl hxr
      have hd : e.2.x - e.1.x < 0 := by have := not_le.mp hx; linarith
      by_cases hyy : e.1.y ≤ e.2.y
      · simp only [hyy, if_true]
        by_contra hn
        have : e.2.y < q.y := not_le.mp hn
        nlinarith
      · simp only [hyy, if_false]
        by_contra hn
        have : e.1.y < q.y := not_le.mp hn
        nlinarith

end Gbo.Spec

namespace Gbo.Spec
open Gbo Gbo.Props

/-! ### C. the order of spanning edges inside a slab -/

/-- `yAt e ·` is affine -/
theorem yAt_affine (e : Seg) (h : e.1.x ≠ e.2.x) (x0 x1 x : Rat) :
    yAt e x * (x1 - x0) = yAt e x0 * (x1 - x) + yAt e x1 * (x - x0) := by
  unfold yAt
  have hd : e.2.x - e.1.x ≠ 0 := fun h' => h (by linarith)
  field_simp
  ring

/-- two edges ordered at both ends of the slab are ordered everywhere in it -/
theorem yAt_le_inside (a b : Seg) (ha : a.1.x ≠ a.2.x) (hb : b.1.x ≠ b.2.x) (x0 x1 x : Rat)
    (h01 : x0 < x1) (hx0 : x0 ≤ x) (hx1 : x ≤ x1)
    (h0 : yAt a x0 ≤ yAt b x0) (h1 : yAt a x1 ≤ yAt b x1) : yAt a x ≤ yAt b x := by
  have ea := yAt_affine a ha x0 x1 x
  have eb := yAt_affine b hb x0 x1 x
  have hd : 0 < x1 - x0 := by linarith
  by_contra hn
  have hlt : yAt b x < yAt a x := not_le.mp hn
  have : yAt b x * (x1 - x0) < yAt a x * (x1 - x0) := mul_lt_mul_of_pos_right hlt hd
  rw [ea, eb] at this
  have t1 : yAt a x0 * (x1 - x) ≤ yAt b x0 * (x1 - x) := mul_le_mul_of_nonneg_right h0 (by linarith)
  have t2 : yAt a x1 * (x - x0) ≤ yAt b x1 * (x - x0) := mul_le_mul_of_nonneg_right h1 (by linarith)
  linarith

/-- ordered at both ends and equal in the middle: equal everywhere -/
theorem yAt_eq_inside (a b : Seg) (ha : a.1.x ≠ a.2.x) (hb : b.1.x ≠ b.2.x) (x0 x1 x : Rat)
    (h01 : x0 < x1)
    (h0 : yAt a x0 ≤ yAt b x0) (h1 : yAt a x1 ≤ yAt b x1)
    (hm : yAt a ((x0 + x1) / 2) = yAt b ((x0 + x1) / 2)) : yAt a x = yAt b x := by
  have hd : 0 < x1 - x0 := by linarith
  have ma := yAt_affine a ha x0 x1 ((x0 + x1) / 2)
  have mb := yAt_affine b hb x0 x1 ((x0 + x1) / 2)
  rw [hm] at ma
  -- both end differences vanish
  have hsum : yAt a x0 * (x1 - (x0 + x1) / 2) + yAt a x1 * ((x0 + x1) / 2 - x0)
      = yAt b x0 * (x1 - (x0 + x1) / 2) + yAt b x1 * ((x0 + x1) / 2 - x0) := by rw [← ma, ← mb]
  have hh : x1 - (x0 + x1) / 2 = (x1 - x0) / 2 := by ring
  have hh' : (x0 + x1) / 2 - x0 = (x1 - x0) / 2 := by ring
  rw [hh, hh'] at hsum
  have hpos : 0 < (x1 - x0) / 2 := by linarith
  have e0 : yAt a x0 = yAt b x0 := by
    by_contra hne
    have hlt : yAt a x0 < yAt b x0 := lt_of_le_of_ne h0 hne
    have t1 : yAt a x0 * ((x1 - x0) / 2) < yAt b x0 * ((x1 - x0) / 2) := mul_lt_mul_of_pos_right hlt hpos
    have t2 : yAt a x1 * ((x1 - x0) / 2) ≤ yAt b x1 * ((x1 - x0) / 2) := mul_le_mul_of_nonneg_right h1 (le_of_lt hpos)
    linarith
  have e1 : yAt a x1 = yAt b x1 := by
    by_contra hne
    have hlt : yAt a x1 < yAt b x1 := lt_of_le_of_ne h1 hne
    have t2 : yAt a x1 * ((x1 - x0) / 2) < yAt b x1 * ((x1 - x0) / 2) := mul_lt_mul_of_pos_right hlt hpos
    rw [e0] at hsum
    linarith
  have ea := yAt_affine a ha x0 x1 x
  have eb := yAt_affine b hb x0 x1 x
  rw [e0, e1] at ea
  have : yAt a x * (x1 - x0) = yAt b x * (x1 - x0) := by rw [ea, eb]
  exact mul_right_cancel₀ (ne_of_gt hd) this

theorem spans_nonvertical {e : Seg} {x0 x1 : Rat} (h : spansSlab e x0 x1 = true) : e.1.x ≠ e.2.x := by
  unfold spansSlab at h
  simp only [Bool.and_eq_true, decide_eq_true_eq] at h
  exact h.1.1

/-- the list is ordered at `x` by consecutive comparison (Prop form of `orderedAt`) -/
theorem orderedAt_cons (x : Rat) (a b : Tagged) (rest : List Tagged) :
    orderedAt x (a :: b :: rest) = true ↔ yAt a.seg x ≤ yAt b.seg x ∧ orderedAt x (b :: rest) = true := by
  simp [orderedAt]

/-- ordered at both slab ends, all edges spanning: ordered at every abscissa of the slab -/
theorem orderedAt_inside (x0 x1 x : Rat) (h01 : x0 < x1) (hx0 : x0 ≤ x) (hx1 : x ≤ x1) :
    ∀ (l : List Tagged), (∀ t ∈ l, spansSlab t.seg x0 x1 = true) →
      orderedAt x0 l = true → orderedAt x1 l = true → orderedAt x l = true := by
  intro l
  induction l with
  | nil => intros; rfl
  | cons a rest ih =>
    cases rest with
    | nil => intros; rfl
    | cons b rest =>
      intro hs h0 h1
      rw [orderedAt_cons] at h0 h1 ⊢
      refine ⟨?_, ih (fun t ht => hs t (List.mem_cons_of_mem _ ht)) h0.2 h1.2⟩
      exact yAt_le_inside a.seg b.seg (spans_nonvertical (hs a List.mem_cons_self))
        (spans_nonvertical (hs b (List.mem_cons_of_mem _ List.mem_cons_self))) x0 x1 x h01 hx0 hx1 h0.1 h1.1

/-- consecutive order implies pairwise order -/
theorem pairwise_of_orderedAt (x : Rat) : ∀ (l : List Tagged), orderedAt x l = true →
    l.Pairwise (fun a b => yAt a.seg x ≤ yAt b.seg x) := by
  intro l
  induction l with
  | nil => intro _; exact List.Pairwise.nil
  | cons a rest ih =>
    intro h
    cases rest with
    | nil => exact List.pairwise_singleton _ _
    | cons b rest =>
      rw [orderedAt_cons] at h
      have hp := ih h.2
      rw [List.pairwise_cons]
      refine ⟨?_, hp⟩
      rw [List.pairwise_cons] at hp
      intro c hc
      rcases List.mem_cons.mp hc with rfl | hc
      · exact h.1
      · exact le_trans h.1 (hp.1 c hc)

end Gbo.Spec
