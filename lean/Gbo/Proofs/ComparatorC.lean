import Gbo.Proofs.ComparatorB
/-
  Comparator soundness, part 3: all slabs, the outside, the final theorem.
-/
namespace Gbo.Spec
open Gbo Gbo.Props

/-! ### H. all slabs -/

/-- `x` lies strictly between two consecutive breakpoints -/
def Between : List Rat → Rat → Prop
  | x0 :: x1 :: rest, x => (x0 < x ∧ x < x1) ∨ Between (x1 :: rest) x
  | _, _ => False

theorem checkSlab_inl_ne_ok (all : List Tagged) (f : Array Bool → Bool) (n : Nat) (tol x0 x1 : Rat) (acc : Nat × Nat)
    (r : CheckResult) (h : checkSlab all f n tol x0 x1 acc = .inl r) : ∀ c t, r ≠ .ok c t := by
  intro c t
  unfold checkSlab at h
  simp only at h
  split at h
  · cases h; simp
  · split at h
    · cases h; simp
    · split at h
      · cases h
      · cases h; simp
      · cases h; simp

theorem checkSlabs_sound (all : List Tagged) (f : Array Bool → Bool) (n : Nat) :
    ∀ (xs : List Rat) (acc : Nat × Nat) (c t : Nat), checkSlabs all f n 0 xs acc = .ok c t →
      ∀ q : Pt, Between xs q.x → (∀ u ∈ all, onSeg q u.seg = false) →
        f (vecOf n (all.filter (fun u => edgeBelow q u.seg))) = true := by
  intro xs
  induction xs with
  | nil => intro acc c t _ q hb; exact absurd hb (by simp [Between])
  | cons x0 rest ih =>
    cases rest with
    | nil => intro acc c t _ q hb; exact absurd hb (by simp [Between])
    | cons x1 rest =>
      intro acc c t h q hb hclear
      simp only [checkSlabs] at h
      by_cases hthin : x1 - x0 ≤ 0
      · -- with tolerance 0 a non-increasing pair is refused
        simp only [hthin, if_true] at h
        have : ¬ x0 < x1 := by intro h'; linarith
        simp [this] at h
      · simp only [hthin, if_false] at h
        have h01 : x0 < x1 := by
          have := not_le.mp hthin; linarith
        cases hs : checkSlab all f n 0 x0 x1 acc with
        | inl r =>
          rw [hs] at h
          simp only at h
          exact absurd h (checkSlab_inl_ne_ok all f n 0 x0 x1 acc r hs c t)
        | inr acc' =>
          rw [hs] at h
          simp only at h
          rcases hb with ⟨h0, h1⟩ | hb
          · exact checkSlab_sound all f n x0 x1 acc acc' h01 hs q h0 h1 hclear
          · exact ih acc' c t h q hb hclear

/-- discrete intermediate value: a value strictly between the first and the last element of a list, and
    different from all elements, lies strictly between two consecutive ones -/
theorem between_of_bounds : ∀ (xs : List Rat) (lo hi x : Rat),
    xs.head? = some lo → xs.getLast? = some hi → lo < x → x < hi → (∀ y ∈ xs, x ≠ y) → Between xs x := by
  intro xs
  induction xs with
  | nil => intro lo hi x h; simp at h
  | cons a rest ih =>
    intro lo hi x hh hl hlo hhi hne
    simp only [List.head?_cons, Option.some.injEq] at hh
    subst hh
    cases rest with
    | nil =>
      simp only [List.getLast?_singleton, Option.some.injEq] at hl
      subst hl
      exact absurd (lt_trans hlo hhi) (lt_irrefl _)
    | cons b rest =>
      simp only [Between]
      by_cases hxb : x < b
      · exact Or.inl ⟨hlo, hxb⟩
      · right
        have hbx : b < x := by
          rcases lt_or_eq_of_le (not_lt.mp hxb) with h | h
          · exact h
          · exact absurd h.symm (hne b (List.mem_cons_of_mem _ List.mem_cons_self))
        have hl' : (b :: rest).getLast? = some hi := by
          rw [List.getLast?_cons_cons] at hl; exact hl
        exact ih b hi x rfl hl' hbx hhi (fun y hy => hne y (List.mem_cons_of_mem _ hy))

/-- left or right of all edges nothing is below the point -/
theorem filter_below_outside (all : List Tagged) (lo hi : Rat)
    (hb : all.all (fun t => decide (lo ≤ segMinX t.seg) && decide (segMaxX t.seg ≤ hi)) = true)
    (q : Pt) (hq : q.x < lo ∨ hi < q.x) : all.filter (fun t => edgeBelow q t.seg) = [] := by
  rw [List.filter_eq_nil_iff]
  intro t ht
  have := List.all_eq_true.mp hb t ht
  simp only [Bool.and_eq_true, decide_eq_true_eq] at this
  rcases hq with hq | hq
  · have hm : missesSlab t.seg (q.x - 1) lo = true := by
      unfold missesSlab; simp [this.1]
    rw [edgeBelow_of_misses q t.seg (q.x - 1) lo (by linarith) hq hm]; simp
  · have hm : missesSlab t.seg hi (q.x + 1) = true := by
      unfold missesSlab; simp [this.2]
    rw [edgeBelow_of_misses q t.seg hi (q.x + 1) hq (by linarith) hm]; simp

theorem mem_tagAll {atoms : Array (List Seg)} {t : Tagged} (h : t ∈ tagAll atoms) :
    t.atom < atoms.size ∧ t.seg ∈ atoms[t.atom]! := by
  unfold tagAll at h
  rw [List.mem_flatMap] at h
  obtain ⟨i, hi, ht⟩ := h
  rw [List.mem_map] at ht
  obtain ⟨s, hs, rfl⟩ := ht
  exact ⟨List.mem_range.mp hi, hs⟩

/-- **Soundness of the region comparator (tolerance 0).**  If it answers `ok`, the formula holds for the
    membership vector of EVERY point of the plane that lies on no edge and on none of the finitely many
    vertical breakpoint lines. -/
theorem regionFormulaCheck_sound (atoms : Array (List Seg)) (f : Array Bool → Bool) (c t : Nat)
    (h : regionFormulaCheck atoms f 0 = .ok c t) (q : Pt)
    (hclear : ∀ i, i < atoms.size → ∀ e ∈ atoms[i]!, onSeg q e = false)
    (hx : ∀ y ∈ breakpoints (tagAll atoms), q.x ≠ y) :
    f (atoms.map (fun es => memEdges es q)) = true := by
  rw [memVec_eq_vecOf]
  unfold regionFormulaCheck at h
  simp only at h
  have hclear' : ∀ u ∈ tagAll atoms, onSeg q u.seg = false := by
    intro u hu
    obtain ⟨h1, h2⟩ := mem_tagAll hu
    exact hclear u.atom h1 u.seg h2
  by_cases hbounds : boundsOk (tagAll atoms) (breakpoints (tagAll atoms)) = true
  swap
  · simp [hbounds] at h
  simp only [hbounds, Bool.not_true, Bool.false_eq_true, if_false] at h
  by_cases hout : f (vecOf atoms.size []) = true
  swap
  · simp [hout] at h
  simp only [hout, Bool.not_true, Bool.false_eq_true, if_false] at h
  generalize hxs : breakpoints (tagAll atoms) = xs at h hbounds hx
  unfold boundsOk at hbounds
  cases hhead : xs.head? with
  | none =>
    -- no breakpoints: no edges at all
    rw [hhead] at hbounds
    simp only at hbounds
    have : tagAll atoms = [] := by simpa using hbounds
    rw [this]
    simpa using hout
  | some lo =>
    cases hlast : xs.getLast? with
    | none =>
      have : xs = [] := List.getLast?_eq_none_iff.mp hlast
      rw [this] at hhead; simp at hhead
    | some hi =>
      rw [hhead, hlast] at hbounds
      simp only at hbounds
      have hlo_mem : lo ∈ xs := List.mem_of_head? hhead
      have hhi_mem : hi ∈ xs := List.mem_of_getLast? hlast
      rcases lt_trichotomy q.x lo with hl | hl | hl
      · rw [filter_below_outside (tagAll atoms) lo hi hbounds q (Or.inl hl)]; exact hout
      · exact absurd hl (hx lo hlo_mem)
      · rcases lt_trichotomy q.x hi with hr | hr | hr
        · have hbtw := between_of_bounds xs lo hi q.x hhead hlast hl hr hx
          exact checkSlabs_sound (tagAll atoms) f atoms.size xs (0, 0) c t h q hbtw hclear'
        · exact absurd hr (hx hi hhi_mem)
        · rw [filter_below_outside (tagAll atoms) lo hi hbounds q (Or.inr hr)]; exact hout

end Gbo.Spec

namespace Gbo.Spec
open Gbo Gbo.Props

/-! ### positive tolerance: the statement is about the cells that were checked -/

/-- `q` lies in a slab wider than the tolerance and its cell is thicker than the tolerance -/
def InCheckedCell (all : List Tagged) (tol : Rat) : List Rat → Pt → Prop
  | x0 :: x1 :: rest, q =>
    (x0 < q.x ∧ q.x < x1 ∧ tol < x1 - x0 ∧ ThickAt all tol x0 x1 q) ∨ InCheckedCell all tol (x1 :: rest) q
  | _, _ => False

theorem checkSlabs_sound_tol (all : List Tagged) (f : Array Bool → Bool) (n : Nat) (tol : Rat) (htol : 0 ≤ tol) :
    ∀ (xs : List Rat) (acc : Nat × Nat) (c t : Nat), checkSlabs all f n tol xs acc = .ok c t →
      ∀ q : Pt, InCheckedCell all tol xs q → (∀ u ∈ all, onSeg q u.seg = false) →
        f (vecOf n (all.filter (fun u => edgeBelow q u.seg))) = true := by
  intro xs
  induction xs with
  | nil => intro acc c t _ q hb; exact absurd hb (by simp [InCheckedCell])
  | cons x0 rest ih =>
    cases rest with
    | nil => intro acc c t _ q hb; exact absurd hb (by simp [InCheckedCell])
    | cons x1 rest =>
      intro acc c t h q hb hclear
      simp only [checkSlabs] at h
      by_cases hthin : x1 - x0 ≤ tol
      · simp only [hthin, if_true] at h
        by_cases h01 : x0 < x1
        · simp only [h01, if_true] at h
          rcases hb with ⟨_, _, hw, _⟩ | hb
          · exact absurd hthin (not_le.mpr hw)
          · exact ih _ c t h q hb hclear
        · simp [h01] at h
      · simp only [hthin, if_false] at h
        have h01 : x0 < x1 := by
          have := not_le.mp hthin; linarith
        cases hs : checkSlab all f n tol x0 x1 acc with
        | inl r =>
          rw [hs] at h
          simp only at h
          exact absurd h (checkSlab_inl_ne_ok all f n tol x0 x1 acc r hs c t)
        | inr acc' =>
          rw [hs] at h
          simp only at h
          rcases hb with ⟨h0, h1, _, hth⟩ | hb
          · exact checkSlab_sound_tol all f n tol x0 x1 acc acc' htol h01 hs q h0 h1 hclear (Or.inr hth)
          · exact ih acc' c t h q hb hclear

/-- **Soundness of the region comparator for any tolerance ≥ 0**: if it answers `ok`, the formula holds at
    every point that lies on no edge and either left / right of all edges or in a checked cell (a slab wider
    than the tolerance, in a gap thicker than the tolerance).  The skipped cells are exactly the ones the
    checker counts as `thin`. -/
theorem regionFormulaCheck_sound_tol (atoms : Array (List Seg)) (f : Array Bool → Bool) (tol : Rat) (htol : 0 ≤ tol)
    (c t : Nat) (h : regionFormulaCheck atoms f tol = .ok c t) (q : Pt)
    (hclear : ∀ i, i < atoms.size → ∀ e ∈ atoms[i]!, onSeg q e = false)
    (hcell : (∀ y ∈ breakpoints (tagAll atoms), q.x < y) ∨ (∀ y ∈ breakpoints (tagAll atoms), y < q.x)
             ∨ InCheckedCell (tagAll atoms) tol (breakpoints (tagAll atoms)) q) :
    f (atoms.map (fun es => memEdges es q)) = true := by
  rw [memVec_eq_vecOf]
  unfold regionFormulaCheck at h
  simp only at h
  have hclear' : ∀ u ∈ tagAll atoms, onSeg q u.seg = false := by
    intro u hu
    obtain ⟨h1, h2⟩ := mem_tagAll hu
    exact hclear u.atom h1 u.seg h2
  by_cases hbounds : boundsOk (tagAll atoms) (breakpoints (tagAll atoms)) = true
  swap
  · simp [hbounds] at h
  simp only [hbounds, Bool.not_true, Bool.false_eq_true, if_false] at h
  by_cases hout : f (vecOf atoms.size []) = true
  swap
  · simp [hout] at h
  simp only [hout, Bool.not_true, Bool.false_eq_true, if_false] at h
  generalize hxs : breakpoints (tagAll atoms) = xs at h hbounds hcell
  unfold boundsOk at hbounds
  rcases hcell with hl | hr | hin
  · cases hhead : xs.head? with
    | none =>
      rw [hhead] at hbounds; simp only at hbounds
      have : tagAll atoms = [] := by simpa using hbounds
      rw [this]; simpa using hout
    | some lo =>
      cases hlast : xs.getLast? with
      | none => have : xs = [] := List.getLast?_eq_none_iff.mp hlast
                rw [this] at hhead; simp at hhead
      | some hi =>
        rw [hhead, hlast] at hbounds; simp only at hbounds
        rw [filter_below_outside (tagAll atoms) lo hi hbounds q (Or.inl (hl lo (List.mem_of_head? hhead)))]
        exact hout
  · cases hhead : xs.head? with
    | none =>
      rw [hhead] at hbounds; simp only at hbounds
      have : tagAll atoms = [] := by simpa using hbounds
      rw [this]; simpa using hout
    | some lo =>
      cases hlast : xs.getLast? with
      | none => have : xs = [] := List.getLast?_eq_none_iff.mp hlast
                rw [this] at hhead; simp at hhead
      | some hi =>
        rw [hhead, hlast] at hbounds; simp only at hbounds
        rw [filter_below_outside (tagAll atoms) lo hi hbounds q (Or.inr (hr hi (List.mem_of_getLast? hlast)))]
        exact hout
  · exact checkSlabs_sound_tol (tagAll atoms) f atoms.size tol htol xs (0, 0) c t h q hin hclear'

end Gbo.Spec
