import Gbo.Model.Connect
/-
  `Contour::initialize_from_context`: the parent link of a new contour and the parent's list of holes are
  written together.
-/
namespace Gbo

theorem getC_modify (cs : Array Contour) (i j : Nat) (f : Contour → Contour) :
    (cs.modify i f)[j]! = if i = j ∧ j < cs.size then f cs[j]! else cs[j]! := by
  by_cases hj : j < cs.size
  · simp [getElem!_pos, hj, Array.getElem_modify]
  · simp [getElem!_neg, hj]

/-- a new contour is recorded as a hole of `p` exactly when its id is appended to `p`'s list of holes; nothing
    else in the list of contours changes, and a contour that is no hole leaves the list untouched -/
theorem initializeFromContext_links (cfg : Cfg) (a : Arena) (event : Nat) (contours contours' : Array Contour)
    (cid : Int) (c : Contour) (h : initializeFromContext cfg a event contours cid = .ok (c, contours')) :
    contours'.size = contours.size ∧
    (match c.holeOf with
     | some p => idxOk contours.size p = true ∧
         contours'[p.toNat]!.holeIds = contours[p.toNat]!.holeIds.push cid ∧
         ∀ j, j ≠ p.toNat → contours'[j]! = contours[j]!
     | none => contours' = contours) := by
  unfold initializeFromContext at h
  split at h
  · simp only [Except.ok.injEq, Prod.mk.injEq] at h
    obtain ⟨hc, hcs⟩ := h
    subst hc; subst hcs
    exact ⟨rfl, rfl⟩
  · simp only at h
    split at h
    · split at h
      · simp at h
      · rename_i hlow
        split at h
        · rename_i parent hpar
          split at h
          · simp at h
          · rename_i hpok
            simp only [Except.ok.injEq, Prod.mk.injEq] at h
            obtain ⟨hc, hcs⟩ := h
            subst hc; subst hcs
            have hp : idxOk contours.size parent = true := by simpa using hpok
            have hplt : parent.toNat < contours.size := by
              unfold idxOk at hp; simp at hp; exact hp.2
            refine ⟨by simp, hp, ?_, ?_⟩
            · rw [getC_modify]; simp [hplt]
            · intro j hj; rw [getC_modify]; simp [Ne.symm hj]
        · simp only [Except.ok.injEq, Prod.mk.injEq] at h
          obtain ⟨hc, hcs⟩ := h
          subst hc; subst hcs
          have hp : idxOk contours.size (a[‹Nat›]!.outputContourId) = true := by simpa using hlow
          have hplt : (a[‹Nat›]!.outputContourId).toNat < contours.size := by
            unfold idxOk at hp; simp at hp; exact hp.2
          refine ⟨by simp, hp, ?_, ?_⟩
          · rw [getC_modify]; simp [hplt]
          · intro j hj; rw [getC_modify]; simp [Ne.symm hj]
    · split at h
      · split at h
        · simp at h
        · simp only [Except.ok.injEq, Prod.mk.injEq] at h
          obtain ⟨hc, hcs⟩ := h
          subst hc; subst hcs
          exact ⟨rfl, rfl⟩
      · simp only [Except.ok.injEq, Prod.mk.injEq] at h
        obtain ⟨hc, hcs⟩ := h
        subst hc; subst hcs
        exact ⟨rfl, rfl⟩

end Gbo
