import Mathlib.Tactic.Linarith
import Mathlib.Tactic.Ring
import Mathlib.Tactic.SplitIfs
import Gbo.Model.Event
/-
  The event order (`impl Ord for SweepEvent`) and the segment order (`compare_segments`) over exact
  rational coordinates.  Every finite f32/f64 is a rational and the Rust code only compares coordinates
  and takes the exact sign of `orient2d`, so these theorems speak about what the code computes for every
  float input.
-/
namespace Gbo

theorem orient_swap23 (p a b : Pt) : orient p a b = - orient p b a := by unfold orient; ring
theorem orient_swap12 (p a b : Pt) : orient a p b = - orient p a b := by unfold orient; ring
theorem orient_cycle (p a b : Pt) : orient a b p = orient p a b := by unfold orient; ring

/-- sweep order of points: by x, then by y -/
def ptLt (p q : Pt) : Prop := p.x < q.x ∨ (p.x = q.x ∧ p.y < q.y)

theorem ptLt_trichotomy (p q : Pt) : ptLt p q ∨ p = q ∨ ptLt q p := by
  unfold ptLt
  rcases lt_trichotomy p.x q.x with h | h | h
  · exact Or.inl (Or.inl h)
  · rcases lt_trichotomy p.y q.y with h' | h' | h'
    · exact Or.inl (Or.inr ⟨h, h'⟩)
    · right; left; cases p; cases q; simp_all
    · exact Or.inr (Or.inr (Or.inr ⟨h.symm, h'⟩))
  · exact Or.inr (Or.inr (Or.inl h))

theorem ptLt_trans {p q r : Pt} (h1 : ptLt p q) (h2 : ptLt q r) : ptLt p r := by
  unfold ptLt at *
  rcases h1 with h1 | ⟨h1, h1'⟩ <;> rcases h2 with h2 | ⟨h2, h2'⟩
  · left; linarith
  · left; linarith
  · left; linarith
  · right; exact ⟨by linarith, by linarith⟩

theorem ptLt_irrefl (p : Pt) : ¬ ptLt p p := by
  unfold ptLt; intro h; rcases h with h | ⟨_, h⟩ <;> exact absurd h (lt_irrefl _)

theorem ptLt_asymm {p q : Pt} (h : ptLt p q) : ¬ ptLt q p := fun h' => ptLt_irrefl p (ptLt_trans h h')

/-- never `Equal`: every branch of the comparison answers Less or Greater -/
theorem lessIf_ne_eq (c : Bool) : lessIf c ≠ .eq := by cases c <;> simp [lessIf]

theorem cmpView_ne_eq (e1 e2 : EvView) : cmpView e1 e2 ≠ .eq := by
  unfold cmpView
  by_cases h1 : e1.point.x > e2.point.x
  · simp [h1]
  by_cases h2 : e1.point.x < e2.point.x
  · simp [h1, h2]
  by_cases h3 : e1.point.y > e2.point.y
  · simp [h1, h2, h3]
  by_cases h4 : e1.point.y < e2.point.y
  · simp [h1, h2, h3, h4]
  simp only [h1, h2, h3, h4, if_false]
  cases h5 : (e1.left != e2.left)
  · simp only [Bool.false_eq_true, if_false]
    split
    · split_ifs <;> exact lessIf_ne_eq _
    · exact lessIf_ne_eq _
  · simp only [if_true]; exact lessIf_ne_eq _

/-- the lexicographic part: an event at an earlier point is processed first -/
theorem cmpView_of_ptLt {e1 e2 : EvView} (h : ptLt e1.point e2.point) : cmpView e1 e2 = .gt := by
  unfold cmpView
  unfold ptLt at h
  rcases h with h | ⟨hx, hy⟩
  · have h1 : ¬ e1.point.x > e2.point.x := by intro h'; linarith
    simp [h1, h]
  · have h1 : ¬ e1.point.x > e2.point.x := by intro h'; linarith
    have h2 : ¬ e1.point.x < e2.point.x := by intro h'; linarith
    have h3 : ¬ e1.point.y > e2.point.y := by intro h'; linarith
    simp [h1, h2, h3, hy]

theorem cmpView_of_ptGt {e1 e2 : EvView} (h : ptLt e2.point e1.point) : cmpView e1 e2 = .lt := by
  unfold cmpView
  unfold ptLt at h
  rcases h with h | ⟨hx, hy⟩
  · simp [h]
  · have h1 : ¬ e1.point.x > e2.point.x := by intro h'; linarith
    have h2 : ¬ e1.point.x < e2.point.x := by intro h'; linarith
    simp [h1, h2, hy]

/-- at one point, right events come before left events -/
theorem cmpView_right_before_left {e1 e2 : EvView} (hp : e1.point = e2.point) (h1 : e1.left = false) (h2 : e2.left = true) :
    cmpView e1 e2 = .gt ∧ cmpView e2 e1 = .lt := by
  unfold cmpView lessIf
  simp [hp, h1, h2]

/-- what "events of a valid input" means for two events meeting at one point: when they have the same
    kind and their segments are collinear from that point, they belong to different operands -/
def PairOk (e1 e2 : EvView) : Prop :=
  e1.point = e2.point → e1.left = e2.left →
    ∀ o1 o2, e1.otherPt = some o1 → e2.otherPt = some o2 → orient e1.point o1 o2 = 0 → e1.isSubject ≠ e2.isSubject

def swapOrd : Ordering → Ordering
  | .lt => .gt | .gt => .lt | .eq => .eq

/-- antisymmetry on the events of a valid input (both events linked to their other endpoint) -/
theorem cmpView_antisymm (e1 e2 : EvView) (o1 o2 : Pt) (h1 : e1.otherPt = some o1) (h2 : e2.otherPt = some o2)
    (hok : PairOk e1 e2) : cmpView e2 e1 = swapOrd (cmpView e1 e2) := by
  rcases ptLt_trichotomy e1.point e2.point with h | h | h
  · rw [cmpView_of_ptLt h, cmpView_of_ptGt h]; rfl
  · -- same point
    by_cases hl : e1.left = e2.left
    · have hok' := hok h hl o1 o2 h1 h2
      unfold cmpView
      have hx : ¬ e1.point.x > e2.point.x := by rw [h]; exact lt_irrefl _
      have hx' : ¬ e2.point.x > e1.point.x := by rw [h]; exact lt_irrefl _
      have hy : ¬ e1.point.y > e2.point.y := by rw [h]; exact lt_irrefl _
      have hy' : ¬ e2.point.y > e1.point.y := by rw [h]; exact lt_irrefl _
      simp only [hx, hx', hy, hy', gt_iff_lt, if_false, hl, bne_self_eq_false, Bool.false_eq_true, h1, h2]
      have hsw : orient e2.point o2 o1 = - orient e1.point o1 o2 := by rw [← h, orient_swap23]
      by_cases hz : orient e1.point o1 o2 = 0
      · have hz' : orient e2.point o2 o1 = 0 := by rw [hsw, hz]; simp
        have hs := hok' hz
        simp only [hz, hz', ne_eq, not_true_eq_false, if_false]
        unfold lessIf
        cases hs1 : e1.isSubject <;> cases hs2 : e2.isSubject <;> simp_all [swapOrd]
      · have hz' : orient e2.point o2 o1 ≠ 0 := by rw [hsw]; intro hh; apply hz; linarith
        simp only [hz, hz', ne_eq, not_false_eq_true, if_true]
        unfold EvView.isBelow lessIf
        simp only [h1, h2]
        cases hle : e2.left
        · -- right events
          rw [hle] at hl
          simp only [hl, Bool.false_eq_true, if_false]
          have e : orient o2 e2.point o1 = - orient o1 e1.point o2 := by
            rw [← h]; unfold orient; ring
          by_cases hpos : orient o1 e1.point o2 > 0
          · have : ¬ orient o2 e2.point o1 > 0 := by rw [e]; intro hh; linarith
            simp [hpos, this, swapOrd]
          · have hne : orient o1 e1.point o2 ≠ 0 := by rw [orient_swap12]; intro hh; apply hz; linarith
            have : orient o2 e2.point o1 > 0 := by
              rw [e]; rcases lt_trichotomy (orient o1 e1.point o2) 0 with hh | hh | hh
              · linarith
              · exact absurd hh hne
              · exact absurd hh hpos
            simp [hpos, this, swapOrd]
        · rw [hle] at hl
          simp only [hl, if_true]
          by_cases hpos : orient e1.point o1 o2 > 0
          · have : ¬ orient e2.point o2 o1 > 0 := by rw [hsw]; intro hh; linarith
            simp [hpos, this, swapOrd]
          · have : orient e2.point o2 o1 > 0 := by
              rw [hsw]; rcases lt_trichotomy (orient e1.point o1 o2) 0 with hh | hh | hh
              · linarith
              · exact absurd hh hz
              · exact absurd hh hpos
            simp [hpos, this, swapOrd]
    · -- different kinds at one point
      cases hl1 : e1.left <;> cases hl2 : e2.left
      · exact absurd (hl1.trans hl2.symm) hl
      · have := cmpView_right_before_left h hl1 hl2; rw [this.1, this.2]; rfl
      · have := cmpView_right_before_left h.symm hl2 hl1; rw [this.1, this.2]; rfl
      · exact absurd (hl1.trans hl2.symm) hl
  · rw [cmpView_of_ptGt h, cmpView_of_ptLt h]; rfl

/-- the antisymmetry gap the source mentions is exactly the excluded configuration: two collinear left
    events of the same operand at one point compare `Greater` both ways -/
theorem cmpView_gap_witness :
    let e1 : EvView := { point := ⟨0, 0⟩, left := true, otherPt := some ⟨1, 1⟩, isSubject := true }
    let e2 : EvView := { point := ⟨0, 0⟩, left := true, otherPt := some ⟨2, 2⟩, isSubject := true }
    cmpView e1 e2 = .gt ∧ cmpView e2 e1 = .gt := by decide +kernel

/-! ### the angular part: transitivity of orientation inside a half-plane -/

/-- the vector from `p` to `o` points into the half-plane of points after `p` in sweep order -/
def After (p o : Pt) : Prop := p.x < o.x ∨ (p.x = o.x ∧ p.y < o.y)

/-- the 2D identity behind angular transitivity: (u×w) v = (u×v) w + (v×w) u, in coordinates -/
theorem cross_identity_x (p a b c : Pt) :
    orient p a c * (b.x - p.x) = orient p a b * (c.x - p.x) + orient p b c * (a.x - p.x) := by
  unfold orient; ring

theorem cross_identity_y (p a b c : Pt) :
    orient p a c * (b.y - p.y) = orient p a b * (c.y - p.y) + orient p b c * (a.y - p.y) := by
  unfold orient; ring

/-- left events at one point: if `b` is counter-clockwise of `a` and `c` of `b`, all three after `p`,
    then `c` is counter-clockwise of `a` -/
theorem orient_trans_after {p a b c : Pt} (ha : After p a) (hb : After p b) (hc : After p c)
    (hab : orient p a b > 0) (hbc : orient p b c > 0) : orient p a c > 0 := by
  have hx := cross_identity_x p a b c
  have hy := cross_identity_y p a b c
  unfold After at ha hb hc
  rcases hb with hb | ⟨hbx, hby⟩
  · -- b strictly to the right: use the x identity
    have hax : 0 ≤ a.x - p.x := by rcases ha with h | ⟨h, _⟩ <;> linarith
    have hcx : 0 ≤ c.x - p.x := by rcases hc with h | ⟨h, _⟩ <;> linarith
    have hbx : 0 < b.x - p.x := by linarith
    by_contra hneg
    have hle : orient p a c ≤ 0 := not_lt.mp hneg
    -- the right-hand side is non-negative, the left-hand side non-positive: both terms vanish
    have h1 : 0 ≤ orient p a b * (c.x - p.x) := mul_nonneg (le_of_lt hab) hcx
    have h2 : 0 ≤ orient p b c * (a.x - p.x) := mul_nonneg (le_of_lt hbc) hax
    have h3 : orient p a c * (b.x - p.x) ≤ 0 := mul_nonpos_of_nonpos_of_nonneg hle (le_of_lt hbx)
    have hc0 : orient p a b * (c.x - p.x) = 0 := by linarith
    have ha0 : orient p b c * (a.x - p.x) = 0 := by linarith
    have hcx0 : c.x - p.x = 0 := by
      rcases mul_eq_zero.mp hc0 with h | h
      · linarith
      · exact h
    have hax0 : a.x - p.x = 0 := by
      rcases mul_eq_zero.mp ha0 with h | h
      · linarith
      · exact h
    -- a is straight above p, so b (strictly right of p) is clockwise of a: contradiction
    have hay : p.y < a.y := by rcases ha with h | ⟨_, h⟩ <;> linarith
    have : orient p a b = (p.x - b.x) * (a.y - p.y) := by
      unfold orient; have : a.x = p.x := by linarith
      rw [this]; ring
    rw [this] at hab
    have : (p.x - b.x) * (a.y - p.y) < 0 := mul_neg_of_neg_of_pos (by linarith) (by linarith)
    linarith
  · -- b straight above p: then c would have to lie strictly left of p
    have : orient p b c = (p.x - c.x) * (b.y - p.y) := by
      unfold orient; rw [← hbx]; ring
    rw [this] at hbc
    have hcx : 0 ≤ c.x - p.x := by rcases hc with h | ⟨h, _⟩ <;> linarith
    have : (p.x - c.x) * (b.y - p.y) ≤ 0 := mul_nonpos_of_nonpos_of_nonneg (by linarith) (by linarith)
    linarith

end Gbo

namespace Gbo

/-- two directions from `p` that are collinear and both after `p` point along the same ray: every third
    point is on the same side of both -/
theorem orient_same_ray_left {p a b c : Pt} (ha : After p a) (hb : After p b) (hab : orient p a b = 0) :
    (orient p a c > 0 ↔ orient p b c > 0) ∧ (orient p a c = 0 ↔ orient p b c = 0) := by
  have hx := cross_identity_x p a b c
  have hy := cross_identity_y p a b c
  rw [hab] at hx hy
  simp only [zero_mul, zero_add] at hx hy
  unfold After at ha hb
  -- either both strictly right of p, or both straight above p
  by_cases hbx : p.x < b.x
  · have hax : p.x < a.x := by
      rcases ha with h | ⟨h, hay⟩
      · exact h
      · -- a straight above p but b strictly right: then orient p a b ≠ 0
        exfalso
        have : orient p a b = (p.x - b.x) * (a.y - p.y) := by unfold orient; rw [← h]; ring
        rw [this] at hab
        rcases mul_eq_zero.mp hab with h1 | h1 <;> linarith
    have hbp : 0 < b.x - p.x := by linarith
    have hap : 0 < a.x - p.x := by linarith
    constructor
    · constructor
      · intro h
        have : 0 < orient p a c * (b.x - p.x) := mul_pos h hbp
        rw [hx] at this
        by_contra hn
        have : orient p b c * (a.x - p.x) ≤ 0 := mul_nonpos_of_nonpos_of_nonneg (not_lt.mp hn) (le_of_lt hap)
        linarith
      · intro h
        have : 0 < orient p b c * (a.x - p.x) := mul_pos h hap
        rw [← hx] at this
        by_contra hn
        have : orient p a c * (b.x - p.x) ≤ 0 := mul_nonpos_of_nonpos_of_nonneg (not_lt.mp hn) (le_of_lt hbp)
        linarith
    · constructor
      · intro h
        rw [h, zero_mul] at hx
        rcases mul_eq_zero.mp hx.symm with h1 | h1
        · exact h1
        · linarith
      · intro h
        rw [h, zero_mul] at hx
        rcases mul_eq_zero.mp hx with h1 | h1
        · exact h1
        · linarith
  · have hbx' : p.x = b.x ∧ p.y < b.y := by
      rcases hb with h | h
      · exact absurd h hbx
      · exact h
    have hax : p.x = a.x := by
      rcases ha with h | ⟨h, _⟩
      · exfalso
        have : orient p a b = (a.x - p.x) * (b.y - p.y) := by unfold orient; rw [← hbx'.1]; ring
        rw [this] at hab
        rcases mul_eq_zero.mp hab with h1 | h1 <;> linarith
      · exact h
    have hay : p.y < a.y := by
      rcases ha with h | ⟨_, h⟩
      · linarith
      · exact h
    have hbp : 0 < b.y - p.y := by linarith
    have hap : 0 < a.y - p.y := by linarith
    constructor
    · constructor
      · intro h
        have : 0 < orient p a c * (b.y - p.y) := mul_pos h hbp
        rw [hy] at this
        by_contra hn
        have : orient p b c * (a.y - p.y) ≤ 0 := mul_nonpos_of_nonpos_of_nonneg (not_lt.mp hn) (le_of_lt hap)
        linarith
      · intro h
        have : 0 < orient p b c * (a.y - p.y) := mul_pos h hap
        rw [← hy] at this
        by_contra hn
        have : orient p a c * (b.y - p.y) ≤ 0 := mul_nonpos_of_nonpos_of_nonneg (not_lt.mp hn) (le_of_lt hbp)
        linarith
    · constructor
      · intro h
        rw [h, zero_mul] at hy
        rcases mul_eq_zero.mp hy.symm with h1 | h1
        · exact h1
        · linarith
      · intro h
        rw [h, zero_mul] at hy
        rcases mul_eq_zero.mp hy with h1 | h1
        · exact h1
        · linarith

/-- "is processed before" among LEFT events at one common point `p`, in terms of the other endpoints -/
def leftBefore (p : Pt) (a : Pt) (sa : Bool) (b : Pt) (sb : Bool) : Prop :=
  orient p a b > 0 ∨ (orient p a b = 0 ∧ (sa = true ∨ sb = false))

theorem cmpView_left_iff (p a b : Pt) (sa sb : Bool) :
    cmpView { point := p, left := true, otherPt := some a, isSubject := sa }
            { point := p, left := true, otherPt := some b, isSubject := sb } = .gt ↔ leftBefore p a sa b sb := by
  unfold cmpView leftBefore
  simp only [gt_iff_lt, lt_self_iff_false, if_false, bne_self_eq_false, Bool.false_eq_true, EvView.isBelow, lessIf, if_true]
  by_cases hz : orient p a b = 0
  · simp only [hz, ne_eq, not_true_eq_false, if_false, lt_self_iff_false, false_or, true_and]
    cases sa <;> cases sb <;> simp
  · simp only [ne_eq, hz, not_false_eq_true, if_true, false_and, or_false]
    by_cases h : 0 < orient p a b <;> simp [h]

/-- Transitivity of the event order among left events at one point of a valid input (collinear pairs
    belong to different operands). -/
theorem leftBefore_trans {p a b c : Pt} {sa sb sc : Bool} (ha : After p a) (hb : After p b) (hc : After p c)
    (okab : orient p a b = 0 → sa ≠ sb) (okbc : orient p b c = 0 → sb ≠ sc) (okac : orient p a c = 0 → sa ≠ sc)
    (h1 : leftBefore p a sa b sb) (h2 : leftBefore p b sb c sc) : leftBefore p a sa c sc := by
  unfold leftBefore at *
  rcases h1 with h1 | ⟨h1, s1⟩ <;> rcases h2 with h2 | ⟨h2, s2⟩
  · exact Or.inl (orient_trans_after ha hb hc h1 h2)
  · -- b and c on one ray
    have hr := orient_same_ray_left (c := a) hb hc h2
    -- orient p a c has the sign of orient p a b
    have e1 : orient p b a = - orient p a b := orient_swap23 p b a
    have e2 : orient p c a = - orient p a c := orient_swap23 p c a
    left
    by_contra hn
    have hle : orient p a c ≤ 0 := not_lt.mp hn
    rcases lt_or_eq_of_le hle with hlt | heq
    · have : orient p c a > 0 := by rw [e2]; linarith
      have := hr.1.2 this
      rw [e1] at this; linarith
    · have : orient p c a = 0 := by rw [e2, heq]; simp
      have := hr.2.2 this
      rw [e1] at this; linarith
  · -- a and b on one ray
    have hr := orient_same_ray_left (c := c) ha hb h1
    exact Or.inl (hr.1.2 h2)
  · -- all three on one ray: impossible with only two operands
    have hr := orient_same_ray_left (c := c) ha hb h1
    have hac : orient p a c = 0 := hr.2.2 h2
    exfalso
    have n1 := okab h1
    have n2 := okbc h2
    have n3 := okac hac
    cases sa <;> cases sb <;> cases sc <;> simp_all

end Gbo

namespace Gbo

/-- point reflection through `p` -/
def refl (p a : Pt) : Pt := { x := 2 * p.x - a.x, y := 2 * p.y - a.y }

theorem after_refl {p a : Pt} (h : After a p) : After p (refl p a) := by
  unfold After refl at *
  rcases h with h | ⟨h1, h2⟩
  · left; simp only; linarith
  · right; simp only; exact ⟨by linarith, by linarith⟩

theorem orient_refl (p a b : Pt) : orient p (refl p a) (refl p b) = orient p a b := by
  unfold orient refl; ring

/-- "is processed before" among RIGHT events at one common point `p` -/
def rightBefore (p : Pt) (a : Pt) (sa : Bool) (b : Pt) (sb : Bool) : Prop :=
  orient p b a > 0 ∨ (orient p a b = 0 ∧ (sa = true ∨ sb = false))

theorem cmpView_right_iff (p a b : Pt) (sa sb : Bool) :
    cmpView { point := p, left := false, otherPt := some a, isSubject := sa }
            { point := p, left := false, otherPt := some b, isSubject := sb } = .gt ↔ rightBefore p a sa b sb := by
  unfold cmpView rightBefore
  simp only [gt_iff_lt, lt_self_iff_false, if_false, bne_self_eq_false, Bool.false_eq_true, EvView.isBelow, lessIf]
  have e : orient a p b = orient p b a := by unfold orient; ring
  by_cases hz : orient p a b = 0
  · have hz' : ¬ 0 < orient p b a := by rw [orient_swap23, hz]; simp
    simp only [hz, ne_eq, not_true_eq_false, if_false, true_and, hz', false_or]
    cases sa <;> cases sb <;> simp
  · simp only [ne_eq, hz, not_false_eq_true, if_true, false_and, or_false, e]
    by_cases h : 0 < orient p b a <;> simp [h]

theorem rightBefore_trans {p a b c : Pt} {sa sb sc : Bool} (ha : After a p) (hb : After b p) (hc : After c p)
    (okab : orient p a b = 0 → sa ≠ sb) (okbc : orient p b c = 0 → sb ≠ sc) (okac : orient p a c = 0 → sa ≠ sc)
    (h1 : rightBefore p a sa b sb) (h2 : rightBefore p b sb c sc) : rightBefore p a sa c sc := by
  -- reflect through p and read the order backwards: it becomes the order of left events c', b', a'
  have ha' := after_refl ha
  have hb' := after_refl hb
  have hc' := after_refl hc
  unfold rightBefore at *
  have sw : ∀ x y : Pt, orient p y x = - orient p x y := fun x y => orient_swap23 p y x
  rcases h1 with h1 | ⟨h1, s1⟩ <;> rcases h2 with h2 | ⟨h2, s2⟩
  · left
    have := orient_trans_after hc' hb' ha' (by rw [orient_refl]; exact h2) (by rw [orient_refl]; exact h1)
    rwa [orient_refl] at this
  · -- b, c on one ray
    have hr := orient_same_ray_left (c := refl p a) hb' hc' (by rw [orient_refl]; exact h2)
    rw [orient_refl, orient_refl] at hr
    exact Or.inl (hr.1.1 h1)
  · -- a, b on one ray
    have hr := orient_same_ray_left (c := refl p c) ha' hb' (by rw [orient_refl]; exact h1)
    rw [orient_refl, orient_refl] at hr
    left
    by_contra hn
    have hle : orient p c a ≤ 0 := not_lt.mp hn
    rcases lt_or_eq_of_le hle with hlt | heq
    · have : orient p a c > 0 := by rw [sw c a]; linarith
      have := hr.1.1 this
      rw [sw c b] at this; linarith
    · have : orient p a c = 0 := by rw [sw c a, heq]; simp
      have := hr.2.1 this
      rw [sw c b] at this; linarith
  · have hr := orient_same_ray_left (c := refl p c) ha' hb' (by rw [orient_refl]; exact h1)
    rw [orient_refl, orient_refl] at hr
    have hac : orient p a c = 0 := hr.2.2 h2
    exfalso
    have n1 := okab h1
    have n2 := okbc h2
    have n3 := okac hac
    clear hr h1 h2 hac okab okbc okac s1 s2 ha hb hc ha' hb' hc' sw
    cases sa <;> cases sb <;> cases sc <;> simp at n1 n2 n3

end Gbo
