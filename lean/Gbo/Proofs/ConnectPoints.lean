import Gbo.Proofs.Bubble
import Gbo.Proofs.Divide
/-
  `connect_edges` only ever emits points of events: every vertex of every contour is the point of an event
  listed in `sorted_events`.
-/
namespace Gbo

/-- same size and same points as the reference arena -/
def SamePts (a0 a : Arena) : Prop := a.size = a0.size ∧ ∀ j : Nat, a[j]!.point = a0[j]!.point

theorem SamePts.refl (a : Arena) : SamePts a a := ⟨rfl, fun _ => rfl⟩

theorem SamePts.modify {a0 a : Arena} (h : SamePts a0 a) (i : Nat) (f : Ev → Ev) (hf : ∀ e, (f e).point = e.point) :
    SamePts a0 (a.modify i f) :=
  ⟨by rw [Array.size_modify]; exact h.1, fun j => by rw [get!_modify_point a i j f hf]; exact h.2 j⟩

theorem SamePts.modify_otherPos {a0 a : Arena} (h : SamePts a0 a) (i : Nat) (x : Int) :
    SamePts a0 (a.modify i (fun e => { e with otherPos := x })) :=
  h.modify i (fun e => { e with otherPos := x }) (fun _ => rfl)

theorem SamePts.modify_contour {a0 a : Arena} (h : SamePts a0 a) (i : Nat) (x : Int) :
    SamePts a0 (a.modify i (fun e => { e with outputContourId := x })) :=
  h.modify i (fun e => { e with outputContourId := x }) (fun _ => rfl)

/-- one pass of the bubble sort permutes the list (no hypothesis on the order) -/
theorem bubbleStep_perm (a : Arena) (acc : Array Nat × Bool) (k : Nat) :
    (bubbleStep a acc k).1.toList.Perm acc.1.toList := by
  unfold bubbleStep
  split
  · simp only
    by_cases hk : k + 1 < acc.1.size
    · have hl : k + 1 < acc.1.toList.length := by simpa using hk
      obtain ⟨e1, e2⟩ := list_swap_adjacent acc.1.toList k hl
      rw [Array.swapIfInBounds_def]
      simp only [Nat.lt_of_succ_lt hk, hk, dite_true, Array.toList_swap]
      have e1' : (acc.1.toList.set k acc.1[k + 1]).set (k + 1) (acc.1[k]'(by omega)) =
          acc.1.toList.take k ++ acc.1[k + 1] :: (acc.1[k]'(by omega)) :: acc.1.toList.drop (k + 2) := by simpa using e1
      have e2' : acc.1.toList = acc.1.toList.take k ++ (acc.1[k]'(by omega)) :: acc.1[k + 1] :: acc.1.toList.drop (k + 2) := by
        simpa using e2
      rw [e1']
      conv => rhs; rw [e2']
      exact List.Perm.append_left _ (List.Perm.swap _ _ _)
    · rw [Array.swapIfInBounds_def]
      by_cases hk0 : k < acc.1.size
      · simp [hk0, hk]
      · simp [hk0]
  · exact List.Perm.refl _

theorem bubblePass_perm (a : Arena) (r : Array Nat) : (bubblePass a r).1.toList.Perm r.toList := by
  rw [bubblePass_eq]
  generalize List.range (r.size - 1) = ks
  suffices h : ∀ (acc : Array Nat × Bool), (ks.foldl (bubbleStep a) acc).1.toList.Perm acc.1.toList from h (r, false)
  induction ks with
  | nil => intro acc; exact List.Perm.refl _
  | cons k ks ih =>
    intro acc
    simp only [List.foldl_cons]
    exact (ih _).trans (bubbleStep_perm a acc k)

theorem bubbleSort_perm (a : Arena) : ∀ (fuel : Nat) (r r' : Array Nat), bubbleSort a fuel r = some r' →
    r'.toList.Perm r.toList := by
  intro fuel
  induction fuel with
  | zero => intro r r' h; simp [bubbleSort] at h
  | succ fuel ih =>
    intro r r' h
    unfold bubbleSort at h
    have hp := bubblePass_perm a r
    generalize bubblePass a r = p at h hp
    obtain ⟨r1, sw⟩ := p
    simp only at h hp
    cases sw with
    | true => simp only [if_true] at h; exact (ih r1 r' h).trans hp
    | false =>
      simp only [Bool.false_eq_true, if_false, Option.some.injEq] at h
      rw [← h]; exact hp

theorem foldl_samePts {α : Type} (a0 : Arena) (step : Arena → α → Arena)
    (hstep : ∀ a x, SamePts a0 a → SamePts a0 (step a x)) :
    ∀ (xs : List α) (a : Arena), SamePts a0 a → SamePts a0 (xs.foldl step a) := by
  intro xs
  induction xs with
  | nil => intro a h; exact h
  | cons x xs ih => intro a h; exact ih _ (hstep a x h)

/-- `order_events` returns a sub-list of `sorted_events` (permuted) and does not touch any point -/
theorem orderEvents_spec (a a' : Arena) (sorted res : Array Nat) (h : orderEvents a sorted = .ok (res, a')) :
    SamePts a a' ∧ ∀ x, x ∈ res.toList → x ∈ sorted.toList := by
  unfold orderEvents at h
  simp only at h
  split at h
  · simp at h
  · rename_i r' hb
    simp only [Except.ok.injEq, Prod.mk.injEq] at h
    obtain ⟨hr, ha⟩ := h
    subst hr
    constructor
    · rw [← ha]
      rw [← Array.foldl_toList]
      apply foldl_samePts a
      · intro b i hb'
        split
        · split
          · exact (hb'.modify_otherPos _ _).modify_otherPos _ _
          · exact hb'
        · exact hb'
      · apply foldl_samePts a
        · intro b pos hb'
          exact hb'.modify_otherPos _ _
        · exact SamePts.refl a
    · intro x hx
      have hperm := bubbleSort_perm a _ _ _ hb
      have hx' := (hperm.mem_iff).mp hx
      have : x ∈ (sorted.filter _).toList := hx'
      rw [Array.toList_filter] at this
      exact (List.mem_filter.mp this).1

/-- `p` is the point of an event listed in `sorted` -/
def EvPoint (a0 : Arena) (sorted : Array Nat) (p : Pt) : Prop := ∃ x, x ∈ sorted.toList ∧ a0[x]!.point = p

def ContourOk (a0 : Arena) (sorted : Array Nat) (c : Contour) : Prop := ∀ p, p ∈ c.points.toList → EvPoint a0 sorted p

theorem res_get_mem (res : Array Nat) (k : Nat) (hk : k < res.size) : res[k]! ∈ res.toList := by
  have : res[k]! = res[k] := by simp [getElem!_pos, hk]
  rw [this]
  exact Array.getElem_mem_toList hk

theorem contourLoop_points (a0 : Arena) (sorted res map : Array Nat) (contourId : Int) (initial : Pt)
    (hres : ∀ x, x ∈ res.toList → x ∈ sorted.toList) :
    ∀ (fuel : Nat) (st st' : CE) (pos : Nat), contourLoop res map contourId initial fuel st pos = .ok st' →
      SamePts a0 st.arena → ContourOk a0 sorted st.contour →
      SamePts a0 st'.arena ∧ ContourOk a0 sorted st'.contour := by
  intro fuel
  induction fuel with
  | zero => intro st st' pos h; simp [contourLoop] at h
  | succ fuel ih =>
    intro st st' pos h hs hc
    unfold contourLoop at h
    split at h
    · simp at h
    · simp only at h
      split at h
      · simp at h
      · rename_i hidx
        -- the state after (A)
        have hs1 : SamePts a0 ((st.arena.modify res[pos]! fun e => { e with outputContourId := contourId })) :=
          hs.modify_contour _ _
        generalize hop : (st.arena.modify res[pos]! fun e => { e with outputContourId := contourId })[res[pos]!]!.otherPos = opos at h hidx
        have hok : idxOk res.size opos = true := by simpa using hidx
        have hlt : opos.toNat < res.size := by unfold idxOk at hok; simp at hok; exact hok.2
        generalize ha2 : (((st.arena.modify res[pos]! fun e => { e with outputContourId := contourId })).modify
            res[opos.toNat]! fun e => { e with outputContourId := contourId }) = a2 at h
        have hs2 : SamePts a0 a2 := by rw [← ha2]; exact hs1.modify_contour _ _
        have hc2 : ContourOk a0 sorted
            { points := st.contour.points.push a2[res[opos.toNat]!]!.point, holeIds := st.contour.holeIds,
              holeOf := st.contour.holeOf, depth := st.contour.depth } := by
          intro p hp
          simp only [Array.toList_push, List.mem_append, List.mem_singleton] at hp
          rcases hp with hp | hp
          · exact hc p hp
          · refine ⟨res[opos.toNat]!, hres _ (res_get_mem res _ hlt), ?_⟩
            rw [hp, hs2.2]
        split at h
        · simp at h
        · simp only [Except.ok.injEq] at h
          rw [← h]; exact ⟨hs2, hc2⟩
        · split at h
          · simp only [Except.ok.injEq] at h
            rw [← h]; exact ⟨hs2, hc2⟩
          · exact ih _ st' _ h hs2 hc2

theorem initializeFromContext_points (cfg : Cfg) (a : Arena) (event : Nat) (contours contours' : Array Contour)
    (cid : Int) (c : Contour) (h : initializeFromContext cfg a event contours cid = .ok (c, contours')) :
    c.points = #[] ∧ (∀ (Q : Contour → Prop), (∀ d, d ∈ contours.toList → Q d) →
      (∀ d (f : Array Int), Q d → Q { d with holeIds := f }) → ∀ d, d ∈ contours'.toList → Q d) := by
  unfold initializeFromContext at h
  have keep : ∀ (i : Nat) (Q : Contour → Prop), (∀ d, d ∈ contours.toList → Q d) →
      (∀ d (f : Array Int), Q d → Q { d with holeIds := f }) →
      ∀ d, d ∈ (contours.modify i (fun c => { c with holeIds := c.holeIds.push cid })).toList → Q d := by
    intro i Q hQ hupd d hd
    rw [Array.mem_toList_iff, Array.mem_iff_getElem] at hd
    obtain ⟨j, hj, he⟩ := hd
    rw [Array.getElem_modify] at he
    have hj' : j < contours.size := by simpa using hj
    split at he
    · rw [← he]; exact hupd _ _ (hQ _ (Array.getElem_mem_toList hj'))
    · rw [← he]; exact hQ _ (Array.getElem_mem_toList hj')
  split at h
  · simp only [Except.ok.injEq, Prod.mk.injEq] at h
    obtain ⟨hc, hcs⟩ := h
    subst hc; subst hcs
    exact ⟨rfl, fun Q hQ _ d hd => hQ d hd⟩
  · simp only at h
    split at h
    · split at h
      · simp at h
      · split at h
        · split at h
          · simp at h
          · simp only [Except.ok.injEq, Prod.mk.injEq] at h
            obtain ⟨hc, hcs⟩ := h
            subst hc; subst hcs
            exact ⟨rfl, fun Q hQ hupd d hd => keep _ Q hQ hupd d hd⟩
        · simp only [Except.ok.injEq, Prod.mk.injEq] at h
          obtain ⟨hc, hcs⟩ := h
          subst hc; subst hcs
          exact ⟨rfl, fun Q hQ hupd d hd => keep _ Q hQ hupd d hd⟩
    · split at h
      · split at h
        · simp at h
        · simp only [Except.ok.injEq, Prod.mk.injEq] at h
          obtain ⟨hc, hcs⟩ := h
          subst hc; subst hcs
          exact ⟨rfl, fun Q hQ _ d hd => hQ d hd⟩
      · simp only [Except.ok.injEq, Prod.mk.injEq] at h
        obtain ⟨hc, hcs⟩ := h
        subst hc; subst hcs
        exact ⟨rfl, fun Q hQ _ d hd => hQ d hd⟩

theorem go_points (cfg : Cfg) (a0 : Arena) (sorted res map : Array Nat)
    (hres : ∀ x, x ∈ res.toList → x ∈ sorted.toList) :
    ∀ (fuel i : Nat) (a : Arena) (processed : Array Bool) (contours cs : Array Contour) (a' : Arena),
      connectEdges.go cfg res map fuel i a processed contours = .ok (cs, a') →
      SamePts a0 a → (∀ d, d ∈ contours.toList → ContourOk a0 sorted d) →
      ∀ d, d ∈ cs.toList → ContourOk a0 sorted d := by
  intro fuel
  induction fuel with
  | zero =>
    intro i a processed contours cs a' h _ hc
    simp only [connectEdges.go, Except.ok.injEq, Prod.mk.injEq] at h
    rw [← h.1]; exact hc
  | succ fuel ih =>
    intro i a processed contours cs a' h hs hc
    unfold connectEdges.go at h
    split at h
    · simp only [Except.ok.injEq, Prod.mk.injEq] at h
      rw [← h.1]; exact hc
    · rename_i hi
      split at h
      · exact ih _ _ _ _ _ _ h hs hc
      · simp only at h
        split at h
        · simp at h
        · rename_i contour contours1 hinit
          obtain ⟨hpts, hkeep⟩ := initializeFromContext_points cfg a _ contours contours1 _ contour hinit
          have hc1 : ∀ d, d ∈ contours1.toList → ContourOk a0 sorted d :=
            hkeep (ContourOk a0 sorted) hc (fun d f hd => hd)
          split at h
          · simp at h
          · rename_i st hloop
            have hilt : i < res.size := by omega
            have hstart : ContourOk a0 sorted { contour with points := contour.points.push a[res[i]!]!.point } := by
              intro p hp
              rw [hpts] at hp
              simp only [Array.toList_push, Array.toList_empty, List.nil_append, List.mem_singleton] at hp
              exact ⟨res[i]!, hres _ (res_get_mem res i hilt), by rw [hp, hs.2]⟩
            obtain ⟨hs', hc'⟩ := contourLoop_points a0 sorted res map _ _ hres _ _ st i hloop hs hstart
            apply ih _ _ _ _ _ _ h hs'
            intro d hd
            simp only [Array.toList_push, List.mem_append, List.mem_singleton] at hd
            rcases hd with hd | hd
            · exact hc1 d hd
            · rw [hd]; exact hc'

/-- **`connect_edges` emits event points only**: every vertex of every contour it returns is the point of an
    event listed in `sorted_events` (in the arena it was handed) -/
theorem connectEdges_points (cfg : Cfg) (a : Arena) (sorted : Array Nat) (cs : Array Contour) (a' : Arena)
    (h : connectEdges cfg a sorted = .ok (cs, a')) : ∀ d, d ∈ cs.toList → ContourOk a sorted d := by
  unfold connectEdges at h
  split at h
  · simp at h
  · rename_i res a1 hord
    obtain ⟨hs, hres⟩ := orderEvents_spec a a1 sorted res hord
    simp only at h
    exact go_points cfg a sorted res _ hres _ _ _ _ _ _ _ h hs (fun d hd => by simp at hd)

end Gbo
