import Gbo.Proofs.SplayOps
/-
  Operation-by-operation refinement of `SplayTree` to the sorted association list.
-/
namespace Gbo
open Tree

variable {K V : Type}

/-- representation invariant of `SplayTree` -/
def SplayTree.Inv (cmp : K → K → Ordering) (s : SplayTree K V) : Prop :=
  Bst cmp s.root ∧ s.size = (inorder s.root).length

/-- abstraction: the in-order sequence -/
def SplayTree.abs (s : SplayTree K V) : List (K × V) := inorder s.root

namespace Tree

theorem sInsert_length (cmp : K → K → Ordering) (key : K) (val : V) (l : List (K × V)) :
    ((sInsert cmp key val l).1).length = bif (sInsert cmp key val l).2.isSome then l.length else l.length + 1 := by
  induction l with
  | nil => rfl
  | cons x xs ih =>
    obtain ⟨k, v⟩ := x
    simp only [sInsert]
    cases hc : cmp key k <;> simp_all
    cases (sInsert cmp key val xs).2 <;> simp_all

theorem sRemove_length (cmp : K → K → Ordering) (key : K) (l : List (K × V)) :
    ((sRemove cmp key l).1).length = bif (sRemove cmp key l).2.isSome then l.length - 1 else l.length := by
  induction l with
  | nil => rfl
  | cons x xs ih =>
    obtain ⟨k, v⟩ := x
    simp only [sRemove]
    cases hc : cmp key k <;> simp_all
    cases hh : (sRemove cmp key xs).2 <;> simp_all
    cases xs <;> simp_all [sRemove]

theorem sRemove_sublist (cmp : K → K → Ordering) (key : K) (l : List (K × V)) :
    List.Sublist (sRemove cmp key l).1 l := by
  induction l with
  | nil => exact List.Sublist.refl _
  | cons x xs ih =>
    obtain ⟨k, v⟩ := x
    simp only [sRemove]
    cases cmp key k
    · exact List.Sublist.refl _
    · exact List.sublist_cons_self _ _
    · exact List.Sublist.cons_cons _ ih

theorem sRemove_sorted {cmp : K → K → Ordering} (key : K) (l : List (K × V)) (hs : SortedKV cmp l) :
    SortedKV cmp (sRemove cmp key l).1 := List.Pairwise.sublist (sRemove_sublist cmp key l) hs

theorem sInsert_mem {cmp : K → K → Ordering} (key : K) (val : V) (l : List (K × V)) (y : K × V)
    (hy : y ∈ (sInsert cmp key val l).1) : y ∈ l ∨ y = (key, val) ∨ (∃ w, (y.1, w) ∈ l ∧ y.2 = val ∧ cmp key y.1 = .eq) := by
  induction l with
  | nil => simp [sInsert] at hy; exact Or.inr (Or.inl hy)
  | cons x xs ih =>
    obtain ⟨k, v⟩ := x
    simp only [sInsert] at hy
    cases hc : cmp key k <;> rw [hc] at hy <;> simp only [List.mem_cons] at hy
    · rcases hy with rfl | rfl | hy
      · exact Or.inr (Or.inl rfl)
      · exact Or.inl List.mem_cons_self
      · exact Or.inl (List.mem_cons_of_mem _ hy)
    · rcases hy with rfl | hy
      · exact Or.inr (Or.inr ⟨v, List.mem_cons_self, rfl, hc⟩)
      · exact Or.inl (List.mem_cons_of_mem _ hy)
    · rcases hy with rfl | hy
      · exact Or.inl List.mem_cons_self
      · rcases ih hy with h1 | h2 | ⟨w, hw, h3, h4⟩
        · exact Or.inl (List.mem_cons_of_mem _ h1)
        · exact Or.inr (Or.inl h2)
        · exact Or.inr (Or.inr ⟨w, List.mem_cons_of_mem _ hw, h3, h4⟩)

theorem sInsert_sorted {cmp : K → K → Ordering} (h : LawfulCmp cmp) (key : K) (val : V) (l : List (K × V))
    (hs : SortedKV cmp l) : SortedKV cmp (sInsert cmp key val l).1 := by
  induction l with
  | nil => simp [sInsert, SortedKV]
  | cons x xs ih =>
    obtain ⟨k, v⟩ := x
    unfold SortedKV at hs ih ⊢
    rw [List.pairwise_cons] at hs
    obtain ⟨hk, hxs⟩ := hs
    simp only [sInsert]
    cases hc : cmp key k
    · -- lt: (key,val) :: (k,v) :: xs
      simp only [List.pairwise_cons, List.mem_cons]
      refine ⟨?_, hk, hxs⟩
      rintro y (rfl | hy)
      · exact hc
      · exact h.lt_trans hc (hk y hy)
    · -- eq: value replaced
      simp only [List.pairwise_cons]
      exact ⟨hk, hxs⟩
    · -- gt
      simp only [List.pairwise_cons]
      refine ⟨?_, ih hxs⟩
      intro y hy
      rcases sInsert_mem key val xs y hy with h1 | rfl | ⟨w, hw, _, _⟩
      · exact hk y h1
      · exact (h.gt_iff _ _).1 hc
      · exact hk (y.1, w) hw

end Tree

namespace SplayTree
open Tree

/-! equation lemmas of the model operations -/
section eqns
variable (cmp : K → K → Ordering) (s : SplayTree K V) (key : K)

theorem get_nil (hr : s.root = .nil) : s.get cmp key = (s, none) := by
  unfold get; rw [hr]
theorem get_node {a k0 v0 b l k v r} (hr : s.root = .node a k0 v0 b) (hs : splay cmp key (.node a k0 v0 b) = .node l k v r) :
    s.get cmp key = ({ s with root := .node l k v r }, if cmp key k == .eq then some v else none) := by
  unfold get; rw [hr]; simp only [hs]
theorem findKey_nil (hr : s.root = .nil) : s.findKey cmp key = (s, none) := by
  unfold findKey; rw [hr]
theorem findKey_node {a k0 v0 b l k v r} (hr : s.root = .node a k0 v0 b) (hs : splay cmp key (.node a k0 v0 b) = .node l k v r) :
    s.findKey cmp key = ({ s with root := .node l k v r }, if cmp key k == .eq then some k else none) := by
  unfold findKey; rw [hr]; simp only [hs]
theorem insert_nil (val : V) (hr : s.root = .nil) :
    s.insert cmp key val = ({ root := .node .nil key val .nil, size := s.size + 1 }, none) := by
  unfold insert; rw [hr]
theorem insert_node (val : V) {a k0 v0 b l k v r} (hr : s.root = .node a k0 v0 b) (hs : splay cmp key (.node a k0 v0 b) = .node l k v r) :
    s.insert cmp key val = (match cmp key k with
      | .eq => ({ s with root := .node l k val r }, some v)
      | .lt => ({ root := .node l key val (.node .nil k v r), size := s.size + 1 }, none)
      | .gt => ({ root := .node (.node l k v .nil) key val r, size := s.size + 1 }, none)) := by
  unfold insert; rw [hr]; simp only [hs]; cases cmp key k <;> rfl
theorem remove_nil (hr : s.root = .nil) : s.remove cmp key = (s, none) := by
  unfold remove; rw [hr]
theorem remove_node_ne {a k0 v0 b l k v r} (hr : s.root = .node a k0 v0 b) (hs : splay cmp key (.node a k0 v0 b) = .node l k v r)
    (hc : cmp key k ≠ .eq) : s.remove cmp key = ({ s with root := .node l k v r }, none) := by
  unfold remove; rw [hr]; simp only [hs]
  cases h : cmp key k <;> simp_all
theorem remove_node_eq_nil {a k0 v0 b k v r} (hr : s.root = .node a k0 v0 b) (hs : splay cmp key (.node a k0 v0 b) = .node .nil k v r)
    (hc : cmp key k = .eq) : s.remove cmp key = ({ root := r, size := s.size - 1 }, some v) := by
  unfold remove; rw [hr]; simp only [hs]; simp [hc]
theorem remove_node_eq_node {a k0 v0 b la lk lv lb k v r l2 k2 v2 r2} (hr : s.root = .node a k0 v0 b)
    (hs : splay cmp key (.node a k0 v0 b) = .node (.node la lk lv lb) k v r)
    (hs2 : splay cmp key (.node la lk lv lb) = .node l2 k2 v2 r2)
    (hc : cmp key k = .eq) : s.remove cmp key = ({ root := .node l2 k2 v2 r, size := s.size - 1 }, some v) := by
  unfold remove; rw [hr]; simp only [hs]; simp [hc, hs2]
end eqns

theorem inv_nil_abs (s : SplayTree K V) (hr : s.root = .nil) : s.abs = [] := by unfold abs; rw [hr]; rfl

theorem get_refines {cmp : K → K → Ordering} (h : LawfulCmp cmp) (s : SplayTree K V) (key : K) (hi : s.Inv cmp) :
    (s.get cmp key).1.abs = s.abs ∧ (s.get cmp key).1.size = s.size ∧ (s.get cmp key).1.Inv cmp
    ∧ (s.get cmp key).2 = (sGet cmp key s.abs).map (·.2) := by
  obtain ⟨hb, hsz⟩ := hi
  cases hr : s.root with
  | nil =>
    rw [get_nil cmp s key hr, inv_nil_abs s hr]
    exact ⟨rfl, rfl, ⟨hb, hsz⟩, rfl⟩
  | node a k0 v0 b =>
    obtain ⟨l, k, v, r, hs⟩ := splay_node cmp key a k0 v0 b
    rw [hr] at hb hsz
    obtain ⟨hL, hR, hin, hbst⟩ := splay_split h key _ hb hs
    rw [get_node cmp s key hr hs]
    have habs : s.abs = inorder l ++ (k, v) :: inorder r := by unfold abs; rw [hr, hin]
    refine ⟨by rw [habs]; rfl, rfl, ⟨hbst, ?_⟩, ?_⟩
    · show s.size = _
      rw [hsz, ← hin]; rfl
    · rw [habs, sGet_skip _ _ hL]
      cases hc : cmp key k <;> simp [sGet, hc, sGet_allGt _ hR]

theorem findKey_refines {cmp : K → K → Ordering} (h : LawfulCmp cmp) (s : SplayTree K V) (key : K) (hi : s.Inv cmp) :
    (s.findKey cmp key).1.abs = s.abs ∧ (s.findKey cmp key).1.size = s.size ∧ (s.findKey cmp key).1.Inv cmp
    ∧ (s.findKey cmp key).2 = (sGet cmp key s.abs).map (·.1) := by
  obtain ⟨hb, hsz⟩ := hi
  cases hr : s.root with
  | nil =>
    rw [findKey_nil cmp s key hr, inv_nil_abs s hr]
    exact ⟨rfl, rfl, ⟨hb, hsz⟩, rfl⟩
  | node a k0 v0 b =>
    obtain ⟨l, k, v, r, hs⟩ := splay_node cmp key a k0 v0 b
    rw [hr] at hb hsz
    obtain ⟨hL, hR, hin, hbst⟩ := splay_split h key _ hb hs
    rw [findKey_node cmp s key hr hs]
    have habs : s.abs = inorder l ++ (k, v) :: inorder r := by unfold abs; rw [hr, hin]
    refine ⟨by rw [habs]; rfl, rfl, ⟨hbst, ?_⟩, ?_⟩
    · show s.size = _
      rw [hsz, ← hin]; rfl
    · rw [habs, sGet_skip _ _ hL]
      cases hc : cmp key k <;> simp [sGet, hc, sGet_allGt _ hR]

theorem insert_refines {cmp : K → K → Ordering} (h : LawfulCmp cmp) (s : SplayTree K V) (key : K) (val : V) (hi : s.Inv cmp) :
    (s.insert cmp key val).1.abs = (sInsert cmp key val s.abs).1
    ∧ (s.insert cmp key val).2 = (sInsert cmp key val s.abs).2
    ∧ (s.insert cmp key val).1.Inv cmp := by
  obtain ⟨hb, hsz⟩ := hi
  have key_fact : (s.insert cmp key val).1.abs = (sInsert cmp key val s.abs).1
      ∧ (s.insert cmp key val).2 = (sInsert cmp key val s.abs).2
      ∧ (s.insert cmp key val).1.size = bif (sInsert cmp key val s.abs).2.isSome then s.size else s.size + 1 := by
    cases hr : s.root with
    | nil =>
      rw [insert_nil cmp s key val hr, inv_nil_abs s hr]
      exact ⟨rfl, rfl, rfl⟩
    | node a k0 v0 b =>
      obtain ⟨l, k, v, r, hs⟩ := splay_node cmp key a k0 v0 b
      rw [hr] at hb
      obtain ⟨hL, hR, hin, hbst⟩ := splay_split h key _ hb hs
      have habs : s.abs = inorder l ++ (k, v) :: inorder r := by unfold abs; rw [hr, hin]
      rw [insert_node cmp s key val hr hs, habs, sInsert_skip _ _ _ hL]
      cases hc : cmp key k
      · simp [sInsert, hc, inorder, abs]
      · simp [sInsert, hc, inorder, abs]
      · simp [sInsert, hc, inorder, abs, sInsert_allGt _ _ hR]
  obtain ⟨h1, h2, h3⟩ := key_fact
  refine ⟨h1, h2, ?_, ?_⟩
  · unfold Bst
    have : inorder (s.insert cmp key val).1.root = (sInsert cmp key val s.abs).1 := h1
    rw [this]
    exact sInsert_sorted h key val _ hb
  · have : inorder (s.insert cmp key val).1.root = (sInsert cmp key val s.abs).1 := h1
    rw [h3, this, sInsert_length]
    unfold abs
    rw [hsz]

theorem remove_refines {cmp : K → K → Ordering} (h : LawfulCmp cmp) (s : SplayTree K V) (key : K) (hi : s.Inv cmp) :
    (s.remove cmp key).1.abs = (sRemove cmp key s.abs).1
    ∧ (s.remove cmp key).2 = (sRemove cmp key s.abs).2
    ∧ (s.remove cmp key).1.Inv cmp := by
  obtain ⟨hb, hsz⟩ := hi
  have key_fact : (s.remove cmp key).1.abs = (sRemove cmp key s.abs).1
      ∧ (s.remove cmp key).2 = (sRemove cmp key s.abs).2
      ∧ (s.remove cmp key).1.size = bif (sRemove cmp key s.abs).2.isSome then s.size - 1 else s.size := by
    cases hr : s.root with
    | nil =>
      rw [remove_nil cmp s key hr, inv_nil_abs s hr]
      exact ⟨rfl, rfl, rfl⟩
    | node a k0 v0 b =>
      obtain ⟨l, k, v, r, hs⟩ := splay_node cmp key a k0 v0 b
      rw [hr] at hb
      obtain ⟨hL, hR, hin, hbst⟩ := splay_split h key _ hb hs
      have habs : s.abs = inorder l ++ (k, v) :: inorder r := by unfold abs; rw [hr, hin]
      rw [habs, sRemove_skip _ _ hL]
      cases hc : cmp key k
      · rw [remove_node_ne cmp s key hr hs (by rw [hc]; simp)]
        simp [sRemove, hc, inorder, abs]
      · -- eq: the root is removed
        cases hl : l with
        | nil =>
          subst hl
          rw [remove_node_eq_nil cmp s key hr hs hc]
          simp [sRemove, hc, inorder, abs]
        | node la lk lv lb =>
          subst hl
          obtain ⟨l2, k2, v2, r2, hs2⟩ := splay_node cmp key la lk lv lb
          rw [bst_node_iff] at hbst
          obtain ⟨hL2, hR2, hin2, _⟩ := splay_split h key _ hbst.1 hs2
          -- nothing of the left subtree is above `key`: the splayed root has an empty right side
          have hr2 : inorder r2 = [] := by
            cases hh : inorder r2 with
            | nil => rfl
            | cons y ys =>
              have hy : y ∈ inorder r2 := by rw [hh]; exact List.mem_cons_self
              have h1 := hR2 y hy
              have hyl : y ∈ inorder (node la lk lv lb) := by
                rw [← hin2]; simp [hy]
              have h2 := hL y hyl
              rw [h1] at h2; cases h2
          rw [remove_node_eq_node cmp s key hr hs hs2 hc]
          rw [hr2] at hin2
          have hcat := congrArg (· ++ inorder r) hin2
          simp only [inorder, List.append_assoc, List.cons_append, List.nil_append] at hcat
          simp [sRemove, hc, inorder, abs, hcat]
      · rw [remove_node_ne cmp s key hr hs (by rw [hc]; simp)]
        simp [sRemove, hc, inorder, abs, sRemove_allGt _ hR]
  obtain ⟨h1, h2, h3⟩ := key_fact
  refine ⟨h1, h2, ?_, ?_⟩
  · unfold Bst
    have : inorder (s.remove cmp key).1.root = (sRemove cmp key s.abs).1 := h1
    rw [this]
    exact sRemove_sorted key _ hb
  · have : inorder (s.remove cmp key).1.root = (sRemove cmp key s.abs).1 := h1
    rw [h3, this, sRemove_length]
    unfold abs
    rw [hsz]

end SplayTree
end Gbo
