import Gbo.Proofs.ComparatorA
/-
  Comparator soundness, part 2: sorted prefixes, the gap walk, insertion sort, one slab.
-/
namespace Gbo.Spec
open Gbo Gbo.Props

/-! ### D. in a sorted list the elements below a threshold form a prefix -/

theorem filter_lt_is_prefix (g : Tagged → Rat) (Y : Rat) :
    ∀ (l : List Tagged), l.Pairwise (fun a b => g a ≤ g b) →
      ∃ j, j ≤ l.length ∧ l.filter (fun t => decide (g t < Y)) = l.take j
        ∧ (∀ t ∈ l.take j, g t < Y) ∧ (∀ t ∈ l.drop j, Y ≤ g t) := by
  intro l
  induction l with
  | nil => intro _; exact ⟨0, by simp, rfl, by simp, by simp⟩
  | cons a rest ih =>
    intro hp
    rw [List.pairwise_cons] at hp
    obtain ⟨ha, hrest⟩ := hp
    by_cases hlt : g a < Y
    · obtain ⟨j, hj, hf, h1, h2⟩ := ih hrest
      refine ⟨j + 1, by simp; omega, ?_, ?_, ?_⟩
      · simp [List.filter_cons, hlt, hf]
      · intro t ht
        simp only [List.take_succ_cons, List.mem_cons] at ht
        rcases ht with rfl | ht
        · exact hlt
        · exact h1 t ht
      · intro t ht
        simp only [List.drop_succ_cons] at ht
        exact h2 t ht
    · have hge : Y ≤ g a := not_lt.mp hlt
      refine ⟨0, by simp, ?_, by simp, ?_⟩
      · simp only [List.take_zero]
        rw [List.filter_eq_nil_iff]
        intro t ht
        simp only [decide_eq_true_eq, not_lt]
        rcases List.mem_cons.mp ht with rfl | ht
        · exact hge
        · exact le_trans hge (ha t ht)
      · intro t ht
        simp only [List.drop_zero] at ht
        rcases List.mem_cons.mp ht with rfl | ht
        · exact hge
        · exact le_trans hge (ha t ht)

/-! ### E. the gap walk evaluates the formula in every real gap -/

/-- the gap above the first `j` edges of `rest` (after `done`) is a real, non-thin cell -/
def RealGap (tol xm : Rat) (done rest : List Tagged) (j : Nat) : Prop :=
  j = rest.length ∨ gapKind tol xm (done ++ rest.take j).getLast? rest[j]? = some false

theorem walkGaps_sound (f : Array Bool → Bool) (n : Nat) (tol xm : Rat) :
    ∀ (rest done : List Tagged) (acc r : Nat × Nat),
      walkGaps f n tol xm done rest acc = .inr r →
      ∀ j, j ≤ rest.length → RealGap tol xm done rest j → f (vecOf n (done ++ rest.take j)) = true := by
  intro rest
  induction rest with
  | nil =>
    intro done acc r h j hj _
    have : j = 0 := by simpa using hj
    subst this
    simp only [walkGaps] at h
    by_cases hf : f (vecOf n done) = true
    · simpa using hf
    · simp [hf] at h
  | cons b rest ih =>
    intro done acc r h j hj hreal
    obtain ⟨c, t⟩ := acc
    simp only [walkGaps] at h
    cases j with
    | zero =>
      unfold RealGap at hreal
      simp only [List.take_zero, List.append_nil] at hreal ⊢
      rcases hreal with hlen | hk
      · simp at hlen
      · simp only [List.getElem?_cons_zero] at hk
        rw [hk] at h
        simp only at h
        by_cases hf : f (vecOf n done) = true
        · exact hf
        · simp [hf] at h
    | succ j =>
      have hj' : j ≤ rest.length := by simpa using hj
      have happ : done ++ (b :: rest).take (j + 1) = (done ++ [b]) ++ rest.take j := by simp
      have hreal' : RealGap tol xm (done ++ [b]) rest j := by
        unfold RealGap at hreal ⊢
        rcases hreal with hlen | hk
        · left; simpa using hlen
        · right
          rw [happ] at hk
          simpa using hk
      rw [happ]
      cases hg : gapKind tol xm done.getLast? (some b) with
      | none =>
        rw [hg] at h
        exact ih (done ++ [b]) (c, t) r h j hj' hreal'
      | some thin =>
        rw [hg] at h
        cases thin with
        | true => exact ih (done ++ [b]) (c, t + 1) r h j hj' hreal'
        | false =>
          simp only at h
          by_cases hf : f (vecOf n done) = true
          · simp only [hf, if_true] at h
            exact ih (done ++ [b]) (c + 1, t) r h j hj' hreal'
          · simp [hf] at h

/-! ### E'. the executed walk (incremental vector) succeeds only if the specification walk does -/

theorem oddCount_snoc (i : Nat) (done : List Tagged) (b : Tagged) :
    oddCount i (done ++ [b]) = (oddCount i done != (b.atom == i)) := by
  unfold oddCount
  rw [List.map_append, parity_append]
  simp [parity_cons, parity_nil]

theorem vecOf_snoc (n : Nat) (done : List Tagged) (b : Tagged) :
    vecOf n (done ++ [b]) = (vecOf n done).modify b.atom (fun x => !x) := by
  apply Array.ext
  · simp [vecOf]
  · intro i h1 h2
    have hi : i < n := by simpa [vecOf] using h1
    rw [Array.getElem_modify]
    simp only [vecOf, Array.getElem_map, Array.getElem_range]
    rw [oddCount_snoc]
    by_cases hb : b.atom = i
    · simp [hb]
    · have : (b.atom == i) = false := by simp [hb]
      simp [hb, this]

theorem walkGapsV_sound (f : Array Bool → Bool) (n : Nat) (tol xm : Rat) :
    ∀ (rest done : List Tagged) (acc r : Nat × Nat),
      walkGapsV f tol xm done.getLast? done.length rest (vecOf n done) acc = .inr r →
      walkGaps f n tol xm done rest acc = .inr r := by
  intro rest
  induction rest with
  | nil =>
    intro done acc r h
    obtain ⟨c, t⟩ := acc
    simp only [walkGapsV] at h
    simp only [walkGaps]
    by_cases hf : f (vecOf n done) = true
    · simp only [hf, if_true] at h ⊢
      rw [Sum.inr.injEq] at h ⊢; exact h
    · simp [hf] at h
  | cons b rest ih =>
    intro done acc r h
    obtain ⟨c, t⟩ := acc
    simp only [walkGapsV] at h
    simp only [walkGaps]
    have hlast : (done ++ [b]).getLast? = some b := by simp
    have hlen : (done ++ [b]).length = done.length + 1 := by simp
    have hvec := vecOf_snoc n done b
    cases hg : gapKind tol xm done.getLast? (some b) with
    | none =>
      rw [hg] at h
      simp only at h ⊢
      apply ih (done ++ [b])
      rw [hlast, hlen, hvec]; exact h
    | some thin =>
      rw [hg] at h
      cases thin with
      | true =>
        simp only at h ⊢
        apply ih (done ++ [b])
        rw [hlast, hlen, hvec]; exact h
      | false =>
        simp only at h ⊢
        by_cases hf : f (vecOf n done) = true
        · simp only [hf, if_true] at h ⊢
          apply ih (done ++ [b])
          rw [hlast, hlen, hvec]; exact h
        · simp [hf] at h

/-! ### F. insertion sort permutes -/

theorem insertByY_perm (xm : Rat) (t : Tagged) : ∀ l, List.Perm (insertByY xm t l) (t :: l) := by
  intro l
  induction l with
  | nil => exact List.Perm.refl _
  | cons u us ih =>
    simp only [insertByY]
    by_cases h : yAt t.seg xm ≤ yAt u.seg xm
    · simp [h]
    · simp only [h, if_false]
      exact (List.Perm.cons u ih).trans (List.Perm.swap t u us)

theorem sortByY_perm (xm : Rat) (ts : List Tagged) : List.Perm (sortByY xm ts) ts := by
  unfold sortByY
  have : ∀ (ts acc : List Tagged), List.Perm (ts.foldl (fun l t => insertByY xm t l) acc) (ts.reverse ++ acc) := by
    intro ts
    induction ts with
    | nil => intro acc; simp
    | cons t ts ih =>
      intro acc
      simp only [List.foldl_cons, List.reverse_cons, List.append_assoc, List.singleton_append]
      exact (ih _).trans (List.Perm.append_left _ (insertByY_perm xm t acc))
  have h := this ts []
  simp only [List.append_nil] at h
  exact h.trans (List.reverse_perm ts)

end Gbo.Spec

namespace Gbo.Spec
open Gbo Gbo.Props

/-! ### G. one slab -/

theorem spans_not_misses {e : Seg} {x0 x1 : Rat} (h01 : x0 < x1) (hs : spansSlab e x0 x1 = true) :
    missesSlab e x0 x1 = false := by
  unfold spansSlab at hs
  unfold missesSlab
  simp only [Bool.and_eq_true, decide_eq_true_eq] at hs
  obtain ⟨⟨hne, hmin⟩, hmax⟩ := hs
  have h1 : ¬ segMaxX e ≤ x0 := by intro h; linarith
  have h2 : ¬ x1 ≤ segMinX e := by intro h; linarith
  simp [hne, h1, h2]

/-- the cell of `q` is thicker than the tolerance: any spanning edge below `q` and any spanning edge above
    `q` are more than `tol` apart at the middle of the slab -/
def ThickAt (all : List Tagged) (tol x0 x1 : Rat) (q : Pt) : Prop :=
  ∀ a ∈ all, ∀ b ∈ all, spansSlab a.seg x0 x1 = true → spansSlab b.seg x0 x1 = true →
    yAt a.seg q.x < q.y → q.y < yAt b.seg q.x → tol < yAt b.seg ((x0 + x1) / 2) - yAt a.seg ((x0 + x1) / 2)

theorem checkSlab_sound_tol (all : List Tagged) (f : Array Bool → Bool) (n : Nat) (tol x0 x1 : Rat) (acc r : Nat × Nat)
    (htol : 0 ≤ tol) (h01 : x0 < x1) (h : checkSlab all f n tol x0 x1 acc = .inr r)
    (q : Pt) (h0 : x0 < q.x) (h1 : q.x < x1) (hclear : ∀ t ∈ all, onSeg q t.seg = false)
    (hthick : tol = 0 ∨ ThickAt all tol x0 x1 q) :
    f (vecOf n (all.filter (fun t => edgeBelow q t.seg))) = true := by
  unfold checkSlab at h
  simp only at h
  -- the precondition checks passed
  by_cases hall : (all.all (fun t => spansSlab t.seg x0 x1 || missesSlab t.seg x0 x1)) = true
  swap
  · simp [hall] at h
  simp only [hall, Bool.not_true, Bool.false_eq_true, if_false] at h
  generalize hS : all.filter (fun t => spansSlab t.seg x0 x1) = S at h
  generalize hsorted : sortByY ((x0 + x1) / 2) S = sorted at h
  by_cases hord : (orderedAt x0 sorted && orderedAt x1 sorted) = true
  swap
  · simp [hord] at h
  simp only [hord, Bool.not_true, Bool.false_eq_true, if_false] at h
  rw [Bool.and_eq_true] at hord
  obtain ⟨ho0, ho1⟩ := hord
  -- the walk succeeded
  cases hwv : walkGapsV f tol ((x0 + x1) / 2) none 0 sorted (vecOf n []) acc with
  | inl x => rw [hwv] at h; cases x <;> simp at h
  | inr r' =>
    have hw : walkGaps f n tol ((x0 + x1) / 2) [] sorted acc = .inr r' :=
      walkGapsV_sound f n tol ((x0 + x1) / 2) sorted [] acc r' (by simpa using hwv)
    have hperm : List.Perm sorted S := by rw [← hsorted]; exact sortByY_perm _ S
    have hspanS : ∀ t ∈ S, spansSlab t.seg x0 x1 = true := by
      intro t ht; rw [← hS] at ht; exact (List.mem_filter.mp ht).2
    have hspan : ∀ t ∈ sorted, spansSlab t.seg x0 x1 = true := fun t ht => hspanS t (hperm.mem_iff.mp ht)
    have hmemS : ∀ t ∈ S, t ∈ all := by
      intro t ht; rw [← hS] at ht; exact (List.mem_filter.mp ht).1
    -- Step 1: the edges below q are the spanning edges whose line passes below q
    have step1 : all.filter (fun t => edgeBelow q t.seg) = S.filter (fun t => decide (yAt t.seg q.x < q.y)) := by
      rw [← hS, List.filter_filter]
      apply List.filter_congr
      intro t ht
      have := List.all_eq_true.mp hall t ht
      by_cases hsp : spansSlab t.seg x0 x1 = true
      · rw [edgeBelow_of_spans q t.seg x0 x1 h0 h1 hsp, hsp]; simp
      · have hm : missesSlab t.seg x0 x1 = true := by
          rcases Bool.or_eq_true _ _ |>.mp this with h' | h'
          · exact absurd h' hsp
          · exact h'
        rw [edgeBelow_of_misses q t.seg x0 x1 h0 h1 hm]
        simp [hsp]
    rw [step1]
    -- Step 2: sorting does not change the vector
    have step2 : vecOf n (S.filter (fun t => decide (yAt t.seg q.x < q.y)))
        = vecOf n (sorted.filter (fun t => decide (yAt t.seg q.x < q.y))) :=
      vecOf_perm n (hperm.filter _).symm
    rw [step2]
    -- Step 3: the sorted list is ordered at every abscissa of the slab
    have hxm0 : x0 ≤ (x0 + x1) / 2 := by linarith
    have hxm1 : (x0 + x1) / 2 ≤ x1 := by linarith
    have pq := pairwise_of_orderedAt q.x sorted (orderedAt_inside x0 x1 q.x h01 (le_of_lt h0) (le_of_lt h1) sorted hspan ho0 ho1)
    have p0 := pairwise_of_orderedAt x0 sorted ho0
    have p1 := pairwise_of_orderedAt x1 sorted ho1
    -- Step 4: prefix
    obtain ⟨j, hj, hpre, hbelow, habove⟩ := filter_lt_is_prefix (fun t => yAt t.seg q.x) q.y sorted pq
    rw [hpre]
    -- Step 5: the gap above the first j edges is a real cell
    have hreal : RealGap tol ((x0 + x1) / 2) [] sorted j := by
      unfold RealGap
      by_cases hjl : j = sorted.length
      · exact Or.inl hjl
      · right
        have hjlt : j < sorted.length := lt_of_le_of_ne hj hjl
        simp only [List.nil_append]
        have hb : sorted[j]? = some sorted[j] := List.getElem?_eq_getElem hjlt
        rw [hb]
        have hbmem : sorted[j] ∈ sorted.drop j := by
          rw [List.mem_drop_iff_getElem]
          exact ⟨0, by simpa using hjlt, by simp⟩
        cases hlast : (sorted.take j).getLast? with
        | none => rfl
        | some a =>
          have hamem : a ∈ sorted.take j := List.mem_of_getLast? hlast
          have hb_span := hspan _ (List.getElem_mem hjlt)
          have ha_span := hspan a (List.mem_of_mem_take hamem)
          -- a strictly below q, b strictly above q
          have hay : yAt a.seg q.x < q.y := hbelow a hamem
          have hby' : q.y ≤ yAt sorted[j].seg q.x := habove _ hbmem
          have hby : q.y < yAt sorted[j].seg q.x := by
            rcases lt_or_eq_of_le hby' with hlt | heq
            · exact hlt
            · exfalso
              have := onSeg_of_spans q sorted[j].seg x0 x1 h0 h1 hb_span heq
              have hc := hclear _ (hmemS _ (hperm.mem_iff.mp (List.getElem_mem hjlt)))
              rw [this] at hc; cases hc
          -- order of a and b at both slab ends
          have hsplit : sorted = sorted.take j ++ sorted.drop j := (List.take_append_drop j sorted).symm
          have hrel0 : yAt a.seg x0 ≤ yAt sorted[j].seg x0 := by
            rw [hsplit, List.pairwise_append] at p0
            exact p0.2.2 a hamem _ hbmem
          have hrel1 : yAt a.seg x1 ≤ yAt sorted[j].seg x1 := by
            rw [hsplit, List.pairwise_append] at p1
            exact p1.2.2 a hamem _ hbmem
          have hna := spans_nonvertical ha_span
          have hnb := spans_nonvertical hb_span
          have hth : tol < yAt sorted[j].seg ((x0 + x1) / 2) - yAt a.seg ((x0 + x1) / 2) := by
            rcases hthick with h0' | hthick
            · -- tolerance 0: ordered at both ends and different at q.x, hence different in the middle
              have hle := yAt_le_inside a.seg sorted[j].seg hna hnb x0 x1 ((x0 + x1) / 2) h01 hxm0 hxm1 hrel0 hrel1
              have hne : yAt a.seg ((x0 + x1) / 2) ≠ yAt sorted[j].seg ((x0 + x1) / 2) := by
                intro heq
                have := yAt_eq_inside a.seg sorted[j].seg hna hnb x0 x1 q.x h01 hrel0 hrel1 heq
                linarith
              rw [h0']
              have : yAt a.seg ((x0 + x1) / 2) < yAt sorted[j].seg ((x0 + x1) / 2) := lt_of_le_of_ne hle hne
              linarith
            · have hamem_all : a ∈ all := hmemS _ (hperm.mem_iff.mp (List.mem_of_mem_take hamem))
              have hbmem_all : sorted[j] ∈ all := hmemS _ (hperm.mem_iff.mp (List.getElem_mem hjlt))
              exact hthick a hamem_all sorted[j] hbmem_all ha_span hb_span hay hby
          unfold gapKind
          simp only
          have hd : yAt sorted[j].seg ((x0 + x1) / 2) - yAt a.seg ((x0 + x1) / 2) ≠ 0 := by
            intro h'; rw [h'] at hth; linarith
          have hpos : ¬ yAt sorted[j].seg ((x0 + x1) / 2) - yAt a.seg ((x0 + x1) / 2) ≤ tol := by
            intro h'; linarith
          simp [hd, hpos]
    have := walkGaps_sound f n tol ((x0 + x1) / 2) sorted [] acc r' hw j hj hreal
    simpa using this

theorem checkSlab_sound (all : List Tagged) (f : Array Bool → Bool) (n : Nat) (x0 x1 : Rat) (acc r : Nat × Nat)
    (h01 : x0 < x1) (h : checkSlab all f n 0 x0 x1 acc = .inr r)
    (q : Pt) (h0 : x0 < q.x) (h1 : q.x < x1) (hclear : ∀ t ∈ all, onSeg q t.seg = false) :
    f (vecOf n (all.filter (fun t => edgeBelow q t.seg))) = true :=
  checkSlab_sound_tol all f n 0 x0 x1 acc r (le_refl 0) h01 h q h0 h1 hclear (Or.inl rfl)

end Gbo.Spec
