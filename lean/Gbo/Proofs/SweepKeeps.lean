import Gbo.Proofs.SweepProvenance
/-
  Two more invariants of the whole sweep: events never move, and the two events of a pair always carry the
  same operand flag and contour id.
-/
namespace Gbo

/-- relative to a reference arena `a0`: nothing was removed and no event of `a0` changed its point -/
def Keeps (a0 a : Arena) : Prop := a0.size ≤ a.size ∧ ∀ i, i < a0.size → a[i]!.point = a0[i]!.point

theorem keeps_stable (ar : Arith) (a0 : Arena) : SweepStable ar (Keeps a0) := by
  apply SweepStable.of_divide ar
  · intro a e prev op h
    refine ⟨by rw [computeFields_size]; exact h.1, fun i hi => ?_⟩
    rw [computeFields_point]; exact h.2 i hi
  · intro ar' cfg st st' idx p hd h
    obtain ⟨_, hsz, hold⟩ := divideSegment_points ar' cfg st st' idx p (fun _ => True) hd (fun _ _ => trivial) trivial
    refine ⟨Nat.le_trans h.1 hsz, fun i hi => ?_⟩
    rw [hold i (Nat.lt_of_lt_of_le hi h.1)]; exact h.2 i hi
  · intro a se1 se2 h
    refine ⟨by rw [markCoincident_size]; exact h.1, fun i hi => ?_⟩
    rw [markCoincident_point]; exact h.2 i hi

/-- events are only ever added, and no event is moved, by the whole sweep -/
theorem subdivide_keeps (ar : Arith) (cfg : Cfg) (fq : FQ) (sb cb : BBox) (op : Op) (sw : SweepOut)
    (h : subdivide ar cfg fq sb cb op = .ok sw) : Keeps fq.arena sw.arena :=
  subdivide_preserves ar (keeps_stable ar fq.arena) cfg fq sb cb op sw h ⟨Nat.le_refl _, fun _ _ => rfl⟩

/-- the two events of a pair carry the same operand flag and the same contour id -/
def PairFlags (a : Arena) : Prop :=
  ∀ i, i < a.size → ∀ o, a[i]!.other = some o →
    a[o]!.isSubject = a[i]!.isSubject ∧ a[o]!.contourId = a[i]!.contourId

theorem flags_modify_keep (b : Arena) (i j : Nat) (f : Ev → Ev)
    (hf : ∀ e, (f e).isSubject = e.isSubject ∧ (f e).contourId = e.contourId) :
    ((b.modify i f)[j]!.isSubject, (b.modify i f)[j]!.contourId) = (b[j]!.isSubject, b[j]!.contourId) := by
  rw [get!_modify]
  split
  · rw [(hf _).1, (hf _).2]
  · rfl

theorem flags_modify_other (b : Arena) (i j : Nat) (o : Option Nat) :
    ((b.modify i (fun ev => { ev with other := o }))[j]!.isSubject,
     (b.modify i (fun ev => { ev with other := o }))[j]!.contourId) = (b[j]!.isSubject, b[j]!.contourId) :=
  flags_modify_keep b i j (fun ev => { ev with other := o }) (fun _ => ⟨rfl, rfl⟩)

theorem flags_modify_left (b : Arena) (i j : Nat) (l : Bool) :
    ((b.modify i (fun ev => { ev with left := l }))[j]!.isSubject,
     (b.modify i (fun ev => { ev with left := l }))[j]!.contourId) = (b[j]!.isSubject, b[j]!.contourId) :=
  flags_modify_keep b i j (fun ev => { ev with left := l }) (fun _ => ⟨rfl, rfl⟩)

/-- operand flag and contour id of every event after `divide_segment`'s arena update -/
theorem divideArena_flags (a : Arena) (seL seR : Nat) (p : Pt) (j : Nat) :
    ((divideArena a seL seR p)[j]!.isSubject, (divideArena a seL seR p)[j]!.contourId) =
      (if j < a.size then (a[j]!.isSubject, a[j]!.contourId)
       else if j = a.size ∨ j = a.size + 1 then (a[seL]!.isSubject, a[seL]!.contourId)
       else ((default : Ev).isSubject, (default : Ev).contourId)) := by
  rw [divideArena_eq]
  rw [flags_modify_other, flags_modify_other]
  have hswap : ((swapStage (dividePush a seL seR p) (a.size + 1) seR)[j]!.isSubject,
      (swapStage (dividePush a seL seR p) (a.size + 1) seR)[j]!.contourId) =
      ((dividePush a seL seR p)[j]!.isSubject, (dividePush a seL seR p)[j]!.contourId) := by
    unfold swapStage
    split
    · rw [flags_modify_left, flags_modify_left]
    · rfl
  rw [hswap]
  by_cases h1 : j < a.size
  · rw [dividePush_old _ _ _ _ _ h1]; simp [h1]
  · by_cases h2 : j = a.size
    · subst h2
      unfold dividePush
      rw [get!_push_lt _ _ _ (by simp), get!_push_eq]
      simp
    · by_cases h3 : j = a.size + 1
      · subst h3
        unfold dividePush
        rw [get!_push2_snd]
        simp
      · have hsz := dividePush_size a seL seR p
        have : ¬ j < (dividePush a seL seR p).size := by rw [hsz]; omega
        simp [getElem!_neg, this, h1, h2, h3]

theorem divideArena_pairFlags (a : Arena) (seL seR : Nat) (p : Pt) (hl : MutualLinks a) (hf : PairFlags a)
    (hoth : a[seL]!.other = some seR) : PairFlags (divideArena a seL seR p) := by
  have hL : seL < a.size := other_some_lt a seL seR hoth
  obtain ⟨hR, hne', hback⟩ := hl seL hL seR hoth
  have hne : seL ≠ seR := fun h => hne' h.symm
  obtain ⟨hsz, _, _, _, oL, oN, oR, oN1, orest⟩ := divideArena_spec a seL seR p hL hR hne
  have fl := divideArena_flags a seL seR p
  have fR := hf seL hL seR hoth
  -- flags of the four events involved
  have gL := fl seL; simp only [hL, if_true] at gL
  have gR := fl seR; simp only [hR, if_true] at gR
  have gN := fl a.size; simp only [Nat.lt_irrefl, if_false, true_or, if_true] at gN
  have gN1 := fl (a.size + 1)
  simp only [show ¬ (a.size + 1 < a.size) by omega, if_false, or_true, if_true] at gN1
  intro i hi o ho
  rw [hsz] at hi
  have split2 : ∀ {x y : Bool × Nat}, x = y → x.1 = y.1 ∧ x.2 = y.2 := fun h => by rw [h]; exact ⟨rfl, rfl⟩
  by_cases h1 : i = seL
  · subst h1
    rw [oL] at ho; cases ho
    have := split2 gL; have := split2 gN
    simp_all
  · by_cases h2 : i = seR
    · subst h2
      rw [oR] at ho; cases ho
      have a1 := split2 gR; have a2 := split2 gN1
      simp only at a1 a2
      rw [a1.1, a1.2, a2.1, a2.2]
      exact ⟨fR.1.symm, fR.2.symm⟩
    · by_cases h3 : i = a.size
      · subst h3
        rw [oN] at ho; cases ho
        have a1 := split2 gL; have a2 := split2 gN
        simp only at a1 a2
        rw [a1.1, a1.2, a2.1, a2.2]
        exact ⟨rfl, rfl⟩
      · by_cases h4 : i = a.size + 1
        · subst h4
          rw [oN1] at ho; cases ho
          have a1 := split2 gR; have a2 := split2 gN1
          simp only at a1 a2
          rw [a1.1, a1.2, a2.1, a2.2]
          exact fR
        · have hi' : i < a.size := by omega
          rw [orest i hi' h1 h2] at ho
          obtain ⟨ho1, _, _⟩ := hl i hi' o ho
          have gi := split2 (fl i); simp only [hi', if_true] at gi
          have go := split2 (fl o); simp only [ho1, if_true] at go
          rw [gi.1, gi.2, go.1, go.2]
          exact hf i hi' o ho

/-- joint invariant: pairs mutually linked and carrying equal flags -/
def LinkedFlags (a : Arena) : Prop := MutualLinks a ∧ PairFlags a

theorem flags_computeFields (a : Arena) (e : Nat) (prev : Option Nat) (op : Op) (j : Nat) :
    ((computeFields a e prev op)[j]!.isSubject, (computeFields a e prev op)[j]!.contourId) =
      (a[j]!.isSubject, a[j]!.contourId) := by
  unfold computeFields
  simp only
  exact flags_modify_keep a e j _ (fun _ => ⟨rfl, rfl⟩)

theorem flags_modify_edgeType (b : Arena) (i j : Nat) (t : EdgeType) :
    ((b.modify i (fun ev => { ev with edgeType := t }))[j]!.isSubject,
     (b.modify i (fun ev => { ev with edgeType := t }))[j]!.contourId) = (b[j]!.isSubject, b[j]!.contourId) :=
  flags_modify_keep b i j (fun ev => { ev with edgeType := t }) (fun _ => ⟨rfl, rfl⟩)

theorem flags_markCoincident (a : Arena) (se1 se2 j : Nat) :
    ((markCoincident a se1 se2)[j]!.isSubject, (markCoincident a se1 se2)[j]!.contourId) =
      (a[j]!.isSubject, a[j]!.contourId) := by
  unfold markCoincident
  simp only
  exact (flags_modify_edgeType _ _ _ _).trans (flags_modify_edgeType _ _ _ _)

theorem pairFlags_transfer (a b : Arena) (hsz : b.size = a.size)
    (hoth : ∀ j : Nat, b[j]!.other = a[j]!.other)
    (hfl : ∀ j : Nat, (b[j]!.isSubject, b[j]!.contourId) = (a[j]!.isSubject, a[j]!.contourId))
    (hf : PairFlags a) : PairFlags b := by
  intro i hi o ho
  rw [hsz] at hi
  rw [hoth] at ho
  have h := hf i hi o ho
  have e1 := hfl i
  have e2 := hfl o
  have s1 : b[i]!.isSubject = a[i]!.isSubject := congrArg Prod.fst e1
  have s2 : b[i]!.contourId = a[i]!.contourId := congrArg Prod.snd e1
  have s3 : b[o]!.isSubject = a[o]!.isSubject := congrArg Prod.fst e2
  have s4 : b[o]!.contourId = a[o]!.contourId := congrArg Prod.snd e2
  rw [s1, s2, s3, s4]; exact h

theorem linkedFlags_stable (ar : Arith) : SweepStable ar LinkedFlags := by
  apply SweepStable.of_divide ar
  · intro a e prev op h
    exact ⟨computeFields_links a e prev op h.1,
      pairFlags_transfer a _ (computeFields_size a e prev op) (computeFields_other a e prev op)
        (flags_computeFields a e prev op) h.2⟩
  · intro ar' cfg st st' idx p hd h
    rcases divideSegment_arena ar' cfg st st' idx p hd with ⟨_, he⟩ | ⟨seR, hoth, he⟩
    · subst he; exact h
    · rw [he]
      exact ⟨divideArena_links st.arena idx seR _ h.1 hoth, divideArena_pairFlags st.arena idx seR _ h.1 h.2 hoth⟩
  · intro a se1 se2 h
    exact ⟨markCoincident_links a se1 se2 h.1,
      pairFlags_transfer a _ (markCoincident_size a se1 se2) (markCoincident_other a se1 se2)
        (flags_markCoincident a se1 se2) h.2⟩

theorem pairFlags_of_paired (a : Arena) (h : Paired a) : PairFlags a := by
  obtain ⟨hev, hp⟩ := h
  intro i hi o ho
  have hcase : i = 2 * (i / 2) ∨ i = 2 * (i / 2) + 1 := by omega
  have hk : 2 * (i / 2) + 1 < a.size := by omega
  generalize i / 2 = k at hcase hk
  obtain ⟨e1, e2, g1, g2, o1, o2, _, _, _, _, hs, hc⟩ := hp k hk
  have q1 := get!_of_get? a _ e1 g1
  have q2 := get!_of_get? a _ e2 g2
  rcases hcase with h | h
  · subst h
    rw [q1, o1] at ho
    cases ho
    rw [q1, q2]; exact ⟨hs.symm, hc.symm⟩
  · subst h
    rw [q2, o2] at ho
    cases ho
    rw [q2, q1]; exact ⟨hs, hc⟩

/-- whole sweep: the two events of every pair carry the same operand flag and contour id -/
theorem subdivide_linkedFlags (ar : Arith) (cfg : Cfg) (fq : FQ) (sb cb : BBox) (op : Op) (sw : SweepOut)
    (h : subdivide ar cfg fq sb cb op = .ok sw) (h0 : Paired fq.arena) : LinkedFlags sw.arena :=
  subdivide_preserves ar (linkedFlags_stable ar) cfg fq sb cb op sw h
    ⟨mutualLinks_of_paired _ h0, pairFlags_of_paired _ h0⟩

end Gbo
