import Gbo.Proofs.SplayBst
/-
  Each operation of the splay map refines the corresponding operation on a sorted association list.
-/
namespace Gbo
namespace Tree
variable {K V : Type}

/-- After a splay of a search tree the root splits the in-order sequence into the keys below `key`, the
    root, and the keys above `key`. -/
theorem splay_split {cmp : K → K → Ordering} (h : LawfulCmp cmp) (key : K) (t : Tree K V) (hb : Bst cmp t)
    {l : Tree K V} {k : K} {v : V} {r : Tree K V} (hs : splay cmp key t = node l k v r) :
    AllLt cmp key (inorder l) ∧ AllGt cmp key (inorder r) ∧ inorder l ++ (k, v) :: inorder r = inorder t
    ∧ Bst cmp (node l k v r) := by
  have hin : inorder (node l k v r) = inorder t := by rw [← hs]; exact splay_inorder cmp key t
  have hbst : Bst cmp (node l k v r) := by unfold Bst; rw [hin]; exact hb
  refine ⟨?_, ?_, by simpa [inorder] using hin, hbst⟩
  all_goals
    have hcl := splayLoop_closest h key t [] [] hb (by intro x hx; cases hx) (by intro x hx; cases hx)
    unfold splay at hs
    cases hres : splayLoop cmp key t [] [] with
    | mk t' LR =>
      obtain ⟨L, R⟩ := LR
      rw [hres] at hs hcl
      obtain ⟨hL, hR, hroot⟩ := hcl
      cases t' with
      | nil => simp at hs
      | node a k' v' b =>
        simp only [node.injEq] at hs
        obtain ⟨hl, hk, hv, hr⟩ := hs
        subst hk; subst hv
        obtain ⟨hlt, hgt⟩ := hroot a k' v' b rfl
        rw [bst_node_iff] at hbst
        obtain ⟨_, _, hlk, hkr, _⟩ := hbst
        first
        | (-- left part
           intro x hx
           cases hc : cmp key k' with
           | lt =>
             have : a = nil := hlt hc
             subst this
             rw [← hl, inorder_asmL] at hx
             simp only [inorder, List.append_nil] at hx
             exact hL x hx
           | eq => exact h.eq_gt hc ((h.gt_iff _ _).2 (hlk x hx))
           | gt => exact h.gt_trans hc ((h.gt_iff _ _).2 (hlk x hx)))
        | (-- right part
           intro y hy
           cases hc : cmp key k' with
           | gt =>
             have : b = nil := hgt hc
             subst this
             rw [← hr, inorder_asmR] at hy
             simp only [inorder, List.nil_append] at hy
             exact hR y hy
           | eq => exact h.eq_lt hc (hkr y hy)
           | lt => exact h.lt_trans hc (hkr y hy))

/-! ### the reference: a sorted association list -/

def sGet (cmp : K → K → Ordering) (key : K) : List (K × V) → Option (K × V)
  | [] => none
  | (k, v) :: rest =>
    match cmp key k with
    | .eq => some (k, v)
    | .lt => none
    | .gt => sGet cmp key rest

def sInsert (cmp : K → K → Ordering) (key : K) (val : V) : List (K × V) → List (K × V) × Option V
  | [] => ([(key, val)], none)
  | (k, v) :: rest =>
    match cmp key k with
    | .eq => ((k, val) :: rest, some v)
    | .lt => ((key, val) :: (k, v) :: rest, none)
    | .gt => let r := sInsert cmp key val rest; ((k, v) :: r.1, r.2)

def sRemove (cmp : K → K → Ordering) (key : K) : List (K × V) → List (K × V) × Option V
  | [] => ([], none)
  | (k, v) :: rest =>
    match cmp key k with
    | .eq => (rest, some v)
    | .lt => ((k, v) :: rest, none)
    | .gt => let r := sRemove cmp key rest; ((k, v) :: r.1, r.2)

/-- smallest entry above `key` -/
def sNext (cmp : K → K → Ordering) (key : K) (l : List (K × V)) : Option (K × V) :=
  l.find? (fun x => cmp key x.1 == .lt)

/-- largest entry below `key` -/
def sPrev (cmp : K → K → Ordering) (key : K) (l : List (K × V)) : Option (K × V) :=
  (l.filter (fun x => cmp key x.1 == .gt)).getLast?

theorem sGet_skip {cmp : K → K → Ordering} {key : K} (A : List (K × V)) (B : List (K × V)) (hA : AllLt cmp key A) :
    sGet cmp key (A ++ B) = sGet cmp key B := by
  induction A with
  | nil => rfl
  | cons x xs ih =>
    obtain ⟨k, v⟩ := x
    have : cmp key k = .gt := hA (k, v) List.mem_cons_self
    simp only [List.cons_append, sGet, this]
    exact ih (fun y hy => hA y (List.mem_cons_of_mem _ hy))

theorem sGet_allGt {cmp : K → K → Ordering} {key : K} (B : List (K × V)) (hB : AllGt cmp key B) : sGet cmp key B = none := by
  cases B with
  | nil => rfl
  | cons x xs =>
    obtain ⟨k, v⟩ := x
    have : cmp key k = .lt := hB (k, v) List.mem_cons_self
    simp [sGet, this]

theorem sInsert_skip {cmp : K → K → Ordering} {key : K} (val : V) (A B : List (K × V)) (hA : AllLt cmp key A) :
    sInsert cmp key val (A ++ B) = (A ++ (sInsert cmp key val B).1, (sInsert cmp key val B).2) := by
  induction A with
  | nil => rfl
  | cons x xs ih =>
    obtain ⟨k, v⟩ := x
    have : cmp key k = .gt := hA (k, v) List.mem_cons_self
    simp only [List.cons_append, sInsert, this]
    rw [ih (fun y hy => hA y (List.mem_cons_of_mem _ hy))]

theorem sInsert_allGt {cmp : K → K → Ordering} {key : K} (val : V) (B : List (K × V)) (hB : AllGt cmp key B) :
    sInsert cmp key val B = ((key, val) :: B, none) := by
  cases B with
  | nil => rfl
  | cons x xs =>
    obtain ⟨k, v⟩ := x
    have : cmp key k = .lt := hB (k, v) List.mem_cons_self
    simp [sInsert, this]

theorem sRemove_skip {cmp : K → K → Ordering} {key : K} (A B : List (K × V)) (hA : AllLt cmp key A) :
    sRemove cmp key (A ++ B) = (A ++ (sRemove cmp key B).1, (sRemove cmp key B).2) := by
  induction A with
  | nil => rfl
  | cons x xs ih =>
    obtain ⟨k, v⟩ := x
    have : cmp key k = .gt := hA (k, v) List.mem_cons_self
    simp only [List.cons_append, sRemove, this]
    rw [ih (fun y hy => hA y (List.mem_cons_of_mem _ hy))]

theorem sRemove_allGt {cmp : K → K → Ordering} {key : K} (B : List (K × V)) (hB : AllGt cmp key B) :
    sRemove cmp key B = (B, none) := by
  cases B with
  | nil => rfl
  | cons x xs =>
    obtain ⟨k, v⟩ := x
    have : cmp key k = .lt := hB (k, v) List.mem_cons_self
    simp [sRemove, this]

end Tree
end Gbo
