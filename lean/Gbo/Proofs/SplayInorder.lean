import Gbo.Model.Splay
/-
  The splay operation permutes nothing: the in-order sequence of (key, value) nodes is preserved, for
  EVERY comparator (lawful or not).  This is the model-level content of "lookups only swap box pointers".
-/
namespace Gbo.Tree
variable {K V : Type}

/-- in-order content of the pending left nodes, outermost first -/
def inL : LCtx K V → List (K × V)
  | [] => []
  | (l, k, v) :: rest => inL rest ++ inorder l ++ [(k, v)]

/-- in-order content of the pending right nodes, innermost first -/
def inR : RCtx K V → List (K × V)
  | [] => []
  | (k, v, r) :: rest => (k, v) :: inorder r ++ inR rest

theorem inorder_asmL (L : LCtx K V) (t : Tree K V) : inorder (asmL L t) = inL L ++ inorder t := by
  induction L generalizing t with
  | nil => simp [asmL, inL]
  | cons x xs ih =>
    obtain ⟨l, k, v⟩ := x
    simp [asmL, inL, ih, inorder]

theorem inorder_asmR (R : RCtx K V) (t : Tree K V) : inorder (asmR R t) = inorder t ++ inR R := by
  induction R generalizing t with
  | nil => simp [asmR, inR]
  | cons x xs ih =>
    obtain ⟨k, v, r⟩ := x
    simp [asmR, inR, ih, inorder]

theorem splayLoop_inorder (cmp : K → K → Ordering) (key : K) (t : Tree K V) (L : LCtx K V) (R : RCtx K V) :
    let res := splayLoop cmp key t L R
    inL res.2.1 ++ inorder res.1 ++ inR res.2.2 = inL L ++ inorder t ++ inR R := by
  fun_induction splayLoop cmp key t L R <;> simp_all [inorder, inL, inR]

theorem splayLoop_nil_imp (cmp : K → K → Ordering) (key : K) (t : Tree K V) (L : LCtx K V) (R : RCtx K V) :
    (splayLoop cmp key t L R).1 = nil → t = nil := by
  fun_induction splayLoop cmp key t L R <;> simp_all

theorem splayLoop_node (cmp : K → K → Ordering) (key : K) (a : Tree K V) (k : K) (v : V) (b : Tree K V) (L : LCtx K V) (R : RCtx K V) :
    ∃ a' k' v' b', (splayLoop cmp key (node a k v b) L R).1 = node a' k' v' b' := by
  cases h : (splayLoop cmp key (node a k v b) L R).1 with
  | nil => exact absurd (splayLoop_nil_imp cmp key _ L R h) (by simp)
  | node a' k' v' b' => exact ⟨a', k', v', b', rfl⟩

/-- `splay` preserves the in-order sequence of nodes, whatever the comparator does -/
theorem splay_inorder (cmp : K → K → Ordering) (key : K) (t : Tree K V) :
    inorder (splay cmp key t) = inorder t := by
  unfold splay
  have h := splayLoop_inorder cmp key t [] []
  cases hres : splayLoop cmp key t [] [] with
  | mk t' LR =>
    obtain ⟨L, R⟩ := LR
    rw [hres] at h
    simp only [inL, inR, List.nil_append, List.append_nil] at h
    cases t' with
    | nil =>
      simp only [inorder, List.append_nil] at h ⊢
      -- the loop only returns `nil` for the empty tree
      cases t with
      | nil => rfl
      | node a k v b =>
        obtain ⟨a', k', v', b', hn⟩ := splayLoop_node cmp key a k v b [] []
        rw [hres] at hn; cases hn
    | node a k v b =>
      simp only [inorder, inorder_asmL, inorder_asmR]
      simp only [inorder] at h
      simpa [List.append_assoc] using h

theorem splay_nil (cmp : K → K → Ordering) (key : K) : splay cmp key (nil : Tree K V) = nil := rfl

theorem splay_node (cmp : K → K → Ordering) (key : K) (a : Tree K V) (k : K) (v : V) (b : Tree K V) :
    ∃ a' k' v' b', splay cmp key (node a k v b) = node a' k' v' b' := by
  unfold splay
  obtain ⟨a', k', v', b', hn⟩ := splayLoop_node cmp key a k v b [] []
  cases hres : splayLoop cmp key (node a k v b) [] [] with
  | mk t' LR =>
    rw [hres] at hn
    simp only at hn
    subst hn
    exact ⟨_, _, _, _, rfl⟩

end Gbo.Tree
