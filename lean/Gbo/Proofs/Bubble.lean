import Gbo.Model.Connect
/-
  Termination and result of the bubble sort in `order_events` (connect_edges.rs).  The loop
  `while !sorted { one pass of adjacent swaps }` terminates whenever the comparison is antisymmetric on the
  events listed: every swap removes exactly one inversion.  Transitivity is not needed for termination.
-/
namespace Gbo

section inv
variable (lt : Nat → Nat → Bool)

/-- number of pairs `i < j` with `lt l[i] l[j]` (pairs the sort wants to exchange) -/
def invCount : List Nat → Nat
  | [] => 0
  | x :: xs => xs.countP (lt x) + invCount xs

theorem invCount_le (l : List Nat) : invCount lt l ≤ l.length * l.length := by
  induction l with
  | nil => simp [invCount]
  | cons x xs ih =>
    have h := List.countP_le_length (p := lt x) (l := xs)
    simp only [invCount, List.length_cons, Nat.add_mul, Nat.mul_add]
    omega

theorem invCount_swap (p s : List Nat) (x y : Nat) (hxy : lt x y = true) (hyx : lt y x = false) :
    invCount lt (p ++ x :: y :: s) = invCount lt (p ++ y :: x :: s) + 1 := by
  induction p with
  | nil => simp [invCount, hxy, hyx]; omega
  | cons q p ih =>
    simp only [List.cons_append, invCount, ih, List.countP_append, List.countP_cons]
    omega

end inv

theorem list_swap_adjacent (l : List Nat) (k : Nat) (h : k + 1 < l.length) :
    (l.set k l[k + 1]).set (k + 1) (l[k]'(by omega)) = l.take k ++ l[k + 1] :: (l[k]'(by omega)) :: l.drop (k + 2) ∧
    l = l.take k ++ (l[k]'(by omega)) :: l[k + 1] :: l.drop (k + 2) := by
  induction l generalizing k with
  | nil => simp at h
  | cons a l ih =>
    cases k with
    | zero =>
      cases l with
      | nil => simp at h
      | cons b l => simp
    | succ k =>
      have h' : k + 1 < l.length := by simpa using h
      obtain ⟨h1, h2⟩ := ih k h'
      constructor
      · simpa using h1
      · simp

/-- one comparison of the pass -/
def bubbleStep (a : Arena) (acc : Array Nat × Bool) (k : Nat) : Array Nat × Bool :=
  if cmpEv a acc.1[k]! acc.1[k + 1]! == .lt then (acc.1.swapIfInBounds k (k + 1), true) else acc

theorem bubblePass_eq (a : Arena) (r : Array Nat) :
    bubblePass a r = (List.range (r.size - 1)).foldl (bubbleStep a) (r, false) := by
  unfold bubblePass
  congr 1

/-- the comparison as a Boolean relation -/
def evLt (a : Arena) (x y : Nat) : Bool := cmpEv a x y == .lt

/-- the comparison never says "exchange" in both directions on the listed events -/
def AntiOn (a : Arena) (l : List Nat) : Prop :=
  ∀ x ∈ l, ∀ y ∈ l, evLt a x y = true → evLt a y x = false

theorem AntiOn.perm {a : Arena} {l l' : List Nat} (h : AntiOn a l) (hp : l'.Perm l) : AntiOn a l' :=
  fun x hx y hy => h x (hp.mem_iff.mp hx) y (hp.mem_iff.mp hy)

/-- state of a pass after `n` comparisons -/
structure PassInv (a : Arena) (r0 : Array Nat) (n : Nat) (acc : Array Nat × Bool) : Prop where
  size : acc.1.size = r0.size
  perm : acc.1.toList.Perm r0.toList
  same : acc.2 = false → acc.1 = r0 ∧ ∀ j, j < n → evLt a r0[j]! r0[j + 1]! = false
  less : acc.2 = true → invCount (evLt a) acc.1.toList < invCount (evLt a) r0.toList
  le : invCount (evLt a) acc.1.toList ≤ invCount (evLt a) r0.toList

theorem bubbleStep_inv (a : Arena) (r0 : Array Nat) (hanti : AntiOn a r0.toList) (n : Nat) (hn : n + 1 < r0.size)
    (acc : Array Nat × Bool) (h : PassInv a r0 n acc) : PassInv a r0 (n + 1) (bubbleStep a acc n) := by
  obtain ⟨r, sw⟩ := acc
  have hsz : r.size = r0.size := h.size
  have hn' : n + 1 < r.size := by omega
  unfold bubbleStep
  by_cases hc : cmpEv a r[n]! r[n + 1]! == .lt
  · simp only [hc, if_true]
    have hx : r[n]! = r[n]'(by omega) := by simp [getElem!_pos, Nat.lt_of_succ_lt hn']
    have hy : r[n + 1]! = r[n + 1]'hn' := by simp [getElem!_pos, hn']
    have hlt : evLt a (r[n]'(by omega)) (r[n + 1]'hn') = true := by
      simpa [evLt, hx, hy] using hc
    have hmx : (r[n]'(by omega)) ∈ r0.toList := h.perm.mem_iff.mp (by simp)
    have hmy : (r[n + 1]'hn') ∈ r0.toList := h.perm.mem_iff.mp (by simp)
    have hgt := hanti _ hmx _ hmy hlt
    have hl : n + 1 < r.toList.length := by simpa using hn'
    obtain ⟨e1, e2⟩ := list_swap_adjacent r.toList n hl
    have hswap : (r.swapIfInBounds n (n + 1)).toList =
        r.toList.take n ++ (r[n + 1]'hn') :: (r[n]'(by omega)) :: r.toList.drop (n + 2) := by
      rw [Array.swapIfInBounds_def]
      simp only [Nat.lt_of_succ_lt hn', hn', dite_true, Array.toList_swap]
      simpa using e1
    have hdec : invCount (evLt a) r.toList = invCount (evLt a) (r.swapIfInBounds n (n + 1)).toList + 1 := by
      rw [hswap]
      have e2' : r.toList = r.toList.take n ++ (r[n]'(by omega)) :: (r[n + 1]'hn') :: r.toList.drop (n + 2) := by
        simpa using e2
      conv => lhs; rw [e2']
      exact invCount_swap (evLt a) _ _ _ _ hlt hgt
    have hperm : (r.swapIfInBounds n (n + 1)).toList.Perm r.toList := by
      rw [hswap]
      have e2' : r.toList = r.toList.take n ++ (r[n]'(by omega)) :: (r[n + 1]'hn') :: r.toList.drop (n + 2) := by
        simpa using e2
      conv => rhs; rw [e2']
      exact List.Perm.append_left _ (List.Perm.swap _ _ _)
    have hle := h.le
    simp only at hle
    exact {
      size := by simp [hsz]
      perm := hperm.trans h.perm
      same := by intro hf; simp at hf
      less := by intro _; simp only; omega
      le := by simp only; omega }
  · simp only [hc]
    have hc' : (cmpEv a r[n]! r[n + 1]! == .lt) = false := by simpa using hc
    simp only [Bool.false_eq_true, if_false]
    exact {
      size := h.size
      perm := h.perm
      same := by
        intro hf
        obtain ⟨e, hj⟩ := h.same hf
        refine ⟨e, fun j hjn => ?_⟩
        by_cases hjn' : j < n
        · exact hj j hjn'
        · have : j = n := by omega
          subst this
          simp only at e
          subst e
          simpa [evLt] using hc'
      less := h.less
      le := h.le }

theorem bubbleFold_inv (a : Arena) (r0 : Array Nat) (hanti : AntiOn a r0.toList) (n : Nat) (hn : n ≤ r0.size - 1) :
    PassInv a r0 n ((List.range n).foldl (bubbleStep a) (r0, false)) := by
  induction n with
  | zero =>
    exact { size := rfl, perm := List.Perm.refl _, same := fun _ => ⟨rfl, fun j hj => absurd hj (Nat.not_lt_zero _)⟩,
            less := by intro h; simp at h, le := Nat.le_refl _ }
  | succ n ih =>
    rw [List.range_succ, List.foldl_append]
    simp only [List.foldl_cons, List.foldl_nil]
    exact bubbleStep_inv a r0 hanti n (by omega) _ (ih (by omega))

theorem bubblePass_inv (a : Arena) (r0 : Array Nat) (hanti : AntiOn a r0.toList) :
    PassInv a r0 (r0.size - 1) (bubblePass a r0) := by
  rw [bubblePass_eq]
  exact bubbleFold_inv a r0 hanti _ (Nat.le_refl _)

/-- the result of a terminated sort: no adjacent pair asks to be exchanged -/
def AdjSorted (a : Arena) (r : Array Nat) : Prop := ∀ j, j + 1 < r.size → evLt a r[j]! r[j + 1]! = false

theorem bubbleSort_terminates (a : Arena) (fuel : Nat) (r : Array Nat) (hanti : AntiOn a r.toList)
    (hfuel : invCount (evLt a) r.toList < fuel) :
    ∃ r', bubbleSort a fuel r = some r' ∧ r'.toList.Perm r.toList ∧ AdjSorted a r' := by
  induction fuel generalizing r with
  | zero => omega
  | succ fuel ih =>
    have hinv := bubblePass_inv a r hanti
    unfold bubbleSort
    generalize hp : bubblePass a r = p at hinv
    obtain ⟨r1, sw⟩ := p
    simp only
    cases sw with
    | true =>
      simp only [if_true]
      have hless := hinv.less rfl
      simp only at hless
      have hperm : r1.toList.Perm r.toList := hinv.perm
      obtain ⟨r', h1, h2, h3⟩ := ih r1 (hanti.perm hperm) (by omega)
      exact ⟨r', h1, h2.trans hperm, h3⟩
    | false =>
      simp only [Bool.false_eq_true, if_false]
      obtain ⟨e, hj⟩ := hinv.same rfl
      simp only at e
      subst e
      exact ⟨r1, rfl, List.Perm.refl _, fun j hjn => hj j (by omega)⟩

/-- the fuel the model gives the loop is always enough: the model's "bubble sort ran out of fuel" failure is
    unreachable when the comparison is antisymmetric on the listed events, and the loop of the source
    terminates after at most `size² + 1` passes -/
theorem bubbleSort_enough_fuel (a : Arena) (r : Array Nat) (hanti : AntiOn a r.toList) :
    ∃ r', bubbleSort a (r.size * r.size + 2) r = some r' ∧ r'.toList.Perm r.toList ∧ AdjSorted a r' := by
  apply bubbleSort_terminates a _ r hanti
  have := invCount_le (evLt a) r.toList
  simp only [Array.length_toList] at this
  omega

end Gbo
