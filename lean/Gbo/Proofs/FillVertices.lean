import Gbo.Proofs.Provenance
import Gbo.Proofs.Divide
import Gbo.Proofs.SweepProvenance
/-
  The events `fill_queue` creates sit at vertices of the operands' rings.
-/
namespace Gbo

/-- `p` is a vertex of some ring of some polygon of the list -/
def VertexOf (ps : List Poly) (p : Pt) : Prop := ∃ poly, poly ∈ ps ∧ ∃ ring, ring ∈ poly.ext :: poly.holes ∧ p ∈ ring

theorem mkPair_points (n : Nat) (s e : Pt) (subj : Bool) (cid : Nat) (ext : Bool) :
    (mkPair n s e subj cid ext).1.point = s ∧ (mkPair n s e subj cid ext).2.point = e := by
  unfold mkPair; exact ⟨rfl, rfl⟩

theorem processLine_pts (subj : Bool) (cid : Nat) (ext : Bool) (st : FQ × Option BBox) (s e : Pt) (Q : Pt → Prop)
    (h : PointsIn st.1.arena Q) (hs : Q s) (he : Q e) : PointsIn (processLine subj cid ext st s e).1.arena Q := by
  unfold processLine
  split
  · exact h
  · obtain ⟨fq, bb⟩ := st
    simp only
    intro i hi
    simp only [Array.size_push] at hi
    by_cases h1 : i < fq.arena.size
    · rw [get!_push_lt _ _ _ (by simp; omega), get!_push_lt _ _ _ h1]; exact h i h1
    · by_cases h2 : i = fq.arena.size
      · subst h2
        rw [get!_push_lt _ _ _ (by simp), get!_push_eq, (mkPair_points _ _ _ _ _ _).1]; exact hs
      · have : i = fq.arena.size + 1 := by omega
        subst this
        rw [get!_push2_snd, (mkPair_points _ _ _ _ _ _).2]; exact he

theorem processRing_pts (subj : Bool) (cid : Nat) (ext : Bool) (Q : Pt → Prop) (ring : Ring) :
    ∀ (st : FQ × Option BBox), PointsIn st.1.arena Q → (∀ p, p ∈ ring → Q p) →
      PointsIn (processRing subj cid ext st ring).1.arena Q := by
  induction ring with
  | nil => intro st h _; simpa [processRing] using h
  | cons p rest ih =>
    cases rest with
    | nil => intro st h _; simpa [processRing] using h
    | cons q rest =>
      intro st h hq
      simp only [processRing]
      apply ih _ (processLine_pts subj cid ext st p q Q h (hq p List.mem_cons_self) (hq q (by simp)))
      intro x hx
      exact hq x (List.mem_cons_of_mem _ hx)

theorem processPolygon_pts (subj : Bool) (cid : Nat) (ext : Bool) (Q : Pt → Prop) (st : FQ × Option BBox) (poly : Poly)
    (h : PointsIn st.1.arena Q) (hq : ∀ ring, ring ∈ poly.ext :: poly.holes → ∀ p, p ∈ ring → Q p) :
    PointsIn (processPolygon subj cid ext st poly).1.arena Q := by
  unfold processPolygon
  simp only
  have h1 := processRing_pts subj cid ext Q poly.ext st h (hq poly.ext List.mem_cons_self)
  have : ∀ (hs : List Ring) (st : FQ × Option BBox), (∀ r, r ∈ hs → r ∈ poly.holes) → PointsIn st.1.arena Q →
      PointsIn (hs.foldl (fun st h => processRing subj cid false st h) st).1.arena Q := by
    intro hs
    induction hs with
    | nil => intro st _ h; exact h
    | cons r rs ih =>
      intro st hsub h
      simp only [List.foldl_cons]
      apply ih _ (fun x hx => hsub x (List.mem_cons_of_mem _ hx))
      exact processRing_pts subj cid false Q r st h (hq r (List.mem_cons_of_mem _ (hsub r List.mem_cons_self)))
  exact this poly.holes _ (fun _ h => h) h1

/-- every event of the queue sits at a vertex of a ring of one of the operands -/
theorem fillQueue_vertices (a b : MPoly) (op : Op) : PointsIn (fillQueue a b op).fq.arena (VertexOf (a ++ b)) := by
  unfold fillQueue
  simp only
  have hsub : ∀ (ps : List Poly) (acc : Nat × FQ × Option BBox), (∀ x, x ∈ ps → x ∈ a) →
      PointsIn acc.2.1.arena (VertexOf (a ++ b)) → PointsIn (ps.foldl subjStep acc).2.1.arena (VertexOf (a ++ b)) := by
    intro ps
    induction ps with
    | nil => intro acc _ h; exact h
    | cons p ps ih =>
      intro acc hsubset h
      simp only [List.foldl_cons]
      apply ih _ (fun x hx => hsubset x (List.mem_cons_of_mem _ hx))
      unfold subjStep
      exact processPolygon_pts true _ true _ (acc.2.1, acc.2.2) p h
        (fun ring hr q hq => ⟨p, List.mem_append_left _ (hsubset p List.mem_cons_self), ring, hr, hq⟩)
  have hclip : ∀ (ps : List Poly) (acc : Nat × FQ × Option BBox), (∀ x, x ∈ ps → x ∈ b) →
      PointsIn acc.2.1.arena (VertexOf (a ++ b)) → PointsIn (ps.foldl (clipStep op) acc).2.1.arena (VertexOf (a ++ b)) := by
    intro ps
    induction ps with
    | nil => intro acc _ h; exact h
    | cons p ps ih =>
      intro acc hsubset h
      simp only [List.foldl_cons]
      apply ih _ (fun x hx => hsubset x (List.mem_cons_of_mem _ hx))
      unfold clipStep
      exact processPolygon_pts false _ _ _ (acc.2.1, acc.2.2) p h
        (fun ring hr q hq => ⟨p, List.mem_append_right _ (hsubset p List.mem_cons_self), ring, hr, hq⟩)
  apply hclip b _ (fun _ h => h)
  apply hsub a _ (fun _ h => h)
  intro i hi
  simp at hi

theorem Gen.mono {ar : Arith} {V V' : Pt → Prop} (h : ∀ p, V p → V' p) : ∀ p, Gen ar V p → Gen ar V' p := by
  intro p hp
  induction hp with
  | vertex q hq => exact Gen.vertex q (h q hq)
  | isect a1 a2 b1 b2 q _ _ _ _ hi i1 i2 i3 i4 => exact Gen.isect a1 a2 b1 b2 q i1 i2 i3 i4 hi
  | bump q _ ih => exact Gen.bump q ih

end Gbo
