import Gbo.Proofs.StripSweep
/-
  The whole sweep loop under two operations without early exit (union, xor): states that differ only in the
  fields the operation decides (`sSw st = sSw st'`) stay so through `checkNext` / `checkPrev` / `checkRemoval`,
  one iteration (`sweepStep_rel`), the loop (`sweepLoop_rel`) and `subdivide` (`subdivide_rel`): same failure or
  same queue, sweep line, `sorted_events`, pop count, bump count and arena up to `result_transition` /
  `prev_in_result`.
-/
namespace Gbo

theorem stripResult_idem (e : Ev) : stripResult (stripResult e) = stripResult e := rfl
theorem sA_idem (a : Arena) : sA (sA a) = sA a := by
  simp only [sA, Array.map_map]
  congr 1
theorem sSw_idem (st : SwSt) : sSw (sSw st) = sSw st := by
  simp only [sSw, sA_idem]

theorem sA_segView (a : Arena) (i : Nat) : (sA a).segView i = a.segView i := by
  unfold Arena.segView
  simp only [sA_view, sA_get]
  rfl
theorem sA_segCmp (ar : Arith) (dbg : Bool) (a : Arena) : segCmp ar dbg (sA a) = segCmp ar dbg a := by
  funext i j
  unfold segCmp
  rw [sA_segView, sA_segView]
theorem sA_keyOk (a : Arena) (i : Nat) : keyOk (sA a) i = keyOk a i := by
  unfold keyOk; rw [sA_get]; rfl

/-- two arenas / states that differ only in the fields the operation decides -/
theorem segCmp_rel (ar : Arith) (dbg : Bool) {a a' : Arena} (h : sA a = sA a') : segCmp ar dbg a = segCmp ar dbg a' := by
  rw [← sA_segCmp ar dbg a, h, sA_segCmp]
theorem evLe_rel {a a' : Arena} (h : sA a = sA a') : evLe a = evLe a' := by
  rw [← sA_evLe a, h, sA_evLe]
theorem keyOk_rel {a a' : Arena} (h : sA a = sA a') (i : Nat) : keyOk a i = keyOk a' i := by
  rw [← sA_keyOk a, h, sA_keyOk]
theorem get_rel {a a' : Arena} (h : sA a = sA a') (i : Nat) : stripResult a[i]! = stripResult a'[i]! := by
  rw [← sA_get, h, sA_get]

theorem computeFields_rel {a a' : Arena} (h : sA a = sA a') (event : Nat) (prev : Option Nat) (op op' : Op) :
    sA (computeFields a event prev op) = sA (computeFields a' event prev op') :=
  computeFields_stripResult a a' h event prev op op'

theorem possibleIntersection_rel (ar : Arith) (cfg : Cfg) {st st' : SwSt} (h : sSw st = sSw st') (se1 se2 : Nat) :
    exMap sRes (possibleIntersection ar cfg st se1 se2) = exMap sRes (possibleIntersection ar cfg st' se1 se2) := by
  rw [← sA_possibleIntersection, ← sA_possibleIntersection, h]

/-- compositionality: related computations followed by continuations that respect the relation -/
theorem exMap_bind_rel {α β γ δ : Type} (g : α → γ) (g' : β → δ) (x x' : Except Fail α) (k k' : α → Except Fail β)
    (hx : exMap g x = exMap g x') (hk : ∀ a a', g a = g a' → exMap g' (k a) = exMap g' (k' a')) :
    exMap g' (x >>= k) = exMap g' (x' >>= k') := by
  cases x with
  | error e =>
    cases x' with
    | error e' => simp only [exMap] at hx; cases hx; rfl
    | ok a' => simp [exMap] at hx
  | ok a =>
    cases x' with
    | error e' => simp [exMap] at hx
    | ok a' =>
      simp only [exMap, Except.ok.injEq] at hx
      exact hk a a' hx

theorem sSw_eq_iff (st st' : SwSt) : sSw st = sSw st' ↔
    sA st.arena = sA st'.arena ∧ st.heap = st'.heap ∧ st.line = st'.line ∧ st.sorted = st'.sorted
      ∧ st.popped = st'.popped ∧ st.bumps = st'.bumps := by
  cases st; cases st'
  simp [sSw]

theorem checkNext_rel (ar : Arith) (cfg : Cfg) (op op' : Op) {st st' : SwSt} (h : sSw st = sSw st')
    (event : Nat) (prev next : Option Nat) :
    exMap sSw (checkNext ar cfg op st event prev next) = exMap sSw (checkNext ar cfg op' st' event prev next) := by
  unfold checkNext
  cases next with
  | none => simpa [exMap, pure, Except.pure] using h
  | some nx =>
    simp only
    refine exMap_bind_rel sRes sSw _ _ _ _ (possibleIntersection_rel ar cfg h event nx) ?_
    rintro ⟨c, s⟩ ⟨c', s'⟩ hr
    simp only [sRes, Prod.mk.injEq] at hr
    obtain ⟨rfl, hs⟩ := hr
    simp only
    split
    · rw [sSw_eq_iff] at hs
      simp only [exMap, pure, Except.pure, Except.ok.injEq, sSw_eq_iff]
      exact ⟨computeFields_rel (computeFields_rel hs.1 _ _ _ _) _ _ _ _, hs.2⟩
    · simpa [exMap, pure, Except.pure] using hs

theorem checkRemoval_rel (ar : Arith) (cfg : Cfg) {st st' : SwSt} (h : sSw st = sSw st')
    (prev next : Option (Nat × Unit)) :
    exMap sSw (checkRemoval ar cfg st prev next) = exMap sSw (checkRemoval ar cfg st' prev next) := by
  unfold checkRemoval
  split
  · refine exMap_bind_rel sRes sSw _ _ _ _ (possibleIntersection_rel ar cfg h _ _) ?_
    rintro ⟨c, s⟩ ⟨c', s'⟩ hr
    simp only [sRes, Prod.mk.injEq] at hr
    simpa [exMap, pure, Except.pure] using hr.2
  · simpa [exMap, pure, Except.pure] using h

theorem checkPrev_rel (ar : Arith) (cfg : Cfg) (op op' : Op) {st st' : SwSt} (h : sSw st = sSw st')
    (event : Nat) (prev : Option Nat) :
    exMap sSw (checkPrev ar cfg op st event prev) = exMap sSw (checkPrev ar cfg op' st' event prev) := by
  unfold checkPrev
  cases prev with
  | none => simpa [exMap, pure, Except.pure] using h
  | some pv =>
    simp only
    refine exMap_bind_rel sRes sSw _ _ _ _ (possibleIntersection_rel ar cfg h pv event) ?_
    rintro ⟨c, s⟩ ⟨c', s'⟩ hr
    simp only [sRes, Prod.mk.injEq] at hr
    obtain ⟨rfl, hs⟩ := hr
    simp only
    split
    · rw [sSw_eq_iff] at hs
      obtain ⟨ha, hh, hl, hrest⟩ := hs
      simp only [exMap, pure, Except.pure, Except.ok.injEq, sSw_eq_iff]
      rw [← segCmp_rel ar cfg.dbg ha, ← hl]
      exact ⟨computeFields_rel (computeFields_rel ha _ _ _ _) _ _ _ _, hh, rfl, hrest⟩
    · simpa [exMap, pure, Except.pure] using hs


/-- union and xor never leave the loop early -/
def noExit (op : Op) : Prop := op = .union ∨ op = .xor

/-- the early-exit test of the loop: `Intersection` stops behind the smaller right bound, `Difference`
    behind the subject's -/
def exitsAt (op : Op) (rb sx : Rat) (p : Pt) : Bool :=
  (op == .intersection && decide (p.x > rb)) || (op == .difference && decide (p.x > sx))

/-- when the test fires the iteration only records the event and breaks -/
theorem sweepStep_exit (ar : Arith) (cfg : Cfg) (op : Op) (rb sx : Rat) (st : SwSt) (event : Nat)
    (hx : exitsAt op rb sx st.arena[event]!.point = true) :
    sweepStep ar cfg op rb sx st event = .ok (true, { st with sorted := st.sorted.push event }) := by
  unfold exitsAt at hx
  unfold sweepStep
  simp only [hx, if_true]
  rfl

/-- one iteration, any two operations whose exit test does not fire at this event -/
theorem sweepStep_rel_of_no_exit (ar : Arith) (cfg : Cfg) (op op' : Op) (rb sx : Rat)
    {st st' : SwSt} (h : sSw st = sSw st') (event : Nat)
    (hx : exitsAt op rb sx st.arena[event]!.point = false)
    (hx' : exitsAt op' rb sx st'.arena[event]!.point = false) :
    exMap (fun r : Bool × SwSt => (r.1, sSw r.2)) (sweepStep ar cfg op rb sx st event)
      = exMap (fun r : Bool × SwSt => (r.1, sSw r.2)) (sweepStep ar cfg op' rb sx st' event) := by
  obtain ⟨a, hp, ln, so, po, bu⟩ := st
  obtain ⟨a', hp', ln', so', po', bu'⟩ := st'
  rw [sSw_eq_iff] at h
  obtain ⟨ha, rfl, rfl, rfl, rfl, rfl⟩ := h
  simp only at ha
  simp only [exitsAt] at hx hx'
  have hev := get_rel ha event
  have hpt : a[event]!.point = a'[event]!.point := (fields_of_stripResult_eq hev).1
  have hl : a[event]!.left = a'[event]!.left := (fields_of_stripResult_eq hev).2.1
  have hot : a[event]!.other = a'[event]!.other := (fields_of_stripResult_eq hev).2.2.2.1
  unfold sweepStep
  simp only [hx, hx', Bool.false_eq_true, if_false, hl, hot, keyOk_rel ha, segCmp_rel ar cfg.dbg ha]
  split
  · -- left event
    split
    · rfl
    · generalize (Option.map (fun x : Nat × Unit => x.1)
          (SplayTree.prev (segCmp ar cfg.dbg a')
            (SplayTree.insert (segCmp ar cfg.dbg a') ln event ()).1 event).2) = prev
      generalize (Option.map (fun x : Nat × Unit => x.1)
          (SplayTree.next (segCmp ar cfg.dbg a')
            (SplayTree.prev (segCmp ar cfg.dbg a')
              (SplayTree.insert (segCmp ar cfg.dbg a') ln event ()).1 event).1 event).2) = next
      generalize (SplayTree.next (segCmp ar cfg.dbg a')
            (SplayTree.prev (segCmp ar cfg.dbg a')
              (SplayTree.insert (segCmp ar cfg.dbg a') ln event ()).1 event).1 event).1 = line
      have h0 : sSw (SwSt.mk (computeFields a event prev op) hp line (so.push event) po bu)
          = sSw (SwSt.mk (computeFields a' event prev op') hp line (so.push event) po bu) := by
        rw [sSw_eq_iff]; exact ⟨computeFields_rel ha _ _ _ _, rfl, rfl, rfl, rfl, rfl⟩
      refine exMap_bind_rel sSw _ _ _ _ _ (checkNext_rel ar cfg op op' h0 event prev next) ?_
      intro s1 s1' hs1
      refine exMap_bind_rel sSw _ _ _ _ _ (checkPrev_rel ar cfg op op' hs1 event prev) ?_
      intro s2 s2' hs2
      simp only [exMap, pure, Except.pure, hs2]
  · -- right event
    cases a'[event]!.other with
    | none =>
      simp only [exMap, pure, Except.pure, Except.ok.injEq, Prod.mk.injEq, true_and, sSw_eq_iff]
      simpa using ha
    | some other =>
      simp only
      have tail : ∀ (c1 : SplayTree Nat Unit × Bool),
          exMap (fun r : Bool × SwSt => (r.1, sSw r.2))
            (if (!c1.2) = true then
              (pure (false, SwSt.mk a hp c1.1 (so.push event) po bu) : Except Fail (Bool × SwSt))
            else do
              let st1 ← checkRemoval ar cfg
                (SwSt.mk a hp
                  (SplayTree.next (segCmp ar cfg.dbg a') (SplayTree.prev (segCmp ar cfg.dbg a') c1.1 other).1 other).1
                  (so.push event) po bu)
                (SplayTree.prev (segCmp ar cfg.dbg a') c1.1 other).2
                (SplayTree.next (segCmp ar cfg.dbg a') (SplayTree.prev (segCmp ar cfg.dbg a') c1.1 other).1 other).2
              pure (false, SwSt.mk st1.arena st1.heap (SplayTree.remove (segCmp ar cfg.dbg st1.arena) st1.line other).1
                st1.sorted st1.popped st1.bumps))
          = exMap (fun r : Bool × SwSt => (r.1, sSw r.2))
            (if (!c1.2) = true then
              (pure (false, SwSt.mk a' hp c1.1 (so.push event) po bu) : Except Fail (Bool × SwSt))
            else do
              let st1 ← checkRemoval ar cfg
                (SwSt.mk a' hp
                  (SplayTree.next (segCmp ar cfg.dbg a') (SplayTree.prev (segCmp ar cfg.dbg a') c1.1 other).1 other).1
                  (so.push event) po bu)
                (SplayTree.prev (segCmp ar cfg.dbg a') c1.1 other).2
                (SplayTree.next (segCmp ar cfg.dbg a') (SplayTree.prev (segCmp ar cfg.dbg a') c1.1 other).1 other).2
              pure (false, SwSt.mk st1.arena st1.heap (SplayTree.remove (segCmp ar cfg.dbg st1.arena) st1.line other).1
                st1.sorted st1.popped st1.bumps)) := by
        intro c1
        split
        · simp only [exMap, pure, Except.pure, Except.ok.injEq, Prod.mk.injEq, true_and, sSw_eq_iff]
          simpa using ha
        · generalize SplayTree.prev (segCmp ar cfg.dbg a') c1.1 other = pv
          generalize SplayTree.next (segCmp ar cfg.dbg a') pv.1 other = nx
          have h0 : sSw (SwSt.mk a hp nx.1 (so.push event) po bu) = sSw (SwSt.mk a' hp nx.1 (so.push event) po bu) := by
            rw [sSw_eq_iff]; exact ⟨ha, rfl, rfl, rfl, rfl, rfl⟩
          refine exMap_bind_rel sSw _ _ _ _ _ (checkRemoval_rel ar cfg h0 pv.2 nx.2) ?_
          intro s1 s1' hs1
          rw [sSw_eq_iff] at hs1
          obtain ⟨h1a, h1h, h1l, h1s, h1p, h1b⟩ := hs1
          simp only [exMap, pure, Except.pure, Except.ok.injEq, Prod.mk.injEq, true_and, sSw_eq_iff]
          rw [segCmp_rel ar cfg.dbg h1a, h1l]
          exact ⟨h1a, h1h, rfl, h1s, h1p, h1b⟩
      by_cases hd : cfg.dbg = true
      · simp only [hd, if_true, Bool.true_and]
        split
        · rfl
        · have := tail (SplayTree.contains (segCmp ar true a') (SplayTree.contains (segCmp ar true a') ln other).1 other)
          rw [hd] at this
          exact this
      · have hd' : cfg.dbg = false := by simpa using hd
        simp only [hd', Bool.false_eq_true, if_false, Bool.false_and]
        have := tail (SplayTree.contains (segCmp ar false a') ln other)
        rw [hd'] at this
        exact this



theorem exitsAt_noExit (op : Op) (ho : noExit op) (rb sx : Rat) (p : Pt) : exitsAt op rb sx p = false := by
  rcases ho with rfl | rfl <;> simp [exitsAt]

theorem sweepStep_rel (ar : Arith) (cfg : Cfg) (op op' : Op) (ho : noExit op) (ho' : noExit op') (rb sx : Rat)
    {st st' : SwSt} (h : sSw st = sSw st') (event : Nat) :
    exMap (fun r : Bool × SwSt => (r.1, sSw r.2)) (sweepStep ar cfg op rb sx st event)
      = exMap (fun r : Bool × SwSt => (r.1, sSw r.2)) (sweepStep ar cfg op' rb sx st' event) :=
  sweepStep_rel_of_no_exit ar cfg op op' rb sx h event (exitsAt_noExit op ho _ _ _) (exitsAt_noExit op' ho' _ _ _)

theorem sweepLoop_rel (ar : Arith) (cfg : Cfg) (op op' : Op) (ho : noExit op) (ho' : noExit op') (rb sx : Rat) :
    ∀ (fuel : Nat) (st st' : SwSt), sSw st = sSw st' →
      exMap sSw (sweepLoop ar cfg op rb sx fuel st) = exMap sSw (sweepLoop ar cfg op' rb sx fuel st') := by
  intro fuel
  induction fuel with
  | zero =>
    intro st st' h
    rw [sSw_eq_iff] at h
    simp only [sweepLoop, exMap, h.2.2.2.2.2]
  | succ fuel ih =>
    intro st st' h
    obtain ⟨a, hp, ln, so, po, bu⟩ := st
    obtain ⟨a', hp', ln', so', po', bu'⟩ := st'
    rw [sSw_eq_iff] at h
    obtain ⟨ha, rfl, rfl, rfl, rfl, rfl⟩ := h
    simp only at ha
    unfold sweepLoop
    simp only [evLe_rel ha]
    cases Heap.pop (evLe a') hp with
    | none =>
      simp only [exMap, Except.ok.injEq, sSw_eq_iff]
      simpa using ha
    | some r =>
      obtain ⟨event, hp2⟩ := r
      simp only
      split
      · rfl
      · have h0 : sSw (SwSt.mk a hp2 ln so (po + 1) bu) = sSw (SwSt.mk a' hp2 ln so (po + 1) bu) := by
          rw [sSw_eq_iff]; exact ⟨ha, rfl, rfl, rfl, rfl, rfl⟩
        have key := sweepStep_rel ar cfg op op' ho ho' rb sx h0 event
        cases h1 : sweepStep ar cfg op rb sx (SwSt.mk a hp2 ln so (po + 1) bu) event with
        | error e =>
          cases h2 : sweepStep ar cfg op' rb sx (SwSt.mk a' hp2 ln so (po + 1) bu) event with
          | error e' => rw [h1, h2] at key; simp only [exMap] at key; cases key; rfl
          | ok r' => rw [h1, h2] at key; simp [exMap] at key
        | ok r =>
          cases h2 : sweepStep ar cfg op' rb sx (SwSt.mk a' hp2 ln so (po + 1) bu) event with
          | error e' => rw [h1, h2] at key; simp [exMap] at key
          | ok r' =>
            rw [h1, h2] at key
            simp only [exMap, Except.ok.injEq, Prod.mk.injEq] at key
            obtain ⟨b, s1⟩ := r
            obtain ⟨b', s1'⟩ := r'
            obtain ⟨hb, hs⟩ := key
            simp only at hb hs
            subst hb
            cases b with
            | true => simp only [exMap, hs]
            | false => exact ih s1 s1' hs

/-- the result of `subdivide` with the operation-dependent fields of the arena forgotten -/
def sOut (o : SweepOut) : SweepOut := { o with arena := sA o.arena }

theorem subdivide_rel (ar : Arith) (cfg : Cfg) (fq : FQ) (sb cb : BBox) (op op' : Op) (ho : noExit op) (ho' : noExit op') :
    exMap sOut (subdivide ar cfg fq sb cb op) = exMap sOut (subdivide ar cfg fq sb cb op') := by
  unfold subdivide
  have key := sweepLoop_rel ar cfg op op' ho ho' (rmin sb.maxx cb.maxx) sb.maxx (cfg.budget + 1)
    { arena := fq.arena, heap := fq.heap } { arena := fq.arena, heap := fq.heap } rfl
  simp only
  cases h1 : sweepLoop ar cfg op (rmin sb.maxx cb.maxx) sb.maxx (cfg.budget + 1) { arena := fq.arena, heap := fq.heap } with
  | error e =>
    cases h2 : sweepLoop ar cfg op' (rmin sb.maxx cb.maxx) sb.maxx (cfg.budget + 1) { arena := fq.arena, heap := fq.heap } with
    | error e' => rw [h1, h2] at key; simp only [exMap] at key; cases key; rfl
    | ok s' => rw [h1, h2] at key; simp [exMap] at key
  | ok s =>
    cases h2 : sweepLoop ar cfg op' (rmin sb.maxx cb.maxx) sb.maxx (cfg.budget + 1) { arena := fq.arena, heap := fq.heap } with
    | error e' => rw [h1, h2] at key; simp [exMap] at key
    | ok s' =>
      rw [h1, h2] at key
      simp only [exMap, Except.ok.injEq, sSw_eq_iff] at key
      obtain ⟨ka, kh, kl, ks, kp, kb⟩ := key
      simp only [exMap, sOut, ka, kl, ks, kp, kb]

/-! ### every sweep is the union sweep cut off at its exit test -/

/-- the loop of `Union` (which never exits early), cut off at the first popped event on which `cut` fires:
    that event is recorded and the loop ends -/
def sweepLoopCut (ar : Arith) (cfg : Cfg) (cut : Pt → Bool) (rb sx : Rat) : Nat → SwSt → Except Fail SwSt
  | 0, st => .error (.budget st.bumps)
  | fuel + 1, st =>
    match Heap.pop (evLe st.arena) st.heap with
    | none => .ok st
    | some (event, h) =>
      let st := { st with heap := h, popped := st.popped + 1 }
      if st.popped > cfg.budget then .error (.budget st.bumps) else
      if cut st.arena[event]!.point then .ok { st with sorted := st.sorted.push event } else
      match sweepStep ar cfg .union rb sx st event with
      | .error e => .error e
      | .ok (true, st) => .ok st
      | .ok (false, st) => sweepLoopCut ar cfg cut rb sx fuel st

theorem sweepLoop_is_cut_union (ar : Arith) (cfg : Cfg) (op : Op) (rb sx : Rat) :
    ∀ (fuel : Nat) (st st' : SwSt), sSw st = sSw st' →
      exMap sSw (sweepLoop ar cfg op rb sx fuel st)
        = exMap sSw (sweepLoopCut ar cfg (exitsAt op rb sx) rb sx fuel st') := by
  intro fuel
  induction fuel with
  | zero =>
    intro st st' h
    rw [sSw_eq_iff] at h
    simp only [sweepLoop, sweepLoopCut, exMap, h.2.2.2.2.2]
  | succ fuel ih =>
    intro st st' h
    obtain ⟨a, hp, ln, so, po, bu⟩ := st
    obtain ⟨a', hp', ln', so', po', bu'⟩ := st'
    rw [sSw_eq_iff] at h
    obtain ⟨ha, rfl, rfl, rfl, rfl, rfl⟩ := h
    simp only at ha
    unfold sweepLoop sweepLoopCut
    simp only [evLe_rel ha]
    cases Heap.pop (evLe a') hp with
    | none =>
      simp only [exMap, Except.ok.injEq, sSw_eq_iff]
      simpa using ha
    | some r =>
      obtain ⟨event, hp2⟩ := r
      simp only
      split
      · rfl
      · have hpt : a[event]!.point = a'[event]!.point := (fields_of_stripResult_eq (get_rel ha event)).1
        have h0 : sSw (SwSt.mk a hp2 ln so (po + 1) bu) = sSw (SwSt.mk a' hp2 ln so (po + 1) bu) := by
          rw [sSw_eq_iff]; exact ⟨ha, rfl, rfl, rfl, rfl, rfl⟩
        cases hc : exitsAt op rb sx a'[event]!.point with
        | true =>
          rw [sweepStep_exit ar cfg op rb sx _ event (by simpa [hpt] using hc)]
          simp only [if_true, exMap, Except.ok.injEq, sSw_eq_iff]
          simpa using ha
        | false =>
          simp only [Bool.false_eq_true, if_false]
          have key := sweepStep_rel_of_no_exit ar cfg op .union rb sx h0 event (by simpa [hpt] using hc)
            (exitsAt_noExit .union (Or.inl rfl) _ _ _)
          cases h1 : sweepStep ar cfg op rb sx (SwSt.mk a hp2 ln so (po + 1) bu) event with
          | error e =>
            cases h2 : sweepStep ar cfg .union rb sx (SwSt.mk a' hp2 ln so (po + 1) bu) event with
            | error e' => rw [h1, h2] at key; simp only [exMap] at key; cases key; rfl
            | ok r' => rw [h1, h2] at key; simp [exMap] at key
          | ok r =>
            cases h2 : sweepStep ar cfg .union rb sx (SwSt.mk a' hp2 ln so (po + 1) bu) event with
            | error e' => rw [h1, h2] at key; simp [exMap] at key
            | ok r' =>
              rw [h1, h2] at key
              simp only [exMap, Except.ok.injEq, Prod.mk.injEq] at key
              obtain ⟨b, s1⟩ := r
              obtain ⟨b', s1'⟩ := r'
              obtain ⟨hb, hs⟩ := key
              simp only at hb hs
              subst hb
              cases b with
              | true => simp only [exMap, hs]
              | false => exact ih s1 s1' hs

end Gbo
