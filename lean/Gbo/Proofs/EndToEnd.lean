import Gbo.Proofs.ConnectPoints
import Gbo.Proofs.StateOk
import Gbo.Proofs.FillValid
import Gbo.Proofs.SweepProvenance
import Gbo.Proofs.FillQueue
/-
  End to end: every vertex of every ring returned by the sweep path of `boolean_operation` is generated from
  the operands' vertices by computed intersections and one-ulp bumps.
-/
namespace Gbo

theorem mapM_except_mem {ε α β : Type} (f : α → Except ε β) :
    ∀ (l : List α) (ys : List β), l.mapM f = .ok ys → ∀ y, y ∈ ys → ∃ x, x ∈ l ∧ f x = .ok y := by
  intro l
  induction l with
  | nil => intro ys h y hy; simp [List.mapM_nil, pure, Except.pure] at h; subst h; simp at hy
  | cons a l ih =>
    intro ys h y hy
    rw [List.mapM_cons] at h
    cases hfa : f a with
    | error e => simp [hfa, bind, Except.bind] at h
    | ok b =>
      cases hl : l.mapM f with
      | error e => simp [hfa, hl, bind, Except.bind] at h
      | ok bs =>
        simp [hfa, hl, bind, Except.bind, pure, Except.pure] at h
        subst h
        rcases List.mem_cons.mp hy with h1 | h1
        · exact ⟨a, List.mem_cons_self, by rw [hfa, h1]⟩
        · obtain ⟨x, hx, hfx⟩ := ih bs hl y h1
          exact ⟨x, List.mem_cons_of_mem _ hx, hfx⟩

theorem mapM_option_mem {α β : Type} (f : α → Option β) :
    ∀ (l : List α) (ys : List β), l.mapM f = some ys → ∀ y, y ∈ ys → ∃ x, x ∈ l ∧ f x = some y := by
  intro l
  induction l with
  | nil => intro ys h y hy; simp [List.mapM_nil, pure] at h; subst h; simp at hy
  | cons a l ih =>
    intro ys h y hy
    rw [List.mapM_cons] at h
    cases hfa : f a with
    | none => simp [hfa, bind, Option.bind] at h
    | some b =>
      cases hl : l.mapM f with
      | none => simp [hfa, hl, bind, Option.bind] at h
      | some bs =>
        simp [hfa, hl, bind, Option.bind, pure] at h
        subst h
        rcases List.mem_cons.mp hy with h1 | h1
        · exact ⟨a, List.mem_cons_self, by rw [hfa, h1]⟩
        · obtain ⟨x, hx, hfx⟩ := ih bs hl y h1
          exact ⟨x, List.mem_cons_of_mem _ hx, hfx⟩

theorem mem_closeRing (r : Ring) (p : Pt) (h : p ∈ closeRing r) : p ∈ r := by
  unfold closeRing at h
  cases r with
  | nil => simp at h
  | cons q rest =>
    simp only at h
    split at h
    · exact h
    · rcases List.mem_append.mp h with h1 | h1
      · exact h1
      · simp only [List.mem_singleton] at h1
        rw [h1]; exact List.mem_cons_self

/-- the vertices of the operands as `fill_queue` stores them -/
def InputVertex (subject clipping : MPoly) (op : Op) (p : Pt) : Prop :=
  ∃ i, i < (fillQueue subject clipping op).fq.arena.size ∧ (fillQueue subject clipping op).fq.arena[i]!.point = p

/-- on the sweep path every returned ring is `Polygon::new`'s closure of the point list of a contour that
    `connect_edges` returned for the arena and event list `subdivide` returned -/
theorem booleanOperation_rings (ar : Arith) (cfg : Cfg) (subject clipping : MPoly) (op : Op) (out : RunOut)
    (h : booleanOperation ar cfg subject clipping op = .ok out) (hnt : out.trivial = false) :
    ∃ sb cb sw contours a', subdivide ar cfg (fillQueue subject clipping op).fq sb cb op = .ok sw ∧
      connectEdges cfg sw.arena sw.sorted = .ok (contours, a') ∧
      ∀ poly, poly ∈ out.result → ∀ ring, ring ∈ poly.ext :: poly.holes →
        ∃ c, c ∈ contours.toList ∧ ring = closeRing c.points.toList := by
  unfold booleanOperation at h
  simp only at h
  split at h
  · simp only [Except.ok.injEq] at h
    rw [← h] at hnt; simp at hnt
  · split at h
    · rename_i sb cb _ _
      split at h
      · simp at h
      · rename_i sw hsub
        split at h
        · simp at h
        · rename_i contours a' hcon
          refine ⟨sb, cb, sw, contours, a', hsub, hcon, ?_⟩
          split at h
          · simp at h
          · rename_i ps hps
            simp only [Except.ok.injEq] at h
            rw [← h]
            intro poly hpoly ring hring
            obtain ⟨c, hc, hfc⟩ := mapM_except_mem _ _ _ hps poly hpoly
            have hcmem : c ∈ contours.toList := (List.mem_filter.mp hc).1
            split at hfc
            · simp at hfc
            · rename_i holes hholes
              simp only [Except.ok.injEq] at hfc
              rw [← hfc] at hring
              simp only [List.mem_cons] at hring
              rcases hring with hr | hr
              · exact ⟨c, hcmem, hr⟩
              · obtain ⟨hid, _, hfh⟩ := mapM_option_mem _ _ _ hholes ring hr
                split at hfh
                · rename_i hok
                  simp only [Option.some.injEq] at hfh
                  have hlt : hid.toNat < contours.size := by
                    unfold idxOk at hok; simp at hok; exact hok.2
                  have hmem : contours[hid.toNat]! ∈ contours.toList := by
                    have : contours[hid.toNat]! = contours[hid.toNat] := by simp [getElem!_pos, hlt]
                    rw [this]; exact Array.getElem_mem_toList hlt
                  exact ⟨_, hmem, hfh.symm⟩
                · simp at hfh
    · simp only [Except.ok.injEq] at h
      rw [← h] at hnt; simp at hnt

theorem booleanOperation_vertices (ar : Arith) (cfg : Cfg) (subject clipping : MPoly) (op : Op) (out : RunOut)
    (hpaired : Paired (fillQueue subject clipping op).fq.arena)
    (h : booleanOperation ar cfg subject clipping op = .ok out) (hnt : out.trivial = false) :
    ∀ poly, poly ∈ out.result → ∀ ring, ring ∈ poly.ext :: poly.holes → ∀ p, p ∈ ring →
      Gen ar (InputVertex subject clipping op) p := by
  obtain ⟨sb, cb, sw, contours, a', hsub, hcon, hrings⟩ := booleanOperation_rings ar cfg subject clipping op out h hnt
  have hlinks : MutualLinks (fillQueue subject clipping op).fq.arena := mutualLinks_of_paired _ hpaired
  have hgen := subdivide_provenance ar cfg _ sb cb op sw hsub hlinks
  have hvalid := subdivide_sorted_valid ar cfg _ sb cb op sw hsub (fillQueue_valid subject clipping op)
  have hcont := connectEdges_points cfg sw.arena sw.sorted contours a' hcon
  intro poly hpoly ring hring p hp
  obtain ⟨c, hc, hr⟩ := hrings poly hpoly ring hring
  rw [hr] at hp
  obtain ⟨x, hx, hxp⟩ := hcont c hc p (by simpa using mem_closeRing _ p hp)
  rw [← hxp]
  exact hgen x (hvalid x hx)

end Gbo
