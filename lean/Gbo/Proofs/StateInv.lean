import Gbo.Proofs.StateOk
/-
  The induction of `Proofs/StateOk.lean` for an arbitrary property of the sweep state that depends only on the
  size of the arena, the queue and `sorted_events`, and that `divide_segment` preserves.
-/
namespace Gbo

/-- the property looks only at the size of the arena, the queue and `sorted_events` -/
def InvCongr (I : SwSt → Prop) : Prop :=
  ∀ (st st2 : SwSt), st2.arena.size = st.arena.size → st2.heap = st.heap → st2.sorted = st.sorted → I st → I st2

def InvDivide (I : SwSt → Prop) : Prop :=
  ∀ (ar : Arith) (cfg : Cfg) (st st' : SwSt) (idx : Nat) (p : Pt), divideSegment ar cfg st idx p = .ok st' → I st → I st'

theorem possibleIntersection_inv (I : SwSt → Prop) (hc : InvCongr I) (hdiv : InvDivide I) (ar : Arith) (cfg : Cfg)
    (st st' : SwSt) (se1 se2 r : Nat)
    (h : possibleIntersection ar cfg st se1 se2 = .ok (r, st')) (hs : I st) : I st' :=
  possibleIntersection_preserves_state I hdiv
    (fun st _ _ hs => hc st _ (markCoincident_size _ _ _) rfl rfl hs)
    ar cfg st st' se1 se2 r h hs

theorem checkNext_inv (I : SwSt → Prop) (hc : InvCongr I) (hdiv : InvDivide I) (ar : Arith) (cfg : Cfg) (op : Op) (st st' : SwSt) (event : Nat) (prev next : Option Nat)
    (h : checkNext ar cfg op st event prev next = .ok st') (hP : I st) : I st' := by
  unfold checkNext at h
  cases next with
  | none => simp only [pure, Except.pure, Except.ok.injEq] at h; rw [← h]; exact hP
  | some nx =>
    simp only at h
    obtain ⟨x, e1, h⟩ := bind_ok _ _ _ h
    obtain ⟨code, st1⟩ := x
    have x1 : I st1 := possibleIntersection_inv I hc hdiv ar cfg st st1 event nx code e1 hP
    simp only at h
    split at h
    · simp only [pure, Except.pure, Except.ok.injEq] at h
      rw [← h]
      exact hc st1 _ (by simp [computeFields_size]) rfl rfl x1
    · simp only [pure, Except.pure, Except.ok.injEq] at h
      rw [← h]; exact x1

theorem checkPrev_inv (I : SwSt → Prop) (hc : InvCongr I) (hdiv : InvDivide I) (ar : Arith) (cfg : Cfg) (op : Op) (st st' : SwSt) (event : Nat) (prev : Option Nat)
    (h : checkPrev ar cfg op st event prev = .ok st') (hP : I st) : I st' := by
  unfold checkPrev at h
  cases prev with
  | none => simp only [pure, Except.pure, Except.ok.injEq] at h; rw [← h]; exact hP
  | some pv =>
    simp only at h
    obtain ⟨x, e1, h⟩ := bind_ok _ _ _ h
    obtain ⟨code, st1⟩ := x
    have x1 : I st1 := possibleIntersection_inv I hc hdiv ar cfg st st1 pv event code e1 hP
    simp only at h
    split at h
    · simp only [pure, Except.pure, Except.ok.injEq] at h
      rw [← h]
      exact hc st1 _ (by simp [computeFields_size]) rfl rfl x1
    · simp only [pure, Except.pure, Except.ok.injEq] at h
      rw [← h]; exact x1

theorem checkRemoval_inv (I : SwSt → Prop) (hc : InvCongr I) (hdiv : InvDivide I) (ar : Arith) (cfg : Cfg) (st st' : SwSt) (prev next : Option (Nat × Unit))
    (h : checkRemoval ar cfg st prev next = .ok st') (hP : I st) : I st' := by
  unfold checkRemoval at h
  split at h
  · obtain ⟨x, e1, h⟩ := bind_ok _ _ _ h
    obtain ⟨code, st1⟩ := x
    simp only [pure, Except.pure, Except.ok.injEq] at h
    rw [← h]; exact possibleIntersection_inv I hc hdiv ar cfg st st1 _ _ code e1 hP
  · simp only [pure, Except.pure, Except.ok.injEq] at h
    rw [← h]; exact hP

/-- one iteration, given the invariant for the state with the popped event recorded in `sorted_events` -/
theorem sweepStep_inv (I : SwSt → Prop) (hc : InvCongr I) (hdiv : InvDivide I) (ar : Arith) (cfg : Cfg) (op : Op) (rightbound sbMaxX : Rat) (st st' : SwSt) (event : Nat)
    (b : Bool) (h : sweepStep ar cfg op rightbound sbMaxX st event = .ok (b, st'))
    (h0 : I { st with sorted := st.sorted.push event }) : I st' := by
  unfold sweepStep at h
  simp only at h
  split at h
  · simp only [pure, Except.pure, Except.ok.injEq, Prod.mk.injEq] at h
    rw [← h.2]; exact h0
  · split at h
    · split at h
      · simp [throw, throwThe, MonadExceptOf.throw, bind, Except.bind] at h
      · obtain ⟨st1, e1, h⟩ := bind_ok _ _ _ h
        have x1 : I st1 := checkNext_inv I hc hdiv ar cfg op _ st1 event _ _ e1
          (hc { st with sorted := st.sorted.push event } _ (by simp [computeFields_size]) rfl rfl h0)
        obtain ⟨st2, e2, h⟩ := bind_ok _ _ _ h
        have x2 : I st2 := checkPrev_inv I hc hdiv ar cfg op st1 st2 event _ e2 x1
        simp only [pure, Except.pure, Except.ok.injEq, Prod.mk.injEq] at h
        rw [← h.2]; exact x2
    · split at h
      · simp only [pure, Except.pure, Except.ok.injEq, Prod.mk.injEq] at h
        rw [← h.2]; exact h0
      · rename_i other _
        by_cases hd : cfg.dbg = true
        · simp only [hd, if_true, Bool.true_and] at h
          split at h
          · simp [throw, throwThe, MonadExceptOf.throw, bind, Except.bind] at h
          · split at h
            · simp only [pure, Except.pure, Except.ok.injEq, Prod.mk.injEq] at h
              rw [← h.2]; exact hc ({ st with sorted := st.sorted.push event }) _ rfl rfl rfl h0
            · obtain ⟨st1, e1, h⟩ := bind_ok _ _ _ h
              have x1 : I st1 := checkRemoval_inv I hc hdiv ar cfg _ st1 _ _ e1 (hc ({ st with sorted := st.sorted.push event }) _ rfl rfl rfl h0)
              simp only [pure, Except.pure, Except.ok.injEq, Prod.mk.injEq] at h
              rw [← h.2]; exact hc st1 _ rfl rfl rfl x1
        · have hd' : cfg.dbg = false := by simpa using hd
          simp only [hd', Bool.false_eq_true, if_false, Bool.false_and] at h
          split at h
          · simp only [pure, Except.pure, Except.ok.injEq, Prod.mk.injEq] at h
            rw [← h.2]; exact hc ({ st with sorted := st.sorted.push event }) _ rfl rfl rfl h0
          · obtain ⟨st1, e1, h⟩ := bind_ok _ _ _ h
            have x1 : I st1 := checkRemoval_inv I hc hdiv ar cfg _ st1 _ _ e1 (hc ({ st with sorted := st.sorted.push event }) _ rfl rfl rfl h0)
            simp only [pure, Except.pure, Except.ok.injEq, Prod.mk.injEq] at h
            rw [← h.2]; exact hc st1 _ rfl rfl rfl x1


end Gbo
