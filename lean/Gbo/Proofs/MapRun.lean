import Gbo.Proofs.ScaleIsect
import Gbo.Model.Connect
/-
  Equivariance of the complete run under a map of the plane that preserves the coordinate order and the
  orientation sign and that the arithmetic commutes with (for scaling by c > 0: `ScalesExactly ar c`).
  The queue and the sweep line hold indices and compare them through the arena, so once the two orders are
  shown invariant, every index-level computation of the mapped run is *equal* to the one of the original run
  and only the points stored in the arena differ.
-/
namespace Gbo

def mapIsect (f : Pt → Pt) : Isect → Isect
  | .none => .none
  | .point p => .point (f p)
  | .overlap p q => .overlap (f p) (f q)
  | .nonfinite => .nonfinite

/-- what the run needs of the map `f` and the arithmetic `ar` -/
structure RunMap (ar : Arith) (f : Pt → Pt) (gx gy : Rat → Rat) : Prop where
  /-- `f` acts on each coordinate separately -/
  sep : ∀ p : Pt, f p = { x := gx p.x, y := gy p.y }
  op : OrderPreserving f
  inj : ∀ p q, f p = f q ↔ p = q
  zero : f default = default
  isect : ∀ a1 a2 b1 b2, ar.isect (f a1) (f a2) (f b1) (f b2) = mapIsect f (ar.isect a1 a2 b1 b2)
  bump : ∀ p : Pt, f { p with x := ar.nextUp p.x } = { f p with x := ar.nextUp (f p).x }

variable {ar : Arith} {f : Pt → Pt} {gx gy : Rat → Rat}

theorem RunMap.xeq (h : RunMap ar f gx gy) (p q : Pt) : (f p).x = (f q).x ↔ p.x = q.x := by
  have h1 := h.op.xlt p q
  have h2 := h.op.xlt q p
  constructor
  · intro e
    rcases lt_trichotomy p.x q.x with l | l | l
    · have := h1.mpr l; rw [e] at this; exact absurd this (lt_irrefl _)
    · exact l
    · have := h2.mpr l; rw [e] at this; exact absurd this (lt_irrefl _)
  · intro e
    rcases lt_trichotomy (f p).x (f q).x with l | l | l
    · have := h1.mp l; rw [e] at this; exact absurd this (lt_irrefl _)
    · exact l
    · have := h2.mp l; rw [e] at this; exact absurd this (lt_irrefl _)

theorem RunMap.yeq (h : RunMap ar f gx gy) (p q : Pt) : (f p).y = (f q).y ↔ p.y = q.y := by
  have h1 := h.op.ylt p q
  have h2 := h.op.ylt q p
  constructor
  · intro e
    rcases lt_trichotomy p.y q.y with l | l | l
    · have := h1.mpr l; rw [e] at this; exact absurd this (lt_irrefl _)
    · exact l
    · have := h2.mpr l; rw [e] at this; exact absurd this (lt_irrefl _)
  · intro e
    rcases lt_trichotomy (f p).y (f q).y with l | l | l
    · have := h1.mp l; rw [e] at this; exact absurd this (lt_irrefl _)
    · exact l
    · have := h2.mp l; rw [e] at this; exact absurd this (lt_irrefl _)

/-- the arena with every event moved by `f` -/
def mapArena (f : Pt → Pt) (a : Arena) : Arena := a.map (fun e => { e with point := f e.point })

theorem mapArena_size (a : Arena) : (mapArena f a).size = a.size := by simp [mapArena]

theorem mapArena_get (h : RunMap ar f gx gy) (a : Arena) (i : Nat) :
    (mapArena f a)[i]! = { a[i]! with point := f a[i]!.point } := by
  unfold mapArena
  by_cases hi : i < a.size
  · simp [getElem!_pos, hi]
  · simp only [getElem!_neg, hi, not_false_eq_true, Array.size_map]
    have : (default : Ev).point = default := rfl
    show (default : Ev) = { (default : Ev) with point := f (default : Ev).point }
    rw [this, h.zero]
    rfl

theorem mapArena_view (h : RunMap ar f gx gy) (a : Arena) (i : Nat) : (mapArena f a).view i = mapView f (a.view i) := by
  unfold Arena.view mapView
  simp only [mapArena_get h]
  congr 1
  cases a[i]!.other <;> simp

theorem cmpEv_map (h : RunMap ar f gx gy) (a : Arena) (i j : Nat) : cmpEv (mapArena f a) i j = cmpEv a i j := by
  unfold cmpEv
  rw [mapArena_view h, mapArena_view h]
  exact cmpView_map f h.op _ _

theorem evLe_map (h : RunMap ar f gx gy) (a : Arena) : evLe (mapArena f a) = evLe a := by
  funext i j; unfold evLe; rw [cmpEv_map h]

theorem isBefore_map (h : RunMap ar f gx gy) (a : Arena) (i j : Nat) : isBefore (mapArena f a) i j = isBefore a i j := by
  unfold isBefore; rw [cmpEv_map h]

/-! ### the segment order -/

def mapSeg (f : Pt → Pt) (s : SegView) : SegView :=
  { id := s.id, l := mapView f s.l, r := s.r.map (mapView f), contourId := s.contourId }

theorem mapArena_segView (h : RunMap ar f gx gy) (a : Arena) (i : Nat) :
    (mapArena f a).segView i = mapSeg f (a.segView i) := by
  unfold Arena.segView mapSeg
  simp only [mapArena_view h, mapArena_get h]
  congr 1
  cases a[i]!.other <;> simp

theorem isBelow_map (h : RunMap ar f gx gy) (e : EvView) (p : Pt) : (mapView f e).isBelow (f p) = e.isBelow p := by
  obtain ⟨pt, l, o, s⟩ := e
  unfold EvView.isBelow mapView
  cases o with
  | none => rfl
  | some o =>
    simp only [Option.map_some]
    cases l
    · simp only [Bool.false_eq_true, if_false]
      have : decide (orient (f o) (f pt) (f p) > 0) = decide (orient o pt p > 0) := by simp only [h.op.opos]
      exact this
    · simp only [if_true]
      have : decide (orient (f pt) (f o) (f p) > 0) = decide (orient pt o p > 0) := by simp only [h.op.opos]
      exact this

theorem isVertical_map (h : RunMap ar f gx gy) (e : EvView) : (mapView f e).isVertical = e.isVertical := by
  obtain ⟨pt, l, o, s⟩ := e
  unfold EvView.isVertical mapView
  cases o with
  | none => rfl
  | some o =>
    simp only [Option.map_some]
    have : decide ((f pt).x = (f o).x) = decide (pt.x = o.x) := by simp only [h.xeq]
    exact this

theorem compareSegCore_map (h : RunMap ar f gx gy) (dbg : Bool) (li : Bool → Ordering) (old new : SegView) :
    compareSegCore ar dbg li (mapSeg f old) (mapSeg f new) = compareSegCore ar dbg li old new := by
  obtain ⟨oid, ol, or_, oc⟩ := old
  obtain ⟨nid, nl, nr, nc⟩ := new
  unfold compareSegCore mapSeg
  cases or_ with
  | none => rfl
  | some oldR =>
    cases nr with
    | none => rfl
    | some newR =>
      simp only [Option.map_some]
      have hpt : ∀ e : EvView, (mapView f e).point = f e.point := fun _ => rfl
      have hsub : ∀ e : EvView, (mapView f e).isSubject = e.isSubject := fun _ => rfl
      simp only [hpt, hsub, h.inj, h.xeq, h.op.ylt, isBelow_map h, h.isect]
      have z1 : ∀ a b c : Pt, (orient (f a) (f b) (f c) ≠ 0) ↔ (orient a b c ≠ 0) := fun a b c => not_congr (h.op.ozero a b c)
      have p1 : ∀ a b c : Pt, decide (orient (f a) (f b) (f c) > 0) = decide (orient a b c > 0) := fun a b c => by
        simp only [h.op.opos]
      simp only [z1, p1, h.op.ozero]
      cases ar.isect ol.point oldR.point nl.point newR.point with
      | none => rfl
      | nonfinite => rfl
      | overlap _ _ => rfl
      | point q => simp only [mapIsect, h.inj]

theorem compareSegView_map (h : RunMap ar f gx gy) (dbg : Bool) (s1 s2 : SegView) :
    compareSegView ar dbg (mapSeg f s1) (mapSeg f s2) = compareSegView ar dbg s1 s2 := by
  unfold compareSegView
  rw [compareSegCore_map h, compareSegCore_map h]
  have e1 : (mapSeg f s1).l = mapView f s1.l := rfl
  have e2 : (mapSeg f s2).l = mapView f s2.l := rfl
  rw [e1, e2, cmpView_map f h.op]
  have l1 : (mapView f s1.l).left = s1.l.left := rfl
  have l2 : (mapView f s2.l).left = s2.l.left := rfl
  have r1 : (mapSeg f s1).r.isNone = s1.r.isNone := by unfold mapSeg; cases s1.r <;> rfl
  have r2 : (mapSeg f s2).r.isNone = s2.r.isNone := by unfold mapSeg; cases s2.r <;> rfl
  have i1 : (mapSeg f s1).id = s1.id := rfl
  have i2 : (mapSeg f s2).id = s2.id := rfl
  rw [l1, l2, r1, r2, i1, i2]

/-- **the segment order is unchanged** (as a function on indices) -/
theorem segCmp_map (h : RunMap ar f gx gy) (dbg : Bool) (a : Arena) : segCmp ar dbg (mapArena f a) = segCmp ar dbg a := by
  funext i j
  unfold segCmp
  rw [mapArena_segView h, mapArena_segView h, compareSegView_map h]

theorem keyOk_map (h : RunMap ar f gx gy) (a : Arena) (i : Nat) : keyOk (mapArena f a) i = keyOk a i := by
  unfold keyOk; rw [mapArena_get h]

/-! ### coordinates and boxes -/

theorem RunMap.gx_lt (h : RunMap ar f gx gy) (a b : Rat) : gx a < gx b ↔ a < b := by
  have := h.op.xlt { x := a, y := 0 } { x := b, y := 0 }
  simpa [h.sep] using this

theorem RunMap.gy_lt (h : RunMap ar f gx gy) (a b : Rat) : gy a < gy b ↔ a < b := by
  have := h.op.ylt { x := 0, y := a } { x := 0, y := b }
  simpa [h.sep] using this

theorem RunMap.gx_le (h : RunMap ar f gx gy) (a b : Rat) : gx a ≤ gx b ↔ a ≤ b := by
  rw [← not_lt, ← not_lt, h.gx_lt]

theorem RunMap.gy_le (h : RunMap ar f gx gy) (a b : Rat) : gy a ≤ gy b ↔ a ≤ b := by
  rw [← not_lt, ← not_lt, h.gy_lt]

theorem RunMap.rmin_x (h : RunMap ar f gx gy) (a b : Rat) : rmin (gx a) (gx b) = gx (rmin a b) := by
  unfold rmin; simp only [h.gx_le]; split <;> rfl
theorem RunMap.rmax_x (h : RunMap ar f gx gy) (a b : Rat) : rmax (gx a) (gx b) = gx (rmax a b) := by
  unfold rmax; simp only [h.gx_le]; split <;> rfl
theorem RunMap.rmin_y (h : RunMap ar f gx gy) (a b : Rat) : rmin (gy a) (gy b) = gy (rmin a b) := by
  unfold rmin; simp only [h.gy_le]; split <;> rfl
theorem RunMap.rmax_y (h : RunMap ar f gx gy) (a b : Rat) : rmax (gy a) (gy b) = gy (rmax a b) := by
  unfold rmax; simp only [h.gy_le]; split <;> rfl

def mapBB (gx gy : Rat → Rat) (b : BBox) : BBox :=
  { minx := gx b.minx, miny := gy b.miny, maxx := gx b.maxx, maxy := gy b.maxy }

theorem bboxAdd_map (h : RunMap ar f gx gy) (b : Option BBox) (p : Pt) :
    bboxAdd (b.map (mapBB gx gy)) (f p) = (bboxAdd b p).map (mapBB gx gy) := by
  cases b with
  | none => simp [bboxAdd, mapBB, h.sep]
  | some b =>
    simp only [bboxAdd, Option.map_some, mapBB, h.sep, h.rmin_x, h.rmax_x, h.rmin_y, h.rmax_y]

/-! ### fill_queue -/

def mapEv (f : Pt → Pt) (e : Ev) : Ev := { e with point := f e.point }
def mapFQ (f : Pt → Pt) (q : FQ) : FQ := { arena := mapArena f q.arena, heap := q.heap }
def mapSt (f : Pt → Pt) (gx gy : Rat → Rat) (st : FQ × Option BBox) : FQ × Option BBox :=
  (mapFQ f st.1, st.2.map (mapBB gx gy))
def mapPoly (f : Pt → Pt) (p : Poly) : Poly := { ext := p.ext.map f, holes := p.holes.map (List.map f) }

theorem mapArena_push (a : Arena) (e : Ev) : mapArena f (a.push e) = (mapArena f a).push (mapEv f e) := by
  unfold mapArena mapEv; simp

theorem mkPair_map (h : RunMap ar f gx gy) (n : Nat) (s e : Pt) (subj : Bool) (cid : Nat) (ext : Bool) :
    mkPair n (f s) (f e) subj cid ext = (mapEv f (mkPair n s e subj cid ext).1, mapEv f (mkPair n s e subj cid ext).2) := by
  unfold mkPair mapEv
  simp only
  have := cmpView_map f h.op { point := s, left := false, otherPt := some e, isSubject := subj }
    { point := e, left := false, otherPt := some s, isSubject := subj }
  unfold mapView at this
  simp only [Option.map_some] at this
  rw [this]

theorem processLine_map (h : RunMap ar f gx gy) (subj : Bool) (cid : Nat) (ext : Bool) (st : FQ × Option BBox) (s e : Pt) :
    processLine subj cid ext (mapSt f gx gy st) (f s) (f e) = mapSt f gx gy (processLine subj cid ext st s e) := by
  unfold processLine
  by_cases hse : s = e
  · simp [hse]
  · have hse' : ¬ f s = f e := fun hh => hse ((h.inj s e).mp hh)
    simp only [hse, hse', if_false]
    obtain ⟨fq, bb⟩ := st
    simp only [mapSt, mapFQ, mapArena_size, mkPair_map h, bboxAdd_map h, ← mapArena_push, evLe_map h]

theorem processRing_map (h : RunMap ar f gx gy) (subj : Bool) (cid : Nat) (ext : Bool) (ring : Ring) :
    ∀ st : FQ × Option BBox,
      processRing subj cid ext (mapSt f gx gy st) (ring.map f) = mapSt f gx gy (processRing subj cid ext st ring) := by
  induction ring with
  | nil => intro st; simp [processRing]
  | cons p rest ih =>
    cases rest with
    | nil => intro st; simp [processRing]
    | cons q rest =>
      intro st
      simp only [List.map_cons, processRing]
      rw [processLine_map h]
      exact ih _

theorem processPolygon_map (h : RunMap ar f gx gy) (subj : Bool) (cid : Nat) (ext : Bool) (st : FQ × Option BBox) (p : Poly) :
    processPolygon subj cid ext (mapSt f gx gy st) (mapPoly f p) = mapSt f gx gy (processPolygon subj cid ext st p) := by
  unfold processPolygon mapPoly
  simp only
  rw [processRing_map h]
  generalize processRing subj cid ext st p.ext = st1
  induction p.holes generalizing st1 with
  | nil => rfl
  | cons r rs ih =>
    simp only [List.map_cons, List.foldl_cons]
    rw [processRing_map h]
    exact ih _

def mapAcc (f : Pt → Pt) (gx gy : Rat → Rat) (acc : Nat × FQ × Option BBox) : Nat × FQ × Option BBox :=
  (acc.1, mapFQ f acc.2.1, acc.2.2.map (mapBB gx gy))

theorem subjStep_map (h : RunMap ar f gx gy) (acc : Nat × FQ × Option BBox) (p : Poly) :
    subjStep (mapAcc f gx gy acc) (mapPoly f p) = mapAcc f gx gy (subjStep acc p) := by
  unfold subjStep mapAcc
  simp only
  have := processPolygon_map h true (acc.1 + 1) true (acc.2.1, acc.2.2) p
  unfold mapSt at this
  simp only at this
  rw [this]

theorem clipStep_map (h : RunMap ar f gx gy) (op : Op) (acc : Nat × FQ × Option BBox) (p : Poly) :
    clipStep op (mapAcc f gx gy acc) (mapPoly f p) = mapAcc f gx gy (clipStep op acc p) := by
  unfold clipStep mapAcc
  simp only
  have := processPolygon_map h false (if (op != .difference) = true then acc.1 + 1 else acc.1) (op != .difference) (acc.2.1, acc.2.2) p
  unfold mapSt at this
  simp only at this
  rw [this]

def mapFill (f : Pt → Pt) (gx gy : Rat → Rat) (o : FillOut) : FillOut :=
  { fq := mapFQ f o.fq, sbbox := o.sbbox.map (mapBB gx gy), cbbox := o.cbbox.map (mapBB gx gy) }

/-- **`fill_queue` of the mapped operands is the mapped `fill_queue`**: same indices, same queue, same
    pairing and flags; points and boxes mapped -/
theorem fillQueue_map (h : RunMap ar f gx gy) (subject clipping : MPoly) (op : Op) :
    fillQueue (subject.map (mapPoly f)) (clipping.map (mapPoly f)) op = mapFill f gx gy (fillQueue subject clipping op) := by
  unfold fillQueue
  have hs : ∀ (ps : List Poly) (acc : Nat × FQ × Option BBox),
      (ps.map (mapPoly f)).foldl subjStep (mapAcc f gx gy acc) = mapAcc f gx gy (ps.foldl subjStep acc) := by
    intro ps
    induction ps with
    | nil => intro acc; rfl
    | cons p ps ih => intro acc; simp only [List.map_cons, List.foldl_cons]; rw [subjStep_map h]; exact ih _
  have hcl : ∀ (ps : List Poly) (acc : Nat × FQ × Option BBox),
      (ps.map (mapPoly f)).foldl (clipStep op) (mapAcc f gx gy acc) = mapAcc f gx gy (ps.foldl (clipStep op) acc) := by
    intro ps
    induction ps with
    | nil => intro acc; rfl
    | cons p ps ih => intro acc; simp only [List.map_cons, List.foldl_cons]; rw [clipStep_map h]; exact ih _
  have h0 : ((0, {}, none) : Nat × FQ × Option BBox) = mapAcc f gx gy (0, {}, none) := by
    simp [mapAcc, mapFQ, mapArena]
  rw [h0, hs]
  simp only
  have h1 : ∀ r1 : Nat × FQ × Option BBox,
      (((mapAcc f gx gy r1).1, (mapAcc f gx gy r1).2.1, none) : Nat × FQ × Option BBox) = mapAcc f gx gy (r1.1, r1.2.1, none) := by
    intro r1; simp [mapAcc]
  rw [h1, hcl]
  have hq : mapFQ f ({} : FQ) = ({} : FQ) := by simp [mapFQ, mapArena]
  simp [mapFill, mapAcc, hq]

/-! ### divide_segment -/

def mapSw (f : Pt → Pt) (st : SwSt) : SwSt := { st with arena := mapArena f st.arena }

def exMap {α β : Type} (g : α → β) : Except Fail α → Except Fail β
  | .ok x => .ok (g x)
  | .error e => .error e

theorem mapArena_modify (a : Arena) (i : Nat) (g : Ev → Ev) (hg : ∀ e, mapEv f (g e) = g (mapEv f e)) :
    mapArena f (a.modify i g) = (mapArena f a).modify i g := by
  apply Array.ext
  · simp [mapArena]
  · intro j h1 h2
    simp only [mapArena, Array.getElem_map, Array.getElem_modify]
    split
    · exact hg _
    · rfl

theorem mapArena_modify_left (a : Arena) (i : Nat) (l : Bool) :
    mapArena f (a.modify i (fun ev => { ev with left := l })) = (mapArena f a).modify i (fun ev => { ev with left := l }) :=
  mapArena_modify a i _ (fun _ => rfl)

theorem mapArena_modify_other (a : Arena) (i : Nat) (o : Option Nat) :
    mapArena f (a.modify i (fun ev => { ev with other := o })) = (mapArena f a).modify i (fun ev => { ev with other := o }) :=
  mapArena_modify a i _ (fun _ => rfl)

theorem mapArena_modify_edgeType (a : Arena) (i : Nat) (t : EdgeType) :
    mapArena f (a.modify i (fun ev => { ev with edgeType := t })) = (mapArena f a).modify i (fun ev => { ev with edgeType := t }) :=
  mapArena_modify a i _ (fun _ => rfl)

theorem mapArena_get' (h : RunMap ar f gx gy) (a : Arena) (i : Nat) : (mapArena f a)[i]! = mapEv f a[i]! :=
  mapArena_get h a i

theorem dividePush_map (h : RunMap ar f gx gy) (a : Arena) (seL seR : Nat) (p : Pt) :
    dividePush (mapArena f a) seL seR (f p) = mapArena f (dividePush a seL seR p) := by
  unfold dividePush
  simp only [mapArena_push, mapArena_get' h, mapEv]

theorem divideArena_map (h : RunMap ar f gx gy) (a : Arena) (seL seR : Nat) (p : Pt) :
    divideArena (mapArena f a) seL seR (f p) = mapArena f (divideArena a seL seR p) := by
  unfold divideArena
  simp only [mapArena_size, dividePush_map h, isBefore_map h]
  split
  · simp only [mapArena_modify_left, mapArena_modify_other]
  · simp only [mapArena_modify_other]

theorem divideSegment_map (h : RunMap ar f gx gy) (cfg : Cfg) (st : SwSt) (seL : Nat) (p : Pt) :
    divideSegment ar cfg (mapSw f st) seL (f p) = exMap (mapSw f) (divideSegment ar cfg st seL p) := by
  unfold divideSegment
  simp only [mapSw, mapArena_get' h, mapArena_size]
  have hl : (mapEv f st.arena[seL]!).left = st.arena[seL]!.left := rfl
  have ho : (mapEv f st.arena[seL]!).other = st.arena[seL]!.other := rfl
  have hp : (mapEv f st.arena[seL]!).point = f st.arena[seL]!.point := rfl
  rw [hl, ho, hp]
  by_cases h1 : (cfg.dbg && !st.arena[seL]!.left) = true
  · simp [h1, exMap, throw, throwThe, MonadExceptOf.throw, bind, Except.bind]
  · simp only [h1, Bool.false_eq_true, if_false]
    cases st.arena[seL]!.other with
    | none => simp [exMap, pure, Except.pure, mapSw]
    | some seR =>
      simp only [h.xeq, h.op.ylt]
      by_cases hb : p.x = st.arena[seL]!.point.x ∧ p.y < st.arena[seL]!.point.y
      · simp only [if_pos hb]
        rw [← h.bump, dividePush_map h, isBefore_map h, divideArena_map h, evLe_map h]
        split
        · simp [exMap, throw, throwThe, MonadExceptOf.throw, bind, Except.bind]
        · simp [exMap, pure, Except.pure, mapSw]
      · simp only [if_neg hb]
        rw [dividePush_map h, isBefore_map h, divideArena_map h, evLe_map h]
        split
        · simp [exMap, throw, throwThe, MonadExceptOf.throw, bind, Except.bind]
        · simp [exMap, pure, Except.pure, mapSw]

/-! ### possible_intersection -/

theorem bind_exMap {α β α' β' : Type} (g : α → α') (g' : β → β') (x : Except Fail α) (k : α → Except Fail β)
    (k' : α' → Except Fail β') (hk : ∀ a, k' (g a) = exMap g' (k a)) :
    (exMap g x >>= k') = exMap g' (x >>= k) := by
  cases x with
  | error e => rfl
  | ok a => exact hk a

theorem overlapEvents_map (h : RunMap ar f gx gy) (a : Arena) (se1 o1 se2 o2 : Nat) :
    overlapEvents (mapArena f a) se1 o1 se2 o2 = overlapEvents a se1 o1 se2 o2 := by
  unfold overlapEvents
  simp only [mapArena_get' h, cmpEv_map h]
  have hp : ∀ e : Ev, (mapEv f e).point = f e.point := fun _ => rfl
  simp only [hp, h.inj]

theorem markCoincident_map (h : RunMap ar f gx gy) (a : Arena) (se1 se2 : Nat) :
    markCoincident (mapArena f a) se1 se2 = mapArena f (markCoincident a se1 se2) := by
  unfold markCoincident
  simp only
  have e : (mapArena f a).modify se2 (fun ev => { ev with edgeType := .nonContributing }) =
      mapArena f (a.modify se2 (fun ev => { ev with edgeType := .nonContributing })) :=
    (mapArena_modify_edgeType a se2 _).symm
  rw [e, mapArena_get' h, mapArena_get' h]
  exact (mapArena_modify_edgeType _ _ _).symm

def mapRes (f : Pt → Pt) (r : Nat × SwSt) : Nat × SwSt := (r.1, mapSw f r.2)

theorem mapSw_arena (st : SwSt) : (mapSw f st).arena = mapArena f st.arena := rfl

theorem exMap_pure {α β : Type} (g : α → β) (x : α) : exMap g (pure x : Except Fail α) = pure (g x) := rfl

theorem overlapBranch_map (h : RunMap ar f gx gy) (cfg : Cfg) (st : SwSt) (se1 o1 se2 o2 : Nat) :
    overlapBranch ar cfg (mapSw f st) se1 o1 se2 o2 = exMap (mapRes f) (overlapBranch ar cfg st se1 o1 se2 o2) := by
  have hpt : ∀ e : Ev, (mapEv f e).point = f e.point := fun _ => rfl
  have hsub : ∀ e : Ev, (mapEv f e).isSubject = e.isSubject := fun _ => rfl
  have hoth : ∀ e : Ev, (mapEv f e).other = e.other := fun _ => rfl
  unfold overlapBranch
  simp only [mapSw_arena, overlapEvents_map h, mapArena_get' h, hpt, hsub, h.inj]
  split
  · rfl
  · split
    · -- left endpoints coincide
      rw [markCoincident_map h, mapArena_get' h]
      simp only [hpt]
      have key := divideSegment_map h cfg ({ st with arena := markCoincident st.arena se1 se2 })
        ((overlapEvents st.arena se1 o1 se2 o2)[1]!.2)
        ((markCoincident st.arena se1 se2)[(overlapEvents st.arena se1 o1 se2 o2)[0]!.1]!.point)
      split
      · change (divideSegment ar cfg (mapSw f { st with arena := markCoincident st.arena se1 se2 }) _ _ >>= _) = _
        rw [key]
        cases divideSegment ar cfg { st with arena := markCoincident st.arena se1 se2 } _ _ <;> rfl
      · rfl
    · split
      · rw [divideSegment_map h]
        cases divideSegment ar cfg st _ _ <;> rfl
      · split
        · rw [divideSegment_map h]
          cases hd1 : divideSegment ar cfg st _ _ with
          | error e => rfl
          | ok st1 =>
            simp only [exMap, bind, Except.bind]
            rw [divideSegment_map h]
            cases divideSegment ar cfg st1 _ _ <;> rfl
        · rw [divideSegment_map h]
          cases hd1 : divideSegment ar cfg st _ _ with
          | error e => rfl
          | ok st1 =>
            simp only [exMap, bind, Except.bind, mapSw_arena, mapArena_get' h, hoth]
            cases st1.arena[(overlapEvents st.arena se1 o1 se2 o2)[3]!.1]!.other with
            | none => rfl
            | some o =>
              simp only
              rw [divideSegment_map h]
              cases divideSegment ar cfg st1 _ _ <;> rfl

/-- **`possible_intersection` on the mapped state is the mapped `possible_intersection`**: same return code,
    same queue, the new events at the mapped points -/
theorem possibleIntersection_map (h : RunMap ar f gx gy) (cfg : Cfg) (st : SwSt) (se1 se2 : Nat) :
    possibleIntersection ar cfg (mapSw f st) se1 se2 = exMap (mapRes f) (possibleIntersection ar cfg st se1 se2) := by
  have hpt : ∀ e : Ev, (mapEv f e).point = f e.point := fun _ => rfl
  have hoth : ∀ e : Ev, (mapEv f e).other = e.other := fun _ => rfl
  unfold possibleIntersection
  simp only [mapSw_arena, mapArena_get' h, hpt, hoth, h.isect]
  cases st.arena[se1]!.other with
  | none => rfl
  | some o1 =>
    cases st.arena[se2]!.other with
    | none => rfl
    | some o2 =>
      simp only
      cases hi : ar.isect st.arena[se1]!.point st.arena[o1]!.point st.arena[se2]!.point st.arena[o2]!.point with
      | nonfinite => rfl
      | none => rfl
      | overlap p q => simp only [mapIsect]; exact overlapBranch_map h cfg st se1 o1 se2 o2
      | point inter =>
        simp only [mapIsect, h.inj]
        split
        · rfl
        · simp only [ne_eq, h.inj]
          split
          · rw [divideSegment_map h]
            cases hd1 : divideSegment ar cfg st se1 inter with
            | error e => rfl
            | ok st1 =>
              simp only [exMap, bind, Except.bind]
              split
              · rw [divideSegment_map h]
                cases divideSegment ar cfg st1 se2 inter <;> rfl
              · rfl
          · simp only [pure, Except.pure, bind, Except.bind]
            split
            · rw [divideSegment_map h]
              cases divideSegment ar cfg st se2 inter <;> rfl
            · rfl

/-! ### compute_fields and the neighbour checks -/

theorem computeFields_map (h : RunMap ar f gx gy) (a : Arena) (event : Nat) (prev : Option Nat) (op : Op) :
    computeFields (mapArena f a) event prev op = mapArena f (computeFields a event prev op) := by
  unfold computeFields
  simp only [mapArena_get' h, mapArena_view h, isVertical_map h]
  have e1 : ∀ e : Ev, (mapEv f e).isSubject = e.isSubject := fun _ => rfl
  have e2 : ∀ e : Ev, (mapEv f e).inOut = e.inOut := fun _ => rfl
  have e3 : ∀ e : Ev, (mapEv f e).otherInOut = e.otherInOut := fun _ => rfl
  have e4 : ∀ e : Ev, (mapEv f e).resTrans = e.resTrans := fun _ => rfl
  have e5 : ∀ e : Ev, (mapEv f e).prevInResult = e.prevInResult := fun _ => rfl
  have e6 : ∀ e : Ev, (mapEv f e).edgeType = e.edgeType := fun _ => rfl
  simp only [e1, e2, e3, e4, e5, e6]
  apply Eq.symm
  apply mapArena_modify
  intro e
  rfl

theorem checkNext_map (h : RunMap ar f gx gy) (cfg : Cfg) (op : Op) (st : SwSt) (event : Nat) (prev next : Option Nat) :
    checkNext ar cfg op (mapSw f st) event prev next = exMap (mapSw f) (checkNext ar cfg op st event prev next) := by
  unfold checkNext
  cases next with
  | none => rfl
  | some nx =>
    simp only
    rw [possibleIntersection_map h]
    cases possibleIntersection ar cfg st event nx with
    | error e => rfl
    | ok r =>
      obtain ⟨code, st1⟩ := r
      simp only [exMap, mapRes, bind, Except.bind]
      split
      · simp only [mapSw_arena, computeFields_map h]
        rfl
      · rfl

theorem checkRemoval_map (h : RunMap ar f gx gy) (cfg : Cfg) (st : SwSt) (prev next : Option (Nat × Unit)) :
    checkRemoval ar cfg (mapSw f st) prev next = exMap (mapSw f) (checkRemoval ar cfg st prev next) := by
  unfold checkRemoval
  split
  · rw [possibleIntersection_map h]
    cases possibleIntersection ar cfg st _ _ with
    | error e => rfl
    | ok r => rfl
  · rfl

theorem checkPrev_map (h : RunMap ar f gx gy) (cfg : Cfg) (op : Op) (st : SwSt) (event : Nat) (prev : Option Nat) :
    checkPrev ar cfg op (mapSw f st) event prev = exMap (mapSw f) (checkPrev ar cfg op st event prev) := by
  unfold checkPrev
  cases prev with
  | none => rfl
  | some pv =>
    simp only
    rw [possibleIntersection_map h]
    cases possibleIntersection ar cfg st pv event with
    | error e => rfl
    | ok r =>
      obtain ⟨code, st1⟩ := r
      simp only [exMap, mapRes, bind, Except.bind]
      split
      · simp only [mapSw_arena, segCmp_map h, computeFields_map h]
        rfl
      · rfl

/-- the comparison with the right bounds -/
theorem sweepStep_map (h : RunMap ar f gx gy) (cfg : Cfg) (op : Op) (rb sx : Rat) (st : SwSt) (event : Nat) :
    sweepStep ar cfg op (gx rb) (gx sx) (mapSw f st) event =
      exMap (fun r : Bool × SwSt => (r.1, mapSw f r.2)) (sweepStep ar cfg op rb sx st event) := by
  have hpt : ∀ e : Ev, (mapEv f e).point = f e.point := fun _ => rfl
  have hl : ∀ e : Ev, (mapEv f e).left = e.left := fun _ => rfl
  have ho : ∀ e : Ev, (mapEv f e).other = e.other := fun _ => rfl
  have hx : ∀ (p : Pt) (b : Rat), ((f p).x > gx b) ↔ (p.x > b) := by
    intro p b; rw [h.sep]; exact h.gx_lt b p.x
  unfold sweepStep
  simp only [mapSw_arena, mapArena_get' h, hpt, hl, ho, hx, keyOk_map h, segCmp_map h]
  split
  · rfl
  · split
    · split
      · rfl
      · simp only [computeFields_map h, mapSw]
        generalize (Option.map (fun x : Nat × Unit => x.1)
          (SplayTree.prev (segCmp ar cfg.dbg st.arena)
            (SplayTree.insert (segCmp ar cfg.dbg st.arena) st.line event ()).1 event).2) = prev
        generalize (Option.map (fun x : Nat × Unit => x.1)
          (SplayTree.next (segCmp ar cfg.dbg st.arena)
            (SplayTree.prev (segCmp ar cfg.dbg st.arena)
              (SplayTree.insert (segCmp ar cfg.dbg st.arena) st.line event ()).1 event).1 event).2) = next
        generalize (SplayTree.next (segCmp ar cfg.dbg st.arena)
            (SplayTree.prev (segCmp ar cfg.dbg st.arena)
              (SplayTree.insert (segCmp ar cfg.dbg st.arena) st.line event ()).1 event).1 event).1 = line
        have key := checkNext_map h cfg op
          (SwSt.mk (computeFields st.arena event prev op) st.heap line (st.sorted.push event) st.popped st.bumps)
          event prev next
        simp only [mapSw] at key
        rw [key]
        cases checkNext ar cfg op _ event prev next with
        | error e => rfl
        | ok st1 =>
          simp only [exMap, bind, Except.bind]
          rw [checkPrev_map h]
          cases checkPrev ar cfg op st1 event prev <;> rfl
    · simp only [mapSw]
      cases st.arena[event]!.other with
      | none => rfl
      | some other =>
        simp only
        have fin : ∀ (c1 : SplayTree Nat Unit × Bool),
            (if (!c1.2) = true then
              (pure (false, SwSt.mk (mapArena f st.arena) st.heap c1.1 (st.sorted.push event) st.popped st.bumps) : Except Fail (Bool × SwSt))
            else do
              let st1 ← checkRemoval ar cfg
                (SwSt.mk (mapArena f st.arena) st.heap
                  (SplayTree.next (segCmp ar cfg.dbg st.arena) (SplayTree.prev (segCmp ar cfg.dbg st.arena) c1.1 other).1 other).1
                  (st.sorted.push event) st.popped st.bumps)
                (SplayTree.prev (segCmp ar cfg.dbg st.arena) c1.1 other).2
                (SplayTree.next (segCmp ar cfg.dbg st.arena) (SplayTree.prev (segCmp ar cfg.dbg st.arena) c1.1 other).1 other).2
              pure (false, SwSt.mk st1.arena st1.heap (SplayTree.remove (segCmp ar cfg.dbg st1.arena) st1.line other).1
                st1.sorted st1.popped st1.bumps)) =
            exMap (fun r : Bool × SwSt => (r.1, SwSt.mk (mapArena f r.2.arena) r.2.heap r.2.line r.2.sorted r.2.popped r.2.bumps))
            (if (!c1.2) = true then
              (pure (false, SwSt.mk st.arena st.heap c1.1 (st.sorted.push event) st.popped st.bumps) : Except Fail (Bool × SwSt))
            else do
              let st1 ← checkRemoval ar cfg
                (SwSt.mk st.arena st.heap
                  (SplayTree.next (segCmp ar cfg.dbg st.arena) (SplayTree.prev (segCmp ar cfg.dbg st.arena) c1.1 other).1 other).1
                  (st.sorted.push event) st.popped st.bumps)
                (SplayTree.prev (segCmp ar cfg.dbg st.arena) c1.1 other).2
                (SplayTree.next (segCmp ar cfg.dbg st.arena) (SplayTree.prev (segCmp ar cfg.dbg st.arena) c1.1 other).1 other).2
              pure (false, SwSt.mk st1.arena st1.heap (SplayTree.remove (segCmp ar cfg.dbg st1.arena) st1.line other).1
                st1.sorted st1.popped st1.bumps)) := by
          intro c1
          split
          · rfl
          · generalize SplayTree.prev (segCmp ar cfg.dbg st.arena) c1.1 other = pv
            generalize SplayTree.next (segCmp ar cfg.dbg st.arena) pv.1 other = nx
            have key := checkRemoval_map h cfg
              (SwSt.mk st.arena st.heap nx.1 (st.sorted.push event) st.popped st.bumps) pv.2 nx.2
            simp only [mapSw] at key
            rw [key]
            cases checkRemoval ar cfg _ pv.2 nx.2 with
            | error e => rfl
            | ok st1 =>
              simp only [exMap, bind, Except.bind, pure, Except.pure, mapSw, segCmp_map h]
        by_cases hd : cfg.dbg = true
        · simp only [hd, if_true, Bool.true_and]
          split
          · rfl
          · have := fin (SplayTree.contains (segCmp ar true st.arena) (SplayTree.contains (segCmp ar true st.arena) st.line other).1 other)
            rw [hd] at this
            exact this
        · have hd' : cfg.dbg = false := by simpa using hd
          simp only [hd', Bool.false_eq_true, if_false, Bool.false_and]
          have := fin (SplayTree.contains (segCmp ar false st.arena) st.line other)
          rw [hd'] at this
          exact this

theorem sweepLoop_map (h : RunMap ar f gx gy) (cfg : Cfg) (op : Op) (rb sx : Rat) :
    ∀ (fuel : Nat) (st : SwSt),
      sweepLoop ar cfg op (gx rb) (gx sx) fuel (mapSw f st) = exMap (mapSw f) (sweepLoop ar cfg op rb sx fuel st) := by
  intro fuel
  induction fuel with
  | zero => intro st; rfl
  | succ fuel ih =>
    intro st
    unfold sweepLoop
    simp only [mapSw_arena, evLe_map h]
    have hheap : (mapSw f st).heap = st.heap := rfl
    rw [hheap]
    cases Heap.pop (evLe st.arena) st.heap with
    | none => rfl
    | some r =>
      obtain ⟨event, hp⟩ := r
      simp only
      have hpop : (mapSw f st).popped = st.popped := rfl
      have hb : (mapSw f st).bumps = st.bumps := rfl
      rw [hpop, hb]
      split
      · rfl
      · have key := sweepStep_map h cfg op rb sx
          (SwSt.mk st.arena hp st.line st.sorted (st.popped + 1) st.bumps) event
        simp only [mapSw] at key
        simp only [mapSw]
        rw [key]
        cases sweepStep ar cfg op rb sx _ event with
        | error e => rfl
        | ok r =>
          obtain ⟨b, st1⟩ := r
          cases b with
          | true => rfl
          | false => exact ih st1

def mapSweepOut (f : Pt → Pt) (o : SweepOut) : SweepOut := { o with arena := mapArena f o.arena }

/-- **the whole sweep is equivariant**: `subdivide` on the mapped queue and boxes returns the mapped arena
    with the same `sorted_events`, the same counters and the same sweep line -/
theorem subdivide_map (h : RunMap ar f gx gy) (cfg : Cfg) (fq : FQ) (sb cb : BBox) (op : Op) :
    subdivide ar cfg (mapFQ f fq) (mapBB gx gy sb) (mapBB gx gy cb) op =
      exMap (mapSweepOut f) (subdivide ar cfg fq sb cb op) := by
  unfold subdivide
  simp only [mapBB, h.rmin_x]
  have key := sweepLoop_map h cfg op (rmin sb.maxx cb.maxx) sb.maxx (cfg.budget + 1)
    ({ arena := fq.arena, heap := fq.heap } : SwSt)
  simp only [mapSw] at key
  simp only [mapFQ]
  rw [key]
  cases sweepLoop ar cfg op (rmin sb.maxx cb.maxx) sb.maxx (cfg.budget + 1) _ with
  | error e => rfl
  | ok st => rfl

/-! ### connect_edges -/

theorem bubblePass_map (h : RunMap ar f gx gy) (a : Arena) (r : Array Nat) : bubblePass (mapArena f a) r = bubblePass a r := by
  unfold bubblePass
  simp only [cmpEv_map h]

theorem bubbleSort_map (h : RunMap ar f gx gy) (a : Arena) : ∀ (fuel : Nat) (r : Array Nat),
    bubbleSort (mapArena f a) fuel r = bubbleSort a fuel r := by
  intro fuel
  induction fuel with
  | zero => intro r; rfl
  | succ fuel ih =>
    intro r
    unfold bubbleSort
    rw [bubblePass_map h]
    simp only [ih]

theorem foldl_mapArena {α : Type} (step : Arena → α → Arena)
    (hstep : ∀ a x, step (mapArena f a) x = mapArena f (step a x)) :
    ∀ (xs : List α) (a : Arena), xs.foldl step (mapArena f a) = mapArena f (xs.foldl step a) := by
  intro xs
  induction xs with
  | nil => intro a; rfl
  | cons x xs ih => intro a; simp only [List.foldl_cons]; rw [hstep, ih]

theorem mapArena_modify_otherPos (a : Arena) (i : Nat) (v : Int) :
    mapArena f (a.modify i (fun e => { e with otherPos := v })) = (mapArena f a).modify i (fun e => { e with otherPos := v }) :=
  mapArena_modify a i _ (fun _ => rfl)

theorem mapArena_modify_contour (a : Arena) (i : Nat) (v : Int) :
    mapArena f (a.modify i (fun e => { e with outputContourId := v })) =
      (mapArena f a).modify i (fun e => { e with outputContourId := v }) :=
  mapArena_modify a i _ (fun _ => rfl)

theorem orderEvents_map (h : RunMap ar f gx gy) (a : Arena) (sorted : Array Nat) :
    orderEvents (mapArena f a) sorted =
      exMap (fun r : Array Nat × Arena => (r.1, mapArena f r.2)) (orderEvents a sorted) := by
  unfold orderEvents
  have e1 : ∀ e : Ev, (mapEv f e).left = e.left := fun _ => rfl
  have e2 : ∀ e : Ev, (mapEv f e).resTrans = e.resTrans := fun _ => rfl
  have e3 : ∀ e : Ev, (mapEv f e).other = e.other := fun _ => rfl
  have e4 : ∀ e : Ev, (mapEv f e).otherPos = e.otherPos := fun _ => rfl
  simp only [mapArena_get' h, e1, e2, e3, bubbleSort_map h]
  cases bubbleSort a _ _ with
  | none => rfl
  | some res =>
    simp only [exMap]
    congr 1
    congr 1
    rw [foldl_mapArena (f := f) _ (fun a pos => by rw [mapArena_modify_otherPos])]
    rw [← Array.foldl_toList, ← Array.foldl_toList]
    apply foldl_mapArena
    intro a i
    simp only [mapArena_get' h, e1, e3, e4]
    split
    · cases a[i]!.other with
      | none => rfl
      | some o => simp only [mapArena_modify_otherPos]
    · rfl

def mapData (f : Pt → Pt) (d : Array (Pt × Bool)) : Array (Pt × Bool) := d.map (fun x => (f x.1, x.2))

theorem mapData_get (h : RunMap ar f gx gy) (d : Array (Pt × Bool)) (j : Nat) :
    (mapData f d)[j]! = (f d[j]!.1, d[j]!.2) := by
  unfold mapData
  by_cases hj : j < d.size
  · simp [getElem!_pos, hj]
  · simp only [getElem!_neg, hj, not_false_eq_true, Array.size_map]
    show ((default : Pt), false) = (f (default : Pt), false)
    rw [h.zero]

theorem iterationOrderLoop_map (h : RunMap ar f gx gy) (d : Array (Pt × Bool)) :
    ∀ (fuel i : Nat) (m : Array Nat), iterationOrderLoop (mapData f d) fuel i m = iterationOrderLoop d fuel i m := by
  intro fuel
  induction fuel with
  | zero => intro i m; rfl
  | succ fuel ih =>
    intro i m
    unfold iterationOrderLoop
    have hsz : (mapData f d).size = d.size := by simp [mapData]
    simp only [hsz, mapData_get h, h.inj, ih]

theorem precomputeIterationOrder_map (h : RunMap ar f gx gy) (d : Array (Pt × Bool)) :
    precomputeIterationOrder (mapData f d) = precomputeIterationOrder d := by
  unfold precomputeIterationOrder
  have hsz : (mapData f d).size = d.size := by simp [mapData]
  rw [hsz, iterationOrderLoop_map h]

theorem resData_map (h : RunMap ar f gx gy) (a : Arena) (res : Array Nat) :
    res.map (fun i => ((mapArena f a)[i]!.point, (mapArena f a)[i]!.left)) =
      mapData f (res.map (fun i => (a[i]!.point, a[i]!.left))) := by
  unfold mapData
  simp only [mapArena_get' h, Array.map_map]
  rfl

def mapContour (f : Pt → Pt) (c : Contour) : Contour := { c with points := c.points.map f }
def mapContours (f : Pt → Pt) (cs : Array Contour) : Array Contour := cs.map (mapContour f)

theorem mapContours_size (cs : Array Contour) : (mapContours f cs).size = cs.size := by simp [mapContours]

theorem mapContours_get (cs : Array Contour) (i : Nat) : (mapContours f cs)[i]! = mapContour f cs[i]! := by
  unfold mapContours
  by_cases hi : i < cs.size
  · simp [getElem!_pos, hi]
  · simp only [getElem!_neg, hi, not_false_eq_true, Array.size_map]
    show (default : Contour) = mapContour f default
    have hd : (default : Contour) = { } := rfl
    rw [hd]
    simp [mapContour]

theorem mapContours_modify (cs : Array Contour) (i : Nat) (cid : Int) :
    mapContours f (cs.modify i (fun c => { c with holeIds := c.holeIds.push cid })) =
      (mapContours f cs).modify i (fun c => { c with holeIds := c.holeIds.push cid }) := by
  apply Array.ext
  · simp [mapContours]
  · intro j h1 h2
    simp only [mapContours, Array.getElem_map, Array.getElem_modify]
    split <;> rfl

theorem mapContours_push (cs : Array Contour) (c : Contour) :
    mapContours f (cs.push c) = (mapContours f cs).push (mapContour f c) := by
  simp [mapContours]

theorem initializeFromContext_map (h : RunMap ar f gx gy) (cfg : Cfg) (a : Arena) (event : Nat) (cs : Array Contour) (cid : Int) :
    initializeFromContext cfg (mapArena f a) event (mapContours f cs) cid =
      exMap (fun r : Contour × Array Contour => (mapContour f r.1, mapContours f r.2))
        (initializeFromContext cfg a event cs cid) := by
  unfold initializeFromContext
  have e1 : ∀ e : Ev, (mapEv f e).prevInResult = e.prevInResult := fun _ => rfl
  have e2 : ∀ e : Ev, (mapEv f e).outputContourId = e.outputContourId := fun _ => rfl
  have e3 : ∀ e : Ev, (mapEv f e).resTrans = e.resTrans := fun _ => rfl
  have c1 : ∀ c : Contour, (mapContour f c).holeOf = c.holeOf := fun _ => rfl
  have c2 : ∀ c : Contour, (mapContour f c).depth = c.depth := fun _ => rfl
  simp only [mapArena_get' h, e1, e2, e3, mapContours_size, mapContours_get, c1, c2]
  have mc : ∀ (ho : Option Int) (d : Int), mapContour f { holeOf := ho, depth := d } = { holeOf := ho, depth := d } := by
    intro ho d; simp [mapContour]
  cases a[event]!.prevInResult with
  | none => simp [exMap, mapContour]
  | some pir =>
    simp only
    split
    · split
      · rfl
      · cases cs[(a[pir]!.outputContourId).toNat]!.holeOf with
        | some parent =>
          simp only
          split
          · rfl
          · simp only [exMap, mapContours_modify, mc]
        | none =>
          simp only [exMap, mapContours_modify, mc]
    · split
      · split
        · rfl
        · simp only [exMap, mc]
      · simp only [exMap, mc]

def mapCE (f : Pt → Pt) (st : CE) : CE :=
  { arena := mapArena f st.arena, processed := st.processed, contour := mapContour f st.contour }

theorem contourLoop_map (h : RunMap ar f gx gy) (res map : Array Nat) (cid : Int) (initial : Pt) :
    ∀ (fuel : Nat) (st : CE) (pos : Nat),
      contourLoop res map cid (f initial) fuel (mapCE f st) pos = exMap (mapCE f) (contourLoop res map cid initial fuel st pos) := by
  intro fuel
  induction fuel with
  | zero => intro st pos; rfl
  | succ fuel ih =>
    intro st pos
    unfold contourLoop
    have e1 : ∀ e : Ev, (mapEv f e).otherPos = e.otherPos := fun _ => rfl
    have e2 : ∀ e : Ev, (mapEv f e).point = f e.point := fun _ => rfl
    have a1 : (mapCE f st).arena = mapArena f st.arena := rfl
    have a2 : (mapCE f st).processed = st.processed := rfl
    have a3 : (mapCE f st).contour = mapContour f st.contour := rfl
    split
    · rfl
    · simp only [a1, a2, a3, ← mapArena_modify_contour, mapArena_get' h, e1, e2]
      split
      · rfl
      · simp only [h.inj]
        cases getNextPosLoop _ _ map (res.size + 1) _ with
        | error e => rfl
        | ok r =>
          cases r with
          | none => simp [exMap, mapCE, mapContour]
          | some npos =>
            simp only
            split
            · simp [exMap, mapCE, mapContour]
            · simp only [mapContour]
              rw [← Array.map_push]
              exact ih (CE.mk _ _ { st.contour with points := _ }) npos

def mapCA (f : Pt → Pt) (r : Array Contour × Arena) : Array Contour × Arena := (mapContours f r.1, mapArena f r.2)

theorem go_map (h : RunMap ar f gx gy) (cfg : Cfg) (res map : Array Nat) :
    ∀ (fuel i : Nat) (a : Arena) (processed : Array Bool) (cs : Array Contour),
      connectEdges.go cfg res map fuel i (mapArena f a) processed (mapContours f cs) =
        exMap (mapCA f) (connectEdges.go cfg res map fuel i a processed cs) := by
  intro fuel
  induction fuel with
  | zero => intro i a processed cs; rfl
  | succ fuel ih =>
    intro i a processed cs
    unfold connectEdges.go
    split
    · rfl
    · split
      · exact ih _ _ _ _
      · simp only [mapContours_size]
        rw [initializeFromContext_map h]
        cases initializeFromContext cfg a res[i]! cs (cs.size : Int) with
        | error e => rfl
        | ok r =>
          obtain ⟨contour, cs1⟩ := r
          simp only [exMap, mapArena_get' h]
          have hp : (mapEv f a[res[i]!]!).point = f a[res[i]!]!.point := rfl
          rw [hp]
          have hst : (CE.mk (mapArena f a) processed
              { mapContour f contour with points := (mapContour f contour).points.push (f a[res[i]!]!.point) }) =
              mapCE f (CE.mk a processed { contour with points := contour.points.push a[res[i]!]!.point }) := by
            simp [mapCE, mapContour]
          rw [hst, contourLoop_map h]
          cases contourLoop res map (cs.size : Int) a[res[i]!]!.point (res.size + 1) _ i with
          | error e => rfl
          | ok st =>
            simp only [exMap]
            have := ih (i + 1) st.arena st.processed (cs1.push st.contour)
            rw [mapContours_push] at this
            exact this

/-- **`connect_edges` is equivariant** -/
theorem connectEdges_map (h : RunMap ar f gx gy) (cfg : Cfg) (a : Arena) (sorted : Array Nat) :
    connectEdges cfg (mapArena f a) sorted = exMap (mapCA f) (connectEdges cfg a sorted) := by
  unfold connectEdges
  rw [orderEvents_map h]
  cases orderEvents a sorted with
  | error e => rfl
  | ok r =>
    obtain ⟨res, a1⟩ := r
    simp only [exMap]
    rw [resData_map h, precomputeIterationOrder_map h]
    have := go_map h cfg res (precomputeIterationOrder (res.map (fun i => (a1[i]!.point, a1[i]!.left))))
      (res.size + 1) 0 a1 (Array.replicate res.size false) #[]
    have he : mapContours f (#[] : Array Contour) = #[] := by simp [mapContours]
    rw [he] at this
    exact this

/-! ### boolean_operation -/

theorem closeRing_map (h : RunMap ar f gx gy) (r : Ring) : closeRing (r.map f) = (closeRing r).map f := by
  unfold closeRing
  cases r with
  | nil => rfl
  | cons p rest =>
    simp only [List.map_cons]
    have : ((f p :: List.map f rest).getLast? = some (f p)) ↔ ((p :: rest).getLast? = some p) := by
      rw [← List.map_cons, List.getLast?_map]
      cases (p :: rest).getLast? with
      | none => simp
      | some q => simp [h.inj]
    by_cases hc : (p :: rest).getLast? = some p
    · rw [if_pos hc, if_pos (this.mpr hc)]; rfl
    · rw [if_neg hc, if_neg (fun hh => hc (this.mp hh))]; simp

theorem mapM_option_map {α β γ : Type} (k : α → Option β) (g : β → γ) (k'' : α → Option γ)
    (hk : ∀ x, k'' x = (k x).map g) :
    ∀ l : List α, l.mapM k'' = (l.mapM k).map (List.map g) := by
  intro l
  induction l with
  | nil => simp [List.mapM_nil, pure]
  | cons a l ih =>
    rw [List.mapM_cons, List.mapM_cons, hk a, ih]
    cases k a with
    | none => rfl
    | some b =>
      cases l.mapM k with
      | none => rfl
      | some bs => rfl

theorem mapM_except_map {α α' β β' : Type} (g : α → α') (g' : β → β') (k : α → Except Fail β) (k' : α' → Except Fail β')
    (hk : ∀ x, k' (g x) = exMap g' (k x)) :
    ∀ l : List α, (l.map g).mapM k' = exMap (List.map g') (l.mapM k) := by
  intro l
  induction l with
  | nil => simp [List.mapM_nil, pure, Except.pure, exMap]
  | cons a l ih =>
    rw [List.map_cons, List.mapM_cons, List.mapM_cons, hk a, ih]
    cases k a with
    | error e => rfl
    | ok b =>
      cases l.mapM k with
      | error e => rfl
      | ok bs => rfl

theorem boxesDisjoint_map (h : RunMap ar f gx gy) (sb cb : Option BBox) :
    boxesDisjoint (sb.map (mapBB gx gy)) (cb.map (mapBB gx gy)) = boxesDisjoint sb cb := by
  cases sb with
  | none => rfl
  | some s =>
    cases cb with
    | none => rfl
    | some c =>
      simp only [boxesDisjoint, Option.map_some, mapBB, gt_iff_lt, h.gx_lt, h.gy_lt]

theorem trivialResult_map (subject clipping : MPoly) (op : Op) :
    trivialResult (subject.map (mapPoly f)) (clipping.map (mapPoly f)) op =
      (trivialResult subject clipping op).map (mapPoly f) := by
  cases op <;> simp [trivialResult]

def mapOut (f : Pt → Pt) (o : RunOut) : RunOut := { o with result := o.result.map (mapPoly f) }

/-- the assembly step of `boolean_operation` as a function of the contours -/
def assemblePolys (contours : Array Contour) : Except Fail (List Poly) :=
  contours.toList.filter (fun c => c.holeOf.isNone) |>.mapM (fun c =>
    match c.holeIds.toList.mapM (fun (h : Int) =>
        if idxOk contours.size h then some (closeRing contours[h.toNat]!.points.toList) else none) with
    | none => .error (.panic .indexContour)
    | some holes => .ok { ext := closeRing c.points.toList, holes := holes })

/-- `boolean_operation` with the assembly step named -/
def booleanOperation' (ar : Arith) (cfg : Cfg) (subject clipping : MPoly) (op : Op) : Except Fail RunOut :=
  let f := fillQueue subject clipping op
  if boxesDisjoint f.sbbox f.cbbox then
    .ok { result := trivialResult subject clipping op, popped := 0, bumps := 0, trivial := true, lineLeft := 0 }
  else
    match f.sbbox, f.cbbox with
    | some sb, some cb =>
      match subdivide ar cfg f.fq sb cb op with
      | .error e => .error e
      | .ok sw =>
        match connectEdges cfg sw.arena sw.sorted with
        | .error e => .error e
        | .ok (contours, _) =>
          match assemblePolys contours with
          | .error e => .error e
          | .ok ps => .ok { result := ps, popped := sw.popped, bumps := sw.bumps, trivial := false, lineLeft := sw.lineLeft }
    | _, _ => .ok { result := trivialResult subject clipping op, popped := 0, bumps := 0, trivial := true, lineLeft := 0 }

theorem booleanOperation_eq (ar : Arith) (cfg : Cfg) (subject clipping : MPoly) (op : Op) :
    booleanOperation ar cfg subject clipping op = booleanOperation' ar cfg subject clipping op := rfl

theorem assemble_map (h : RunMap ar f gx gy) (cs : Array Contour) :
    assemblePolys (mapContours f cs) = exMap (List.map (mapPoly f)) (assemblePolys cs) := by
  unfold assemblePolys
  have hl : (mapContours f cs).toList.filter (fun c => c.holeOf.isNone) =
      (cs.toList.filter (fun c => c.holeOf.isNone)).map (mapContour f) := by
    simp only [mapContours, Array.toList_map, List.filter_map]
    rfl
  rw [hl]
  apply mapM_except_map
  intro c
  have inner : (mapContour f c).holeIds.toList.mapM (fun (hh : Int) =>
        if idxOk (mapContours f cs).size hh then some (closeRing (mapContours f cs)[hh.toNat]!.points.toList) else none) =
      (c.holeIds.toList.mapM (fun (hh : Int) =>
        if idxOk cs.size hh then some (closeRing cs[hh.toNat]!.points.toList) else none)).map (List.map (List.map f)) := by
    apply mapM_option_map
    intro hh
    simp only [mapContours_size, mapContours_get]
    split
    · simp only [Option.map_some, mapContour, Array.toList_map, closeRing_map h]
    · rfl
  rw [inner]
  cases (c.holeIds.toList.mapM (fun (hh : Int) =>
        if idxOk cs.size hh then some (closeRing cs[hh.toNat]!.points.toList) else none) : Option (List Ring)) with
  | none => rfl
  | some holes =>
    simp only [Option.map_some, exMap, mapPoly, mapContour, Array.toList_map, closeRing_map h]

/-- **The whole run is equivariant.**  For an arithmetic `ar` and a map `f` of the plane satisfying `RunMap`
    (coordinatewise, order preserving, orientation-sign preserving, commuting with the rounded intersection
    routine and with the one-ulp bump), `boolean_operation` on the mapped operands returns — or fails —
    exactly as on the original operands, with every ring of the result mapped by `f`: same polygons in the same
    order, same number of events, same counters. -/
theorem booleanOperation_map (h : RunMap ar f gx gy) (cfg : Cfg) (subject clipping : MPoly) (op : Op) :
    booleanOperation ar cfg (subject.map (mapPoly f)) (clipping.map (mapPoly f)) op =
      exMap (mapOut f) (booleanOperation ar cfg subject clipping op) := by
  rw [booleanOperation_eq, booleanOperation_eq]
  unfold booleanOperation'
  simp only [fillQueue_map h, mapFill, boxesDisjoint_map h, trivialResult_map]
  split
  · rfl
  · cases hs : (fillQueue subject clipping op).sbbox with
    | none => simp [exMap, mapOut]
    | some sb =>
      cases hc : (fillQueue subject clipping op).cbbox with
      | none => simp [exMap, mapOut]
      | some cb =>
        simp only [Option.map_some]
        rw [subdivide_map h]
        cases subdivide ar cfg (fillQueue subject clipping op).fq sb cb op with
        | error e => rfl
        | ok sw =>
          simp only [exMap, mapSweepOut]
          rw [connectEdges_map h]
          cases connectEdges cfg sw.arena sw.sorted with
          | error e => rfl
          | ok r =>
            obtain ⟨cs, a'⟩ := r
            simp only [exMap, mapCA]
            rw [assemble_map h]
            cases assemblePolys cs with
            | error e => rfl
            | ok ps => rfl

/-! ### scaling -/

theorem scaleIsect_eq_mapIsect (c : Rat) (i : Isect) : scaleIsect c i = mapIsect (scalePt c) i := by
  cases i <;> rfl

/-- scaling by `c > 0` is a `RunMap` for every arithmetic that scales exactly by `c` (and whose one-ulp step
    does): exact arithmetic for every `c`; binary floating point for powers of two while nothing over- or
    underflows -/
theorem scale_runMap (ar : Arith) (c : Rat) (hc : 0 < c) (hs : ScalesExactly ar c)
    (hn : ∀ x, ar.nextUp (c * x) = c * ar.nextUp x) : RunMap ar (scalePt c) (fun x => c * x) (fun y => c * y) where
  sep p := rfl
  op := scale_orderPreserving c hc
  inj p q := by
    constructor
    · intro e
      have hx : c * p.x = c * q.x := congrArg Pt.x e
      have hy : c * p.y = c * q.y := congrArg Pt.y e
      have hc0 : c ≠ 0 := ne_of_gt hc
      have ex := mul_left_cancel₀ hc0 hx
      have ey := mul_left_cancel₀ hc0 hy
      cases p; cases q; simp_all
    · intro e; rw [e]
  zero := by
    show scalePt c ⟨0, 0⟩ = ⟨0, 0⟩
    simp [scalePt]
  isect a1 a2 b1 b2 := by rw [isect_scale hs hc, scaleIsect_eq_mapIsect]
  bump p := by
    simp only [scalePt, hn]

end Gbo
