import Gbo.Proofs.SweepInv
import Gbo.Proofs.HeapMem
/-
  Index validity through the sweep: every entry of the queue and every entry of `sorted_events` is an index into
  the arena.
-/
namespace Gbo

def StateOk (st : SwSt) : Prop :=
  (∀ x, x ∈ st.heap.toList → x < st.arena.size) ∧ (∀ x, x ∈ st.sorted.toList → x < st.arena.size)

/-- the whole effect of `divide_segment` on the state -/
theorem divideSegment_state (ar : Arith) (cfg : Cfg) (st st' : SwSt) (seL : Nat) (inter : Pt)
    (h : divideSegment ar cfg st seL inter = .ok st') :
    st' = st ∨
    (∃ seR A, st'.arena = A ∧ A = divideArena st.arena seL seR (bumped ar st.arena seL inter) ∧
      st'.heap = Heap.push (evLe A) (Heap.push (evLe A) st.heap (st.arena.size + 1)) st.arena.size ∧
      st'.sorted = st.sorted ∧ st'.line = st.line) := by
  unfold divideSegment at h
  cases hoth : st.arena[seL]!.other with
  | none =>
    left
    simp only [hoth] at h
    split at h
    · simp [throw, throwThe, MonadExceptOf.throw, bind, Except.bind] at h
    · simp only [pure, Except.pure, Except.ok.injEq] at h
      exact h.symm
  | some seR =>
    right
    simp only [hoth] at h
    split at h
    · simp [throw, throwThe, MonadExceptOf.throw, bind, Except.bind] at h
    · by_cases hb : inter.x = st.arena[seL]!.point.x ∧ inter.y < st.arena[seL]!.point.y
      · have hbu : bumped ar st.arena seL inter = { inter with x := ar.nextUp inter.x } := by
          unfold bumped; rw [if_pos hb]
        simp only [hb, and_self, if_true] at h
        split at h
        · simp [throw, throwThe, MonadExceptOf.throw, bind, Except.bind] at h
        · simp only [pure, Except.pure, Except.ok.injEq] at h
          refine ⟨seR, _, rfl, ?_, ?_, ?_, ?_⟩
          · rw [← h, hbu]; simp [hb.1]
          · rw [← h]
          · rw [← h]
          · rw [← h]
      · have hbu : bumped ar st.arena seL inter = inter := by
          unfold bumped; rw [if_neg hb]
        simp only [hb, if_false] at h
        split at h
        · simp [throw, throwThe, MonadExceptOf.throw, bind, Except.bind] at h
        · simp only [pure, Except.pure, Except.ok.injEq] at h
          refine ⟨seR, _, rfl, ?_, ?_, ?_, ?_⟩
          · rw [← h, hbu]
          · rw [← h]
          · rw [← h]
          · rw [← h]

theorem divideSegment_stateOk (ar : Arith) (cfg : Cfg) (st st' : SwSt) (seL : Nat) (inter : Pt)
    (h : divideSegment ar cfg st seL inter = .ok st') (hs : StateOk st) : StateOk st' := by
  rcases divideSegment_state ar cfg st st' seL inter h with he | ⟨seR, A, hA, hAd, hheap, hsorted, _⟩
  · rw [he]; exact hs
  · have hsz : st'.arena.size = st.arena.size + 2 := by rw [hA, hAd, divideArena_size]
    constructor
    · intro x hx
      rw [hheap] at hx
      rcases Heap.mem_push _ _ _ _ hx with h1 | h1
      · omega
      · rcases Heap.mem_push _ _ _ _ h1 with h2 | h2
        · omega
        · have := hs.1 x h2; omega
    · intro x hx
      rw [hsorted] at hx
      have := hs.2 x hx; omega

/-- state-level version of `possibleIntersection_preserves` -/
theorem possibleIntersection_preserves_state (I : SwSt → Prop)
    (hdiv : ∀ (ar : Arith) (cfg : Cfg) (st st' : SwSt) (idx : Nat) (p : Pt),
      divideSegment ar cfg st idx p = .ok st' → I st → I st')
    (hmark : ∀ (st : SwSt) (se1 se2 : Nat), I st → I { st with arena := markCoincident st.arena se1 se2 })
    (ar : Arith) (cfg : Cfg) (st st' : SwSt) (se1 se2 r : Nat)
    (h : possibleIntersection ar cfg st se1 se2 = .ok (r, st')) (hP : I st) : I st' := by
  unfold possibleIntersection at h
  simp only at h
  split at h
  · rename_i other1 other2 _ _
    split at h
    · simp [throw, throwThe, MonadExceptOf.throw] at h
    · simp only [pure, Except.pure, Except.ok.injEq, Prod.mk.injEq] at h
      rw [← h.2]; exact hP
    · rename_i inter _
      split at h
      · simp only [pure, Except.pure, Except.ok.injEq, Prod.mk.injEq] at h
        rw [← h.2]; exact hP
      · split at h
        · obtain ⟨st1, e1, h⟩ := bind_ok _ _ _ h
          have x1 : I st1 := hdiv _ _ _ _ _ _ e1 hP
          split at h
          · obtain ⟨st2, e2, h⟩ := bind_ok _ _ _ h
            simp only [pure, Except.pure, Except.ok.injEq, Prod.mk.injEq] at h
            rw [← h.2]; exact hdiv _ _ _ _ _ _ e2 x1
          · simp only [pure, Except.pure, bind, Except.bind, Except.ok.injEq, Prod.mk.injEq] at h
            rw [← h.2]; exact x1
        · simp only [pure, Except.pure, bind, Except.bind] at h
          split at h
          · cases e2 : divideSegment ar cfg st se2 inter with
            | error e => simp [e2] at h
            | ok st2 =>
              simp only [e2, Except.ok.injEq, Prod.mk.injEq] at h
              rw [← h.2]; exact hdiv _ _ _ _ _ _ e2 hP
          · simp only [Except.ok.injEq, Prod.mk.injEq] at h
            rw [← h.2]; exact hP
    · -- collinear overlap
      unfold overlapBranch at h
      simp only at h
      split at h
      · simp only [pure, Except.pure, Except.ok.injEq, Prod.mk.injEq] at h
        rw [← h.2]; exact hP
      · have base : I { st with arena := markCoincident st.arena se1 se2 } := hmark _ _ _ hP
        split at h
        · split at h
          · obtain ⟨st1, e1, h⟩ := bind_ok _ _ _ h
            simp only [pure, Except.pure, Except.ok.injEq, Prod.mk.injEq] at h
            rw [← h.2]
            exact hdiv _ _ { st with arena := markCoincident st.arena se1 se2 } _ _ _ e1 base
          · simp only [pure, Except.pure, bind, Except.bind, Except.ok.injEq, Prod.mk.injEq] at h
            rw [← h.2]; exact base
        · split at h
          · obtain ⟨st1, e1, h⟩ := bind_ok _ _ _ h
            simp only [pure, Except.pure, Except.ok.injEq, Prod.mk.injEq] at h
            rw [← h.2]
            exact hdiv _ _ _ _ _ _ e1 hP
          · split at h
            · obtain ⟨st1, e1, h⟩ := bind_ok _ _ _ h
              obtain ⟨st2, e2, h⟩ := bind_ok _ _ _ h
              simp only [pure, Except.pure, Except.ok.injEq, Prod.mk.injEq] at h
              rw [← h.2]
              exact hdiv _ _ _ _ _ _ e2 (hdiv _ _ _ _ _ _ e1 hP)
            · obtain ⟨st1, e1, h⟩ := bind_ok _ _ _ h
              have x1 := hdiv _ _ _ _ _ _ e1 hP
              split at h
              · simp [throw, throwThe, MonadExceptOf.throw] at h
              · obtain ⟨st2, e2, h⟩ := bind_ok _ _ _ h
                simp only [pure, Except.pure, Except.ok.injEq, Prod.mk.injEq] at h
                rw [← h.2]
                exact hdiv _ _ _ _ _ _ e2 x1
  · simp only [pure, Except.pure, Except.ok.injEq, Prod.mk.injEq] at h
    rw [← h.2]; exact hP


/-- `StateOk` only looks at the size of the arena, the queue and `sorted` -/
theorem stateOk_congr (st st2 : SwSt) (hsz : st2.arena.size = st.arena.size) (hh : st2.heap = st.heap)
    (hso : st2.sorted = st.sorted) (h : StateOk st) : StateOk st2 :=
  ⟨fun x hx => by rw [hsz]; exact h.1 x (by rw [← hh]; exact hx),
   fun x hx => by rw [hsz]; exact h.2 x (by rw [← hso]; exact hx)⟩

theorem possibleIntersection_stateOk (ar : Arith) (cfg : Cfg) (st st' : SwSt) (se1 se2 r : Nat)
    (h : possibleIntersection ar cfg st se1 se2 = .ok (r, st')) (hs : StateOk st) : StateOk st' :=
  possibleIntersection_preserves_state StateOk
    (fun ar cfg st st' idx p h hs => divideSegment_stateOk ar cfg st st' idx p h hs)
    (fun st _ _ hs => stateOk_congr st _ (markCoincident_size _ _ _) rfl rfl hs)
    ar cfg st st' se1 se2 r h hs

theorem checkNext_stateOk (ar : Arith) (cfg : Cfg) (op : Op) (st st' : SwSt) (event : Nat) (prev next : Option Nat)
    (h : checkNext ar cfg op st event prev next = .ok st') (hP : StateOk st) : StateOk st' := by
  unfold checkNext at h
  cases next with
  | none => simp only [pure, Except.pure, Except.ok.injEq] at h; rw [← h]; exact hP
  | some nx =>
    simp only at h
    obtain ⟨x, e1, h⟩ := bind_ok _ _ _ h
    obtain ⟨code, st1⟩ := x
    have x1 : StateOk st1 := possibleIntersection_stateOk ar cfg st st1 event nx code e1 hP
    simp only at h
    split at h
    · simp only [pure, Except.pure, Except.ok.injEq] at h
      rw [← h]
      exact stateOk_congr st1 _ (by simp [computeFields_size]) rfl rfl x1
    · simp only [pure, Except.pure, Except.ok.injEq] at h
      rw [← h]; exact x1

theorem checkPrev_stateOk (ar : Arith) (cfg : Cfg) (op : Op) (st st' : SwSt) (event : Nat) (prev : Option Nat)
    (h : checkPrev ar cfg op st event prev = .ok st') (hP : StateOk st) : StateOk st' := by
  unfold checkPrev at h
  cases prev with
  | none => simp only [pure, Except.pure, Except.ok.injEq] at h; rw [← h]; exact hP
  | some pv =>
    simp only at h
    obtain ⟨x, e1, h⟩ := bind_ok _ _ _ h
    obtain ⟨code, st1⟩ := x
    have x1 : StateOk st1 := possibleIntersection_stateOk ar cfg st st1 pv event code e1 hP
    simp only at h
    split at h
    · simp only [pure, Except.pure, Except.ok.injEq] at h
      rw [← h]
      exact stateOk_congr st1 _ (by simp [computeFields_size]) rfl rfl x1
    · simp only [pure, Except.pure, Except.ok.injEq] at h
      rw [← h]; exact x1

theorem checkRemoval_stateOk (ar : Arith) (cfg : Cfg) (st st' : SwSt) (prev next : Option (Nat × Unit))
    (h : checkRemoval ar cfg st prev next = .ok st') (hP : StateOk st) : StateOk st' := by
  unfold checkRemoval at h
  split at h
  · obtain ⟨x, e1, h⟩ := bind_ok _ _ _ h
    obtain ⟨code, st1⟩ := x
    simp only [pure, Except.pure, Except.ok.injEq] at h
    rw [← h]; exact possibleIntersection_stateOk ar cfg st st1 _ _ code e1 hP
  · simp only [pure, Except.pure, Except.ok.injEq] at h
    rw [← h]; exact hP

/-- one iteration, given that the popped event is a valid index -/
theorem sweepStep_stateOk (ar : Arith) (cfg : Cfg) (op : Op) (rightbound sbMaxX : Rat) (st st' : SwSt) (event : Nat)
    (b : Bool) (h : sweepStep ar cfg op rightbound sbMaxX st event = .ok (b, st')) (hP : StateOk st)
    (hev : event < st.arena.size) : StateOk st' := by
  have h0 : StateOk { st with sorted := st.sorted.push event } := by
    refine ⟨hP.1, fun x hx => ?_⟩
    simp only [Array.toList_push, List.mem_append, List.mem_singleton] at hx
    rcases hx with hx | hx
    · exact hP.2 x hx
    · rw [hx]; exact hev
  unfold sweepStep at h
  simp only at h
  split at h
  · simp only [pure, Except.pure, Except.ok.injEq, Prod.mk.injEq] at h
    rw [← h.2]; exact h0
  · split at h
    · split at h
      · simp [throw, throwThe, MonadExceptOf.throw, bind, Except.bind] at h
      · obtain ⟨st1, e1, h⟩ := bind_ok _ _ _ h
        have x1 : StateOk st1 := checkNext_stateOk ar cfg op _ st1 event _ _ e1
          (stateOk_congr { st with sorted := st.sorted.push event } _ (by simp [computeFields_size]) rfl rfl h0)
        obtain ⟨st2, e2, h⟩ := bind_ok _ _ _ h
        have x2 : StateOk st2 := checkPrev_stateOk ar cfg op st1 st2 event _ e2 x1
        simp only [pure, Except.pure, Except.ok.injEq, Prod.mk.injEq] at h
        rw [← h.2]; exact x2
    · split at h
      · simp only [pure, Except.pure, Except.ok.injEq, Prod.mk.injEq] at h
        rw [← h.2]; exact h0
      · rename_i other _
        by_cases hd : cfg.dbg = true
        · simp only [hd, if_true, Bool.true_and] at h
          split at h
          · simp [throw, throwThe, MonadExceptOf.throw, bind, Except.bind] at h
          · split at h
            · simp only [pure, Except.pure, Except.ok.injEq, Prod.mk.injEq] at h
              rw [← h.2]; exact stateOk_congr _ _ rfl rfl rfl h0
            · obtain ⟨st1, e1, h⟩ := bind_ok _ _ _ h
              have x1 : StateOk st1 := checkRemoval_stateOk ar cfg _ st1 _ _ e1 (stateOk_congr _ _ rfl rfl rfl h0)
              simp only [pure, Except.pure, Except.ok.injEq, Prod.mk.injEq] at h
              rw [← h.2]; exact stateOk_congr st1 _ rfl rfl rfl x1
        · have hd' : cfg.dbg = false := by simpa using hd
          simp only [hd', Bool.false_eq_true, if_false, Bool.false_and] at h
          split at h
          · simp only [pure, Except.pure, Except.ok.injEq, Prod.mk.injEq] at h
            rw [← h.2]; exact stateOk_congr _ _ rfl rfl rfl h0
          · obtain ⟨st1, e1, h⟩ := bind_ok _ _ _ h
            have x1 : StateOk st1 := checkRemoval_stateOk ar cfg _ st1 _ _ e1 (stateOk_congr _ _ rfl rfl rfl h0)
            simp only [pure, Except.pure, Except.ok.injEq, Prod.mk.injEq] at h
            rw [← h.2]; exact stateOk_congr st1 _ rfl rfl rfl x1

theorem sweepLoop_stateOk (ar : Arith) (cfg : Cfg) (op : Op) (rightbound sbMaxX : Rat) :
    ∀ (fuel : Nat) (st st' : SwSt), sweepLoop ar cfg op rightbound sbMaxX fuel st = .ok st' → StateOk st → StateOk st' := by
  intro fuel
  induction fuel with
  | zero => intro st st' h; simp [sweepLoop] at h
  | succ fuel ih =>
    intro st st' h hP
    unfold sweepLoop at h
    split at h
    · simp only [Except.ok.injEq] at h; rw [← h]; exact hP
    · rename_i event hp hpop
      obtain ⟨hmem, hsub⟩ := Heap.mem_pop _ _ _ _ hpop
      have hev : event < st.arena.size := hP.1 event hmem
      have h1 : StateOk { st with heap := hp, popped := st.popped + 1 } :=
        ⟨fun x hx => hP.1 x (hsub x hx), hP.2⟩
      simp only at h
      split at h
      · simp at h
      · split at h
        · simp at h
        · rename_i st1 hstep
          simp only [Except.ok.injEq] at h
          rw [← h]
          exact sweepStep_stateOk ar cfg op rightbound sbMaxX _ st1 event true hstep h1 hev
        · rename_i st1 hstep
          exact ih st1 st' h (sweepStep_stateOk ar cfg op rightbound sbMaxX _ st1 event false hstep h1 hev)

/-- every entry of `sorted_events` returned by `subdivide` is an index into the returned arena, provided the
    queue it was given only holds indices into its arena (it does: `fill_queue`) -/
theorem subdivide_sorted_valid (ar : Arith) (cfg : Cfg) (fq : FQ) (sb cb : BBox) (op : Op) (sw : SweepOut)
    (h : subdivide ar cfg fq sb cb op = .ok sw) (hq : ∀ x, x ∈ fq.heap.toList → x < fq.arena.size) :
    ∀ x, x ∈ sw.sorted.toList → x < sw.arena.size := by
  unfold subdivide at h
  simp only at h
  split at h
  · simp at h
  · rename_i st hl
    simp only [Except.ok.injEq] at h
    rw [← h]
    have h0 : StateOk ({ arena := fq.arena, heap := fq.heap } : SwSt) := ⟨hq, fun x hx => by simp at hx⟩
    exact (sweepLoop_stateOk ar cfg op _ _ _ _ st hl h0).2

end Gbo
