import Gbo.Proofs.HeapMem
import Gbo.Model.Sweep
/-
  The queue `fill_queue` builds only holds indices into the arena it builds.
-/
namespace Gbo

def HeapValid (fq : FQ) : Prop := ∀ x, x ∈ fq.heap.toList → x < fq.arena.size

theorem processLine_valid (subj : Bool) (cid : Nat) (ext : Bool) (st : FQ × Option BBox) (s e : Pt)
    (h : HeapValid st.1) : HeapValid (processLine subj cid ext st s e).1 := by
  unfold processLine
  split
  · exact h
  · obtain ⟨fq, bb⟩ := st
    simp only
    intro x hx
    simp only [Array.size_push]
    rcases Heap.mem_push _ _ _ _ hx with h1 | h1
    · omega
    · rcases Heap.mem_push _ _ _ _ h1 with h2 | h2
      · omega
      · have := h x h2; simp only at this; omega

theorem processRing_valid (subj : Bool) (cid : Nat) (ext : Bool) (ring : Ring) :
    ∀ (st : FQ × Option BBox), HeapValid st.1 → HeapValid (processRing subj cid ext st ring).1 := by
  induction ring with
  | nil => intro st h; simpa [processRing] using h
  | cons p rest ih =>
    cases rest with
    | nil => intro st h; simpa [processRing] using h
    | cons q rest =>
      intro st h
      simp only [processRing]
      exact ih _ (processLine_valid subj cid ext st p q h)

theorem foldl_valid {α : Type} (step : FQ × Option BBox → α → FQ × Option BBox)
    (hstep : ∀ st x, HeapValid st.1 → HeapValid (step st x).1) :
    ∀ (xs : List α) (st : FQ × Option BBox), HeapValid st.1 → HeapValid (xs.foldl step st).1 := by
  intro xs
  induction xs with
  | nil => intro st h; exact h
  | cons x xs ih => intro st h; exact ih _ (hstep st x h)

theorem processPolygon_valid (subj : Bool) (cid : Nat) (ext : Bool) (st : FQ × Option BBox) (p : Poly)
    (h : HeapValid st.1) : HeapValid (processPolygon subj cid ext st p).1 := by
  unfold processPolygon
  simp only
  exact foldl_valid _ (fun st hole hv => processRing_valid subj cid false hole st hv) _ _
    (processRing_valid subj cid ext p.ext st h)

theorem fillQueue_valid (a b : MPoly) (op : Op) : HeapValid (fillQueue a b op).fq := by
  unfold fillQueue
  simp only
  have hsub : ∀ (ps : List Poly) (acc : Nat × FQ × Option BBox), HeapValid acc.2.1 →
      HeapValid (ps.foldl subjStep acc).2.1 := by
    intro ps
    induction ps with
    | nil => intro acc h; exact h
    | cons p ps ih =>
      intro acc h
      simp only [List.foldl_cons]
      apply ih
      unfold subjStep
      exact processPolygon_valid true _ true (acc.2.1, acc.2.2) p h
  have hclip : ∀ (ps : List Poly) (acc : Nat × FQ × Option BBox), HeapValid acc.2.1 →
      HeapValid (ps.foldl (clipStep op) acc).2.1 := by
    intro ps
    induction ps with
    | nil => intro acc h; exact h
    | cons p ps ih =>
      intro acc h
      simp only [List.foldl_cons]
      apply ih
      unfold clipStep
      exact processPolygon_valid false _ _ (acc.2.1, acc.2.2) p h
  apply hclip
  apply hsub
  intro x hx
  simp at hx

end Gbo
