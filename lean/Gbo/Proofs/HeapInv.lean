import Gbo.Model.Heap
/-
  std::collections::BinaryHeap as modelled in `Gbo.Model.Heap` (sift_up, sift_down_to_bottom with a hole):
  for a comparison that is a total preorder on the elements in use, `push` and `pop` keep the heap
  invariant and the contents (as a multiset), and `pop` returns a greatest element.
-/
namespace Gbo.Heap

variable (le : Nat → Nat → Bool)

def par (i : Nat) : Nat := (i - 1) / 2

/-- `le` is transitive and total on DISTINCT elements satisfying `U`.  (The heap never compares an element
    with itself, and the event order is not reflexive: `cmp e e = Greater`.) -/
structure Pre (U : Nat → Prop) : Prop where
  trans : ∀ a b c, U a → U b → U c → a ≠ b → b ≠ c → a ≠ c → le a b = true → le b c = true → le a c = true
  total : ∀ a b, U a → U b → a ≠ b → le a b = true ∨ le b a = true

/-- `a` is `b` or `a ≤ b`: the reflexive closure used in the invariants -/
def leq (a b : Nat) : Prop := a = b ∨ le a b = true

theorem leq_trans {U : Nat → Prop} (hpre : Pre le U) {a b c : Nat} (ha : U a) (hb : U b) (hc : U c)
    (h1 : leq le a b) (h2 : leq le b c) : leq le a c := by
  by_cases hac : a = c
  · exact Or.inl hac
  · rcases h1 with h1 | h1
    · subst h1; exact h2
    · rcases h2 with h2 | h2
      · subst h2; exact Or.inr h1
      · by_cases hab : a = b
        · subst hab; exact Or.inr h2
        · by_cases hbc : b = c
          · subst hbc; exact Or.inr h1
          · exact Or.inr (hpre.trans a b c ha hb hc hab hbc hac h1 h2)

theorem leq_of_not_le {U : Nat → Prop} (hpre : Pre le U) {a b : Nat} (ha : U a) (hb : U b)
    (h : ¬ le a b = true) : leq le b a := by
  by_cases hab : b = a
  · exact Or.inl hab
  · rcases hpre.total a b ha hb (Ne.symm hab) with h' | h'
    · exact absurd h' h
    · exact Or.inr h'

def AllIn (U : Nat → Prop) (d : Array Nat) : Prop := ∀ i, i < d.size → U d[i]!

/-- the binary-heap invariant: every element is `≤` its parent -/
def IsHeap (d : Array Nat) : Prop := ∀ i, 0 < i → i < d.size → leq le d[i]! d[par i]!

theorem par_lt {i : Nat} (h : 0 < i) : par i < i := by unfold par; omega

theorem get_set (d : Array Nat) (i j v : Nat) :
    (d.set! i v)[j]! = if i = j ∧ j < d.size then v else d[j]! := by
  by_cases hj : j < d.size
  · by_cases hij : i = j
    · subst hij; simp [hj]
    · simp [hij, hj]
  · simp [hj]

theorem get_set_eq (d : Array Nat) (i v : Nat) (h : i < d.size) : (d.set! i v)[i]! = v := by
  rw [get_set]; simp [h]

theorem get_set_ne (d : Array Nat) (i j v : Nat) (h : i ≠ j) : (d.set! i v)[j]! = d[j]! := by
  rw [get_set]; simp [h]

theorem size_set (d : Array Nat) (i v : Nat) : (d.set! i v).size = d.size := by simp

theorem count_set_add (d : Array Nat) (i v x : Nat) (hi : i < d.size) :
    (d.set! i v).count x + (if d[i]! = x then 1 else 0) = d.count x + (if v = x then 1 else 0) := by
  have hset : d.set! i v = d.set i v hi := by simp [Array.set!, Array.setIfInBounds, hi]
  rw [hset, Array.count_set hi]
  have hget : d[i]! = d[i] := by simp [hi]
  rw [hget]
  by_cases hx : d[i] = x
  · have hmem : x ∈ d := by rw [← hx]; exact Array.getElem_mem hi
    have hpos : 0 < d.count x := Array.count_pos_iff.mpr hmem
    simp only [hx, beq_self_eq_true, if_true]
    by_cases hv : v = x
    · simp [hv]; omega
    · simp [hv]; omega
  · have : (d[i] == x) = false := by simpa using hx
    simp only [this, hx, if_false]
    by_cases hv : v = x
    · simp [hv]
    · simp [hv]

theorem allIn_set {U : Nat → Prop} (d : Array Nat) (i v : Nat) (h : AllIn U d) (hv : U v) : AllIn U (d.set! i v) := by
  intro j hj
  rw [size_set] at hj
  rw [get_set]
  split
  · exact hv
  · exact h j hj

theorem siftUpLoop_succ (elt fuel : Nat) (d : Array Nat) (pos : Nat) :
    siftUpLoop le elt (fuel + 1) d pos =
      if pos > 0 then
        (if le elt d[par pos]! then d.set! pos elt else siftUpLoop le elt fuel (d.set! pos d[par pos]!) (par pos))
      else d.set! pos elt := rfl

/-- invariant of the `sift_up` loop: the hole is at `pos`, `elt` is the element held out -/
structure UpInv (d : Array Nat) (pos elt : Nat) : Prop where
  pos_lt : pos < d.size
  edges : ∀ i, 0 < i → i < d.size → i ≠ pos → leq le d[i]! d[par i]!
  kids : ∀ c, 0 < c → c < d.size → par c = pos → leq le d[c]! elt
  grand : 0 < pos → ∀ c, 0 < c → c < d.size → par c = pos → leq le d[c]! d[par pos]!

theorem siftUpLoop_spec {U : Nat → Prop} (hpre : Pre le U) (elt : Nat) (hU : U elt) :
    ∀ (fuel : Nat) (d : Array Nat) (pos : Nat), pos < fuel → AllIn U d → UpInv le d pos elt →
      IsHeap le (siftUpLoop le elt fuel d pos) ∧ AllIn U (siftUpLoop le elt fuel d pos) ∧
      (siftUpLoop le elt fuel d pos).size = d.size ∧
      ∀ v, (siftUpLoop le elt fuel d pos).count v = (d.set! pos elt).count v := by
  intro fuel
  induction fuel with
  | zero => intro d pos h; omega
  | succ fuel ih =>
    intro d pos hf hall inv
    have hposn := inv.pos_lt
    -- placing `elt` at `pos` when it is `≤` the parent (or there is no parent)
    have place : (pos = 0 ∨ le elt d[par pos]! = true) →
        IsHeap le (d.set! pos elt) ∧ AllIn U (d.set! pos elt) ∧ (d.set! pos elt).size = d.size ∧
        ∀ v, (d.set! pos elt).count v = (d.set! pos elt).count v := by
      intro hc
      refine ⟨?_, allIn_set d pos elt hall hU, size_set _ _ _, fun _ => rfl⟩
      intro i hi0 hin
      rw [size_set] at hin
      by_cases hip : i = pos
      · subst hip
        rw [get_set_eq _ _ _ hposn, get_set_ne _ _ _ _ (by have := par_lt hi0; omega)]
        rcases hc with h0 | h1
        · omega
        · exact Or.inr h1
      · rw [get_set_ne _ _ _ _ (Ne.symm hip)]
        by_cases hpp : par i = pos
        · rw [hpp, get_set_eq _ _ _ hposn]
          exact inv.kids i hi0 hin hpp
        · rw [get_set_ne _ _ _ _ (Ne.symm hpp)]
          exact inv.edges i hi0 hin hip
    rw [siftUpLoop_succ]
    split
    · rename_i hp0
      split
      · rename_i hle
        exact place (Or.inr hle)
      · rename_i hle
        -- move the parent down and continue at the parent
        have hq : par pos < pos := par_lt hp0
        have hqn : par pos < d.size := by omega
        have hUq : U d[par pos]! := hall _ hqn
        have hqe : leq le d[par pos]! elt := leq_of_not_le le hpre hU hUq hle
        have hall' : AllIn U (d.set! pos d[par pos]!) := allIn_set d pos _ hall hUq
        have inv' : UpInv le (d.set! pos d[par pos]!) (par pos) elt := by
          refine ⟨by rw [size_set]; exact hqn, ?_, ?_, ?_⟩
          · intro i hi0 hin hiq
            rw [size_set] at hin
            by_cases hip : i = pos
            · subst hip
              rw [get_set_eq _ _ _ hposn, get_set_ne _ _ _ _ (by omega)]
              exact Or.inl rfl
            · rw [get_set_ne _ _ _ _ (Ne.symm hip)]
              by_cases hpp : par i = pos
              · rw [hpp, get_set_eq _ _ _ hposn]
                exact inv.grand hp0 i hi0 hin hpp
              · rw [get_set_ne _ _ _ _ (Ne.symm hpp)]
                exact inv.edges i hi0 hin hip
          · intro c hc0 hcn hcp
            rw [size_set] at hcn
            by_cases hcpos : c = pos
            · subst hcpos
              rw [get_set_eq _ _ _ hposn]; exact hqe
            · rw [get_set_ne _ _ _ _ (Ne.symm hcpos)]
              have h1 := inv.edges c hc0 hcn hcpos
              rw [hcp] at h1
              exact leq_trans le hpre (hall c hcn) hUq hU h1 hqe
          · intro hq0 c hc0 hcn hcp
            rw [size_set] at hcn
            have hqq : par (par pos) < par pos := par_lt hq0
            rw [get_set_ne _ _ _ _ (by omega : pos ≠ par (par pos))]
            have hqpar := inv.edges (par pos) hq0 hqn (by omega)
            by_cases hcpos : c = pos
            · subst hcpos
              rw [get_set_eq _ _ _ hposn]; exact hqpar
            · rw [get_set_ne _ _ _ _ (Ne.symm hcpos)]
              have h1 := inv.edges c hc0 hcn hcpos
              rw [hcp] at h1
              exact leq_trans le hpre (hall c hcn) hUq (hall _ (by omega)) h1 hqpar
        obtain ⟨r1, r2, r3, r4⟩ := ih (d.set! pos d[par pos]!) (par pos) (by omega) hall' inv'
        refine ⟨r1, r2, by rw [r3, size_set], ?_⟩
        intro v
        rw [r4 v]
        -- multiset bookkeeping
        have c1 := count_set_add (d.set! pos d[par pos]!) (par pos) elt v (by rw [size_set]; exact hqn)
        rw [get_set_ne _ _ _ _ (by omega : pos ≠ par pos)] at c1
        have c2 := count_set_add d pos d[par pos]! v hposn
        have c3 := count_set_add d pos elt v hposn
        omega
    · rename_i hp0
      exact place (Or.inl (by omega))

theorem get_push_lt (d : Array Nat) (x i : Nat) (h : i < d.size) : (d.push x)[i]! = d[i]! := by
  simp [getElem!_pos, h, Nat.lt_succ_of_lt h, Array.getElem_push]

theorem get_push_eq (d : Array Nat) (x : Nat) : (d.push x)[d.size]! = x := by
  simp [getElem!_pos]

/-- `push` keeps the heap invariant and adds exactly `x` -/
theorem push_spec {U : Nat → Prop} (hpre : Pre le U) (d : Array Nat) (x : Nat) (hU : U x) (hall : AllIn U d)
    (hheap : IsHeap le d) :
    IsHeap le (push le d x) ∧ AllIn U (push le d x) ∧ (push le d x).size = d.size + 1 ∧
    ∀ v, (push le d x).count v = d.count v + (if x = v then 1 else 0) := by
  unfold push siftUp
  rw [get_push_eq]
  have hall' : AllIn U (d.push x) := by
    intro i hi
    by_cases h : i < d.size
    · rw [get_push_lt _ _ _ h]; exact hall i h
    · have : i = d.size := by simp at hi; omega
      subst this; rw [get_push_eq]; exact hU
  have inv : UpInv le (d.push x) d.size x := by
    refine ⟨by simp, ?_, ?_, ?_⟩
    · intro i hi0 hin hne
      have hi : i < d.size := by simp at hin; omega
      rw [get_push_lt _ _ _ hi, get_push_lt _ _ _ (by have := par_lt hi0; omega)]
      exact hheap i hi0 hi
    · intro c hc0 hcn hcp
      simp at hcn
      unfold par at hcp; omega
    · intro _ c hc0 hcn hcp
      simp at hcn
      unfold par at hcp; omega
  obtain ⟨r1, r2, r3, r4⟩ := siftUpLoop_spec le hpre x hU (d.size + 1) (d.push x) d.size (by omega) hall' inv
  refine ⟨r1, r2, by rw [r3]; simp, ?_⟩
  intro v
  rw [r4 v]
  have c1 := count_set_add (d.push x) d.size x v (by simp)
  rw [get_push_eq] at c1
  have c2 : (d.push x).count v = d.count v + (if x = v then 1 else 0) := by
    rw [Array.count_push]
    by_cases hxv : x = v <;> simp [hxv]
  omega

/-- the greater of the two children of `pos` (the right one on ties), as `sift_down_to_bottom` picks it -/
def bigChild (d : Array Nat) (pos : Nat) : Nat :=
  if le d[2 * pos + 1]! d[2 * pos + 1 + 1]! then 2 * pos + 1 + 1 else 2 * pos + 1

theorem siftDownLoop_succ (endd fuel : Nat) (d : Array Nat) (pos : Nat) :
    siftDownLoop le endd (fuel + 1) d pos =
      if 2 * pos + 1 ≤ endd - 2 ∧ endd ≥ 2 then
        siftDownLoop le endd fuel (d.set! pos d[bigChild le d pos]!) (bigChild le d pos)
      else if 2 * pos + 1 = endd - 1 ∧ endd ≥ 1 then (d.set! pos d[2 * pos + 1]!, 2 * pos + 1)
      else (d, pos) := rfl

/-- invariant of the `sift_down_to_bottom` loop: the hole is at `pos`; every parent edge holds except the
    edges from the children of the hole -/
structure DownInv (d : Array Nat) (pos : Nat) : Prop where
  pos_lt : pos < d.size
  edges : ∀ i, 0 < i → i < d.size → par i ≠ pos → leq le d[i]! d[par i]!
  grand : 0 < pos → ∀ c, 0 < c → c < d.size → par c = pos → leq le d[c]! d[par pos]!

theorem child_cases {i pos : Nat} (h0 : 0 < i) (h : par i = pos) : i = 2 * pos + 1 ∨ i = 2 * pos + 2 := by
  unfold par at h; omega

theorem par_child1 (pos : Nat) : par (2 * pos + 1) = pos := by unfold par; omega
theorem par_child2 (pos : Nat) : par (2 * pos + 2) = pos := by unfold par; omega

theorem count_move (d : Array Nat) (pos c elt v : Nat) (hp : pos < d.size) (hc : c < d.size) (hne : pos ≠ c) :
    ((d.set! pos d[c]!).set! c elt).count v = (d.set! pos elt).count v := by
  have c1 := count_set_add (d.set! pos d[c]!) c elt v (by rw [size_set]; exact hc)
  rw [get_set_ne _ _ _ _ hne] at c1
  have c2 := count_set_add d pos d[c]! v hp
  have c3 := count_set_add d pos elt v hp
  omega

theorem siftDownLoop_spec {U : Nat → Prop} (hpre : Pre le U) (n : Nat) :
    ∀ (fuel : Nat) (d : Array Nat) (pos : Nat), d.size = n → n ≤ fuel + pos → AllIn U d → DownInv le d pos →
      IsHeap le (siftDownLoop le n fuel d pos).1 ∧ AllIn U (siftDownLoop le n fuel d pos).1 ∧
      (siftDownLoop le n fuel d pos).1.size = n ∧ (siftDownLoop le n fuel d pos).2 < n ∧
      n ≤ 2 * (siftDownLoop le n fuel d pos).2 + 1 ∧
      ∀ elt v, ((siftDownLoop le n fuel d pos).1.set! (siftDownLoop le n fuel d pos).2 elt).count v =
        (d.set! pos elt).count v := by
  intro fuel
  induction fuel with
  | zero =>
    intro d pos hn hf _ inv
    have := inv.pos_lt
    omega
  | succ fuel ih =>
    intro d pos hn hf hall inv
    have hposn : pos < d.size := inv.pos_lt
    rw [siftDownLoop_succ]
    split
    · -- two children: move the greater one up
      rename_i h2
      have hc1 : 2 * pos + 1 < d.size := by omega
      have hc2 : 2 * pos + 2 < d.size := by omega
      have hbc : bigChild le d pos = 2 * pos + 1 ∨ bigChild le d pos = 2 * pos + 2 := by
        unfold bigChild; split <;> simp
      have hcn : bigChild le d pos < d.size := by rcases hbc with h | h <;> omega
      have hcpar : par (bigChild le d pos) = pos := by
        rcases hbc with h | h
        · rw [h, par_child1]
        · rw [h, par_child2]
      have hcpos : pos ≠ bigChild le d pos := by rcases hbc with h | h <;> omega
      have hUc : U d[bigChild le d pos]! := hall _ hcn
      -- both children are `≤` the chosen one
      have hbig : ∀ i, 0 < i → i < d.size → par i = pos → leq le d[i]! d[bigChild le d pos]! := by
        intro i hi0 hin hip
        have hU1 := hall _ hc1
        have hU2 := hall _ hc2
        rcases child_cases hi0 hip with h | h
        · subst h
          unfold bigChild
          split
          · rename_i hle; exact Or.inr hle
          · exact Or.inl rfl
        · subst h
          unfold bigChild
          split
          · exact Or.inl rfl
          · rename_i hle
            exact leq_of_not_le le hpre hU1 hU2 hle
      have hall' : AllIn U (d.set! pos d[bigChild le d pos]!) := allIn_set d pos _ hall hUc
      have inv' : DownInv le (d.set! pos d[bigChild le d pos]!) (bigChild le d pos) := by
        refine ⟨by rw [size_set]; exact hcn, ?_, ?_⟩
        · intro i hi0 hin hpc
          rw [size_set] at hin
          by_cases hip : i = pos
          · subst hip
            rw [get_set_eq _ _ _ hposn, get_set_ne _ _ _ _ (by have := par_lt hi0; omega)]
            exact inv.grand hi0 _ (by omega) hcn hcpar
          · rw [get_set_ne _ _ _ _ (Ne.symm hip)]
            by_cases hpp : par i = pos
            · rw [hpp, get_set_eq _ _ _ hposn]
              exact hbig i hi0 hin hpp
            · rw [get_set_ne _ _ _ _ (Ne.symm hpp)]
              exact inv.edges i hi0 hin hpp
        · intro _ g hg0 hgn hgp
          rw [size_set] at hgn
          have hgpos : g ≠ pos := by
            have := par_lt hg0
            omega
          rw [get_set_ne _ _ _ _ (Ne.symm hgpos), hcpar, get_set_eq _ _ _ hposn]
          have := inv.edges g hg0 hgn (by omega)
          rw [hgp] at this
          exact this
      obtain ⟨r1, r2, r3, r4, r5, r6⟩ := ih (d.set! pos d[bigChild le d pos]!) (bigChild le d pos)
        (by rw [size_set]; exact hn) (by omega) hall' inv'
      refine ⟨r1, r2, r3, r4, r5, ?_⟩
      intro elt v
      rw [r6 elt v]
      exact count_move d pos _ elt v hposn hcn hcpos
    · split
      · -- one child, which is the last element
        rename_i _ h1
        have hc1 : 2 * pos + 1 < d.size := by omega
        have hUc : U d[2 * pos + 1]! := hall _ hc1
        refine ⟨?_, allIn_set d pos _ hall hUc, by rw [size_set]; exact hn, by omega, by omega, ?_⟩
        · intro i hi0 hin
          rw [size_set] at hin
          by_cases hip : i = pos
          · subst hip
            rw [get_set_eq _ _ _ hposn, get_set_ne _ _ _ _ (by have := par_lt hi0; omega)]
            exact inv.grand hi0 _ (by omega) hc1 (par_child1 _)
          · rw [get_set_ne _ _ _ _ (Ne.symm hip)]
            by_cases hpp : par i = pos
            · rw [hpp, get_set_eq _ _ _ hposn]
              rcases child_cases hi0 hpp with h | h
              · subst h; exact Or.inl rfl
              · omega
            · rw [get_set_ne _ _ _ _ (Ne.symm hpp)]
              exact inv.edges i hi0 hin hpp
        · intro elt v
          exact count_move d pos _ elt v hposn hc1 (by omega)
      · -- no child
        rename_i h2 h1
        refine ⟨?_, hall, hn, by omega, by omega, fun _ _ => rfl⟩
        intro i hi0 hin
        have hin' : i < d.size := hin
        by_cases hpp : par i = pos
        · rcases child_cases hi0 hpp with h | h <;> omega
        · exact inv.edges i hi0 hin' hpp

/-- `sift_down_to_bottom(0)` on an array that is a heap except for its root restores the heap and keeps
    the contents -/
theorem siftDownToBottom_spec {U : Nat → Prop} (hpre : Pre le U) (d : Array Nat) (hall : AllIn U d)
    (inv : DownInv le d 0) :
    IsHeap le (siftDownToBottom le d) ∧ AllIn U (siftDownToBottom le d) ∧ (siftDownToBottom le d).size = d.size ∧
    ∀ v, (siftDownToBottom le d).count v = d.count v := by
  have hpos : 0 < d.size := inv.pos_lt
  obtain ⟨r1, r2, r3, r4, r5, r6⟩ := siftDownLoop_spec le hpre d.size d.size d 0 rfl (by omega) hall inv
  unfold siftDownToBottom
  generalize hr : siftDownLoop le d.size d.size d 0 = r at r1 r2 r3 r4 r5 r6
  obtain ⟨d', pos⟩ := r
  simp only at r1 r2 r3 r4 r5 r6 ⊢
  have hU0 : U d[0]! := hall 0 hpos
  have upinv : UpInv le d' pos d[0]! := by
    refine ⟨by omega, fun i hi0 hin _ => r1 i hi0 hin, ?_, ?_⟩
    · intro c hc0 hcn hcp
      rcases child_cases hc0 hcp with h | h <;> omega
    · intro _ c hc0 hcn hcp
      rcases child_cases hc0 hcp with h | h <;> omega
  obtain ⟨s1, s2, s3, s4⟩ := siftUpLoop_spec le hpre d[0]! hU0 (pos + 1) d' pos (by omega) r2 upinv
  refine ⟨s1, s2, by rw [s3, r3], ?_⟩
  intro v
  rw [s4 v, r6 d[0]! v]
  have c1 := count_set_add d 0 d[0]! v hpos
  omega

/-- the root of a heap is a greatest element -/
theorem root_is_max {U : Nat → Prop} (hpre : Pre le U) (d : Array Nat) (hall : AllIn U d) (hheap : IsHeap le d) :
    ∀ i, i < d.size → leq le d[i]! d[0]! := by
  intro i
  induction i using Nat.strongRecOn with
  | _ i ih =>
    intro hin
    by_cases hi0 : i = 0
    · subst hi0; exact Or.inl rfl
    · have hi0' : 0 < i := Nat.pos_of_ne_zero hi0
      have hp := par_lt hi0'
      have h1 := hheap i hi0' hin
      have h2 := ih (par i) hp (by omega)
      exact leq_trans le hpre (hall i hin) (hall _ (by omega)) (hall 0 (by omega)) h1 h2

theorem get_pop (d : Array Nat) (i : Nat) (h : i < d.size - 1) : d.pop[i]! = d[i]! := by
  have h1 : i < d.pop.size := by simp; exact h
  have h2 : i < d.size := by omega
  rw [getElem!_pos d.pop i h1, getElem!_pos d i h2, Array.getElem_pop]

theorem count_pop (d : Array Nat) (h : 0 < d.size) (v : Nat) :
    d.pop.count v + (if d[d.size - 1]! = v then 1 else 0) = d.count v := by
  have hd : d = d.pop.push d[d.size - 1]! :=
    Array.eq_push_pop_back!_of_size_ne_zero (by omega)
  conv => rhs; rw [hd]
  rw [Array.count_push]
  by_cases hv : d[d.size - 1]! = v <;> simp [hv]

theorem pop_none_iff (d : Array Nat) : pop le d = none ↔ d.size = 0 := by
  unfold pop
  constructor
  · intro h
    by_cases h0 : d.size = 0
    · exact h0
    · simp only [h0, if_false] at h
      split at h <;> simp at h
  · intro h; simp [h]

/-- `pop` on a heap returns a greatest element, leaves a heap, and removes exactly that element -/
theorem pop_spec {U : Nat → Prop} (hpre : Pre le U) (d : Array Nat) (hall : AllIn U d) (hheap : IsHeap le d)
    (top : Nat) (d' : Array Nat) (h : pop le d = some (top, d')) :
    (∀ i, i < d.size → leq le d[i]! top) ∧ IsHeap le d' ∧ AllIn U d' ∧ d'.size + 1 = d.size ∧
    ∀ v, d'.count v + (if top = v then 1 else 0) = d.count v := by
  unfold pop at h
  by_cases h0 : d.size = 0
  · simp [h0] at h
  · simp only [h0, if_false] at h
    have hpos : 0 < d.size := Nat.pos_of_ne_zero h0
    have hmax := root_is_max le hpre d hall hheap
    by_cases h1 : d.pop.size = 0
    · -- a single element
      simp only [h1, if_true, Option.some.injEq, Prod.mk.injEq] at h
      obtain ⟨ht, hd⟩ := h
      have hsz : d.size = 1 := by simp at h1; omega
      have htop : top = d[0]! := by rw [← ht, hsz]
      subst hd
      refine ⟨?_, ?_, ?_, by simp; omega, ?_⟩
      · intro i hi; rw [htop]; exact hmax i hi
      · intro i hi0 hin; simp at hin; omega
      · intro i hin; simp at hin; omega
      · intro v
        have := count_pop d hpos v
        rw [ht] at this
        exact this
    · simp only [h1, if_false, Option.some.injEq, Prod.mk.injEq] at h
      obtain ⟨ht, hd⟩ := h
      have hsz : 2 ≤ d.size := by simp at h1; omega
      have htop : top = d[0]! := by rw [← ht, get_pop d 0 (by omega)]
      have hpsz : d.pop.size = d.size - 1 := by simp
      -- the array handed to sift_down_to_bottom: the last element at the root
      have hall2 : AllIn U (d.pop.set! 0 d[d.size - 1]!) := by
        apply allIn_set
        · intro i hi; rw [hpsz] at hi; rw [get_pop d i hi]; exact hall i (by omega)
        · exact hall _ (by omega)
      have inv : DownInv le (d.pop.set! 0 d[d.size - 1]!) 0 := by
        refine ⟨by rw [size_set, hpsz]; omega, ?_, fun h => absurd h (Nat.lt_irrefl 0)⟩
        intro i hi0 hin hp
        rw [size_set, hpsz] at hin
        have hpl := par_lt hi0
        rw [get_set_ne _ _ _ _ (by omega), get_set_ne _ _ _ _ (Ne.symm hp), get_pop d i hin, get_pop d _ (by omega)]
        exact hheap i hi0 (by omega)
      obtain ⟨r1, r2, r3, r4⟩ := siftDownToBottom_spec le hpre _ hall2 inv
      rw [hd] at r1 r2 r3 r4
      refine ⟨?_, r1, r2, by rw [r3, size_set, hpsz]; omega, ?_⟩
      · intro i hi; rw [htop]; exact hmax i hi
      · intro v
        rw [r4 v]
        have c1 := count_set_add d.pop 0 d[d.size - 1]! v (by rw [hpsz]; omega)
        rw [get_pop d 0 (by omega)] at c1
        have c2 := count_pop d hpos v
        rw [htop]
        omega

end Gbo.Heap
