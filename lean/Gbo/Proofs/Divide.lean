import Mathlib.Tactic.Linarith
import Mathlib.Tactic.Ring
import Mathlib.Tactic.FieldSimp
import Mathlib.Tactic.Positivity
import Gbo.Proofs.Isect
import Gbo.Model.Sweep
/-
  `divide_segment`: what it does to the arena, and why the two pieces are exactly the old segment when the
  division point lies on it.
-/
namespace Gbo

/-- a point on a segment splits it into two segments whose union is the segment -/
theorem OnSegP_split (m a b x : Pt) (hm : OnSegP m a b) :
    OnSegP x a b ↔ (OnSegP x a m ∨ OnSegP x m b) := by
  obtain ⟨s, hs0, hs1, hmx, hmy⟩ := hm
  constructor
  · rintro ⟨u, hu0, hu1, hx, hy⟩
    by_cases hus : u ≤ s
    · left
      by_cases hs : s = 0
      · refine ⟨0, le_refl _, by norm_num, ?_, ?_⟩
        · have : u = 0 := le_antisymm (hs ▸ hus) hu0
          rw [hx, this]; ring
        · have : u = 0 := le_antisymm (hs ▸ hus) hu0
          rw [hy, this]; ring
      · have hspos : 0 < s := lt_of_le_of_ne hs0 (Ne.symm hs)
        refine ⟨u / s, div_nonneg hu0 hs0, (div_le_one hspos).mpr hus, ?_, ?_⟩
        · rw [hx, hmx]; field_simp; ring
        · rw [hy, hmy]; field_simp; ring
    · right
      have hlt : s < u := lt_of_not_ge hus
      have h1s : 0 < 1 - s := by linarith
      refine ⟨(u - s) / (1 - s), div_nonneg (by linarith) (le_of_lt h1s), (div_le_one h1s).mpr (by linarith), ?_, ?_⟩
      · rw [hx, hmx]; field_simp; ring
      · rw [hy, hmy]; field_simp; ring
  · rintro (⟨t, ht0, ht1, hx, hy⟩ | ⟨t, ht0, ht1, hx, hy⟩)
    · refine ⟨t * s, mul_nonneg ht0 hs0, ?_, ?_, ?_⟩
      · calc t * s ≤ 1 * 1 := mul_le_mul ht1 hs1 hs0 (by norm_num)
          _ = 1 := by norm_num
      · rw [hx, hmx]; ring
      · rw [hy, hmy]; ring
    · refine ⟨s + t * (1 - s), ?_, ?_, ?_, ?_⟩
      · have : 0 ≤ t * (1 - s) := mul_nonneg ht0 (by linarith)
        linarith
      · have : t * (1 - s) ≤ 1 * (1 - s) := mul_le_mul_of_nonneg_right ht1 (by linarith)
        linarith
      · rw [hx, hmx]; ring
      · rw [hy, hmy]; ring

end Gbo

namespace Gbo

theorem get!_modify (a : Array Ev) (i j : Nat) (f : Ev → Ev) :
    (a.modify i f)[j]! = if i = j ∧ j < a.size then f a[j]! else a[j]! := by
  by_cases hj : j < a.size
  · simp [getElem!_pos, hj, Array.getElem_modify]
  · simp [getElem!_neg, hj]

theorem get!_push_lt (a : Array Ev) (x : Ev) (j : Nat) (hj : j < a.size) : (a.push x)[j]! = a[j]! := by
  simp [getElem!_pos, hj, Array.getElem_push, Nat.lt_succ_of_lt hj]

theorem get!_push_eq (a : Array Ev) (x : Ev) : (a.push x)[a.size]! = x := by
  simp [getElem!_pos]

theorem dividePush_size (a : Arena) (seL seR : Nat) (inter : Pt) : (dividePush a seL seR inter).size = a.size + 2 := by
  simp [dividePush]

theorem dividePush_old (a : Arena) (seL seR : Nat) (inter : Pt) (i : Nat) (hi : i < a.size) :
    (dividePush a seL seR inter)[i]! = a[i]! := by
  unfold dividePush
  rw [get!_push_lt _ _ _ (by simp; omega), get!_push_lt _ _ _ hi]

theorem dividePush_fst (a : Arena) (seL seR : Nat) (inter : Pt) :
    (dividePush a seL seR inter)[a.size]!.point = inter ∧ (dividePush a seL seR inter)[a.size]!.other = some seL := by
  unfold dividePush
  rw [get!_push_lt _ _ _ (by simp), get!_push_eq]
  exact ⟨rfl, rfl⟩

theorem get!_push2_snd (a : Array Ev) (x y : Ev) : ((a.push x).push y)[a.size + 1]! = y := by
  have h := get!_push_eq (a.push x) y
  simpa using h

theorem dividePush_snd (a : Arena) (seL seR : Nat) (inter : Pt) :
    (dividePush a seL seR inter)[a.size + 1]!.point = inter ∧ (dividePush a seL seR inter)[a.size + 1]!.other = some seR := by
  unfold dividePush
  simp only [get!_push2_snd]
  trivial

theorem get!_modify_ne (a : Array Ev) (i j : Nat) (f : Ev → Ev) (h : i ≠ j) : (a.modify i f)[j]! = a[j]! := by
  rw [get!_modify]; simp [h]

theorem get!_modify_point (a : Array Ev) (i j : Nat) (f : Ev → Ev) (hf : ∀ e, (f e).point = e.point) :
    (a.modify i f)[j]!.point = a[j]!.point := by
  rw [get!_modify]; split <;> simp [hf]

theorem get!_modify_other_keep (a : Array Ev) (i j : Nat) (f : Ev → Ev) (hf : ∀ e, (f e).other = e.other) :
    (a.modify i f)[j]!.other = a[j]!.other := by
  rw [get!_modify]; split <;> simp [hf]

theorem get!_modify_other_set (a : Array Ev) (i : Nat) (f : Ev → Ev) (o : Option Nat) (hf : ∀ e, (f e).other = o)
    (hi : i < a.size) : (a.modify i f)[i]!.other = o := by
  rw [get!_modify]; simp [hi, hf]

theorem modify_left_point (a : Array Ev) (i j : Nat) (b : Bool) :
    (a.modify i (fun ev => { ev with left := b }))[j]!.point = a[j]!.point :=
  get!_modify_point a i j (fun ev => { ev with left := b }) (fun _ => rfl)

theorem modify_left_other (a : Array Ev) (i j : Nat) (b : Bool) :
    (a.modify i (fun ev => { ev with left := b }))[j]!.other = a[j]!.other :=
  get!_modify_other_keep a i j (fun ev => { ev with left := b }) (fun _ => rfl)

theorem modify_other_point (a : Array Ev) (i j : Nat) (o : Option Nat) :
    (a.modify i (fun ev => { ev with other := o }))[j]!.point = a[j]!.point :=
  get!_modify_point a i j (fun ev => { ev with other := o }) (fun _ => rfl)

theorem modify_other_set (a : Array Ev) (i : Nat) (o : Option Nat) (hi : i < a.size) :
    (a.modify i (fun ev => { ev with other := o }))[i]!.other = o :=
  get!_modify_other_set a i (fun ev => { ev with other := o }) o (fun _ => rfl) hi

/-- the left/right swap stage touches neither points nor pairings -/
def swapStage (b : Arena) (li seR : Nat) : Arena :=
  if !isBefore b li seR then
    (b.modify seR (fun ev => { ev with left := true })).modify li (fun ev => { ev with left := false })
  else b

theorem swapStage_spec (b : Arena) (li seR : Nat) :
    (swapStage b li seR).size = b.size ∧
    ∀ j : Nat, (swapStage b li seR)[j]!.point = b[j]!.point ∧ (swapStage b li seR)[j]!.other = b[j]!.other := by
  unfold swapStage
  split
  · refine ⟨by simp, fun j => ⟨?_, ?_⟩⟩
    · rw [modify_left_point, modify_left_point]
    · rw [modify_left_other, modify_left_other]
  · exact ⟨rfl, fun j => ⟨rfl, rfl⟩⟩

theorem divideArena_eq (a : Arena) (seL seR : Nat) (inter : Pt) :
    divideArena a seL seR inter =
      ((swapStage (dividePush a seL seR inter) (a.size + 1) seR).modify seL (fun ev => { ev with other := some a.size })).modify
        seR (fun ev => { ev with other := some (a.size + 1) }) := rfl

/-- the arena after `divide_segment(se_l, inter)`: two events at `inter` are appended; the old left event is
    now paired with the new right event, the new left event with the old right event; all points of old
    events and all other pairings are unchanged -/
theorem divideArena_spec (a : Arena) (seL seR : Nat) (inter : Pt)
    (hL : seL < a.size) (hR : seR < a.size) (hne : seL ≠ seR) :
    (divideArena a seL seR inter).size = a.size + 2 ∧
    (∀ i, i < a.size → (divideArena a seL seR inter)[i]!.point = a[i]!.point) ∧
    (divideArena a seL seR inter)[a.size]!.point = inter ∧ (divideArena a seL seR inter)[a.size + 1]!.point = inter ∧
    (divideArena a seL seR inter)[seL]!.other = some a.size ∧ (divideArena a seL seR inter)[a.size]!.other = some seL ∧
    (divideArena a seL seR inter)[seR]!.other = some (a.size + 1) ∧ (divideArena a seL seR inter)[a.size + 1]!.other = some seR ∧
    (∀ i, i < a.size → i ≠ seL → i ≠ seR → (divideArena a seL seR inter)[i]!.other = a[i]!.other) := by
  have hsz := dividePush_size a seL seR inter
  have hold := dividePush_old a seL seR inter
  obtain ⟨hf1, hf2⟩ := dividePush_fst a seL seR inter
  obtain ⟨hs1, hs2⟩ := dividePush_snd a seL seR inter
  rw [divideArena_eq]
  obtain ⟨hcs, hc⟩ := swapStage_spec (dividePush a seL seR inter) (a.size + 1) seR
  generalize swapStage (dividePush a seL seR inter) (a.size + 1) seR = c at *
  have hpt : ∀ j : Nat, ((c.modify seL (fun ev => { ev with other := some a.size })).modify
        seR (fun ev => { ev with other := some (a.size + 1) }))[j]!.point = c[j]!.point := fun j => by
    rw [modify_other_point, modify_other_point]
  refine ⟨by simp [hcs, hsz], ?_, ?_, ?_, ?_, ?_, ?_, ?_, ?_⟩
  · intro i hi; rw [hpt, (hc i).1, hold i hi]
  · rw [hpt, (hc _).1, hf1]
  · rw [hpt, (hc _).1, hs1]
  · rw [get!_modify_ne _ _ _ _ (Ne.symm hne)]
    exact modify_other_set _ _ _ (by rw [hcs, hsz]; omega)
  · rw [get!_modify_ne _ _ _ _ (by omega), get!_modify_ne _ _ _ _ (by omega), (hc _).2, hf2]
  · exact modify_other_set _ _ _ (by simp [hcs, hsz]; omega)
  · rw [get!_modify_ne _ _ _ _ (by omega), get!_modify_ne _ _ _ _ (by omega), (hc _).2, hs2]
  · intro i hi h1 h2
    rw [get!_modify_ne _ _ _ _ (Ne.symm h2), get!_modify_ne _ _ _ _ (Ne.symm h1), (hc _).2, hold i hi]

/-- under exact arithmetic `divide_segment` never moves the division point (the `nextafter` bump is the
    identity there), so the new arena is `divideArena` at the very point it was given -/
theorem divideSegment_exact_arena (cfg : Cfg) (st st' : SwSt) (seL seR : Nat) (inter : Pt)
    (h : divideSegment Arith.exact cfg st seL inter = .ok st') (hoth : st.arena[seL]!.other = some seR) :
    st'.arena = divideArena st.arena seL seR inter := by
  unfold divideSegment at h
  simp only [hoth, Arith.exact, id] at h
  have hpt : (if inter.x = st.arena[seL]!.point.x ∧ inter.y < st.arena[seL]!.point.y then { inter with x := inter.x } else inter) = inter := by
    split <;> rfl
  simp only [hpt] at h
  split at h
  · simp [throw, throwThe, MonadExceptOf.throw, bind, Except.bind] at h
  · split at h
    · simp [throw, throwThe, MonadExceptOf.throw, bind, Except.bind] at h
    · simp only [pure, Except.pure, Except.ok.injEq] at h
      rw [← h]

end Gbo
