import Mathlib.Tactic.Linarith
import Mathlib.Tactic.Ring
import Gbo.Spec.Region
import Gbo.Props.C02
/-
  A point outside the bounding box of a closed ring is outside the ring (crossing-number membership).
  This is what makes the bounding-box shortcut (`trivial_result`) and the early exits sound.
-/
namespace Gbo.Spec
open Gbo Gbo.Props

theorem parity_all_false' (l : List Bool) (h : ∀ b ∈ l, b = false) : parity l = false :=
  parity_of_all_false l h

theorem memEdges_false_of_all (es : List Seg) (q : Pt) (h : ∀ e ∈ es, edgeBelow q e = false) : memEdges es q = false := by
  unfold memEdges
  apply parity_of_all_false
  intro b hb
  rw [List.mem_map] at hb
  obtain ⟨e, he, rfl⟩ := hb
  exact h e he

theorem mem_of_ringEdges {r : Ring} {e : Seg} (h : e ∈ ringEdges r) : e.1 ∈ r ∧ e.2 ∈ r := by
  induction r with
  | nil => simp [ringEdges] at h
  | cons p rest ih =>
    cases rest with
    | nil => simp [ringEdges] at h
    | cons q rest =>
      simp only [ringEdges, List.mem_cons] at h
      rcases h with rfl | h
      · exact ⟨List.mem_cons_self, List.mem_cons_of_mem _ List.mem_cons_self⟩
      · have := ih h
        exact ⟨List.mem_cons_of_mem _ this.1, List.mem_cons_of_mem _ this.2⟩

/-- the ring lies entirely right of `q` -/
theorem memRing_false_of_left (r : Ring) (q : Pt) (h : ∀ p ∈ r, q.x < p.x) : memRing r q = false := by
  apply memEdges_false_of_all
  intro e he
  obtain ⟨h1, h2⟩ := mem_of_ringEdges he
  unfold edgeBelow
  have a1 := h _ h1
  have a2 := h _ h2
  split_ifs <;> simp <;> intro <;> linarith

/-- the ring lies entirely left of (or on the vertical through) `q` -/
theorem memRing_false_of_right (r : Ring) (q : Pt) (h : ∀ p ∈ r, p.x ≤ q.x) : memRing r q = false := by
  apply memEdges_false_of_all
  intro e he
  obtain ⟨h1, h2⟩ := mem_of_ringEdges he
  unfold edgeBelow
  have a1 := h _ h1
  have a2 := h _ h2
  split_ifs <;> simp <;> intro _ <;> intro <;> linarith

/-- the ring lies entirely above `q` -/
theorem memRing_false_of_below (r : Ring) (q : Pt) (h : ∀ p ∈ r, q.y < p.y) : memRing r q = false := by
  apply memEdges_false_of_all
  intro e he
  obtain ⟨h1, h2⟩ := mem_of_ringEdges he
  have a1 := h _ h1
  have a2 := h _ h2
  unfold edgeBelow orient
  split_ifs with hx
  · simp only [Bool.and_eq_false_imp, Bool.and_eq_true, decide_eq_true_eq, decide_eq_false_iff_not, not_lt, and_imp]
    intro hl hr
    have t1 : (e.1.x - q.x) * (e.2.y - q.y) ≤ 0 := mul_nonpos_of_nonpos_of_nonneg (by linarith) (by linarith)
    have t2 : 0 < (e.1.y - q.y) * (e.2.x - q.x) := mul_pos (by linarith) (by linarith)
    linarith
  · simp only [Bool.and_eq_false_imp, Bool.and_eq_true, decide_eq_true_eq, decide_eq_false_iff_not, not_lt, and_imp]
    intro hl hr
    have t1 : (e.2.x - q.x) * (e.1.y - q.y) ≤ 0 := mul_nonpos_of_nonpos_of_nonneg (by linarith) (by linarith)
    have t2 : 0 < (e.2.y - q.y) * (e.1.x - q.x) := mul_pos (by linarith) (by linarith)
    linarith

/-- which side of the vertical through `q` a vertex is on -/
def sideOf (q p : Pt) : Bool := decide (p.x ≤ q.x)

/-- when the whole ring is below `q`, an edge is counted exactly when its endpoints are on different sides -/
theorem edgeBelow_of_above (q : Pt) (e : Seg) (h1 : e.1.y < q.y) (h2 : e.2.y < q.y) :
    edgeBelow q e = (sideOf q e.1 != sideOf q e.2) := by
  unfold edgeBelow orient sideOf
  split_ifs with hx
  · by_cases hl : e.1.x ≤ q.x <;> by_cases hr : q.x < e.2.x
    · have : (e.1.x - q.x) * (e.2.y - q.y) - (e.1.y - q.y) * (e.2.x - q.x) > 0 := by
        have t1 : 0 ≤ (e.1.x - q.x) * (e.2.y - q.y) := mul_nonneg_of_nonpos_of_nonpos (by linarith) (by linarith)
        have t2 : (e.1.y - q.y) * (e.2.x - q.x) < 0 := mul_neg_of_neg_of_pos (by linarith) (by linarith)
        linarith
      have hr' : ¬ e.2.x ≤ q.x := by linarith
      simp [hl, hr, this, hr']
    · have hr' : e.2.x ≤ q.x := by linarith
      simp [hl, hr, hr']
    · have hr' : ¬ e.2.x ≤ q.x := by linarith
      simp [hl, hr']
    · have : e.2.x ≤ q.x := by linarith
      exfalso; linarith
  · have hx' : e.2.x < e.1.x := by linarith
    by_cases hl : e.2.x ≤ q.x <;> by_cases hr : q.x < e.1.x
    · have : (e.2.x - q.x) * (e.1.y - q.y) - (e.2.y - q.y) * (e.1.x - q.x) > 0 := by
        have t1 : 0 ≤ (e.2.x - q.x) * (e.1.y - q.y) := mul_nonneg_of_nonpos_of_nonpos (by linarith) (by linarith)
        have t2 : (e.2.y - q.y) * (e.1.x - q.x) < 0 := mul_neg_of_neg_of_pos (by linarith) (by linarith)
        linarith
      have hr' : ¬ e.1.x ≤ q.x := by linarith
      simp [hl, hr, this, hr']
    · have hr' : e.1.x ≤ q.x := by linarith
      simp [hl, hr, hr']
    · have hr' : ¬ e.1.x ≤ q.x := by linarith
      simp [hl, hr']
    · have : e.1.x ≤ q.x := by linarith
      exfalso; linarith

/-- along a path, the parity of side changes is the difference between the sides of its two ends -/
theorem parity_side_changes (q : Pt) (r : Ring) (p : Pt) :
    parity ((ringEdges (p :: r)).map (fun e => sideOf q e.1 != sideOf q e.2))
      = (sideOf q p != sideOf q ((p :: r).getLast (by simp))) := by
  induction r generalizing p with
  | nil => simp [ringEdges, parity_nil]
  | cons p2 rest ih =>
    simp only [ringEdges, List.map_cons, parity_cons]
    rw [ih p2]
    have : (p :: p2 :: rest).getLast (by simp) = (p2 :: rest).getLast (by simp) := by simp
    rw [this]
    cases sideOf q p <;> cases sideOf q p2 <;> cases sideOf q ((p2 :: rest).getLast (by simp)) <;> rfl

/-- a closed ring that lies entirely below `q` does not contain `q` -/
theorem memRing_false_of_above (r : Ring) (q : Pt) (hclosed : r.head? = r.getLast?) (h : ∀ p ∈ r, p.y < q.y) :
    memRing r q = false := by
  cases r with
  | nil => rfl
  | cons p rest =>
    unfold memRing memEdges
    have hmap : (ringEdges (p :: rest)).map (edgeBelow q) = (ringEdges (p :: rest)).map (fun e => sideOf q e.1 != sideOf q e.2) := by
      apply List.map_congr_left
      intro e he
      obtain ⟨h1, h2⟩ := mem_of_ringEdges he
      exact edgeBelow_of_above q e (h _ h1) (h _ h2)
    rw [hmap, parity_side_changes]
    have : (p :: rest).getLast (by simp) = p := by
      simp only [List.head?_cons] at hclosed
      have := List.getLast?_eq_getLast (l := p :: rest) (by simp)
      rw [this] at hclosed
      exact (Option.some.inj hclosed).symm
    rw [this]
    cases sideOf q p <;> rfl

/-- **outside the bounding box of a closed ring means outside the ring** -/
theorem memRing_false_outside_box (r : Ring) (q : Pt) (hclosed : r.head? = r.getLast?)
    (hout : (∀ p ∈ r, q.x < p.x) ∨ (∀ p ∈ r, p.x ≤ q.x) ∨ (∀ p ∈ r, q.y < p.y) ∨ (∀ p ∈ r, p.y < q.y)) :
    memRing r q = false := by
  rcases hout with h | h | h | h
  · exact memRing_false_of_left r q h
  · exact memRing_false_of_right r q h
  · exact memRing_false_of_below r q h
  · exact memRing_false_of_above r q hclosed h

end Gbo.Spec
