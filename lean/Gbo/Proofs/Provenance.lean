import Gbo.Proofs.Divide
/-
  Where event points come from: `divide_segment` and `possible_intersection` never change the point of an
  existing event, and every point they add is the point they were given (bumped by `nextafter` in x in corner
  case 1).  For every arithmetic.
-/
namespace Gbo

/-- every event point of the arena satisfies `Q` -/
def PointsIn (a : Arena) (Q : Pt → Prop) : Prop := ∀ i, i < a.size → Q a[i]!.point

/-- the point `divide_segment` really uses: corner case 1 moves it one representable number to the right -/
def bumped (ar : Arith) (a : Arena) (seL : Nat) (inter : Pt) : Pt :=
  if inter.x = a[seL]!.point.x ∧ inter.y < a[seL]!.point.y then { inter with x := ar.nextUp inter.x } else inter

theorem divideArena_size (a : Arena) (seL seR : Nat) (inter : Pt) : (divideArena a seL seR inter).size = a.size + 2 := by
  rw [divideArena_eq]
  simp only [Array.size_modify]
  rw [(swapStage_spec _ _ _).1, dividePush_size]

theorem divideArena_point (a : Arena) (seL seR : Nat) (inter : Pt) (i : Nat) :
    (divideArena a seL seR inter)[i]!.point = (dividePush a seL seR inter)[i]!.point := by
  rw [divideArena_eq, modify_other_point, modify_other_point, ((swapStage_spec _ _ _).2 i).1]

theorem divideArena_points (a : Arena) (seL seR : Nat) (inter : Pt) (i : Nat) (hi : i < a.size + 2) :
    (i < a.size ∧ (divideArena a seL seR inter)[i]!.point = a[i]!.point) ∨ (divideArena a seL seR inter)[i]!.point = inter := by
  rw [divideArena_point]
  by_cases h : i < a.size
  · exact Or.inl ⟨h, by rw [dividePush_old _ _ _ _ _ h]⟩
  · right
    by_cases h1 : i = a.size
    · subst h1; exact (dividePush_fst a seL seR inter).1
    · have : i = a.size + 1 := by omega
      subst this; exact (dividePush_snd a seL seR inter).1

/-- `divide_segment` for every arithmetic: either nothing happens (unlinked event) or the arena becomes
    `divideArena` at the (possibly bumped) point -/
theorem divideSegment_arena (ar : Arith) (cfg : Cfg) (st st' : SwSt) (seL : Nat) (inter : Pt)
    (h : divideSegment ar cfg st seL inter = .ok st') :
    (st.arena[seL]!.other = none ∧ st' = st) ∨
    (∃ seR, st.arena[seL]!.other = some seR ∧ st'.arena = divideArena st.arena seL seR (bumped ar st.arena seL inter)) := by
  unfold divideSegment at h
  cases hoth : st.arena[seL]!.other with
  | none =>
    left
    simp only [hoth] at h
    split at h
    · simp [throw, throwThe, MonadExceptOf.throw, bind, Except.bind] at h
    · simp only [pure, Except.pure, Except.ok.injEq] at h
      exact ⟨rfl, h.symm⟩
  | some seR =>
    right
    refine ⟨seR, rfl, ?_⟩
    simp only [hoth] at h
    split at h
    · simp [throw, throwThe, MonadExceptOf.throw, bind, Except.bind] at h
    · by_cases hb : inter.x = st.arena[seL]!.point.x ∧ inter.y < st.arena[seL]!.point.y
      · have hbu : bumped ar st.arena seL inter = { inter with x := ar.nextUp inter.x } := by
          unfold bumped; rw [if_pos hb]
        rw [hbu]
        simp only [hb, and_self, if_true] at h
        split at h
        · simp [throw, throwThe, MonadExceptOf.throw, bind, Except.bind] at h
        · simp only [pure, Except.pure, Except.ok.injEq] at h
          rw [← h]
          simp [hb.1]
      · have hbu : bumped ar st.arena seL inter = inter := by
          unfold bumped; rw [if_neg hb]
        rw [hbu]
        simp only [hb, if_false] at h
        split at h
        · simp [throw, throwThe, MonadExceptOf.throw, bind, Except.bind] at h
        · simp only [pure, Except.pure, Except.ok.injEq] at h
          rw [← h]

theorem divideSegment_points (ar : Arith) (cfg : Cfg) (st st' : SwSt) (seL : Nat) (inter : Pt) (Q : Pt → Prop)
    (h : divideSegment ar cfg st seL inter = .ok st') (hQ : PointsIn st.arena Q) (hq : Q (bumped ar st.arena seL inter)) :
    PointsIn st'.arena Q ∧ st.arena.size ≤ st'.arena.size ∧
    ∀ i, i < st.arena.size → st'.arena[i]!.point = st.arena[i]!.point := by
  rcases divideSegment_arena ar cfg st st' seL inter h with ⟨_, he⟩ | ⟨seR, _, he⟩
  · subst he; exact ⟨hQ, Nat.le_refl _, fun _ _ => rfl⟩
  · rw [he]
    refine ⟨?_, by rw [divideArena_size]; omega, ?_⟩
    · intro i hi
      rw [divideArena_size] at hi
      rcases divideArena_points st.arena seL seR _ i hi with ⟨h1, h2⟩ | h2
      · rw [h2]; exact hQ i h1
      · rw [h2]; exact hq
    · intro i hi
      rcases divideArena_points st.arena seL seR (bumped ar st.arena seL inter) i (by omega) with ⟨_, h2⟩ | h2
      · exact h2
      · rw [divideArena_point, dividePush_old _ _ _ _ _ hi]

/-- `st1` extends `st`: all points satisfy `Q`, old events kept their points -/
structure Ext (Q : Pt → Prop) (st st1 : SwSt) : Prop where
  pts : PointsIn st1.arena Q
  size : st.arena.size ≤ st1.arena.size
  old : ∀ i, i < st.arena.size → st1.arena[i]!.point = st.arena[i]!.point

theorem Ext.refl {Q : Pt → Prop} {st : SwSt} (h : PointsIn st.arena Q) : Ext Q st st :=
  ⟨h, Nat.le_refl _, fun _ _ => rfl⟩

theorem Q_bumped (ar : Arith) (a : Arena) (seL : Nat) (q : Pt) (Q : Pt → Prop) (hq : Q q)
    (hb : ∀ q, Q q → Q { q with x := ar.nextUp q.x }) : Q (bumped ar a seL q) := by
  unfold bumped; split
  · exact hb q hq
  · exact hq

theorem Ext.step {Q : Pt → Prop} {ar : Arith} {cfg : Cfg} {st st1 st2 : SwSt} {idx : Nat} {p : Pt}
    (e : Ext Q st st1) (hb : ∀ q, Q q → Q { q with x := ar.nextUp q.x }) (hp : Q p)
    (h : divideSegment ar cfg st1 idx p = .ok st2) : Ext Q st st2 := by
  obtain ⟨h1, h2, h3⟩ := divideSegment_points ar cfg st1 st2 idx p Q h e.pts (Q_bumped ar _ _ p Q hp hb)
  exact ⟨h1, Nat.le_trans e.size h2, fun i hi => by rw [h3 i (Nat.lt_of_lt_of_le hi e.size), e.old i hi]⟩

theorem Ext.optStep {Q : Pt → Prop} {ar : Arith} {cfg : Cfg} {st st1 st2 : SwSt} {idx : Nat} {p : Pt} {c : Prop} [Decidable c]
    (e : Ext Q st st1) (hb : ∀ q, Q q → Q { q with x := ar.nextUp q.x }) (hp : Q p)
    (h : (if c then divideSegment ar cfg st1 idx p else pure st1) = .ok st2) : Ext Q st st2 := by
  split at h
  · exact e.step hb hp h
  · simp only [pure, Except.pure, Except.ok.injEq] at h
    rw [← h]; exact e

theorem bind_ok {α β : Type} (x : Except Fail α) (k : α → Except Fail β) (y : β) (h : (x >>= k) = .ok y) :
    ∃ a, x = .ok a ∧ k a = .ok y := by
  cases x with
  | error e => simp [bind, Except.bind] at h
  | ok a => exact ⟨a, rfl, h⟩

theorem pointsIn_modify_edgeType (a : Arena) (i : Nat) (t : EdgeType) (Q : Pt → Prop) (h : PointsIn a Q) :
    PointsIn (a.modify i (fun ev => { ev with edgeType := t })) Q := by
  intro j hj
  rw [Array.size_modify] at hj
  rw [get!_modify_point a i j (fun ev => { ev with edgeType := t }) (fun _ => rfl)]
  exact h j hj

theorem point_modify_edgeType (a : Arena) (i j : Nat) (t : EdgeType) :
    (a.modify i (fun ev => { ev with edgeType := t }))[j]!.point = a[j]!.point :=
  get!_modify_point a i j (fun ev => { ev with edgeType := t }) (fun _ => rfl)

theorem overlapEvents_fst_lt (a : Arena) (se1 o1 se2 o2 : Nat)
    (hs1 : se1 < a.size) (hs2 : se2 < a.size) (ho1 : o1 < a.size) (ho2 : o2 < a.size) (k : Nat) :
    (overlapEvents a se1 o1 se2 o2)[k]!.1 < a.size := by
  have h0 : 0 < a.size := by omega
  unfold overlapEvents
  simp only
  split <;> split <;> (try split) <;> (try split) <;>
    (rcases k with _ | _ | _ | _ | k <;> simp [*] <;> exact h0)

theorem markCoincident_point (a : Arena) (se1 se2 j : Nat) : (markCoincident a se1 se2)[j]!.point = a[j]!.point := by
  unfold markCoincident
  simp only
  exact (point_modify_edgeType _ _ _ _).trans (point_modify_edgeType _ _ _ _)

theorem markCoincident_size (a : Arena) (se1 se2 : Nat) : (markCoincident a se1 se2).size = a.size := by
  unfold markCoincident; simp

theorem overlapBranch_points (ar : Arith) (cfg : Cfg) (st st' : SwSt) (se1 se2 o1 o2 r : Nat) (Q : Pt → Prop)
    (hs1 : se1 < st.arena.size) (hs2 : se2 < st.arena.size) (ho1 : o1 < st.arena.size) (ho2 : o2 < st.arena.size)
    (hQ : PointsIn st.arena Q) (hb : ∀ q, Q q → Q { q with x := ar.nextUp q.x })
    (h : overlapBranch ar cfg st se1 o1 se2 o2 = .ok (r, st')) : Ext Q st st' := by
  have hev : ∀ k : Nat, Q st.arena[((overlapEvents st.arena se1 o1 se2 o2)[k]!).1]!.point :=
    fun k => hQ _ (overlapEvents_fst_lt st.arena se1 o1 se2 o2 hs1 hs2 ho1 ho2 k)
  have base : Ext Q st { st with arena := markCoincident st.arena se1 se2 } :=
    ⟨fun i hi => by
        rw [markCoincident_point]; exact hQ i (by rw [markCoincident_size] at hi; exact hi),
     by rw [markCoincident_size],
     fun i _ => markCoincident_point _ _ _ _⟩
  unfold overlapBranch at h
  simp only at h
  split at h
  · simp only [pure, Except.pure, Except.ok.injEq, Prod.mk.injEq] at h
    rw [← h.2]; exact Ext.refl hQ
  · split at h
    · -- left endpoints coincide: edge types are marked, at most one division
      split at h
      · obtain ⟨st1, e1, h⟩ := bind_ok _ _ _ h
        simp only [pure, Except.pure, Except.ok.injEq, Prod.mk.injEq] at h
        rw [← h.2]
        refine Ext.step base hb ?_ e1
        rw [markCoincident_point]; exact hev 0
      · simp only [pure, Except.pure, bind, Except.bind, Except.ok.injEq, Prod.mk.injEq] at h
        rw [← h.2]; exact base
    · split at h
      · obtain ⟨st1, e1, h⟩ := bind_ok _ _ _ h
        simp only [pure, Except.pure, Except.ok.injEq, Prod.mk.injEq] at h
        rw [← h.2]
        refine Ext.step (Ext.refl hQ) hb ?_ e1
        exact hev 1
      · split at h
        · obtain ⟨st1, e1, h⟩ := bind_ok _ _ _ h
          obtain ⟨st2, e2, h⟩ := bind_ok _ _ _ h
          simp only [pure, Except.pure, Except.ok.injEq, Prod.mk.injEq] at h
          rw [← h.2]
          have x1 : Ext Q st st1 := by
            refine Ext.step (Ext.refl hQ) hb ?_ e1
            exact hev 1
          refine Ext.step x1 hb ?_ e2
          exact hev 2
        · obtain ⟨st1, e1, h⟩ := bind_ok _ _ _ h
          have x1 : Ext Q st st1 := by
            refine Ext.step (Ext.refl hQ) hb ?_ e1
            exact hev 1
          split at h
          · simp [throw, throwThe, MonadExceptOf.throw] at h
          · obtain ⟨st2, e2, h⟩ := bind_ok _ _ _ h
            simp only [pure, Except.pure, Except.ok.injEq, Prod.mk.injEq] at h
            rw [← h.2]
            refine Ext.step x1 hb ?_ e2
            exact hev 2

/-- `possible_intersection`, every arithmetic: no existing event changes its point, and every point of the
    arena afterwards satisfies any predicate `Q` that holds for the old points and for the intersection
    point the routine computes, and is closed under the one-ulp bump.  (All division points of the overlap
    branch are points of existing events.) -/
theorem possibleIntersection_points (ar : Arith) (cfg : Cfg) (st st' : SwSt) (se1 se2 o1 o2 r : Nat) (Q : Pt → Prop)
    (h1 : st.arena[se1]!.other = some o1) (h2 : st.arena[se2]!.other = some o2)
    (hs1 : se1 < st.arena.size) (hs2 : se2 < st.arena.size) (ho1 : o1 < st.arena.size) (ho2 : o2 < st.arena.size)
    (hQ : PointsIn st.arena Q) (hb : ∀ q, Q q → Q { q with x := ar.nextUp q.x })
    (hi : ∀ p, ar.isect st.arena[se1]!.point st.arena[o1]!.point st.arena[se2]!.point st.arena[o2]!.point = .point p → Q p)
    (h : possibleIntersection ar cfg st se1 se2 = .ok (r, st')) : Ext Q st st' := by
  unfold possibleIntersection at h
  simp only [h1, h2] at h
  cases hisect : ar.isect st.arena[se1]!.point st.arena[o1]!.point st.arena[se2]!.point st.arena[o2]!.point with
  | nonfinite => simp [hisect, throw, throwThe, MonadExceptOf.throw] at h
  | none =>
    simp only [hisect, pure, Except.pure, Except.ok.injEq, Prod.mk.injEq] at h
    rw [← h.2]; exact Ext.refl hQ
  | point inter =>
    simp only [hisect] at h
    have hqi : Q inter := hi inter hisect
    split at h
    · simp only [pure, Except.pure, Except.ok.injEq, Prod.mk.injEq] at h
      rw [← h.2]; exact Ext.refl hQ
    · split at h
      · obtain ⟨st1, e1, h⟩ := bind_ok _ _ _ h
        have x1 : Ext Q st st1 := (Ext.refl hQ).step hb hqi e1
        split at h
        · obtain ⟨st2, e2, h⟩ := bind_ok _ _ _ h
          have x2 : Ext Q st st2 := x1.step hb hqi e2
          simp only [pure, Except.pure, Except.ok.injEq, Prod.mk.injEq] at h
          rw [← h.2]; exact x2
        · simp only [pure, Except.pure, bind, Except.bind, Except.ok.injEq, Prod.mk.injEq] at h
          rw [← h.2]; exact x1
      · simp only [pure, Except.pure, bind, Except.bind] at h
        split at h
        · cases e2 : divideSegment ar cfg st se2 inter with
          | error e => simp [e2] at h
          | ok st2 =>
            have x2 : Ext Q st st2 := (Ext.refl hQ).step hb hqi e2
            simp only [e2, Except.ok.injEq, Prod.mk.injEq] at h
            rw [← h.2]; exact x2
        · simp only [Except.ok.injEq, Prod.mk.injEq] at h
          rw [← h.2]; exact Ext.refl hQ
  | overlap p q =>
    simp only [hisect] at h
    exact overlapBranch_points ar cfg st st' se1 se2 o1 o2 r Q hs1 hs2 ho1 ho2 hQ hb h

end Gbo
