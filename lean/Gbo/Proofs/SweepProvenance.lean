import Gbo.Proofs.SweepInv
/-
  No invented vertices, for the whole sweep: every event point in the arena `subdivide` returns is generated
  from the points of the queue's arena (the input vertices) by (a) intersection points the routine computed
  for two segments between generated points and (b) the one-ulp bump of `divide_segment`.
-/
namespace Gbo

/-- points generated from the vertices `V` by the arithmetic `ar` -/
inductive Gen (ar : Arith) (V : Pt → Prop) : Pt → Prop
  | vertex (p : Pt) : V p → Gen ar V p
  | isect (a1 a2 b1 b2 p : Pt) : Gen ar V a1 → Gen ar V a2 → Gen ar V b1 → Gen ar V b2 →
      ar.isect a1 a2 b1 b2 = .point p → Gen ar V p
  | bump (p : Pt) : Gen ar V p → Gen ar V { p with x := ar.nextUp p.x }

/-- the joint invariant: pairs mutually linked, all points generated -/
def ProvInv (ar : Arith) (V : Pt → Prop) (a : Arena) : Prop := MutualLinks a ∧ PointsIn a (Gen ar V)

theorem computeFields_point (a : Arena) (e : Nat) (prev : Option Nat) (op : Op) (j : Nat) :
    (computeFields a e prev op)[j]!.point = a[j]!.point := by
  unfold computeFields
  simp only
  exact get!_modify_point a e j _ (fun _ => rfl)

theorem provInv_fields (ar : Arith) (V : Pt → Prop) (a : Arena) (e : Nat) (prev : Option Nat) (op : Op)
    (h : ProvInv ar V a) : ProvInv ar V (computeFields a e prev op) := by
  refine ⟨computeFields_links a e prev op h.1, ?_⟩
  intro j hj
  rw [computeFields_size] at hj
  rw [computeFields_point]
  exact h.2 j hj

theorem provInv_pi (ar : Arith) (V : Pt → Prop) (cfg : Cfg) (st st' : SwSt) (se1 se2 r : Nat)
    (h : possibleIntersection ar cfg st se1 se2 = .ok (r, st')) (hP : ProvInv ar V st.arena) :
    ProvInv ar V st'.arena := by
  refine ⟨possibleIntersection_links ar cfg st st' se1 se2 r h hP.1, ?_⟩
  -- both segments linked?  otherwise nothing happens
  cases h1 : st.arena[se1]!.other with
  | none =>
    unfold possibleIntersection at h
    simp only [h1, pure, Except.pure, Except.ok.injEq, Prod.mk.injEq] at h
    rw [← h.2]; exact hP.2
  | some o1 =>
    cases h2 : st.arena[se2]!.other with
    | none =>
      unfold possibleIntersection at h
      simp only [h1, h2, pure, Except.pure, Except.ok.injEq, Prod.mk.injEq] at h
      rw [← h.2]; exact hP.2
    | some o2 =>
      have hs1 := other_some_lt st.arena se1 o1 h1
      have hs2 := other_some_lt st.arena se2 o2 h2
      have ho1 := (hP.1 se1 hs1 o1 h1).1
      have ho2 := (hP.1 se2 hs2 o2 h2).1
      have hext := possibleIntersection_points ar cfg st st' se1 se2 o1 o2 r (Gen ar V) h1 h2 hs1 hs2 ho1 ho2 hP.2
        (fun q hq => Gen.bump q hq)
        (fun p hp => Gen.isect _ _ _ _ p (hP.2 se1 hs1) (hP.2 o1 ho1) (hP.2 se2 hs2) (hP.2 o2 ho2) hp) h
      exact hext.pts

theorem provInv_stable (ar : Arith) (V : Pt → Prop) : SweepStable ar (ProvInv ar V) :=
  ⟨fun a e prev op h => provInv_fields ar V a e prev op h,
   fun cfg st st' se1 se2 r h hP => provInv_pi ar V cfg st st' se1 se2 r h hP⟩

/-- **no invented vertices, whole sweep**: if the queue's arena is mutually linked (it is: `fill_queue`) then
    every event point of the arena `subdivide` returns is generated from the points of the queue's arena -/
theorem subdivide_provenance (ar : Arith) (cfg : Cfg) (fq : FQ) (sb cb : BBox) (op : Op) (sw : SweepOut)
    (h : subdivide ar cfg fq sb cb op = .ok sw) (hl : MutualLinks fq.arena) :
    PointsIn sw.arena (Gen ar (fun p => ∃ i, i < fq.arena.size ∧ fq.arena[i]!.point = p)) := by
  have h0 : ProvInv ar (fun p => ∃ i, i < fq.arena.size ∧ fq.arena[i]!.point = p) fq.arena :=
    ⟨hl, fun i hi => Gen.vertex _ ⟨i, hi, rfl⟩⟩
  exact (subdivide_preserves ar (provInv_stable ar _) cfg fq sb cb op sw h h0).2

end Gbo
