import Mathlib.Tactic.Linarith
import Mathlib.Tactic.Ring
import Mathlib.Tactic.Positivity
import Gbo.Model.Event
/-
  Covariance of the exact predicates under similarity transforms (C08): scaling by a positive factor and
  translation leave every comparison of the event order unchanged.
-/
namespace Gbo

def scalePt (k : Rat) (p : Pt) : Pt := { x := k * p.x, y := k * p.y }
def shiftPt (dx dy : Rat) (p : Pt) : Pt := { x := p.x + dx, y := p.y + dy }

def mapView (f : Pt → Pt) (e : EvView) : EvView :=
  { point := f e.point, left := e.left, otherPt := e.otherPt.map f, isSubject := e.isSubject }

theorem orient_scale (k : Rat) (a b c : Pt) : orient (scalePt k a) (scalePt k b) (scalePt k c) = k * k * orient a b c := by
  unfold orient scalePt; ring

theorem orient_shift (dx dy : Rat) (a b c : Pt) : orient (shiftPt dx dy a) (shiftPt dx dy b) (shiftPt dx dy c) = orient a b c := by
  unfold orient shiftPt; ring

/-- a map of the plane that preserves the coordinate comparisons and the orientation sign -/
structure OrderPreserving (f : Pt → Pt) : Prop where
  xlt : ∀ p q : Pt, (f p).x < (f q).x ↔ p.x < q.x
  ylt : ∀ p q : Pt, (f p).y < (f q).y ↔ p.y < q.y
  opos : ∀ a b c : Pt, orient (f a) (f b) (f c) > 0 ↔ orient a b c > 0
  ozero : ∀ a b c : Pt, orient (f a) (f b) (f c) = 0 ↔ orient a b c = 0

theorem cmpView_map (f : Pt → Pt) (hf : OrderPreserving f) (e1 e2 : EvView) :
    cmpView (mapView f e1) (mapView f e2) = cmpView e1 e2 := by
  obtain ⟨p1, l1, o1, s1⟩ := e1
  obtain ⟨p2, l2, o2, s2⟩ := e2
  unfold cmpView mapView
  simp only [gt_iff_lt, hf.xlt, hf.ylt]
  by_cases h1 : p2.x < p1.x
  · simp [h1]
  by_cases h2 : p1.x < p2.x
  · simp [h1, h2]
  by_cases h3 : p2.y < p1.y
  · simp [h1, h2, h3]
  by_cases h4 : p1.y < p2.y
  · simp [h1, h2, h3, h4]
  simp only [h1, h2, h3, h4, if_false]
  cases hl : (l1 != l2)
  · simp only [Bool.false_eq_true, if_false]
    cases o1 <;> cases o2 <;> simp only [Option.map_some, Option.map_none]
    rename_i a b
    simp only [ne_eq, hf.ozero, EvView.isBelow, Option.map_some]
    by_cases hz : orient p1 a b = 0
    · simp [hz]
    · simp only [hz, not_false_eq_true, if_true]
      cases l1
      · simp only [Bool.false_eq_true, if_false]
        have : (decide (orient (f a) (f p1) (f b) > 0)) = decide (orient a p1 b > 0) := by
          simp only [hf.opos]
        rw [this]
      · simp only [if_true]
        have : (decide (orient (f p1) (f a) (f b) > 0)) = decide (orient p1 a b > 0) := by
          simp only [hf.opos]
        rw [this]
  · simp

theorem scale_orderPreserving (k : Rat) (hk : 0 < k) : OrderPreserving (scalePt k) where
  xlt p q := by
    simp only [scalePt]
    constructor
    · intro h; by_contra hn
      have := mul_le_mul_of_nonneg_left (not_lt.mp hn) (le_of_lt hk); linarith
    · intro h; exact mul_lt_mul_of_pos_left h hk
  ylt p q := by
    simp only [scalePt]
    constructor
    · intro h; by_contra hn
      have := mul_le_mul_of_nonneg_left (not_lt.mp hn) (le_of_lt hk); linarith
    · intro h; exact mul_lt_mul_of_pos_left h hk
  opos a b c := by
    rw [orient_scale]
    have hkk : 0 < k * k := by positivity
    constructor
    · intro h; exact (mul_pos_iff_of_pos_left hkk).mp h
    · intro h; exact mul_pos hkk h
  ozero a b c := by
    rw [orient_scale]
    have hkk : k * k ≠ 0 := by positivity
    constructor
    · intro h; rcases mul_eq_zero.mp h with h' | h'
      · exact absurd h' hkk
      · exact h'
    · intro h; rw [h]; simp

theorem shift_orderPreserving (dx dy : Rat) : OrderPreserving (shiftPt dx dy) where
  xlt p q := by simp only [shiftPt]; constructor <;> intro h <;> linarith
  ylt p q := by simp only [shiftPt]; constructor <;> intro h <;> linarith
  opos a b c := by rw [orient_shift]
  ozero a b c := by rw [orient_shift]

/-- the event order is unchanged by scaling with a positive factor (in particular by powers of two) -/
theorem cmpView_scale (k : Rat) (hk : 0 < k) (e1 e2 : EvView) :
    cmpView (mapView (scalePt k) e1) (mapView (scalePt k) e2) = cmpView e1 e2 :=
  cmpView_map _ (scale_orderPreserving k hk) e1 e2

/-- and by translation -/
theorem cmpView_shift (dx dy : Rat) (e1 e2 : EvView) :
    cmpView (mapView (shiftPt dx dy) e1) (mapView (shiftPt dx dy) e2) = cmpView e1 e2 :=
  cmpView_map _ (shift_orderPreserving dx dy) e1 e2

end Gbo
