import Gbo.Proofs.SplayInorder
/-
  Search-tree reasoning for the splay model under a lawful comparator.
-/
namespace Gbo

/-- a consistent comparator: a strict weak order presented as a three-way comparison -/
structure LawfulCmp {K : Type} (cmp : K → K → Ordering) : Prop where
  refl : ∀ a, cmp a a = .eq
  swap : ∀ a b, cmp b a = (cmp a b).swap
  lt_trans : ∀ {a b c}, cmp a b = .lt → cmp b c = .lt → cmp a c = .lt
  eq_lt : ∀ {a b c}, cmp a b = .eq → cmp b c = .lt → cmp a c = .lt
  lt_eq : ∀ {a b c}, cmp a b = .lt → cmp b c = .eq → cmp a c = .lt
  eq_trans : ∀ {a b c}, cmp a b = .eq → cmp b c = .eq → cmp a c = .eq

namespace LawfulCmp
variable {K : Type} {cmp : K → K → Ordering} (h : LawfulCmp cmp)
include h

theorem gt_iff (a b : K) : cmp a b = .gt ↔ cmp b a = .lt := by
  rw [h.swap a b]; cases cmp a b <;> simp [Ordering.swap]

theorem lt_iff (a b : K) : cmp a b = .lt ↔ cmp b a = .gt := by
  rw [h.swap a b]; cases cmp a b <;> simp [Ordering.swap]

theorem eq_comm (a b : K) : cmp a b = .eq ↔ cmp b a = .eq := by
  rw [h.swap a b]; cases cmp a b <;> simp [Ordering.swap]

theorem gt_trans {a b c : K} (h1 : cmp a b = .gt) (h2 : cmp b c = .gt) : cmp a c = .gt := by
  rw [h.gt_iff] at *; exact h.lt_trans h2 h1

theorem gt_eq {a b c : K} (h1 : cmp a b = .gt) (h2 : cmp b c = .eq) : cmp a c = .gt := by
  rw [h.gt_iff] at *; exact h.eq_lt ((h.eq_comm _ _).1 h2) h1

theorem eq_gt {a b c : K} (h1 : cmp a b = .eq) (h2 : cmp b c = .gt) : cmp a c = .gt := by
  rw [h.gt_iff] at *; exact h.lt_eq h2 ((h.eq_comm _ _).1 h1)

end LawfulCmp

namespace Tree
variable {K V : Type}

/-- strictly increasing keys -/
def SortedKV (cmp : K → K → Ordering) (l : List (K × V)) : Prop := l.Pairwise (fun x y => cmp x.1 y.1 = .lt)

/-- binary search tree = sorted in-order sequence -/
def Bst (cmp : K → K → Ordering) (t : Tree K V) : Prop := SortedKV cmp (inorder t)

theorem bst_node_iff (cmp : K → K → Ordering) (l : Tree K V) (k : K) (v : V) (r : Tree K V) :
    Bst cmp (node l k v r) ↔
      Bst cmp l ∧ Bst cmp r ∧ (∀ x ∈ inorder l, cmp x.1 k = .lt) ∧ (∀ y ∈ inorder r, cmp k y.1 = .lt)
      ∧ (∀ x ∈ inorder l, ∀ y ∈ inorder r, cmp x.1 y.1 = .lt) := by
  simp only [Bst, SortedKV, inorder, List.pairwise_append, List.pairwise_cons, List.mem_cons]
  constructor
  · rintro ⟨hl, ⟨hk, hr⟩, hx⟩
    exact ⟨hl, hr, fun x hx' => hx x hx' _ (Or.inl rfl), hk, fun x hx' y hy => hx x hx' y (Or.inr hy)⟩
  · rintro ⟨hl, hr, h1, h2, h3⟩
    refine ⟨hl, ⟨h2, hr⟩, ?_⟩
    intro x hx y hy
    rcases hy with rfl | hy
    · exact h1 x hx
    · exact h3 x hx y hy

/-- every pending left key is smaller than `key` -/
def AllLt (cmp : K → K → Ordering) (key : K) (l : List (K × V)) : Prop := ∀ x ∈ l, cmp key x.1 = .gt
/-- every pending right key is larger than `key` -/
def AllGt (cmp : K → K → Ordering) (key : K) (l : List (K × V)) : Prop := ∀ x ∈ l, cmp key x.1 = .lt

theorem AllLt.append {cmp : K → K → Ordering} {key : K} {l m : List (K × V)} :
    AllLt cmp key (l ++ m) ↔ AllLt cmp key l ∧ AllLt cmp key m := by
  simp only [AllLt, List.mem_append]
  constructor
  · intro h; exact ⟨fun x hx => h x (Or.inl hx), fun x hx => h x (Or.inr hx)⟩
  · rintro ⟨h1, h2⟩ x (hx | hx); exact h1 x hx; exact h2 x hx

theorem AllGt.append {cmp : K → K → Ordering} {key : K} {l m : List (K × V)} :
    AllGt cmp key (l ++ m) ↔ AllGt cmp key l ∧ AllGt cmp key m := by
  simp only [AllGt, List.mem_append]
  constructor
  · intro h; exact ⟨fun x hx => h x (Or.inl hx), fun x hx => h x (Or.inr hx)⟩
  · rintro ⟨h1, h2⟩ x (hx | hx); exact h1 x hx; exact h2 x hx

/-- keys right of a key larger than `key` are larger than `key` -/
theorem allGt_of_lt {cmp : K → K → Ordering} (h : LawfulCmp cmp) {key k : K} (hk : cmp key k = .lt)
    {l : List (K × V)} (hl : ∀ y ∈ l, cmp k y.1 = .lt) : AllGt cmp key l :=
  fun y hy => h.lt_trans hk (hl y hy)

/-- keys left of a key smaller than `key` are smaller than `key` -/
theorem allLt_of_gt {cmp : K → K → Ordering} (h : LawfulCmp cmp) {key k : K} (hk : cmp key k = .gt)
    {l : List (K × V)} (hl : ∀ x ∈ l, cmp x.1 k = .lt) : AllLt cmp key l := by
  intro x hx
  rw [h.gt_iff] at hk ⊢
  exact h.lt_trans (hl x hx) hk

/-- The loop invariant of `splay`: pending left keys are below `key`, pending right keys above it; when
    the loop stops on a root above (below) `key`, that root has no left (right) child. -/
theorem splayLoop_closest {cmp : K → K → Ordering} (h : LawfulCmp cmp) (key : K) (t : Tree K V) (L : LCtx K V) (R : RCtx K V)
    (hb : Bst cmp t) (hL : AllLt cmp key (inL L)) (hR : AllGt cmp key (inR R)) :
    let res := splayLoop cmp key t L R
    AllLt cmp key (inL res.2.1) ∧ AllGt cmp key (inR res.2.2) ∧
      (∀ a k v b, res.1 = node a k v b → (cmp key k = .lt → a = nil) ∧ (cmp key k = .gt → b = nil)) := by
  fun_induction splayLoop cmp key t L R with
  | case1 L R => exact ⟨hL, hR, by intro a k v b hh; cases hh⟩
  | case2 a k v b L R hk =>
    refine ⟨hL, hR, ?_⟩
    intro a' k' v' b' hh; cases hh
    simp [hk]
  | case3 k v b L R hk =>
    refine ⟨hL, hR, ?_⟩
    intro a' k' v' b' hh; cases hh
    simp [hk]
  | case4 k v b L R hk k1 v1 a2 hk1 =>
    refine ⟨hL, hR, ?_⟩
    intro a' k' v' b' hh; cases hh
    have : cmp key k1 = .lt := by simpa using hk1
    simp [this]
  | case5 k v b L R hk k1 v1 a2 hk1 x1 x2 x3 x4 ih =>
    have hk1' : cmp key k1 = .lt := by simpa using hk1
    rw [bst_node_iff] at hb
    obtain ⟨hbl, hbr, hlk, hkr, hlr⟩ := hb
    rw [bst_node_iff] at hbl
    obtain ⟨hb1, hb2, h1k1, hk1a2, h1a2⟩ := hbl
    apply ih hb1 hL
    -- the new pending right node: k1, a2, k, b are all above key
    simp only [inR, inorder]
    intro y hy
    simp only [List.mem_cons, List.mem_append] at hy
    rcases hy with (rfl | hy | rfl | hy) | hy
    · exact hk1'
    · exact h.lt_trans hk1' (hk1a2 y hy)
    · exact hk
    · exact h.lt_trans hk (hkr y hy)
    · exact hR y hy
  | case6 k v b L R hk a1 k1 v1 a2 hk1 ih =>
    rw [bst_node_iff] at hb
    obtain ⟨hbl, hbr, hlk, hkr, hlr⟩ := hb
    apply ih hbl hL
    simp only [inR]
    intro y hy
    simp only [List.mem_cons, List.mem_append] at hy
    rcases hy with (rfl | hy) | hy
    · exact hk
    · exact h.lt_trans hk (hkr y hy)
    · exact hR y hy
  | case7 a k v L R hk =>
    refine ⟨hL, hR, ?_⟩
    intro a' k' v' b' hh; cases hh
    simp [hk]
  | case8 a k v L R hk b1 k1 v1 hk1 =>
    refine ⟨hL, hR, ?_⟩
    intro a' k' v' b' hh; cases hh
    have : cmp key k1 = .gt := by simpa using hk1
    simp [this]
  | case9 a k v L R hk b1 k1 v1 hk1 x1 x2 x3 x4 ih =>
    have hk1' : cmp key k1 = .gt := by simpa using hk1
    rw [bst_node_iff] at hb
    obtain ⟨hbl, hbr, hlk, hkr, hlr⟩ := hb
    rw [bst_node_iff] at hbr
    obtain ⟨hb1, hb2, hb1k1, hk1x, hb1x⟩ := hbr
    refine ih hb2 ?_ hR
    simp only [inL, inorder]
    intro y hy
    simp only [List.mem_append, List.mem_cons, List.not_mem_nil, or_false] at hy
    have hkk : cmp k key = .lt := (h.gt_iff _ _).1 hk
    have hk1k : cmp k1 key = .lt := (h.gt_iff _ _).1 hk1'
    rw [h.gt_iff]
    rcases hy with (hy | (hy | rfl | hy)) | rfl
    · exact (h.gt_iff _ _).1 (hL y hy)
    · exact h.lt_trans (hlk y hy) hkk
    · exact hkk
    · exact h.lt_trans (hb1k1 y hy) hk1k
    · exact hk1k
  | case10 a k v L R hk b1 k1 v1 b2 hk1 ih =>
    rw [bst_node_iff] at hb
    obtain ⟨hbl, hbr, hlk, hkr, hlr⟩ := hb
    refine ih hbr ?_ hR
    simp only [inL]
    intro y hy
    simp only [List.mem_append, List.mem_cons, List.not_mem_nil, or_false] at hy
    have hkk : cmp k key = .lt := (h.gt_iff _ _).1 hk
    rw [h.gt_iff]
    rcases hy with (hy | hy) | rfl
    · exact (h.gt_iff _ _).1 (hL y hy)
    · exact h.lt_trans (hlk y hy) hkk
    · exact hkk

end Tree
end Gbo
