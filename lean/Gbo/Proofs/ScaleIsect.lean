import Mathlib.Tactic.Linarith
import Mathlib.Tactic.Ring
import Mathlib.Tactic.FieldSimp
import Mathlib.Tactic.Positivity
import Gbo.Model.Event
import Gbo.Proofs.Transform
/-
  The rounded intersection routine commutes with scaling by a factor the arithmetic handles exactly
  (for binary floating point: a power of two, as long as nothing over- or underflows).
-/
namespace Gbo

def scaleIsect (c : Rat) : Isect → Isect
  | .none => .none
  | .point p => .point (scalePt c p)
  | .overlap p q => .overlap (scalePt c p) (scalePt c q)
  | .nonfinite => .nonfinite

/-- the arithmetic rounds `c * q` and `c² * q` to `c` resp. `c²` times the rounding of `q` -/
structure ScalesExactly (ar : Arith) (c : Rat) : Prop where
  one : ∀ q, ar.rnd (c * q) = c * ar.rnd q
  two : ∀ q, ar.rnd (c * c * q) = c * c * ar.rnd q

variable {ar : Arith} {c : Rat}

theorem sub_scale (h : ScalesExactly ar c) (a b : Rat) : ar.sub (c * a) (c * b) = c * ar.sub a b := by
  unfold Arith.sub; rw [← h.one]; congr 1; ring

theorem add_scale (h : ScalesExactly ar c) (a b : Rat) : ar.add (c * a) (c * b) = c * ar.add a b := by
  unfold Arith.add; rw [← h.one]; congr 1; ring

theorem mul_scale2 (h : ScalesExactly ar c) (a b : Rat) : ar.mul (c * a) (c * b) = c * c * ar.mul a b := by
  unfold Arith.mul; rw [← h.two]; congr 1; ring

theorem sub_scale2 (h : ScalesExactly ar c) (a b : Rat) : ar.sub (c * c * a) (c * c * b) = c * c * ar.sub a b := by
  unfold Arith.sub; rw [← h.two]; congr 1; ring

theorem add_scale2 (h : ScalesExactly ar c) (a b : Rat) : ar.add (c * c * a) (c * c * b) = c * c * ar.add a b := by
  unfold Arith.add; rw [← h.two]; congr 1; ring

theorem cross_scale (h : ScalesExactly ar c) (a b : Pt) :
    ar.cross (scalePt c a) (scalePt c b) = c * c * ar.cross a b := by
  unfold Arith.cross scalePt
  simp only
  rw [mul_scale2 h, mul_scale2 h, sub_scale2 h]

theorem dot_scale (h : ScalesExactly ar c) (a b : Pt) :
    ar.dot (scalePt c a) (scalePt c b) = c * c * ar.dot a b := by
  unfold Arith.dot scalePt
  simp only
  rw [mul_scale2 h, mul_scale2 h, add_scale2 h]

theorem div_scale2 (hc : c ≠ 0) (a b : Rat) : ar.div (c * c * a) (c * c * b) = ar.div a b := by
  unfold Arith.div
  congr 1
  by_cases hb : b = 0
  · simp [hb]
  · field_simp

/-- multiplication by a parameter in [0,1]-ish (unscaled) and a scaled length -/
theorem mul_scale1 (h : ScalesExactly ar c) (s a : Rat) : ar.mul s (c * a) = c * ar.mul s a := by
  unfold Arith.mul; rw [← h.one]; congr 1; ring

theorem midPoint_scale (h : ScalesExactly ar c) (p d : Pt) (s : Rat) :
    ar.midPoint (scalePt c p) s (scalePt c d) = scalePt c (ar.midPoint p s d) := by
  unfold Arith.midPoint scalePt
  simp only
  rw [mul_scale1 h, mul_scale1 h, add_scale h, add_scale h]

theorem vec_scale (h : ScalesExactly ar c) (p q : Pt) :
    ({ x := ar.sub (scalePt c q).x (scalePt c p).x, y := ar.sub (scalePt c q).y (scalePt c p).y } : Pt)
      = scalePt c { x := ar.sub q.x p.x, y := ar.sub q.y p.y } := by
  simp only [scalePt, sub_scale h]

theorem isectImpl_scale (h : ScalesExactly ar c) (hc : 0 < c) (a1 a2 b1 b2 : Pt) :
    ar.isectImpl (scalePt c a1) (scalePt c a2) (scalePt c b1) (scalePt c b2)
      = scaleIsect c (ar.isectImpl a1 a2 b1 b2) := by
  have hc0 : c ≠ 0 := ne_of_gt hc
  have hcc : c * c ≠ 0 := mul_ne_zero hc0 hc0
  unfold Arith.isectImpl
  simp only [vec_scale h, cross_scale h, dot_scale h, div_scale2 hc0, midPoint_scale h]
  have hz : ∀ x : Rat, (c * c * x ≠ 0) ↔ (x ≠ 0) := fun x => by
    constructor
    · intro hx h0; apply hx; rw [h0]; ring
    · intro hx; exact mul_ne_zero hcc hx
  have hz' : ∀ x : Rat, (c * c * x = 0) ↔ (x = 0) := fun x => by
    constructor
    · intro hx; rcases mul_eq_zero.mp hx with h0 | h0
      · exact absurd h0 hcc
      · exact h0
    · intro hx; rw [hx]; ring
  simp only [hz, hz']
  split
  · split
    · rfl
    · split
      · rfl
      · split
        · rfl
        · split <;> rfl
  · split
    · rfl
    · split
      · rfl
      · split
        · split
          · rfl
          · split <;> rfl
        · rfl

def scaleBB (c : Rat) (b : BBox) : BBox :=
  { minx := c * b.minx, miny := c * b.miny, maxx := c * b.maxx, maxy := c * b.maxy }

theorem mul_lt_iff (hc : 0 < c) (a b : Rat) : c * a < c * b ↔ a < b :=
  ⟨fun h => lt_of_mul_lt_mul_left h (le_of_lt hc), fun h => mul_lt_mul_of_pos_left h hc⟩

theorem mul_le_iff (hc : 0 < c) (a b : Rat) : c * a ≤ c * b ↔ a ≤ b :=
  ⟨fun h => le_of_mul_le_mul_left h hc, fun h => mul_le_mul_of_nonneg_left h (le_of_lt hc)⟩

theorem rmax_scale (hc : 0 < c) (a b : Rat) : rmax (c * a) (c * b) = c * rmax a b := by
  unfold rmax; simp only [mul_le_iff hc]; split <;> rfl

theorem rmin_scale (hc : 0 < c) (a b : Rat) : rmin (c * a) (c * b) = c * rmin a b := by
  unfold rmin; simp only [mul_le_iff hc]; split <;> rfl

theorem isectBBox_scale (hc : 0 < c) (a1 a2 b1 b2 : Pt) :
    isectBBox (scalePt c a1) (scalePt c a2) (scalePt c b1) (scalePt c b2)
      = (isectBBox a1 a2 b1 b2).map (scaleBB c) := by
  unfold isectBBox scalePt
  simp only [mul_lt_iff hc]
  have e1 : ∀ (p : Prop) [Decidable p] (x y : Rat), (if p then (c * x, c * y) else (c * y, c * x)) =
      ((c * (if p then (x, y) else (y, x)).1), (c * (if p then (x, y) else (y, x)).2)) := by
    intro p _ x y; split <;> rfl
  simp only [e1, rmax_scale hc, rmin_scale hc, mul_le_iff hc]
  split <;> simp [scaleBB]

theorem clampPt_scale (hc : 0 < c) (p : Pt) (bb : BBox) :
    clampPt (scalePt c p) (scaleBB c bb) = scalePt c (clampPt p bb) := by
  unfold clampPt scalePt scaleBB
  simp only [mul_lt_iff hc, gt_iff_lt]
  congr 1
  · split
    · rfl
    · split <;> rfl
  · split
    · rfl
    · split <;> rfl

/-- **the rounded intersection routine commutes with exact scaling** -/
theorem isect_scale (h : ScalesExactly ar c) (hc : 0 < c) (a1 a2 b1 b2 : Pt) :
    ar.isect (scalePt c a1) (scalePt c a2) (scalePt c b1) (scalePt c b2)
      = scaleIsect c (ar.isect a1 a2 b1 b2) := by
  unfold Arith.isect
  rw [isectBBox_scale hc, isectImpl_scale h hc]
  cases isectBBox a1 a2 b1 b2 with
  | none => rfl
  | some bb =>
    simp only [Option.map_some]
    cases ar.isectImpl a1 a2 b1 b2 with
    | none => rfl
    | nonfinite => rfl
    | point p => simp only [scaleIsect, clampPt_scale hc]
    | overlap p q => simp only [scaleIsect, clampPt_scale hc]

/-- exact arithmetic scales exactly by every factor -/
theorem scalesExactly_exact (c : Rat) : ScalesExactly Arith.exact c := ⟨fun _ => rfl, fun _ => rfl⟩

end Gbo
