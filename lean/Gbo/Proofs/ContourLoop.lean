import Gbo.Model.Connect
/-
  Termination of the inner `loop` of `connect_edges`: every round marks a position that was not processed
  before, so the loop ends after at most `result_events.len()` rounds; the model's fuel failure for this loop
  is unreachable.
-/
namespace Gbo

/-- number of positions not yet processed -/
def unproc (p : Array Bool) : Nat := p.count false

theorem unproc_set_true (p : Array Bool) (i : Nat) (hi : i < p.size) :
    unproc (p.set! i true) + (if p[i]! = false then 1 else 0) = unproc p := by
  unfold unproc
  have hset : p.set! i true = p.set i true hi := by simp [Array.set!, Array.setIfInBounds, hi]
  rw [hset, Array.count_set hi]
  have hget : p[i]! = p[i] := by simp [hi]
  rw [hget]
  by_cases hx : p[i] = false
  · have hmem : false ∈ p := by rw [← hx]; exact Array.getElem_mem hi
    have hpos : 0 < p.count false := Array.count_pos_iff.mpr hmem
    simp [hx]; omega
  · have : p[i] = true := by simpa using hx
    simp [this]

theorem unproc_set_le (p : Array Bool) (i : Nat) : unproc (p.set! i true) ≤ unproc p := by
  by_cases hi : i < p.size
  · have := unproc_set_true p i hi; omega
  · have : p.set! i true = p := by simp [Array.set!, Array.setIfInBounds, hi]
    rw [this]; exact Nat.le_refl _

/-- what `get_next_pos` returns is a position that is not processed yet -/
theorem getNextPosLoop_unprocessed (start : Nat) (processed : Array Bool) (map : Array Nat) :
    ∀ (fuel pos npos : Nat), getNextPosLoop start processed map fuel pos = .ok (some npos) → processed[npos]! = false := by
  intro fuel
  induction fuel with
  | zero => intro pos npos h; simp [getNextPosLoop] at h
  | succ fuel ih =>
    intro pos npos h
    unfold getNextPosLoop at h
    simp only at h
    split at h
    · simp at h
    · split at h
      · rename_i hnp
        simp only [Except.ok.injEq, Option.some.injEq] at h
        rw [← h]
        simpa using hnp
      · exact ih _ _ h

theorem getNextPosLoop_error (start : Nat) (processed : Array Bool) (map : Array Nat) :
    ∀ (fuel pos : Nat) (e : Fail), getNextPosLoop start processed map fuel pos = .error e → e = .fuel "get_next_pos" := by
  intro fuel
  induction fuel with
  | zero => intro pos e h; simp [getNextPosLoop] at h; exact h.symm
  | succ fuel ih =>
    intro pos e h
    unfold getNextPosLoop at h
    simp only at h
    split at h
    · simp at h
    · split at h
      · simp at h
      · exact ih _ _ h

/-- the loop never runs out of fuel when it is given more fuel than there are unprocessed positions -/
theorem contourLoop_fuel (res map : Array Nat) (contourId : Int) (initial : Pt) :
    ∀ (fuel : Nat) (st : CE) (pos : Nat), st.processed.size = res.size → st.processed[pos]! = false →
      unproc st.processed ≤ fuel →
      contourLoop res map contourId initial (fuel + 1) st pos ≠ .error (.fuel "connect_edges contour loop") := by
  intro fuel
  induction fuel with
  | zero =>
    intro st pos hsz hp hu
    -- no unprocessed position can exist: contradiction with `processed[pos] = false` unless pos is out of range
    unfold contourLoop
    by_cases hpos : pos ≥ res.size
    · simp [hpos]
    · have hlt : pos < st.processed.size := by omega
      have := unproc_set_true st.processed pos hlt
      simp [hp] at this
      omega
  | succ fuel ih =>
    intro st pos hsz hp hu
    unfold contourLoop
    by_cases hpos : pos ≥ res.size
    · simp [hpos]
    · simp only [hpos, if_false]
      have hlt : pos < st.processed.size := by omega
      have h1 := unproc_set_true st.processed pos hlt
      simp only [hp, if_true] at h1
      split
      · simp
      · -- after (A)
        generalize hop : (st.arena.modify res[pos]! fun e => { e with outputContourId := contourId })[res[pos]!]!.otherPos.toNat = opos
        have h2 := unproc_set_le (st.processed.set! pos true) opos
        split
        · rename_i e he
          -- an error of get_next_pos carries its own message
          have := getNextPosLoop_error _ _ _ _ _ _ he
          subst this
          intro hc
          simp at hc
        · simp
        · rename_i npos hn
          split
          · simp
          · have hun := getNextPosLoop_unprocessed _ _ _ _ _ _ hn
            apply ih
            · simp [hsz]
            · exact hun
            · simp only; omega

end Gbo
