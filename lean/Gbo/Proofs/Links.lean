import Gbo.Proofs.Provenance
import Gbo.Proofs.FillQueue
/-
  The mutual linking of event pairs (`e.other.other = e`) is an invariant of `divide_segment` and of
  `possible_intersection`, for every arithmetic.
-/
namespace Gbo

/-- every linked event is linked back by its partner, which is a different, existing event -/
def MutualLinks (a : Arena) : Prop :=
  ∀ i, i < a.size → ∀ o, a[i]!.other = some o → o < a.size ∧ o ≠ i ∧ a[o]!.other = some i

theorem default_other_none : (default : Ev).other = none := rfl

theorem other_some_lt (a : Arena) (i o : Nat) (h : a[i]!.other = some o) : i < a.size := by
  by_contra hge
  have : a[i]! = default := by simp [getElem!_neg, hge]
  rw [this, default_other_none] at h
  cases h

theorem divideArena_links (a : Arena) (seL seR : Nat) (p : Pt) (hl : MutualLinks a)
    (hoth : a[seL]!.other = some seR) : MutualLinks (divideArena a seL seR p) := by
  have hL : seL < a.size := other_some_lt a seL seR hoth
  obtain ⟨hR, hne', hback⟩ := hl seL hL seR hoth
  have hne : seL ≠ seR := fun h => hne' h.symm
  obtain ⟨hsz, _, _, _, oL, oN, oR, oN1, orest⟩ := divideArena_spec a seL seR p hL hR hne
  intro i hi o ho
  rw [hsz] at hi
  by_cases h1 : i = seL
  · subst h1
    rw [oL] at ho; cases ho
    exact ⟨by rw [hsz]; omega, by omega, oN⟩
  · by_cases h2 : i = seR
    · subst h2
      rw [oR] at ho; cases ho
      exact ⟨by rw [hsz]; omega, by omega, oN1⟩
    · by_cases h3 : i = a.size
      · subst h3
        rw [oN] at ho; cases ho
        exact ⟨by rw [hsz]; omega, by omega, oL⟩
      · by_cases h4 : i = a.size + 1
        · subst h4
          rw [oN1] at ho; cases ho
          exact ⟨by rw [hsz]; omega, by omega, oR⟩
        · have hi' : i < a.size := by omega
          rw [orest i hi' h1 h2] at ho
          obtain ⟨ho1, ho2, ho3⟩ := hl i hi' o ho
          have hoL : o ≠ seL := by
            intro h; subst h; rw [hoth] at ho3; cases ho3; exact h2 rfl
          have hoR : o ≠ seR := by
            intro h; subst h; rw [hback] at ho3; cases ho3; exact h1 rfl
          exact ⟨by rw [hsz]; omega, ho2, by rw [orest o ho1 hoL hoR]; exact ho3⟩

theorem divideSegment_links (ar : Arith) (cfg : Cfg) (st st' : SwSt) (idx : Nat) (p : Pt)
    (h : divideSegment ar cfg st idx p = .ok st') (hl : MutualLinks st.arena) : MutualLinks st'.arena := by
  rcases divideSegment_arena ar cfg st st' idx p h with ⟨_, he⟩ | ⟨seR, hoth, he⟩
  · subst he; exact hl
  · rw [he]; exact divideArena_links st.arena idx seR _ hl hoth

theorem other_modify_edgeType (a : Arena) (i j : Nat) (t : EdgeType) :
    (a.modify i (fun ev => { ev with edgeType := t }))[j]!.other = a[j]!.other :=
  get!_modify_other_keep a i j (fun ev => { ev with edgeType := t }) (fun _ => rfl)

theorem markCoincident_other (a : Arena) (se1 se2 j : Nat) : (markCoincident a se1 se2)[j]!.other = a[j]!.other := by
  unfold markCoincident
  simp only
  exact (other_modify_edgeType _ _ _ _).trans (other_modify_edgeType _ _ _ _)

theorem markCoincident_links (a : Arena) (se1 se2 : Nat) (hl : MutualLinks a) : MutualLinks (markCoincident a se1 se2) := by
  intro i hi o ho
  rw [markCoincident_size] at hi
  rw [markCoincident_other] at ho
  obtain ⟨h1, h2, h3⟩ := hl i hi o ho
  exact ⟨by rw [markCoincident_size]; exact h1, h2, by rw [markCoincident_other]; exact h3⟩

/-- any property of the arena that `divide_segment` and the edge-type marking preserve is preserved by
    `possible_intersection` (all branches, every arithmetic) -/
theorem possibleIntersection_preserves (P : Arena → Prop)
    (hdiv : ∀ (ar : Arith) (cfg : Cfg) (st st' : SwSt) (idx : Nat) (p : Pt),
      divideSegment ar cfg st idx p = .ok st' → P st.arena → P st'.arena)
    (hmark : ∀ (a : Arena) (se1 se2 : Nat), P a → P (markCoincident a se1 se2))
    (ar : Arith) (cfg : Cfg) (st st' : SwSt) (se1 se2 r : Nat)
    (h : possibleIntersection ar cfg st se1 se2 = .ok (r, st')) (hP : P st.arena) : P st'.arena := by
  unfold possibleIntersection at h
  simp only at h
  split at h
  · rename_i other1 other2 _ _
    split at h
    · simp [throw, throwThe, MonadExceptOf.throw] at h
    · simp only [pure, Except.pure, Except.ok.injEq, Prod.mk.injEq] at h
      rw [← h.2]; exact hP
    · rename_i inter _
      split at h
      · simp only [pure, Except.pure, Except.ok.injEq, Prod.mk.injEq] at h
        rw [← h.2]; exact hP
      · split at h
        · obtain ⟨st1, e1, h⟩ := bind_ok _ _ _ h
          have x1 : P st1.arena := hdiv _ _ _ _ _ _ e1 hP
          split at h
          · obtain ⟨st2, e2, h⟩ := bind_ok _ _ _ h
            simp only [pure, Except.pure, Except.ok.injEq, Prod.mk.injEq] at h
            rw [← h.2]; exact hdiv _ _ _ _ _ _ e2 x1
          · simp only [pure, Except.pure, bind, Except.bind, Except.ok.injEq, Prod.mk.injEq] at h
            rw [← h.2]; exact x1
        · simp only [pure, Except.pure, bind, Except.bind] at h
          split at h
          · cases e2 : divideSegment ar cfg st se2 inter with
            | error e => simp [e2] at h
            | ok st2 =>
              simp only [e2, Except.ok.injEq, Prod.mk.injEq] at h
              rw [← h.2]; exact hdiv _ _ _ _ _ _ e2 hP
          · simp only [Except.ok.injEq, Prod.mk.injEq] at h
            rw [← h.2]; exact hP
    · -- collinear overlap
      unfold overlapBranch at h
      simp only at h
      split at h
      · simp only [pure, Except.pure, Except.ok.injEq, Prod.mk.injEq] at h
        rw [← h.2]; exact hP
      · have base : P (markCoincident st.arena se1 se2) := hmark _ _ _ hP
        split at h
        · split at h
          · obtain ⟨st1, e1, h⟩ := bind_ok _ _ _ h
            simp only [pure, Except.pure, Except.ok.injEq, Prod.mk.injEq] at h
            rw [← h.2]
            exact hdiv _ _ { st with arena := markCoincident st.arena se1 se2 } _ _ _ e1 base
          · simp only [pure, Except.pure, bind, Except.bind, Except.ok.injEq, Prod.mk.injEq] at h
            rw [← h.2]; exact base
        · split at h
          · obtain ⟨st1, e1, h⟩ := bind_ok _ _ _ h
            simp only [pure, Except.pure, Except.ok.injEq, Prod.mk.injEq] at h
            rw [← h.2]
            exact hdiv _ _ _ _ _ _ e1 hP
          · split at h
            · obtain ⟨st1, e1, h⟩ := bind_ok _ _ _ h
              obtain ⟨st2, e2, h⟩ := bind_ok _ _ _ h
              simp only [pure, Except.pure, Except.ok.injEq, Prod.mk.injEq] at h
              rw [← h.2]
              exact hdiv _ _ _ _ _ _ e2 (hdiv _ _ _ _ _ _ e1 hP)
            · obtain ⟨st1, e1, h⟩ := bind_ok _ _ _ h
              have x1 := hdiv _ _ _ _ _ _ e1 hP
              split at h
              · simp [throw, throwThe, MonadExceptOf.throw] at h
              · obtain ⟨st2, e2, h⟩ := bind_ok _ _ _ h
                simp only [pure, Except.pure, Except.ok.injEq, Prod.mk.injEq] at h
                rw [← h.2]
                exact hdiv _ _ _ _ _ _ e2 x1
  · simp only [pure, Except.pure, Except.ok.injEq, Prod.mk.injEq] at h
    rw [← h.2]; exact hP

/-- `possible_intersection` keeps every event pair mutually linked -/
theorem possibleIntersection_links (ar : Arith) (cfg : Cfg) (st st' : SwSt) (se1 se2 r : Nat)
    (h : possibleIntersection ar cfg st se1 se2 = .ok (r, st')) (hl : MutualLinks st.arena) : MutualLinks st'.arena :=
  possibleIntersection_preserves MutualLinks
    (fun ar cfg st st' idx p h hl => divideSegment_links ar cfg st st' idx p h hl)
    (fun a se1 se2 hl => markCoincident_links a se1 se2 hl) ar cfg st st' se1 se2 r h hl

theorem get!_of_get? (a : Arena) (i : Nat) (e : Ev) (h : a[i]? = some e) : a[i]! = e := by
  have hi : i < a.size := by
    by_contra hge
    have : a[i]? = none := Array.getElem?_eq_none (by omega)
    rw [this] at h; cases h
  rw [Array.getElem?_eq_getElem hi] at h
  cases h
  simp [getElem!_pos, hi]

/-- the arena `fill_queue` builds is mutually linked -/
theorem mutualLinks_of_paired (a : Arena) (h : Paired a) : MutualLinks a := by
  obtain ⟨hev, hp⟩ := h
  intro i hi o ho
  have hk : 2 * (i / 2) + 1 < a.size := by omega
  obtain ⟨e1, e2, g1, g2, o1, o2, _⟩ := hp (i / 2) hk
  have q1 := get!_of_get? a _ e1 g1
  have q2 := get!_of_get? a _ e2 g2
  by_cases hpar : i % 2 = 0
  · have hi2 : i = 2 * (i / 2) := by omega
    rw [hi2, q1, o1] at ho
    cases ho
    refine ⟨hk, by omega, ?_⟩
    rw [q2, o2]; congr 1; omega
  · have hi2 : i = 2 * (i / 2) + 1 := by omega
    rw [hi2, q2, o2] at ho
    cases ho
    refine ⟨by omega, by omega, ?_⟩
    rw [q1, o1]; congr 1; omega

end Gbo
