def hello := "world"
