import Gbo.Driver.Proto
/-
  Request handlers of the model driver: each answers a `RUN` request exactly in the format in which
  the Rust harness prints the implementation's answer.
-/
namespace Gbo.Run
open Gbo Gbo.Proto

def maxMag (prec : String) : Rat := if prec == "f32" then pow2 30 else pow2 250
def minMag (prec : String) : Rat := if prec == "f32" then pow2 (-30) else pow2 (-250)

def ratInRange (prec : String) (q : Rat) : Bool :=
  let a := if q < 0 then -q else q
  q = 0 || (a < maxMag prec && a ≥ minMag prec)

def mpInRange (prec : String) (m : MPoly) : Bool :=
  m.all (fun p => (p.ext :: p.holes).all (fun r => r.all (fun q => ratInRange prec q.x && ratInRange prec q.y)))

def showOutcome (r : Except Fail RunOut) : String :=
  match r with
  | .ok o => s!"OK ev={o.popped} bumps={o.bumps} MP {showMPoly o.result}"
  | .error (.panic .indexContour) => "PANIC index"
  | .error (.panic .indexEvents) => "PANIC index"
  | .error e => showFail e

def showEvent (a : Arena) (posOf : Nat → Int) (i : Nat) : String :=
  let e := a[i]!
  let other := match e.other with
    | some o => showPt a[o]!.point
    | none => "- -"
  let prev : Int := match e.prevInResult with
    | some p => posOf p
    | none => -1
  s!"{showPt e.point} {other} {if e.left then "L" else "R"} {if e.isSubject then "S" else "C"} {showBool e.inOut} {showBool e.otherInOut} {showEdgeType e.edgeType} {showResTrans e.resTrans} {prev} {e.contourId} {showBool e.isExteriorRing}"

def showBoxOpt (b : Option BBox) : String :=
  match b with
  | none => "none"
  | some b => s!"{showRat b.minx} {showRat b.miny} {showRat b.maxx} {showRat b.maxy}"

def popAll (a : Arena) : Nat → Array Nat → Array Nat → Array Nat
  | 0, _, acc => acc
  | fuel + 1, h, acc =>
    match Heap.pop (evLe a) h with
    | none => acc
    | some (x, h') => popAll a fuel h' (acc.push x)

/-- one parsed BOOL request -/
structure BoolReq where
  ar : Arith
  prec : String
  op : Op
  cfg : Cfg
  pairing : String
  a : MPoly
  b : MPoly

def parseBool (resolve : Nat → Option MPoly := fun _ => none) : P BoolReq := do
  let (ar, prec) ← arith
  let o ← op
  let dbg ← bool
  let budget ← nat
  let pairing ← tok
  let a ← mpolyRef resolve
  let b ← mpolyRef resolve
  pure { ar := ar, prec := prec, op := o, cfg := { dbg := dbg, budget := budget }, pairing := pairing, a := a, b := b }

def runBoolReq (r : BoolReq) (ar : Arith) : Except Fail RunOut :=
  match r.pairing, r.a, r.b with
  | "MM", a, b => multiMulti ar r.cfg a b r.op
  | "PM", [a], b => polyMulti ar r.cfg a b r.op
  | "MP", a, [b] => multiPoly ar r.cfg a b r.op
  | "PP", [a], [b] => polyPoly ar r.cfg a b r.op
  | _, _, _ => .error (.fuel "bad pairing")

/-! ### range probe
The model's orientation test is the exact sign; the real code's `robust::orient2d` is exact only while no
product under- or overflows.  Operand coordinates are range-checked up front (`mpInRange`), but the sweep can
manufacture an extreme coordinate itself (`nextafter(0.0)` = 2^-1074 after an intersection at x = 0).  When
the two answers differ the driver replays the sweep step by step and reports whether such a coordinate was
created; the run is then outside the modelled range (counted as skipped), not a disagreement. -/

def extremeQ (q : Rat) : Bool :=
  let a := if q < 0 then -q else q
  q ≠ 0 && (a < pow2 (-400) || a > pow2 400)

def arenaExtremeFrom (a : Arena) (start : Nat) : Bool :=
  (List.range (a.size - start)).any (fun i => let e := a[start + i]!; extremeQ e.point.x || extremeQ e.point.y)

def probeExtreme (rq : BoolReq) : Bool :=
  let f := fillQueue rq.a rq.b rq.op
  match f.sbbox, f.cbbox with
  | some sb, some cb =>
    let rightbound := rmin sb.maxx cb.maxx
    let rec go : Nat → Nat → SwSt → Bool
      | 0, seen, st => arenaExtremeFrom st.arena seen
      | fuel + 1, seen, st =>
        if arenaExtremeFrom st.arena seen then true else
        let seen := st.arena.size
        match Heap.pop (evLe st.arena) st.heap with
        | none => false
        | some (event, h) =>
          let st := { st with heap := h, popped := st.popped + 1 }
          match sweepStep rq.ar rq.cfg rq.op rightbound sb.maxx st event with
          | .error _ => false
          | .ok (true, st) => arenaExtremeFrom st.arena seen
          | .ok (false, st) => go fuel seen st
    go (rq.cfg.budget + 1) 0 { arena := f.fq.arena, heap := f.fq.heap }
  | _, _ => false

def answerBool (r : BoolReq) : String :=
  if !(mpInRange r.prec r.a && mpInRange r.prec r.b) then "SKIP-RANGE" else
  showOutcome (runBoolReq r r.ar)

def runFillq : P String := do
  let _ ← arith
  let o ← op
  let a ← mpoly
  let b ← mpoly
  let f := fillQueue a b o
  let order := popAll f.fq.arena (f.fq.heap.size + 1) f.fq.heap #[]
  let evs := order.toList.map (fun i => " | " ++ showEvent f.fq.arena (fun _ => -2) i)
  pure (s!"OK sb {showBoxOpt f.sbbox} cb {showBoxOpt f.cbbox} n={order.size}" ++ String.join evs)

def subdivAnswer (ar : Arith) (prec : String) (o : Op) (cfg : Cfg) (a b : MPoly) : String :=
  if !(mpInRange prec a && mpInRange prec b) then "SKIP-RANGE" else
  let f := fillQueue a b o
  match f.sbbox, f.cbbox with
  | some sb, some cb =>
    match subdivide ar cfg f.fq sb cb o with
    | .error e => showFail e
    | .ok sw =>
      let posMap : Array Int := Id.run do
        let mut m : Array Int := Array.replicate sw.arena.size (-2)
        for h : k in [0:sw.sorted.size] do
          m := m.set! sw.sorted[k] (k : Int)
        return m
      let evs := sw.sorted.toList.map (fun i => " | " ++ showEvent sw.arena (fun p => posMap[p]!) i)
      s!"OK ev={sw.popped} bumps={sw.bumps} n={sw.sorted.size}" ++ String.join evs
  | _, _ => "EMPTYBOX"

def runSubdiv : P String := do
  let (ar, prec) ← arith
  let o ← op
  let dbg ← bool
  let budget ← nat
  let a ← mpoly
  let b ← mpoly
  pure (subdivAnswer ar prec o { dbg := dbg, budget := budget } a b)

/-- `x y L|R S|C cid (ox oy | - -)`: appends the event (and its other event) to the arena -/
def parseEventPair (a : Arena) : P (Arena × Nat) := do
  let p ← pt
  let l ← tok
  let s ← tok
  let cid ← nat
  let left := l == "L"
  let subj := s == "S"
  let n := a.size
  let pk ← peek?
  if pk == some "-" then
    let _ ← tok
    let _ ← tok
    pure (a.push { point := p, left := left, contourId := cid, isSubject := subj, isExteriorRing := true }, n)
  else
    let o ← pt
    let a := a.push { point := p, left := left, other := some (n + 1), contourId := cid, isSubject := subj, isExteriorRing := true }
    let a := a.push { point := o, left := !left, other := some n, contourId := cid, isSubject := subj, isExteriorRing := true }
    pure (a, n)

def runCmpEv : P String := do
  let _ ← arith
  let (a, i) ← parseEventPair #[]
  let (a, j) ← parseEventPair a
  pure (showOrdering (cmpEv a i j))

def showCmpSeg (dbg : Bool) : CmpSegOut → String
  | .ord o => showOrdering o
  | .nonfinite => "NONFINITE"
  | .debugAssert => if dbg then "PANIC debugAssert compare_segments:_left_events" else "?"

def runCmpSeg (dbg : Bool) : P String := do
  let (ar, _) ← arith
  let same ← bool
  let (a, i) ← parseEventPair #[]
  if same then pure (showCmpSeg dbg (compareSegView ar dbg (a.segView i) (a.segView i))) else
  let (a, j) ← parseEventPair a
  pure (showCmpSeg dbg (compareSegView ar dbg (a.segView i) (a.segView j)))

def showIsect : Isect → String
  | .none => "N"
  | .point p => s!"P {showPt p}"
  | .overlap p q => s!"O {showPt p} {showPt q}"
  | .nonfinite => "NONFINITE"

def runIsect : P String := do
  let (ar, _) ← arith
  let a1 ← pt
  let a2 ← pt
  let b1 ← pt
  let b2 ← pt
  pure (showIsect (ar.isect a1 a2 b1 b2))

def runNextAfter : P String := do
  let (ar, prec) ← arith
  let x ← rat
  if !(x = 0 || ratInRange prec x) then pure "SKIP-RANGE" else
  let up := ar.nextUp x
  let down := -(ar.nextUp (-x))
  pure s!"OK {showRat up} {showRat down}"

def runOrient : P String := do
  let _ ← arith
  let a ← pt
  let b ← pt
  let c ← pt
  let s := orient a b c
  pure (if s > 0 then "+" else if s < 0 then "-" else "0")

def runPI : P String := do
  let (ar, _) ← arith
  let dbg ← bool
  let (a, e1) ← parseEventPair #[]
  let io1 ← bool
  let (a, e2) ← parseEventPair a
  let io2 ← bool
  let a := (a.modify e1 (fun e => { e with inOut := io1 })).modify e2 (fun e => { e with inOut := io2 })
  match possibleIntersection ar { dbg := dbg } { arena := a, heap := #[] } e1 e2 with
  | .error e => pure (showFail e)
  | .ok (code, st) =>
    let sh := fun i => " | " ++ showEvent st.arena (fun _ => -2) i
    let segs := [e1, e2].map (fun e =>
      sh e ++ (match st.arena[e]!.other with | some o => sh o | none => ""))
    let order := popAll st.arena (st.heap.size + 1) st.heap #[]
    pure (s!"OK code={code} bumps={st.bumps}" ++ String.join segs ++ s!" | Q {order.size}" ++ String.join (order.toList.map sh))

def parseResTrans : P ResTrans := do
  let t ← tok
  match t with
  | "0" => pure .none | "IO" => pure .inOut | _ => pure .outIn

def runCF : P String := do
  let o ← op
  let evSubj ← bool
  let evET ← parseEdgeType
  let hasPrev ← bool
  let mk (x y : Int) : Pt := { x := x, y := y }
  let ev : Ev := { point := mk 1 1, left := true, other := some 1, edgeType := evET, contourId := 1, isSubject := evSubj, isExteriorRing := true }
  let evo : Ev := { point := mk 3 2, left := false, other := some 0, contourId := 1, isSubject := evSubj, isExteriorRing := true }
  if !hasPrev then
    let a := computeFields #[ev, evo] 0 none o
    pure s!"OK {showBool a[0]!.inOut} {showBool a[0]!.otherInOut} {showResTrans a[0]!.resTrans} none"
  else
    let pSubj ← bool
    let pIO ← bool
    let pOIO ← bool
    let pVert ← bool
    let pET ← parseEdgeType
    let pHasPir ← bool
    let pRT ← parseResTrans
    let p : Ev := { point := mk 1 0, left := true, other := some 3, edgeType := pET, inOut := pIO, otherInOut := pOIO,
                    resTrans := pRT, prevInResult := if pHasPir then some 4 else none,
                    contourId := 2, isSubject := pSubj, isExteriorRing := true }
    let po : Ev := { point := if pVert then mk 1 5 else mk 4 0, left := false, other := some 2, contourId := 2, isSubject := pSubj, isExteriorRing := true }
    let pp : Ev := { point := mk 0 (-1), left := true, resTrans := .outIn, contourId := 3, isSubject := !pSubj, isExteriorRing := true }
    let a := computeFields #[ev, evo, p, po, pp] 0 (some 2) o
    let pir := match a[0]!.prevInResult with
      | none => "none"
      | some 2 => "prev"
      | some 4 => "prevprev"
      | some _ => "?"
    pure s!"OK {showBool a[0]!.inOut} {showBool a[0]!.otherInOut} {showResTrans a[0]!.resTrans} {pir}"

/-! ### splay histories -/

def cmpBy (name : String) : Int → Int → Ordering :=
  match name with
  | "rev" => fun a b => compare b a
  | "mod7" => fun a b =>
      match compare (a % 7) (b % 7) with
      | .eq => compare a b
      | o => o
  | _ => fun a b => compare a b

def optS {α} [ToString α] : Option α → String
  | some x => toString x
  | none => "-"

def shape : Tree Int Int → String
  | .nil => "."
  | .node l k v r => s!"({k}={v}_{shape l}_{shape r})"

def parseKeys (s : String) : List Int :=
  (s.splitOn ",").filterMap (fun x => x.toInt?)

def splayMapStep (cmp : Int → Int → Ordering) (st : SplayTree Int Int × Nat) (tk : String) :
    (SplayTree Int Int × Nat) × String :=
  let (t, opn0) := st
  let opn := opn0 + 1
  let c := (tk.take 1).toString
  let arg := (tk.drop 1).toString
  let k : Int := arg.toInt?.getD 0
  match c with
  | "i" => let (t', r) := t.insert cmp k opn; ((t', opn), s!"i{optS r}")
  | "r" => let (t', r) := t.remove cmp k; ((t', opn), s!"r{optS r}")
  | "g" => let (t', r) := t.get cmp k; ((t', opn), s!"g{optS r}")
  | "G" =>
    let (t', r) := t.get cmp k
    match r, t'.root with
    | some v, .node l kk _ rr => (({ t' with root := .node l kk (v + 1000) rr }, opn), s!"G{v + 1000}")
    | _, _ => ((t', opn), "G-")
  | "x" => let (t', r) := t.get cmp k; ((t', opn), match r with | some v => s!"x{v}" | none => "xPANIC")
  | "f" => let (t', r) := t.findKey cmp k; ((t', opn), s!"f{optS r}")
  | "c" => let (t', r) := t.contains cmp k; ((t', opn), s!"c{showBool r}")
  | "n" => let (t', r) := t.next cmp k; ((t', opn), match r with | some (kk, v) => s!"n{kk}={v}" | none => "n-")
  | "p" => let (t', r) := t.prev cmp k; ((t', opn), match r with | some (kk, v) => s!"p{kk}={v}" | none => "p-")
  | "m" => ((t, opn), s!"m{optS t.min}")
  | "M" => ((t, opn), s!"M{optS t.max}")
  | "C" => ((t.clear, opn), "C")
  | "L" => ((t, opn), s!"L{t.len}/{showBool t.isEmpty}")
  | "E" =>
    let ks := parseKeys arg
    let kvs := (List.range ks.length).zip ks |>.map (fun (j, kk) => (kk, ((opn * 100 + j : Nat) : Int)))
    ((t.extend cmp kvs, opn), "E")
  | "D" => ((t, opn), s!"D{shape t.root}")
  | "I" =>
    let it := TreeIter.ofTree t
    let (_, s) := arg.toList.foldl (fun (acc : TreeIter Int Int × String) ch =>
      let (it, s) := acc
      let rem := it.remaining
      let (it', item) := if ch == 'f' then it.next else it.nextBack
      match item with
      | some (kk, v) => (it', s ++ s!"{ch}{kk}={v}#{rem}/{rem},")
      | none => (it', s ++ s!"{ch}-#{rem}/{rem},")) (it, "I")
    (({}, opn), s)
  | _ => ((t, opn), s!"?{tk}")

def runSplayMap : P String := do
  let name ← tok
  let cmp := cmpBy name
  let c ← get
  let toks := c.toks.toList.drop c.pos
  let (_, outs) := toks.foldl (fun (acc : (SplayTree Int Int × Nat) × List String) tk =>
    let (st, outs) := acc
    let (st', o) := splayMapStep cmp st tk
    (st', o :: outs)) (({}, 0), [])
  pure ("OK " ++ " ".intercalate outs.reverse)

def splaySetStep (cmp : Int → Int → Ordering) (t : SplayTree Int Unit) (tk : String) : SplayTree Int Unit × String :=
  let c := (tk.take 1).toString
  let arg := (tk.drop 1).toString
  let k : Int := arg.toInt?.getD 0
  match c with
  | "i" => let (t', r) := t.insert cmp k (); (t', s!"i{showBool r.isNone}")
  | "r" => let (t', r) := t.remove cmp k; (t', s!"r{showBool r.isSome}")
  | "f" => let (t', r) := t.findKey cmp k; (t', s!"f{optS r}")
  | "c" => let (t', r) := t.contains cmp k; (t', s!"c{showBool r}")
  | "n" => let (t', r) := t.next cmp k; (t', match r with | some (kk, _) => s!"n{kk}" | none => "n-")
  | "p" => let (t', r) := t.prev cmp k; (t', match r with | some (kk, _) => s!"p{kk}" | none => "p-")
  | "m" => (t, s!"m{optS t.min}")
  | "M" => (t, s!"M{optS t.max}")
  | "C" => (t.clear, "C")
  | "L" => (t, s!"L{t.len}/{showBool t.isEmpty}")
  | "E" => (t.extend cmp ((parseKeys arg).map (fun kk => (kk, ()))), "E")
  | "I" =>
    let it := TreeIter.ofTree t
    let (_, s) := arg.toList.foldl (fun (acc : TreeIter Int Unit × String) ch =>
      let (it, s) := acc
      let rem := it.remaining
      let (it', item) := if ch == 'f' then it.next else it.nextBack
      match item with
      | some (kk, _) => (it', s ++ s!"{ch}{kk}#{rem}/{rem},")
      | none => (it', s ++ s!"{ch}-#{rem}/{rem},")) (it, "I")
    ({}, s)
  | _ => (t, s!"?{tk}")

def runSplaySet : P String := do
  let name ← tok
  let cmp := cmpBy name
  let c ← get
  let toks := c.toks.toList.drop c.pos
  let (_, outs) := toks.foldl (fun (acc : SplayTree Int Unit × List String) tk =>
    let (st, outs) := acc
    let (st', o) := splaySetStep cmp st tk
    (st', o :: outs)) ({}, [])
  pure ("OK " ++ " ".intercalate outs.reverse)

def revOrd : Ordering → Ordering
  | .lt => .gt | .gt => .lt | .eq => .eq

/-- ORDLAWS: the same loops as the harness, evaluated with the model's orders -/
def runOrdLaws : P String := do
  let (ar, prec) ← arith
  let o ← op
  let budget ← nat
  let a ← mpoly
  let b ← mpoly
  if !(mpInRange prec a && mpInRange prec b) then pure "SKIP-RANGE" else
  let f := fillQueue a b o
  match f.sbbox, f.cbbox with
  | some sb, some cb =>
    match subdivide ar { dbg := false, budget := budget } f.fq sb cb o with
    | .error e => pure (showFail e)
    | .ok sw =>
      let evs := sw.sorted
      let ar' := sw.arena
      let n := evs.size
      let lim := min n 300
      let (pairs, eq, anti) := Id.run do
        let mut pairs := 0
        let mut eq := 0
        let mut anti := 0
        for i in [0:lim] do
          for j in [i+1:lim] do
            pairs := pairs + 1
            let x := cmpEv ar' evs[i]! evs[j]!
            let y := cmpEv ar' evs[j]! evs[i]!
            if x == .eq || y == .eq then eq := eq + 1
            if x != revOrd y then anti := anti + 1
        return (pairs, eq, anti)
      let w := if n ≤ 40 then n else 8
      let (triples, trans) := Id.run do
        let mut triples := 0
        let mut trans := 0
        for i in [0:lim] do
          for j in [i+1:min lim (i + w)] do
            for k in [j+1:min lim (i + w)] do
              triples := triples + 1
              let ab := cmpEv ar' evs[i]! evs[j]!
              let bc := cmpEv ar' evs[j]! evs[k]!
              let ac := cmpEv ar' evs[i]! evs[k]!
              if ab == bc && ab != ac then trans := trans + 1
              let ba := cmpEv ar' evs[j]! evs[i]!
              let ca := cmpEv ar' evs[k]! evs[i]!
              let cb_ := cmpEv ar' evs[k]! evs[j]!
              if cb_ == ba && cb_ != ca then trans := trans + 1
        return (triples, trans)
      let lefts := evs.filter (fun i => ar'[i]!.left && ar'[i]!.other.isSome)
      let ll := min lefts.size 150
      let (sp, seq, santi) := Id.run do
        let mut sp := 0
        let mut seq := 0
        let mut santi := 0
        for i in [0:ll] do
          for j in [i+1:ll] do
            let e1 := lefts[i]!
            let e2 := lefts[j]!
            let o1 := ar'[e1]!.other.getD 0
            let o2 := ar'[e2]!.other.getD 0
            if ar'[e1]!.point.x > ar'[o2]!.point.x || ar'[e2]!.point.x > ar'[o1]!.point.x then continue
            sp := sp + 1
            let x := segCmp ar false ar' e1 e2
            let y := segCmp ar false ar' e2 e1
            if x == .eq || y == .eq then seq := seq + 1
            if x != revOrd y then santi := santi + 1
        return (sp, seq, santi)
      pure s!"OK n={n} pairs={pairs} eq={eq} antisym={anti} triples={triples} trans={trans} segpairs={sp} segeq={seq} segantisym={santi}"
  | _, _ => pure "EMPTYBOX"

/-- answer one `RUN` request (the text after `RUN <k> `) -/
def answer (req : String) (resolve : Nat → Option MPoly := fun _ => none) : String :=
  let toks := (req.splitOn " ").filter (· ≠ "") |>.toArray
  let cur : Cur := { toks := toks, pos := 1 }
  let run (p : P String) : String :=
    match p cur with
    | some (s, _) => s
    | none => "BADREQ"
  -- `X`-prefixed kinds are answered by the model only
  let kind := toks[0]?.map (fun k => if k.startsWith "X" then (k.drop 1).toString else k)
  match kind with
  | some "BOOL" => run (do let r ← parseBool resolve; pure (answerBool r))
  | some "ORDLAWS" => run runOrdLaws
  | some "SUBDIV" => run runSubdiv
  | some "FILLQ" => run runFillq
  | some "CMPEV" => run runCmpEv
  | some "CMPSEG" => run (runCmpSeg false)
  | some "ISECT" => run runIsect
  | some "ORIENT" => run runOrient
  | some "NEXTAFTER" => run runNextAfter
  | some "PI" => run runPI
  | some "CF" => run runCF
  | some "SPLAYMAP" => run runSplayMap
  | some "SPLAYSET" => run runSplaySet
  | _ => "BADREQ"

end Gbo.Run
