import Gbo.Driver.Run
import Gbo.Spec.Subdivision
/-
  Case-level driver state and the `CHECK` oracles, evaluated on the IMPLEMENTATION's answers.
-/
namespace Gbo.Check
open Gbo Gbo.Proto Gbo.Spec

structure RunRec where
  req : Option Run.BoolReq := none
  refA : Option Nat := none             -- the subject was `@j`: the implementation's result of run j
  refB : Option Nat := none
  implOut : Option MPoly := none        -- the implementation's result (when it answered OK ... MP ...)
  implRaw : String := ""
  modelAns : String := ""               -- the model's answer to a BOOL / SUBDIV request (for the range probe)
deriving Inhabited

structure CaseSt where
  runs : Array RunRec := #[]
  nchecks : Nat := 0

def CaseSt.resolve (c : CaseSt) (k : Nat) : Option MPoly := (c.runs[k]?).bind (·.implOut)

def setRun (c : CaseSt) (k : Nat) (f : RunRec → RunRec) : CaseSt :=
  let runs := if k < c.runs.size then c.runs else c.runs ++ Array.replicate (k + 1 - c.runs.size) ({} : RunRec)
  { c with runs := runs.modify k f }

/-- parse `OK ev=.. bumps=.. MP <mpoly>` -/
def parseImplMP (s : String) : Option MPoly :=
  let toks := (s.splitOn " ").filter (· ≠ "") |>.toArray
  match toks[0]?, toks[3]? with
  | some "OK", some "MP" =>
    match mpolyLit { toks := toks, pos := 4 } with
    | some (m, _) => some m
    | none => none
  | _, _ => none

/-- parse the event list of a SUBDIV / FILLQ answer (`... n=N | ev | ev ...`) -/
def parseEvents (raw : String) : Option (Array SubEv) :=
  match raw.splitOn " | " with
  | [] => none
  | _ :: evs =>
    evs.toArray.mapM (fun (e : String) =>
      let t := (e.splitOn " ").filter (· ≠ "") |>.toArray
      if t.size < 13 then none else do
        let x ← parseRat? t[0]!
        let y ← parseRat? t[1]!
        let other : Option Pt := match parseRat? t[2]!, parseRat? t[3]! with
          | some ox, some oy => some { x := ox, y := oy }
          | _, _ => none
        let et : EdgeType := match t[8]! with
          | "NC" => .nonContributing | "ST" => .sameTransition | "DT" => .differentTransition | _ => .normal
        let rt : ResTrans := match t[9]! with
          | "IO" => .inOut | "OI" => .outIn | _ => .none
        let prev ← t[10]!.toInt?
        let cid ← t[11]!.toNat?
        pure { point := { x := x, y := y }, other := other, left := t[4]! == "L", subj := t[5]! == "S",
               inOut := t[6]! == "1", otherInOut := t[7]! == "1", et := et, rt := rt, prev := prev, cid := cid, ext := t[12]! == "1" })

def parseBoxes (raw : String) : Option (Option BBox × Option BBox) :=
  -- `OK sb <box> cb <box> n=..`
  let t := ((raw.splitOn " | ").head!.splitOn " ").filter (· ≠ "") |>.toArray
  let box (i : Nat) : Option (Option BBox × Nat) :=
    if t[i]? == some "none" then some (none, i + 1) else do
      let a ← (t[i]?).bind parseRat?
      let b ← (t[i+1]?).bind parseRat?
      let c ← (t[i+2]?).bind parseRat?
      let d ← (t[i+3]?).bind parseRat?
      pure (some { minx := a, miny := b, maxx := c, maxy := d }, i + 4)
  if t[0]? != some "OK" || t[1]? != some "sb" then none else do
    let (sb, i) ← box 2
    if t[i]? != some "cb" then none else
    let (cb, _) ← box (i + 1)
    pure (sb, cb)

/-! ### transforms (C08) -/

def transformPt (name : String) (p : Pt) : Option Pt :=
  match name with
  | "id" => some p
  | "mirrorx" => some { x := -p.x, y := p.y }
  | "mirrory" => some { x := p.x, y := -p.y }
  | "transpose" => some { x := p.y, y := p.x }
  | "rot90" => some { x := -p.y, y := p.x }
  | "rot180" => some { x := -p.x, y := -p.y }
  | "rot270" => some { x := p.y, y := -p.x }
  | "antitranspose" => some { x := -p.y, y := -p.x }
  | _ =>
    -- scale:<e>  or  shift:<dx>,<dy>
    match name.splitOn ":" with
    | ["scale", e] => e.toInt?.map (fun e => { x := p.x * pow2 e, y := p.y * pow2 e })
    | ["shift", d] =>
      match d.splitOn "," with
      | [dx, dy] =>
        match parseRat? (dx.replace "_" ":"), parseRat? (dy.replace "_" ":") with
        | some dx, some dy => some { x := p.x + dx, y := p.y + dy }
        | _, _ => none
      | _ => none
    | _ => none

def transformMP (name : String) (m : MPoly) : Option MPoly :=
  m.mapM (fun p => do
    let e ← p.ext.mapM (transformPt name)
    let hs ← p.holes.mapM (fun h => h.mapM (transformPt name))
    pure { ext := e, holes := hs })

/-! ### RPN region formulas

  operands: `A<k>` / `B<k>` subject / clipping of run k read even-odd; `R<k>` the implementation's
  result of run k read structurally; `E<k>` the same read even-odd; a suffix `~<transform>` applies a
  plane transform first.  operators: `&` `|` `^` `!` `-` (and-not) `=` (iff) `>` (implies).
-/

inductive Node
  | eo (atom : Nat)
  | mp (l : Layout)
  | eoL (l : Layout)
  | and (a b : Node) | or (a b : Node) | xor (a b : Node) | not (a : Node)
  | iff (a b : Node) | imp (a b : Node)
deriving Inhabited

def Node.eval (v : Array Bool) : Node → Bool
  | .eo a => v[a]!
  | .mp l => evalMP v l
  | .eoL l => evalEO v l
  | .and a b => a.eval v && b.eval v
  | .or a b => a.eval v || b.eval v
  | .xor a b => a.eval v != b.eval v
  | .not a => !a.eval v
  | .iff a b => a.eval v == b.eval v
  | .imp a b => !a.eval v || b.eval v

def operandMP (c : CaseSt) (kind : Char) (k : Nat) : Option MPoly :=
  match kind with
  | 'A' => (c.runs[k]?).bind (fun r => r.req.map (·.a))
  | 'B' => (c.runs[k]?).bind (fun r => r.req.map (·.b))
  | _ => c.resolve k

/-- override of `R<k>` / `E<k>` used when a failed check is re-evaluated on the model's results -/
abbrev Override := Nat → Option MPoly

def buildFormula (c : CaseSt) (ov : Override) (toks : List String) : Option (Array (List Seg) × Node) :=
  let step (acc : Option (Array (List Seg) × List Node)) (t : String) : Option (Array (List Seg) × List Node) := do
    let (atoms, stack) ← acc
    match t, stack with
    | "&", b :: a :: rest => some (atoms, .and a b :: rest)
    | "|", b :: a :: rest => some (atoms, .or a b :: rest)
    | "^", b :: a :: rest => some (atoms, .xor a b :: rest)
    | "-", b :: a :: rest => some (atoms, .and a (.not b) :: rest)
    | "=", b :: a :: rest => some (atoms, .iff a b :: rest)
    | ">", b :: a :: rest => some (atoms, .imp a b :: rest)
    | "!", a :: rest => some (atoms, .not a :: rest)
    | _, _ =>
      let (name, tr) := match t.splitOn "~" with
        | [n, tr] => (n, tr)
        | _ => (t, "id")
      let kind := name.front
      let k ← (name.drop 1).toString.toNat?
      let m0 ← if kind == 'R' || kind == 'E' then (match ov k with | some m => some m | none => operandMP c kind k) else operandMP c kind k
      let m ← transformMP tr m0
      if kind == 'A' || kind == 'B' then
        let es := (allRings m).flatMap ringEdges
        some (atoms.push es, .eo atoms.size :: stack)
      else
        let l := layout m atoms
        some (l.atoms, (if kind == 'E' then Node.eoL l else Node.mp l) :: stack)
  match toks.foldl step (some (#[], [])) with
  | some (atoms, [n]) => some (atoms, n)
  | _ => none

def showVerdict : Verdict → String
  | .pass c t => s!"pass cells={c} thin={t}"
  | .fail why w => s!"fail {why.replace " " "_"}" ++ (match w with | some p => s!" witness={showRat p.x},{showRat p.y}" | none => "")
  | .internal why => s!"internal {why.replace " " "_"}"

/-- Is the pair of operands ill-conditioned for rounded arithmetic?  (a) a vertex on (within `tol` of)
    another edge that it is not an endpoint of, or collinear overlapping edges; (b) an edge that rounded
    arithmetic cannot tell from a vertical one (|dx| ≤ 1e-9 |dy|, dx ≠ 0); (c) two edges that meet at an angle
    below 1e-6 rad without being parallel. -/
def hasIncidence (a b : MPoly) (tol : Rat := 0) : Bool :=
  let es := ((allRings a ++ allRings b).flatMap (fun r => ringEdges (dedupConsecutive r))).toArray
  let near (p : Pt) (f : Seg) : Bool :=
    p ≠ f.1 && p ≠ f.2 && (if tol = 0 then onSeg p f else decide (dist2PtSeg p f ≤ tol * tol))
  let ab (q : Rat) : Rat := if q < 0 then -q else q
  let nearVertical (e : Seg) : Bool :=
    let dx := ab (e.2.x - e.1.x)
    let dy := ab (e.2.y - e.1.y)
    decide (dx ≠ 0) && decide (dx * 1000000000 ≤ dy)
  let nearParallel (e f : Seg) : Bool :=
    let ux := e.2.x - e.1.x
    let uy := e.2.y - e.1.y
    let vx := f.2.x - f.1.x
    let vy := f.2.y - f.1.y
    let k := ux * vy - uy * vx
    decide (k ≠ 0) && decide (k * k * 1000000000000 ≤ (ux * ux + uy * uy) * (vx * vx + vy * vy)) && segsTouch e f
  es.any nearVertical ||
  (List.range es.size).any (fun i => (List.range es.size).any (fun j =>
    if i = j then false else
    let e := es[i]!
    let f := es[j]!
    collinearOverlap e f || near e.1 f || near e.2 f || (decide (i < j) && nearParallel e f)))

def normRing (r : Ring) (anyDir : Bool) : List String :=
  -- drop the closing vertex and repeated vertices, rotate to the lexicographically smallest start
  let r := dedupConsecutive r
  let r := if r.length > 1 && r.head? == r.getLast? then r.dropLast else r
  let strs := r.map showPt
  let rotations (l : List String) : List (List String) := (List.range l.length).map (fun i => l.drop i ++ l.take i)
  let best (ls : List (List String)) : List String :=
    ls.foldl (fun (b : Option (List String)) x => match b with
      | none => some x
      | some y => if (" ".intercalate x) < (" ".intercalate y) then some x else some y) none |>.getD []
  if anyDir then best (rotations strs ++ rotations strs.reverse) else best (rotations strs)

def insertStr (x : String) : List String → List String
  | [] => [x]
  | y :: ys => if x ≤ y then x :: y :: ys else y :: insertStr x ys

def ringSet (m : MPoly) (anyDir : Bool) : List String :=
  ((allRings m).map (fun r => " ".intercalate (normRing r anyDir))).foldl (fun acc s => insertStr s acc) []

/-- evaluate one CHECK line; `ov` substitutes results (for re-evaluation on model outputs) -/
def evalCheck (c0 : CaseSt) (ov : Override) (toks : List String) (rawOv : Nat → Option String := fun _ => none) : String :=
  let c : CaseSt := { c0 with runs := (List.range c0.runs.size).toArray.map (fun k =>
    match rawOv k with
    | some raw => { c0.runs[k]! with implRaw := raw }
    | none => c0.runs[k]!) }
  let res (k : Nat) : Option MPoly := match ov k with | some m => some m | none => c.resolve k
  match toks with
  | "formula" :: tol :: rpn =>
    match parseRat? tol, buildFormula c ov rpn with
    | some tol, some (atoms, node) => showVerdict (checkFormula "formula" atoms (fun v => node.eval v) tol)
    | _, _ => "skip unresolved"
  | ["region", k, tol] =>
    -- C01 through the definition whose soundness is `Gbo.Props.C01_check_sound`
    match k.toNat?, parseRat? tol with
    | some k, some tol =>
      match res k, (c.runs[k]?).bind (·.req) with
      | some r, some rq => showVerdict (c01Verdict rq.a rq.b r rq.op tol)
      | _, _ => "skip unresolved"
    | _, _ => "skip unresolved"
  | ["sameregion", k1, k2, tol] =>
    -- through the definition whose soundness is `Gbo.Props.sameRegion_check_sound`
    match k1.toNat?.bind res, k2.toNat?.bind res, parseRat? tol with
    | some a, some b, some tol => showVerdict (sameRegionVerdict a b tol)
    | _, _, _ => "skip unresolved"
  | ["valid", k, tol] =>
    match k.toNat?.bind res, parseRat? tol with
    | some m, some tol => showVerdict (validOutput m tol)
    | _, _ => "skip unresolved"
  | ["operand", w, k] =>
    match k.toNat? with
    | some k =>
      match (if w.front == 'R' then res k else operandMP c (w.front) k) with
      | some m => showVerdict (if w.front == 'R' then acceptableOperand m else validOperand m)
      | none => "skip unresolved"
    | none => "skip unresolved"
  | ["operandx", w, k] =>
    match k.toNat? with
    | some k =>
      match operandMP c (w.front) k with
      | some m => showVerdict (validOperandForOutcome m)
      | none => "skip unresolved"
    | none => "skip unresolved"
  | ["geom", k, tol, trivialOk] =>
    match k.toNat?, parseRat? tol with
    | some k, some tol =>
      match res k, (c.runs[k]?).bind (·.req) with
      | some m, some rq =>
        let inputs := ((allRings rq.a ++ allRings rq.b).flatMap (fun r => ringEdges (dedupConsecutive r)))
        let g := geomCheck inputs m tol
        -- rings handed back unchanged by the bounding-box shortcut keep their given direction
        let shortcut : Bool := match c.runs[k]? with
          | some r => decide ((r.implRaw.splitOn " ev=0 ").length > 1)
          | none => false
        let cwBad := trivialOk != "1" && !shortcut && g.cwRings > 0
        if g.edgesOff = 0 && g.vertsOff = 0 && g.badRings = 0 && !cwBad then
          s!"pass vertices={g.vertices} inputverts={g.inputVerts}"
        else s!"fail edgesOff={g.edgesOff},vertsOff={g.vertsOff},badRings={g.badRings},cwRings={g.cwRings}"
      | _, _ => "skip unresolved"
    | _, _ => "skip unresolved"
  | ["fillq", k] =>
    match k.toNat? with
    | some k =>
      match c.runs[k]? with
      | some r =>
        match r.req, parseEvents r.implRaw, parseBoxes r.implRaw with
        | some rq, some evs, some (sb, cb) =>
          (match fillqCheck evs rq.a rq.b sb cb with
           | none => s!"pass events={evs.size}"
           | some why => s!"fail {why.replace " " "_"}")
        | _, _, _ => "skip unresolved"
      | none => "skip unresolved"
    | none => "skip unresolved"
  | ["planar", k, tol, mode] =>
    match k.toNat?, parseRat? tol with
    | some k, some tol =>
      match c.runs[k]? with
      | some r =>
        if !r.implRaw.startsWith "OK" then "skip notok" else
        match r.req, parseEvents r.implRaw with
        | some rq, some evs =>
          (match planarCheck evs rq.a rq.b tol (mode == "full") with
           | none => s!"pass events={evs.size}"
           | some why => s!"fail {(why.replace " " "_").replace "\n" "_"}")
        | _, _ => "skip unresolved"
      | none => "skip unresolved"
    | _, _ => "skip unresolved"
  | ["flags", k, tol] =>
    match k.toNat?, parseRat? tol with
    | some k, some tol =>
      match c.runs[k]? with
      | some r =>
        if !r.implRaw.startsWith "OK" then "skip notok" else
        match r.req, parseEvents r.implRaw with
        | some rq, some evs =>
          let rep := flagsCheck evs rq.a rq.b rq.op tol
          (match rep.bad with
           | none => s!"pass checked={rep.checked} unclear={rep.unclear}"
           | some why => s!"fail {(why.replace " " "_").replace "\n" "_"}")
        | _, _ => "skip unresolved"
      | none => "skip unresolved"
    | _, _ => "skip unresolved"
  | ["identicalifexact", k1, k2] =>
    match k1.toNat?, k2.toNat? with
    | some k1, some k2 =>
      let exactRun (k : Nat) : Bool :=
        match (c.runs[k]?).bind (·.req) with
        | some rq =>
          (match Run.runBoolReq rq rq.ar, Run.runBoolReq rq Arith.exact with
           | .ok x, .ok y => showMPoly x.result == showMPoly y.result
           | _, _ => false)
        | none => false
      if !(exactRun k1 && exactRun k2) then "skip inexact" else
      (match res k1, res k2 with
       | some a, some b => if showMPoly a == showMPoly b then "pass" else "fail f32_and_f64_results_differ_on_an_exact_run"
       | _, _ => "skip unresolved")
    | _, _ => "skip unresolved"
  | ["samerings", k1, k2, dir] =>
    match k1.toNat?.bind res, k2.toNat?.bind res with
    | some a, some b => if ringSet a (dir == "anydir") == ringSet b (dir == "anydir") then "pass" else "fail ring_sets_differ"
    | _, _ => "skip unresolved"
  | ["mappedrings", k1, k2, tr] =>
    -- result k2 must be, ring for ring and vertex for vertex, the transform of result k1
    match k1.toNat?.bind res, k2.toNat?.bind res with
    | some a, some b =>
      match transformMP tr a with
      | some ta => if showMPoly ta == showMPoly b then "pass" else "fail not_the_transformed_result"
      | none => "skip badtransform"
    | _, _ => "skip unresolved"
  | ["identical", k1, k2] =>
    match k1.toNat?.bind res, k2.toNat?.bind res with
    | some a, some b => if showMPoly a == showMPoly b then "pass" else "fail results_differ"
    | _, _ => "skip unresolved"
  | ["isoperand", k, w] =>
    -- result k is exactly operand w of the same run (rings handed back unchanged)
    match k.toNat? with
    | some k =>
      match res k, operandMP c w.front k with
      | some r, some o =>
        -- rings handed back unchanged (empty rings / polygons without rings carry no geometry)
        let rings (m : MPoly) : List String := ((allRings m).filter (fun r => !r.isEmpty)).map showRing
        if rings r == rings o then "pass" else "fail not_handed_back_unchanged"
      | _, _ => "skip unresolved"
    | none => "skip unresolved"
  | ["empty", k] =>
    match k.toNat?.bind res with
    | some m => if (allRings m).all (·.isEmpty) then "pass" else "fail result_not_empty"
    | none => "skip unresolved"
  | "areas" :: tol :: ks =>
    -- areas kI kU kD kD' kX kA-run: area identities of C05 (operands of run kI)
    match parseRat? tol, ks.mapM (fun k => k.toNat?) with
    | some tol, some [kI, kU, kD, kE, kX] =>
      match res kI, res kU, res kD, res kE, res kX, (c.runs[kI]?).bind (·.req) with
      | some i, some u, some d, some e, some x, some rq =>
        let aA := areaMP rq.a
        let aB := areaMP rq.b
        let ab (q : Rat) : Rat := if q < 0 then -q else q
        let e1 := ab (areaMP i + areaMP u - aA - aB)
        let e2 := ab (areaMP x - (areaMP u - areaMP i))
        let e3 := ab (areaMP d - (aA - areaMP i))
        let e4 := ab (areaMP e - (aB - areaMP i))
        if e1 ≤ tol && e2 ≤ tol && e3 ≤ tol && e4 ≤ tol then "pass" else s!"fail area_identities_{showRat e1}_{showRat e2}_{showRat e3}_{showRat e4}"
      | _, _, _, _, _, _ => "skip unresolved"
    | _, _ => "skip badargs"
  | _ => "skip unknowncheck"

/-- the runs a check refers to -/
def referencedRuns (toks : List String) : List Nat :=
  toks.filterMap (fun t =>
    let t := (t.splitOn "~").head!
    if (t.startsWith "R" || t.startsWith "E") then (t.drop 1).toString.toNat? else t.toNat?)

end Gbo.Check
