import Gbo.Model.Connect
/-
  Line protocol shared with the Rust harness: number / point / polygon encoding and decoding.
  A number is `m:e` (the dyadic m * 2^e, m odd or 0:0) or `n/d` (a non-dyadic rational, only ever
  produced by the model under exact arithmetic).
-/
namespace Gbo.Proto
open Gbo

def isPow2 (n : Nat) : Bool := n != 0 && (n &&& (n - 1)) == 0

/-- canonical text of a rational -/
def showRat (q : Rat) : String :=
  if q = 0 then "0:0" else
  if isPow2 q.den then
    -- q = num / 2^k with num odd unless k = 0
    let k := Nat.log2 q.den
    if k > 0 then s!"{q.num}:-{k}"
    else
      -- strip factors of two from the numerator
      let n := q.num.natAbs
      let tz := (List.range 2100).foldl (fun (acc : Nat × Bool) _ =>
        let (t, go) := acc
        if go && (n >>> t) % 2 == 0 then (t + 1, true) else (t, false)) (0, true)
      let t := tz.1
      let m : Int := q.num / ((2 ^ t : Nat) : Int)
      s!"{m}:{t}"
  else s!"{q.num}/{q.den}"

def parseRat? (s : String) : Option Rat :=
  match s.splitOn ":" with
  | [m, e] =>
    match m.toInt?, e.toInt? with
    | some m, some e => some ((m : Rat) * pow2 e)
    | _, _ => none
  | _ =>
    match s.splitOn "/" with
    | [n, d] =>
      match n.toInt?, d.toNat? with
      | some n, some d => if d = 0 then none else some ((n : Rat) / (d : Rat))
      | _, _ => none
    | _ => none

def showPt (p : Pt) : String := s!"{showRat p.x} {showRat p.y}"

def showRing (r : Ring) : String :=
  " ".intercalate (toString r.length :: r.map showPt)

def showPoly (p : Poly) : String :=
  " ".intercalate (toString (1 + p.holes.length) :: showRing p.ext :: p.holes.map showRing)

def showMPoly (m : MPoly) : String :=
  " ".intercalate (toString m.length :: m.map showPoly)

/-- token cursor -/
structure Cur where
  toks : Array String
  pos : Nat := 0

abbrev P := StateT Cur Option

def tok : P String := fun c =>
  if h : c.pos < c.toks.size then some (c.toks[c.pos], { c with pos := c.pos + 1 }) else none

def peek? : P (Option String) := fun c => some (c.toks[c.pos]?, c)

def nat : P Nat := do
  let t ← tok
  match t.toNat? with
  | some n => pure n
  | none => failure

def int : P Int := do
  let t ← tok
  match t.toInt? with
  | some n => pure n
  | none => failure

def rat : P Rat := do
  let t ← tok
  match parseRat? t with
  | some q => pure q
  | none => failure

def pt : P Pt := do
  let x ← rat
  let y ← rat
  pure { x := x, y := y }

def many {α} (n : Nat) (p : P α) : P (List α) :=
  match n with
  | 0 => pure []
  | n + 1 => do
    let a ← p
    let rest ← many n p
    pure (a :: rest)

def ring : P Ring := do
  let n ← nat
  many n pt

def poly : P Poly := do
  let n ← nat
  match n with
  | 0 => failure
  | k + 1 =>
    let e ← ring
    let hs ← many k ring
    pure { ext := e, holes := hs }

def mpolyLit : P MPoly := do
  let n ← nat
  many n poly

/-- an operand: a literal multipolygon or `@k`, the implementation's result of run `k` -/
def mpolyRef (resolve : Nat → Option MPoly) : P MPoly := do
  let pk ← peek?
  match pk with
  | some t =>
    if t.startsWith "@" then
      let _ ← tok
      match (t.drop 1).toString.toNat? with
      | some k => match resolve k with
        | some m => pure m
        | none => failure
      | none => failure
    else mpolyLit
  | none => failure

def mpoly : P MPoly := mpolyLit

def op : P Op := do
  let t ← tok
  match t with
  | "I" => pure .intersection
  | "D" => pure .difference
  | "U" => pure .union
  | "X" => pure .xor
  | _ => failure

def arith : P (Arith × String) := do
  let t ← tok
  match t with
  | "f64" => pure (Arith.f64, t)
  | "f32" => pure (Arith.f32, t)
  | "exact" => pure (Arith.exact, t)
  | _ => failure

def bool : P Bool := do
  let t ← tok
  match t with
  | "1" => pure true
  | "0" => pure false
  | _ => failure

def showBool (b : Bool) : String := if b then "1" else "0"

def showOrdering : Ordering → String
  | .lt => "Less" | .eq => "Equal" | .gt => "Greater"

def showFail : Fail → String
  | .panic .indexContour => "PANIC indexContour"
  | .panic .unwrapOther => "PANIC unwrapOther"
  | .panic .indexEvents => "PANIC indexEvents"
  | .panic (.debugAssert w) => s!"PANIC debugAssert {w.replace " " "_"}"
  | .budget b => s!"BUDGET bumps={b}"
  | .nonfinite => "NONFINITE"
  | .fuel "order_events bubble sort" => "NOSORT"     -- the sort-pass hook of the real code
  | .fuel w => s!"FUEL {w.replace " " "_"}"

def showEdgeType : EdgeType → String
  | .normal => "N" | .nonContributing => "NC" | .sameTransition => "ST" | .differentTransition => "DT"
def showResTrans : ResTrans → String
  | .none => "0" | .inOut => "IO" | .outIn => "OI"

def parseEdgeType : P EdgeType := do
  let t ← tok
  match t with
  | "N" => pure .normal | "NC" => pure .nonContributing | "ST" => pure .sameTransition | "DT" => pure .differentTransition
  | _ => failure

end Gbo.Proto
