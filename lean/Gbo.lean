-- This module serves as the root of the `Gbo` library.
-- Import modules here that should be built as part of the library.
import Gbo.Basic
