-- Root of the `Gbo` library: model, specifications, driver support and all property modules.
import Gbo.Model.Connect
import Gbo.Spec.Subdivision
import Gbo.Driver.Check
import Gbo.Props.C01
import Gbo.Props.C02
import Gbo.Props.C05
import Gbo.Props.C06
import Gbo.Props.C07
import Gbo.Props.C09
import Gbo.Props.C12
import Gbo.Props.C13
import Gbo.Props.C14
import Gbo.Props.C15
import Gbo.Props.C16
import Gbo.Props.C17
import Gbo.Props.C18
