//! Correspondence harness: runs the real geo-booleanop code on the requests of a case file and
//! writes the same file back with one `IMPL <k> <answer>` line after every `RUN <k> <request>` line.
//! The Lean driver answers the same requests from the model; the orchestrator diffs the two.
//!
//! Usage: gbo-harness exec < cases.in > cases.impl
//!        gbo-harness stack <scenario> <n>        (C18 child process scenarios)
//!
//! Numbers travel as `m:e` (= m * 2^e, exact); see lean/Gbo/Driver/Proto.lean.

use geo_booleanop::boolean::compare_segments::compare_segments;
use geo_booleanop::boolean::compute_fields::compute_fields;
use geo_booleanop::boolean::fill_queue::fill_queue;
use geo_booleanop::boolean::possible_intersection::possible_intersection;
use geo_booleanop::boolean::subdivide_segments::subdivide;
use geo_booleanop::boolean::sweep_event::{EdgeType, ResultTransition, SweepEvent};
use geo_booleanop::boolean::verif;
use geo_booleanop::boolean::{BooleanOp, BoundingBox, Float, Operation};
use geo_booleanop::splay::{SplaySet, SplayTree};
use geo_types::{Coord, LineString, MultiPolygon, Polygon};
use std::cmp::Ordering;
use std::collections::BinaryHeap;
use std::collections::HashMap;
use std::fmt::Write as _;
use std::io::{BufRead, Write};
use std::panic::{catch_unwind, AssertUnwindSafe};
use std::rc::{Rc, Weak};

mod stack;

// ---------------------------------------------------------------------------------------------
// numbers

pub trait Fl: Float + 'static {
    fn from64(x: f64) -> Self;
    fn to64(self) -> f64;
}
impl Fl for f64 {
    fn from64(x: f64) -> f64 {
        x
    }
    fn to64(self) -> f64 {
        self
    }
}
impl Fl for f32 {
    fn from64(x: f64) -> f32 {
        x as f32
    }
    fn to64(self) -> f64 {
        self as f64
    }
}

fn show_num(x: f64) -> String {
    if x == 0.0 {
        return "0:0".to_string();
    }
    if !x.is_finite() {
        return if x.is_nan() { "nan".into() } else if x > 0.0 { "inf".into() } else { "-inf".into() };
    }
    let bits = x.to_bits();
    let neg = (bits >> 63) != 0;
    let ex = ((bits >> 52) & 0x7ff) as i64;
    let frac = bits & ((1u64 << 52) - 1);
    let (mut m, mut e) = if ex == 0 { (frac, -1074i64) } else { (frac | (1u64 << 52), ex - 1075) };
    let tz = m.trailing_zeros() as i64;
    m >>= tz;
    e += tz;
    format!("{}{}:{}", if neg { "-" } else { "" }, m, e)
}

fn parse_num(s: &str) -> Result<f64, String> {
    let (m, e) = s.split_once(':').ok_or_else(|| format!("bad number {}", s))?;
    let m: i128 = m.parse().map_err(|_| format!("bad mantissa {}", s))?;
    let mut e: i32 = e.parse().map_err(|_| format!("bad exponent {}", s))?;
    if m.unsigned_abs() >= (1u128 << 53) {
        return Err(format!("mantissa too large {}", s));
    }
    let mut x = m as f64;
    if m == 0 && s.starts_with('-') {
        return Ok(-0.0);
    }
    while e > 1000 {
        x *= 2f64.powi(1000);
        e -= 1000;
    }
    while e < -1000 {
        x *= 2f64.powi(-1000);
        e += 1000;
    }
    Ok(x * 2f64.powi(e))
}

struct Toks<'a> {
    t: Vec<&'a str>,
    i: usize,
    /// results of earlier runs of the same case (`@k` operands)
    prior: &'a HashMap<usize, String>,
}
impl<'a> Toks<'a> {
    fn new(s: &'a str, prior: &'a HashMap<usize, String>) -> Self {
        Toks {
            t: s.split_ascii_whitespace().collect(),
            i: 0,
            prior,
        }
    }
    fn next(&mut self) -> Result<&'a str, String> {
        let r = self.t.get(self.i).copied().ok_or_else(|| "unexpected end of line".to_string());
        self.i += 1;
        r
    }
    fn usize(&mut self) -> Result<usize, String> {
        self.next()?.parse().map_err(|_| "bad integer".to_string())
    }
    fn i64(&mut self) -> Result<i64, String> {
        self.next()?.parse().map_err(|_| "bad integer".to_string())
    }
    fn num(&mut self) -> Result<f64, String> {
        parse_num(self.next()?)
    }
    fn bool(&mut self) -> Result<bool, String> {
        Ok(self.next()? == "1")
    }
    fn coord<F: Fl>(&mut self) -> Result<Coord<F>, String> {
        let x = self.num()?;
        let y = self.num()?;
        Ok(Coord {
            x: F::from64(x),
            y: F::from64(y),
        })
    }
    fn ring<F: Fl>(&mut self) -> Result<LineString<F>, String> {
        let n = self.usize()?;
        let mut v = Vec::with_capacity(n);
        for _ in 0..n {
            v.push(self.coord::<F>()?);
        }
        Ok(LineString(v))
    }
    fn poly<F: Fl>(&mut self) -> Result<Polygon<F>, String> {
        let n = self.usize()?;
        if n == 0 {
            return Err("polygon without exterior".into());
        }
        let ext = self.ring::<F>()?;
        let mut holes = Vec::new();
        for _ in 1..n {
            holes.push(self.ring::<F>()?);
        }
        Ok(Polygon::new(ext, holes))
    }
    fn mpoly<F: Fl>(&mut self) -> Result<MultiPolygon<F>, String> {
        if let Some(tok) = self.t.get(self.i) {
            if let Some(k) = tok.strip_prefix('@') {
                self.i += 1;
                let k: usize = k.parse().map_err(|_| "bad reference".to_string())?;
                let text = self.prior.get(&k).ok_or_else(|| "unresolved reference".to_string())?;
                let mut sub = Toks::new(text, self.prior);
                return sub.mpoly::<F>();
            }
        }
        let n = self.usize()?;
        let mut v = Vec::with_capacity(n);
        for _ in 0..n {
            v.push(self.poly::<F>()?);
        }
        Ok(MultiPolygon(v))
    }
    fn op(&mut self) -> Result<Operation, String> {
        match self.next()? {
            "I" => Ok(Operation::Intersection),
            "D" => Ok(Operation::Difference),
            "U" => Ok(Operation::Union),
            "X" => Ok(Operation::Xor),
            o => Err(format!("bad op {}", o)),
        }
    }
}

fn show_coord<F: Fl>(c: &Coord<F>) -> String {
    format!("{} {}", show_num(c.x.to64()), show_num(c.y.to64()))
}
fn show_ring<F: Fl>(r: &LineString<F>, out: &mut String) {
    write!(out, " {}", r.0.len()).unwrap();
    for c in &r.0 {
        write!(out, " {}", show_coord(c)).unwrap();
    }
}
fn show_mpoly<F: Fl>(m: &MultiPolygon<F>) -> String {
    let mut out = String::new();
    write!(out, "{}", m.0.len()).unwrap();
    for p in &m.0 {
        write!(out, " {}", 1 + p.interiors().len()).unwrap();
        show_ring(p.exterior(), &mut out);
        for h in p.interiors() {
            show_ring(h, &mut out);
        }
    }
    out
}

// ---------------------------------------------------------------------------------------------
// panics

fn classify_panic(msg: &str, loc: &str) -> String {
    if msg.contains(verif::BUDGET_MESSAGE) {
        return format!("BUDGET bumps={}", verif::bumps());
    }
    if msg.contains(verif::SORT_MESSAGE) {
        return "NOSORT".into();
    }
    if msg.contains("index out of bounds") && loc.contains("connect_edges.rs") {
        return "PANIC index".into();
    }
    if msg.contains("called `Option::unwrap()` on a `None` value") && loc.contains("possible_intersection.rs") {
        return "PANIC unwrapOther".into();
    }
    if msg.contains("Sweep line misses event to be removed") {
        return "PANIC debugAssert Sweep_line_misses_event_to_be_removed".into();
    }
    if msg.contains("Invalid lower_contour_id should be impossible") {
        return "PANIC debugAssert Invalid_lower_contour_id_should_be_impossible.".into();
    }
    if msg.contains("compare_segments requires left-events") || msg.contains("missing right-event in compare_segments") {
        return "PANIC debugAssert compare_segments:_left_events".into();
    }
    if msg.contains("se_l.is_before(&r)") {
        return "PANIC debugAssert divide_segment:_se_l.is_before(&r)".into();
    }
    if msg.contains("se_l.is_left()") {
        return "PANIC debugAssert divide_segment:_se_l.is_left()".into();
    }
    if msg.contains("key not present in SplayMap") {
        return "PANIC keyNotPresent".into();
    }
    format!("PANIC other {}@{}", msg.replace(char::is_whitespace, "_"), loc)
}

thread_local! {
    static LAST_PANIC: std::cell::RefCell<(String, String)> = std::cell::RefCell::new((String::new(), String::new()));
}

fn install_hook() {
    std::panic::set_hook(Box::new(|info| {
        let msg = if let Some(s) = info.payload().downcast_ref::<&str>() {
            s.to_string()
        } else if let Some(s) = info.payload().downcast_ref::<String>() {
            s.clone()
        } else {
            "?".to_string()
        };
        let loc = info.location().map(|l| l.file().to_string()).unwrap_or_default();
        LAST_PANIC.with(|p| *p.borrow_mut() = (msg, loc));
    }));
}

fn guarded<R>(f: impl FnOnce() -> R) -> Result<R, String> {
    match catch_unwind(AssertUnwindSafe(f)) {
        Ok(r) => Ok(r),
        Err(_) => {
            let (m, l) = LAST_PANIC.with(|p| p.borrow().clone());
            Err(classify_panic(&m, &l))
        }
    }
}

// ---------------------------------------------------------------------------------------------
// BOOL

fn run_bool<F: Fl>(t: &mut Toks) -> Result<String, String>
where
    Polygon<F>: BooleanOp<F> + BooleanOp<F, MultiPolygon<F>>,
    MultiPolygon<F>: BooleanOp<F> + BooleanOp<F, Polygon<F>>,
{
    let op = t.op()?;
    let dbg = t.bool()?;
    if dbg != cfg!(debug_assertions) {
        return Ok("WRONGPROFILE".into());
    }
    let budget = t.usize()? as u64;
    let pairing = t.next()?.to_string();
    let a = t.mpoly::<F>()?;
    let b = t.mpoly::<F>()?;
    let a0 = a.clone();
    let b0 = b.clone();
    verif::reset(budget);
    let r = guarded(|| match pairing.as_str() {
        "MM" => a.boolean(&b, op),
        "PM" => a.0[0].boolean(&b, op),
        "MP" => a.boolean(&b.0[0], op),
        "PP" => a.0[0].boolean(&b.0[0], op),
        _ => panic!("bad pairing"),
    });
    let ev = verif::events();
    let bumps = verif::bumps();
    verif::reset(u64::MAX);
    if show_mpoly(&a) != show_mpoly(&a0) || show_mpoly(&b) != show_mpoly(&b0) {
        return Ok("OPERANDS-MODIFIED".into());
    }
    // the four named methods of the trait are the API most callers use: each must give what `boolean` gives
    if let Ok(m) = &r {
        use geo_booleanop::boolean::Operation;
        verif::reset(budget);
        let named = guarded(|| match (pairing.as_str(), op) {
            ("MM", Operation::Intersection) => a.intersection(&b),
            ("MM", Operation::Union) => a.union(&b),
            ("MM", Operation::Difference) => a.difference(&b),
            ("MM", Operation::Xor) => a.xor(&b),
            ("PM", Operation::Intersection) => a.0[0].intersection(&b),
            ("PM", Operation::Union) => a.0[0].union(&b),
            ("PM", Operation::Difference) => a.0[0].difference(&b),
            ("PM", Operation::Xor) => a.0[0].xor(&b),
            ("MP", Operation::Intersection) => a.intersection(&b.0[0]),
            ("MP", Operation::Union) => a.union(&b.0[0]),
            ("MP", Operation::Difference) => a.difference(&b.0[0]),
            ("MP", Operation::Xor) => a.xor(&b.0[0]),
            ("PP", Operation::Intersection) => a.0[0].intersection(&b.0[0]),
            ("PP", Operation::Union) => a.0[0].union(&b.0[0]),
            ("PP", Operation::Difference) => a.0[0].difference(&b.0[0]),
            ("PP", Operation::Xor) => a.0[0].xor(&b.0[0]),
            _ => panic!("bad pairing"),
        });
        verif::reset(u64::MAX);
        match named {
            Ok(n) if show_mpoly(&n) == show_mpoly(m) => {}
            _ => return Ok("API-MISMATCH the_named_method_and_boolean(op)_give_different_results".into()),
        }
    }
    Ok(match r {
        Ok(m) => format!("OK ev={} bumps={} MP {}", ev, bumps, show_mpoly(&m)),
        Err(e) => e,
    })
}

// ---------------------------------------------------------------------------------------------
// SUBDIV / FILLQ: the public pipeline stages

fn et(e: EdgeType) -> &'static str {
    match e {
        EdgeType::Normal => "N",
        EdgeType::NonContributing => "NC",
        EdgeType::SameTransition => "ST",
        EdgeType::DifferentTransition => "DT",
    }
}
fn rt(r: ResultTransition) -> &'static str {
    match r {
        ResultTransition::None => "0",
        ResultTransition::InOut => "IO",
        ResultTransition::OutIn => "OI",
    }
}

fn show_event<F: Fl>(e: &Rc<SweepEvent<F>>, pos_of: &HashMap<*const SweepEvent<F>, usize>) -> String {
    let other = match e.get_other_event() {
        Some(o) => show_coord(&o.point),
        None => "- -".to_string(),
    };
    let prev = match e.get_prev_in_result() {
        Some(p) => pos_of.get(&Rc::as_ptr(&p)).map(|x| *x as i64).unwrap_or(-2),
        None => -1,
    };
    format!(
        "{} {} {} {} {} {} {} {} {} {} {}",
        show_coord(&e.point),
        other,
        if e.is_left() { "L" } else { "R" },
        if e.is_subject { "S" } else { "C" },
        e.is_in_out() as u8,
        e.is_other_in_out() as u8,
        et(e.get_edge_type()),
        rt(e.get_result_transition()),
        prev,
        e.contour_id,
        e.is_exterior_ring as u8
    )
}

fn inf_box<F: Fl>() -> BoundingBox<F> {
    BoundingBox {
        min: Coord {
            x: F::infinity(),
            y: F::infinity(),
        },
        max: Coord {
            x: F::neg_infinity(),
            y: F::neg_infinity(),
        },
    }
}

fn show_box<F: Fl>(b: &BoundingBox<F>) -> String {
    if b.min.x.to64() == f64::INFINITY {
        "none".to_string()
    } else {
        format!(
            "{} {} {} {}",
            show_num(b.min.x.to64()),
            show_num(b.min.y.to64()),
            show_num(b.max.x.to64()),
            show_num(b.max.y.to64())
        )
    }
}

fn run_fillq<F: Fl>(t: &mut Toks) -> Result<String, String> {
    let op = t.op()?;
    let a = t.mpoly::<F>()?;
    let b = t.mpoly::<F>()?;
    let r = guarded(|| {
        let mut sb = inf_box::<F>();
        let mut cb = inf_box::<F>();
        let mut q = fill_queue(&a.0, &b.0, &mut sb, &mut cb, op);
        let mut evs = Vec::new();
        while let Some(e) = q.pop() {
            evs.push(e);
        }
        let pos_of = HashMap::new();
        let mut s = format!("OK sb {} cb {} n={}", show_box(&sb), show_box(&cb), evs.len());
        for e in &evs {
            write!(s, " | {}", show_event(e, &pos_of)).unwrap();
        }
        s
    });
    Ok(r.unwrap_or_else(|e| e))
}

fn run_subdiv<F: Fl>(t: &mut Toks) -> Result<String, String> {
    let op = t.op()?;
    let dbg = t.bool()?;
    if dbg != cfg!(debug_assertions) {
        return Ok("WRONGPROFILE".into());
    }
    let budget = t.usize()? as u64;
    let a = t.mpoly::<F>()?;
    let b = t.mpoly::<F>()?;
    verif::reset(budget);
    let r = guarded(|| {
        let mut sb = inf_box::<F>();
        let mut cb = inf_box::<F>();
        let mut q = fill_queue(&a.0, &b.0, &mut sb, &mut cb, op);
        if sb.min.x.to64() == f64::INFINITY || cb.min.x.to64() == f64::INFINITY {
            return "EMPTYBOX".to_string();
        }
        let evs = subdivide(&mut q, &sb, &cb, op);
        let mut pos_of = HashMap::new();
        for (i, e) in evs.iter().enumerate() {
            pos_of.insert(Rc::as_ptr(e), i);
        }
        let mut s = format!("OK ev={} bumps={} n={}", verif::events(), verif::bumps(), evs.len());
        for e in &evs {
            write!(s, " | {}", show_event(e, &pos_of)).unwrap();
        }
        s
    });
    verif::reset(u64::MAX);
    Ok(r.unwrap_or_else(|e| e))
}

// ---------------------------------------------------------------------------------------------
// function level: CMPEV, CMPSEG, ISECT, ORIENT, PI, CF

fn ord(o: Ordering) -> &'static str {
    match o {
        Ordering::Less => "Less",
        Ordering::Equal => "Equal",
        Ordering::Greater => "Greater",
    }
}

/// event: `x y L|R S|C cid (ox oy | - -)`; returns (event, other)
fn parse_event_pair<F: Fl>(t: &mut Toks) -> Result<(Rc<SweepEvent<F>>, Option<Rc<SweepEvent<F>>>), String> {
    let p = t.coord::<F>()?;
    let left = t.next()? == "L";
    let subj = t.next()? == "S";
    let cid = t.usize()? as u32;
    let ox = t.next()?;
    let oy = t.next()?;
    let e = SweepEvent::new_rc(cid, p, left, Weak::new(), subj, true);
    if ox == "-" {
        return Ok((e, None));
    }
    let o = SweepEvent::new_rc(
        cid,
        Coord {
            x: F::from64(parse_num(ox)?),
            y: F::from64(parse_num(oy)?),
        },
        !left,
        Rc::downgrade(&e),
        subj,
        true,
    );
    e.set_other_event(&o);
    Ok((e, Some(o)))
}

fn run_cmpev<F: Fl>(t: &mut Toks) -> Result<String, String> {
    let (e1, _o1) = parse_event_pair::<F>(t)?;
    let (e2, _o2) = parse_event_pair::<F>(t)?;
    Ok(guarded(|| ord(e1.cmp(&e2)).to_string()).unwrap_or_else(|e| e))
}

fn run_cmpseg<F: Fl>(t: &mut Toks) -> Result<String, String> {
    let same = t.bool()?;
    let (e1, _o1) = parse_event_pair::<F>(t)?;
    if same {
        return Ok(guarded(|| ord(compare_segments(&e1, &e1)).to_string()).unwrap_or_else(|e| e));
    }
    let (e2, _o2) = parse_event_pair::<F>(t)?;
    Ok(guarded(|| ord(compare_segments(&e1, &e2)).to_string()).unwrap_or_else(|e| e))
}

fn run_isect<F: Fl>(t: &mut Toks) -> Result<String, String> {
    let a1 = t.coord::<F>()?;
    let a2 = t.coord::<F>()?;
    let b1 = t.coord::<F>()?;
    let b2 = t.coord::<F>()?;
    Ok(guarded(|| match verif::intersection(a1, a2, b1, b2) {
        verif::LineIntersection::None => "N".to_string(),
        verif::LineIntersection::Point(p) => {
            if p.x.is_nan() || p.y.is_nan() {
                "NONFINITE".to_string()
            } else {
                format!("P {}", show_coord(&p))
            }
        }
        verif::LineIntersection::Overlap(p, q) => format!("O {} {}", show_coord(&p), show_coord(&q)),
    })
    .unwrap_or_else(|e| e))
}

fn run_orient<F: Fl>(t: &mut Toks) -> Result<String, String> {
    let a = t.coord::<F>()?;
    let b = t.coord::<F>()?;
    let c = t.coord::<F>()?;
    let s = verif::signed_area(a, b, c);
    Ok((if s > 0.0 { "+" } else if s < 0.0 { "-" } else { "0" }).to_string())
}

/// NEXTAFTER: the helper's one-ulp steps in both directions
fn run_nextafter<F: Fl>(t: &mut Toks) -> Result<String, String> {
    let x = F::from64(t.num()?);
    let up = verif::NextAfter::nextafter(x, true);
    let down = verif::NextAfter::nextafter(x, false);
    Ok(format!("OK {} {}", show_num(up.to64()), show_num(down.to64())))
}

/// PI: two segments with in_out flags; runs possible_intersection and dumps both segments' chains
/// and the queue in pop order.
fn run_pi<F: Fl>(t: &mut Toks) -> Result<String, String> {
    let dbg = t.bool()?;
    if dbg != cfg!(debug_assertions) {
        return Ok("WRONGPROFILE".into());
    }
    let (e1, o1) = parse_event_pair::<F>(t)?;
    let io1 = t.bool()?;
    let (e2, o2) = parse_event_pair::<F>(t)?;
    let io2 = t.bool()?;
    e1.set_in_out(io1, false);
    e2.set_in_out(io2, false);
    let _keep = (o1, o2);
    verif::reset(u64::MAX);
    let r = guarded(|| {
        let mut q: BinaryHeap<Rc<SweepEvent<F>>> = BinaryHeap::new();
        let code = possible_intersection(&e1, &e2, &mut q);
        let mut s = format!("OK code={} bumps={}", code, verif::bumps());
        let pos_of = HashMap::new();
        for e in [&e1, &e2] {
            write!(s, " | {}", show_event(e, &pos_of)).unwrap();
            if let Some(o) = e.get_other_event() {
                write!(s, " | {}", show_event(&o, &pos_of)).unwrap();
            }
        }
        write!(s, " | Q {}", q.len()).unwrap();
        let mut keep = Vec::new();
        while let Some(e) = q.pop() {
            write!(s, " | {}", show_event(&e, &pos_of)).unwrap();
            keep.push(e);
        }
        s
    });
    Ok(r.unwrap_or_else(|e| e))
}

/// CF: compute_fields on an event with a fabricated predecessor.
/// `op evSubj evEdgeType hasPrev [pSubj pInOut pOtherInOut pVertical pEdgeType pHasPrevInResult]`
fn run_cf(t: &mut Toks) -> Result<String, String> {
    let op = t.op()?;
    let ev_subj = t.bool()?;
    let ev_et = parse_et(t.next()?)?;
    let has_prev = t.bool()?;
    let c = |x: f64, y: f64| Coord { x, y };
    let ev = SweepEvent::<f64>::new_rc(1, c(1.0, 1.0), true, Weak::new(), ev_subj, true);
    let ev_o = SweepEvent::<f64>::new_rc(1, c(3.0, 2.0), false, Rc::downgrade(&ev), ev_subj, true);
    ev.set_other_event(&ev_o);
    ev.set_edge_type(ev_et);
    let mut keep = Vec::new();
    let prev = if has_prev {
        let p_subj = t.bool()?;
        let p_io = t.bool()?;
        let p_oio = t.bool()?;
        let p_vert = t.bool()?;
        let p_et = parse_et(t.next()?)?;
        let p_has_pir = t.bool()?;
        let p = SweepEvent::<f64>::new_rc(2, c(1.0, 0.0), true, Weak::new(), p_subj, true);
        let po = SweepEvent::<f64>::new_rc(
            2,
            if p_vert { c(1.0, 5.0) } else { c(4.0, 0.0) },
            false,
            Rc::downgrade(&p),
            p_subj,
            true,
        );
        p.set_other_event(&po);
        p.set_edge_type(p_et);
        p.set_in_out(p_io, p_oio);
        // give the predecessor its own result transition the way the sweep would have
        let pp = SweepEvent::<f64>::new_rc(3, c(0.0, -1.0), true, Weak::new(), !p_subj, true);
        pp.set_result_transition(ResultTransition::OutIn);
        if p_has_pir {
            p.set_prev_in_result(&pp);
        }
        // derive the predecessor's result transition with the real code: recompute with its flags kept
        let in_res_probe = SweepEvent::<f64>::new_rc(2, c(1.0, 0.0), true, Weak::new(), p_subj, true);
        in_res_probe.set_other_event(&po);
        let _ = in_res_probe;
        keep.push(po);
        keep.push(pp.clone());
        Some((p, pp))
    } else {
        None
    };
    // the predecessor's own in_result status: computed by the real code from its flags by running
    // compute_fields on a copy chain is not possible without changing flags, so it is passed explicitly
    let p_rt = if has_prev {
        match t.next()? {
            "0" => ResultTransition::None,
            "IO" => ResultTransition::InOut,
            _ => ResultTransition::OutIn,
        }
    } else {
        ResultTransition::None
    };
    if let Some((p, _)) = &prev {
        p.set_result_transition(p_rt);
    }
    let r = guarded(|| {
        compute_fields(&ev, prev.as_ref().map(|x| &x.0), op);
        let pir = match ev.get_prev_in_result() {
            None => "none",
            Some(x) => {
                if let Some((p, pp)) = &prev {
                    if Rc::ptr_eq(&x, p) {
                        "prev"
                    } else if Rc::ptr_eq(&x, pp) {
                        "prevprev"
                    } else {
                        "?"
                    }
                } else {
                    "?"
                }
            }
        };
        format!(
            "OK {} {} {} {}",
            ev.is_in_out() as u8,
            ev.is_other_in_out() as u8,
            rt(ev.get_result_transition()),
            pir
        )
    });
    Ok(r.unwrap_or_else(|e| e))
}

fn parse_et(s: &str) -> Result<EdgeType, String> {
    match s {
        "N" => Ok(EdgeType::Normal),
        "NC" => Ok(EdgeType::NonContributing),
        "ST" => Ok(EdgeType::SameTransition),
        "DT" => Ok(EdgeType::DifferentTransition),
        _ => Err("bad edge type".into()),
    }
}

/// ORDLAWS: the laws of the two orders evaluated with the real `cmp` / `compare_segments` on the events
/// that co-occur in one sweep.
fn run_ordlaws<F: Fl>(t: &mut Toks) -> Result<String, String> {
    let op = t.op()?;
    let budget = t.usize()? as u64;
    let a = t.mpoly::<F>()?;
    let b = t.mpoly::<F>()?;
    verif::reset(budget);
    let r = guarded(|| {
        let mut sb = inf_box::<F>();
        let mut cb = inf_box::<F>();
        let mut q = fill_queue(&a.0, &b.0, &mut sb, &mut cb, op);
        if sb.min.x.to64() == f64::INFINITY || cb.min.x.to64() == f64::INFINITY {
            return "EMPTYBOX".to_string();
        }
        let evs = subdivide(&mut q, &sb, &cb, op);
        let n = evs.len();
        let (mut pairs, mut eq, mut anti, mut triples, mut trans) = (0u64, 0u64, 0u64, 0u64, 0u64);
        let lim = n.min(300);
        for i in 0..lim {
            for j in (i + 1)..lim {
                pairs += 1;
                let x = evs[i].cmp(&evs[j]);
                let y = evs[j].cmp(&evs[i]);
                if x == Ordering::Equal || y == Ordering::Equal {
                    eq += 1;
                }
                if x != y.reverse() {
                    anti += 1;
                }
            }
        }
        // transitivity on windows of the pop order (all triples when few events)
        let w = if n <= 40 { n } else { 8 };
        for i in 0..lim {
            for j in (i + 1)..lim.min(i + w) {
                for k in (j + 1)..lim.min(i + w) {
                    triples += 1;
                    let ab = evs[i].cmp(&evs[j]);
                    let bc = evs[j].cmp(&evs[k]);
                    let ac = evs[i].cmp(&evs[k]);
                    if ab == bc && ab != ac {
                        trans += 1;
                    }
                    let ba = evs[j].cmp(&evs[i]);
                    let ca = evs[k].cmp(&evs[i]);
                    let cb_ = evs[k].cmp(&evs[j]);
                    if cb_ == ba && cb_ != ca {
                        trans += 1;
                    }
                }
            }
        }
        // segments: left events whose x-extents overlap
        let lefts: Vec<&Rc<SweepEvent<F>>> = evs.iter().filter(|e| e.is_left() && e.get_other_event().is_some()).collect();
        let (mut sp, mut seq, mut santi) = (0u64, 0u64, 0u64);
        let ll = lefts.len().min(150);
        for i in 0..ll {
            for j in (i + 1)..ll {
                let (e1, e2) = (lefts[i], lefts[j]);
                let (o1, o2) = (e1.get_other_event().unwrap(), e2.get_other_event().unwrap());
                if e1.point.x > o2.point.x || e2.point.x > o1.point.x {
                    continue;
                }
                sp += 1;
                let x = compare_segments(e1, e2);
                let y = compare_segments(e2, e1);
                if x == Ordering::Equal || y == Ordering::Equal {
                    seq += 1;
                }
                if x != y.reverse() {
                    santi += 1;
                }
            }
        }
        format!(
            "OK n={} pairs={} eq={} antisym={} triples={} trans={} segpairs={} segeq={} segantisym={}",
            n, pairs, eq, anti, triples, trans, sp, seq, santi
        )
    });
    verif::reset(u64::MAX);
    Ok(r.unwrap_or_else(|e| e))
}

// ---------------------------------------------------------------------------------------------
// SPLAY: operation histories on SplayTree<i64, i64> and SplaySet<i64>

fn cmp_by(name: &str) -> fn(&i64, &i64) -> Ordering {
    match name {
        "rev" => |a, b| b.cmp(a),
        "mod7" => |a, b| (a.rem_euclid(7), *a).cmp(&(b.rem_euclid(7), *b)),
        _ => |a, b| a.cmp(b),
    }
}

#[derive(Default)]
struct AddrBook {
    addr: HashMap<i64, usize>,
}
impl AddrBook {
    /// records / checks the address at which key `k` lives; returns "" or "@moved"
    fn see(&mut self, k: &i64) -> &'static str {
        let a = k as *const i64 as usize;
        match self.addr.get(k) {
            Some(old) if *old != a => "@moved",
            Some(_) => "",
            None => {
                self.addr.insert(*k, a);
                ""
            }
        }
    }
    fn forget(&mut self, k: i64) {
        self.addr.remove(&k);
    }
}

fn opt<T: std::fmt::Display>(o: Option<T>) -> String {
    match o {
        Some(x) => format!("{}", x),
        None => "-".into(),
    }
}

fn run_splay_map(t: &mut Toks) -> Result<String, String> {
    let cmpname = t.next()?.to_string();
    let cmp = cmp_by(&cmpname);
    let mut tree: SplayTree<i64, i64, fn(&i64, &i64) -> Ordering> = SplayTree::new(cmp);
    let mut book = AddrBook::default();
    let mut out: Vec<String> = Vec::new();
    let mut opn: i64 = 0;
    let mut pending: Option<Vec<String>> = None;
    let mut toks: Vec<String> = Vec::new();
    while let Ok(x) = t.next() {
        toks.push(x.to_string());
    }
    let _ = &mut pending;
    let r = guarded(|| {
        let mut i = 0;
        while i < toks.len() {
            let tk = toks[i].clone();
            i += 1;
            opn += 1;
            let (c, arg) = tk.split_at(1);
            let k: i64 = arg.parse().unwrap_or(0);
            match c {
                "i" => {
                    let r = tree.insert(k, opn);
                    out.push(format!("i{}", opt(r)));
                }
                "r" => {
                    let r = tree.remove(&k);
                    if r.is_some() {
                        book.forget(k);
                    }
                    out.push(format!("r{}", opt(r)));
                }
                "g" => {
                    let r = tree.get(&k).copied();
                    out.push(format!("g{}", opt(r)));
                }
                "G" => {
                    // get_mut: bump the value
                    let r = tree.get_mut(&k).map(|v| {
                        *v += 1000;
                        *v
                    });
                    out.push(format!("G{}", opt(r)));
                }
                "x" => {
                    // Index: panics on a missing key
                    let r = catch_unwind(AssertUnwindSafe(|| tree[&k]));
                    out.push(match r {
                        Ok(v) => format!("x{}", v),
                        Err(_) => "xPANIC".to_string(),
                    });
                }
                "f" => {
                    let r = tree.find_key(&k);
                    let s = match r {
                        Some(kk) => format!("f{}{}", kk, book.see(kk)),
                        None => "f-".into(),
                    };
                    out.push(s);
                }
                "c" => out.push(format!("c{}", tree.contains(&k) as u8)),
                "n" => {
                    let s = match tree.next(&k) {
                        Some((kk, v)) => format!("n{}={}{}", kk, v, book.see(kk)),
                        None => "n-".into(),
                    };
                    out.push(s);
                }
                "p" => {
                    let s = match tree.prev(&k) {
                        Some((kk, v)) => format!("p{}={}{}", kk, v, book.see(kk)),
                        None => "p-".into(),
                    };
                    out.push(s);
                }
                "m" => {
                    let s = match tree.min() {
                        Some(kk) => format!("m{}{}", kk, book.see(kk)),
                        None => "m-".into(),
                    };
                    out.push(s);
                }
                "M" => {
                    let s = match tree.max() {
                        Some(kk) => format!("M{}{}", kk, book.see(kk)),
                        None => "M-".into(),
                    };
                    out.push(s);
                }
                "C" => {
                    tree.clear();
                    book = AddrBook::default();
                    out.push("C".into());
                }
                "L" => out.push(format!("L{}/{}", tree.len(), tree.is_empty() as u8)),
                "E" => {
                    // extend with comma separated keys
                    let ks: Vec<(i64, i64)> = arg
                        .split(',')
                        .filter(|s| !s.is_empty())
                        .enumerate()
                        .map(|(j, s)| (s.parse().unwrap(), opn * 100 + j as i64))
                        .collect();
                    tree.extend(ks);
                    out.push("E".into());
                }
                "D" => out.push(format!("D{}", shape(&format!("{:?}", tree)))),
                "I" => {
                    // consume: pattern of f (next) / b (next_back); the rest is dropped
                    let old = std::mem::replace(&mut tree, SplayTree::new(cmp));
                    book = AddrBook::default();
                    let mut it = old.into_iter();
                    let mut s = String::from("I");
                    for ch in arg.chars() {
                        let (lo, hi) = it.size_hint();
                        let item = if ch == 'f' { it.next() } else { it.next_back() };
                        match item {
                            Some((kk, v)) => write!(s, "{}{}={}#{}/{},", ch, kk, v, lo, opt(hi)).unwrap(),
                            None => write!(s, "{}-#{}/{},", ch, lo, opt(hi)).unwrap(),
                        }
                    }
                    out.push(s);
                }
                _ => out.push(format!("?{}", tk)),
            }
        }
    });
    match r {
        Ok(()) => Ok(format!("OK {}", out.join(" "))),
        Err(e) => Ok(format!("{} after {}", e, out.join(" "))),
    }
}

/// canonical shape of the Debug rendering: keep keys and structure only
fn shape(dbg: &str) -> String {
    // Debug of Option<Box<Node>>: Some(Node { key: 1, value: 2, left: None, right: Some(Node {..}) })
    let mut s = dbg.replace("Some(Node { key: ", "(").replace(" })", ")");
    s = s.replace(", value: ", "=").replace(", left: ", " ").replace(", right: ", " ");
    s = s.replace("None", ".");
    s.replace(' ', "_")
}

fn run_splay_set(t: &mut Toks) -> Result<String, String> {
    let cmpname = t.next()?.to_string();
    let cmp = cmp_by(&cmpname);
    let mut set: SplaySet<i64, fn(&i64, &i64) -> Ordering> = SplaySet::new(cmp);
    let mut book = AddrBook::default();
    let mut out: Vec<String> = Vec::new();
    let mut toks: Vec<String> = Vec::new();
    while let Ok(x) = t.next() {
        toks.push(x.to_string());
    }
    let r = guarded(|| {
        for tk in &toks {
            let (c, arg) = tk.split_at(1);
            let k: i64 = arg.parse().unwrap_or(0);
            match c {
                "i" => out.push(format!("i{}", set.insert(k) as u8)),
                "r" => {
                    let r = set.remove(&k);
                    if r {
                        book.forget(k);
                    }
                    out.push(format!("r{}", r as u8));
                }
                "f" => {
                    let s = match set.find(&k) {
                        Some(kk) => format!("f{}{}", kk, book.see(kk)),
                        None => "f-".into(),
                    };
                    out.push(s);
                }
                "c" => out.push(format!("c{}", set.contains(&k) as u8)),
                "n" => {
                    let s = match set.next(&k) {
                        Some(kk) => format!("n{}{}", kk, book.see(kk)),
                        None => "n-".into(),
                    };
                    out.push(s);
                }
                "p" => {
                    let s = match set.prev(&k) {
                        Some(kk) => format!("p{}{}", kk, book.see(kk)),
                        None => "p-".into(),
                    };
                    out.push(s);
                }
                "m" => {
                    let s = match set.min() {
                        Some(kk) => format!("m{}{}", kk, book.see(kk)),
                        None => "m-".into(),
                    };
                    out.push(s);
                }
                "M" => {
                    let s = match set.max() {
                        Some(kk) => format!("M{}{}", kk, book.see(kk)),
                        None => "M-".into(),
                    };
                    out.push(s);
                }
                "C" => {
                    set.clear();
                    book = AddrBook::default();
                    out.push("C".into());
                }
                "L" => out.push(format!("L{}/{}", set.len(), set.is_empty() as u8)),
                "E" => {
                    let ks: Vec<i64> = arg.split(',').filter(|s| !s.is_empty()).map(|s| s.parse().unwrap()).collect();
                    set.extend(ks);
                    out.push("E".into());
                }
                "I" => {
                    let old = std::mem::replace(&mut set, SplaySet::new(cmp));
                    book = AddrBook::default();
                    let mut it = old.into_iter();
                    let mut s = String::from("I");
                    for ch in arg.chars() {
                        let (lo, hi) = it.size_hint();
                        let item = if ch == 'f' { it.next() } else { it.next_back() };
                        match item {
                            Some(kk) => write!(s, "{}{}#{}/{},", ch, kk, lo, opt(hi)).unwrap(),
                            None => write!(s, "{}-#{}/{},", ch, lo, opt(hi)).unwrap(),
                        }
                    }
                    out.push(s);
                }
                _ => out.push(format!("?{}", tk)),
            }
        }
    });
    match r {
        Ok(()) => Ok(format!("OK {}", out.join(" "))),
        Err(e) => Ok(format!("{} after {}", e, out.join(" "))),
    }
}

// ---------------------------------------------------------------------------------------------

fn dispatch(req: &str, prior: &HashMap<usize, String>) -> String {
    let mut t = Toks::new(req, prior);
    let kind = match t.next() {
        Ok(k) => k,
        Err(e) => return format!("BADREQ {}", e),
    };
    if kind.starts_with('X') {
        // answered by the model only (reference computations under exact arithmetic)
        return "MODELONLY".into();
    }
    let r = match kind {
        "SPLAYMAP" => run_splay_map(&mut t),
        "SPLAYSET" => run_splay_set(&mut t),
        "CF" => run_cf(&mut t),
        _ => {
            let prec = match t.next() {
                Ok(p) => p,
                Err(e) => return format!("BADREQ {}", e),
            };
            match (kind, prec) {
                ("BOOL", "f64") => run_bool::<f64>(&mut t),
                ("BOOL", "f32") => run_bool::<f32>(&mut t),
                ("SUBDIV", "f64") => run_subdiv::<f64>(&mut t),
                ("SUBDIV", "f32") => run_subdiv::<f32>(&mut t),
                ("FILLQ", "f64") => run_fillq::<f64>(&mut t),
                ("FILLQ", "f32") => run_fillq::<f32>(&mut t),
                ("CMPEV", "f64") => run_cmpev::<f64>(&mut t),
                ("CMPEV", "f32") => run_cmpev::<f32>(&mut t),
                ("CMPSEG", "f64") => run_cmpseg::<f64>(&mut t),
                ("CMPSEG", "f32") => run_cmpseg::<f32>(&mut t),
                ("ISECT", "f64") => run_isect::<f64>(&mut t),
                ("ISECT", "f32") => run_isect::<f32>(&mut t),
                ("ORIENT", "f64") => run_orient::<f64>(&mut t),
                ("ORIENT", "f32") => run_orient::<f32>(&mut t),
                ("NEXTAFTER", "f64") => run_nextafter::<f64>(&mut t),
                ("NEXTAFTER", "f32") => run_nextafter::<f32>(&mut t),
                ("ORDLAWS", "f64") => run_ordlaws::<f64>(&mut t),
                ("ORDLAWS", "f32") => run_ordlaws::<f32>(&mut t),
                ("PI", "f64") => run_pi::<f64>(&mut t),
                ("PI", "f32") => run_pi::<f32>(&mut t),
                _ => Err(format!("unknown request {} {}", kind, prec)),
            }
        }
    };
    match r {
        Ok(s) => s,
        Err(e) => format!("BADREQ {}", e.replace(' ', "_")),
    }
}

/// C12: every literal BOOL request of the input is executed once (baseline), then again in reverse
/// order, then interleaved with unrelated large calls, then concurrently on several threads in
/// different rotations; every answer must equal the baseline answer of the same request.
fn hist_main(args: &[String]) {
    let threads: usize = args.get(0).and_then(|s| s.parse().ok()).unwrap_or(8);
    let rounds: usize = args.get(1).and_then(|s| s.parse().ok()).unwrap_or(3);
    let stdin = std::io::stdin();
    let mut reqs: Vec<String> = Vec::new();
    for line in stdin.lock().lines() {
        let line = line.unwrap();
        if let Some(rest) = line.strip_prefix("RUN ") {
            if let Some((_, req)) = rest.split_once(' ') {
                if req.starts_with("BOOL ") && !req.contains('@') {
                    reqs.push(req.to_string());
                }
            }
        }
    }
    let empty: HashMap<usize, String> = HashMap::new();
    if args.get(2).map(|s| s == "f32first").unwrap_or(false) {
        // the first Boolean operation of this process uses f32 coordinates (anything initialised once per
        // process from the first call is now initialised from an f32 call)
        let _ = dispatch("BOOL f32 I 0 1000 MM 1 1 4 0:0 0:0 1:2 0:0 0:0 1:2 0:0 0:0 1 1 4 1:0 -1:0 3:0 1:0 -1:0 3:0 1:0 -1:0", &empty);
    }
    let base: Vec<String> = reqs.iter().map(|r| dispatch(r, &empty)).collect();
    {
        // a digest per request, to compare the answers of two processes with different histories
        for (i, b) in base.iter().enumerate() {
            let mut h: u64 = 0xcbf29ce484222325;
            for byte in b.as_bytes() {
                h ^= *byte as u64;
                h = h.wrapping_mul(0x100000001b3);
            }
            println!("HISTBASE {} {:016x}", i, h);
        }
    }
    let mut executions = reqs.len() as u64;
    let mut mismatches = 0u64;
    let mut modified = 0u64;
    let mut report = |i: usize, what: &str, got: &str, base: &str| {
        if got == "OPERANDS-MODIFIED" {
            modified += 1;
        }
        if got != base {
            mismatches += 1;
            if mismatches <= 5 {
                println!("HISTDIFF request#{} {} got={} baseline={}", if i == usize::MAX { -1 } else { i as i64 }, what, &got[..got.len().min(120)], &base[..base.len().min(120)]);
            }
        }
    };
    for r in 0..rounds {
        // reverse order
        for i in (0..reqs.len()).rev() {
            let got = dispatch(&reqs[i], &empty);
            executions += 1;
            report(i, "reverse-order", &got, &base[i]);
        }
        // interleaved with a large unrelated call
        let big = stack::comb(2000 + r, 0.0);
        for i in (0..reqs.len()).step_by(7) {
            let _ = MultiPolygon(vec![big.clone()]).union(&MultiPolygon(vec![big.clone()]));
            let got = dispatch(&reqs[i], &empty);
            executions += 1;
            report(i, "after-large-call", &got, &base[i]);
        }
    }
    // the same operands in single precision immediately before: nothing computed for one coordinate type may
    // leak into the answer for the other (a cache keyed by coordinate values only, seed C12-7)
    for i in 0..reqs.len() {
        if let Some(rest) = reqs[i].strip_prefix("BOOL f64 ") {
            let r32 = format!("BOOL f32 {}", rest);
            let _ = dispatch(&r32, &empty);
            let got = dispatch(&reqs[i], &empty);
            executions += 2;
            report(i, "after-the-same-operands-in-f32", &got, &base[i]);
        }
    }
    // a large call, 254 small calls, the large call again (state keyed by a small per-thread call counter
    // would wrap around here); "large" / "small" by request length
    if !reqs.is_empty() {
        let mut idx: Vec<usize> = (0..reqs.len()).filter(|i| base[*i].starts_with("OK ev=") && !base[*i].starts_with("OK ev=0 ")).collect();
        idx.sort_by_key(|i| base[*i].len());
        if idx.len() >= 2 {
            let big = *idx.last().unwrap();
            let smalls: Vec<usize> = idx.iter().take(8).cloned().collect();
            for gap in [253usize, 254, 255, 256] {
                let got = dispatch(&reqs[big], &empty);
                executions += 1;
                report(big, "before-small-calls", &got, &base[big]);
                for j in 0..gap {
                    let i = smalls[j % smalls.len()];
                    let got = dispatch(&reqs[i], &empty);
                    executions += 1;
                    report(i, "small-call", &got, &base[i]);
                }
                let got = dispatch(&reqs[big], &empty);
                executions += 1;
                report(big, "after-many-small-calls", &got, &base[big]);
            }
        }
    }
    // concurrently
    let reqs_arc = std::sync::Arc::new(reqs);
    let base_arc = std::sync::Arc::new(base);
    let mut handles = Vec::new();
    for t in 0..threads {
        let reqs = reqs_arc.clone();
        let base = base_arc.clone();
        handles.push(std::thread::spawn(move || {
            install_hook();
            let empty: HashMap<usize, String> = HashMap::new();
            let n = reqs.len();
            let mut bad = Vec::new();
            let mut ex = 0u64;
            for s in 0..n {
                let i = (s * (2 * t + 1) + t * 13) % n.max(1);
                let got = dispatch(&reqs[i], &empty);
                ex += 1;
                if got != base[i] {
                    bad.push((i, got));
                }
            }
            (ex, bad)
        }));
    }
    for h in handles {
        let (ex, bad) = h.join().unwrap();
        executions += ex;
        for (i, got) in bad {
            report(i, "concurrent", &got, &base_arc[i]);
        }
    }
    // a long sweep in one thread while other threads start small operations (process-wide state that a small
    // call resets would cut the long sweep short)
    {
        let big = MultiPolygon(vec![stack::comb(3000, 0.0)]);
        let strip = MultiPolygon(vec![Polygon::new(
            LineString(vec![
                Coord { x: 0.5, y: -1.0 },
                Coord { x: 9.5, y: -1.0 },
                Coord { x: 9.5, y: 3001.0 },
                Coord { x: 0.5, y: 3001.0 },
                Coord { x: 0.5, y: -1.0 },
            ]),
            vec![],
        )]);
        let want_i = big.intersection(&strip);
        let want_u = big.union(&strip);
        let stop = std::sync::Arc::new(std::sync::atomic::AtomicBool::new(false));
        let mut small_handles = Vec::new();
        for t in 0..threads.min(4) {
            let reqs = reqs_arc.clone();
            let stop = stop.clone();
            small_handles.push(std::thread::spawn(move || {
                install_hook();
                let empty: HashMap<usize, String> = HashMap::new();
                let mut i = t;
                let mut ex = 0u64;
                while !stop.load(std::sync::atomic::Ordering::Relaxed) && !reqs.is_empty() {
                    let _ = dispatch(&reqs[i % reqs.len()], &empty);
                    i += 7;
                    ex += 1;
                    std::thread::sleep(std::time::Duration::from_millis(2));
                }
                ex
            }));
        }
        for round in 0..3 {
            let got_i = guarded(|| big.intersection(&strip));
            let got_u = guarded(|| big.union(&strip));
            executions += 2;
            if got_i.as_ref().ok() != Some(&want_i) {
                report(usize::MAX, "long-sweep-intersection-while-small-calls-run", &format!("round{}:differs-from-the-sequential-result", round), "sequential");
            }
            if got_u.as_ref().ok() != Some(&want_u) {
                report(usize::MAX, "long-sweep-union-while-small-calls-run", &format!("round{}:differs-from-the-sequential-result", round), "sequential");
            }
        }
        stop.store(true, std::sync::atomic::Ordering::Relaxed);
        for h in small_handles {
            executions += h.join().unwrap();
        }
    }
    // an operand edited in place between two calls (state keyed by the address of an operand's buffers
    // would survive the edit); the reference is a copy in a fresh allocation made while the original is alive
    for k in [2usize, 4, 8, 16, 32] {
        let mut pts = Vec::new();
        let step = 4.0 / k as f64;
        for j in 0..k {
            pts.push(Coord { x: j as f64 * step, y: 0.0 });
        }
        for j in 0..k {
            pts.push(Coord { x: 4.0, y: j as f64 * step });
        }
        for j in 0..k {
            pts.push(Coord { x: 4.0 - j as f64 * step, y: 4.0 });
        }
        for j in 0..k {
            pts.push(Coord { x: 0.0, y: 4.0 - j as f64 * step });
        }
        pts.push(Coord { x: 0.0, y: 0.0 });
        let mut p = Polygon::new(LineString(pts), vec![]);
        let clip = Polygon::new(
            LineString(vec![
                Coord { x: 6.0, y: 0.0 },
                Coord { x: 10.0, y: 0.0 },
                Coord { x: 10.0, y: 4.0 },
                Coord { x: 6.0, y: 4.0 },
                Coord { x: 6.0, y: 0.0 },
            ]),
            vec![],
        );
        for stage in 0..2 {
            if stage == 1 {
                // drag the vertex (4, 2) to (8, 2) through the operand's own buffer
                p.exterior_mut(|ls| ls.0[k + k / 2].x = 8.0);
            }
            let fresh = Polygon::new(LineString(p.exterior().0.clone()), vec![]);
            let same = guarded(|| {
                p.intersection(&clip) == fresh.intersection(&clip)
                    && p.union(&clip) == fresh.union(&clip)
                    && p.difference(&clip) == fresh.difference(&clip)
                    && p.xor(&clip) == fresh.xor(&clip)
                    && clip.difference(&p) == clip.difference(&fresh)
            });
            executions += 10;
            if same != Ok(true) {
                report(usize::MAX, "operand-edited-in-place", &format!("ring-of-{}-coordinates:stage{}:differs-from-an-equal-operand-in-a-fresh-allocation", 4 * k + 1, stage), "fresh-allocation");
            }
        }
    }
    println!(
        "HISTRES requests={} executions={} mismatches={} threads={} operands_modified={}",
        reqs_arc.len(),
        executions,
        mismatches,
        threads,
        modified
    );
}

fn main() {
    let args: Vec<String> = std::env::args().collect();
    if args.len() >= 2 && args[1] == "stack" {
        stack::main(&args[2..]);
        return;
    }
    if args.len() >= 2 && args[1] == "hist" {
        install_hook();
        hist_main(&args[2..]);
        return;
    }
    install_hook();
    let stdin = std::io::stdin();
    let stdout = std::io::stdout();
    let mut out = std::io::BufWriter::new(stdout.lock());
    let mut prior: HashMap<usize, String> = HashMap::new();
    for line in stdin.lock().lines() {
        let line = line.unwrap();
        writeln!(out, "{}", line).unwrap();
        if line.starts_with("CASE ") {
            prior.clear();
        }
        if let Some(rest) = line.strip_prefix("RUN ") {
            let (k, req) = rest.split_once(' ').unwrap_or((rest, ""));
            let ans = dispatch(req, &prior);
            if let (Ok(kn), Some(pos)) = (k.parse::<usize>(), ans.find(" MP ")) {
                if ans.starts_with("OK ") {
                    prior.insert(kn, ans[pos + 4..].to_string());
                }
            }
            writeln!(out, "IMPL {} {}", k, ans).unwrap();
            out.flush().unwrap();
        }
    }
}
